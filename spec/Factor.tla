------------------------------- MODULE Factor -------------------------------
(* tenpy.linalg.np_conserved: svd / qr / lq / eigh / eig / eigvalsh / eigvals / expm / pinv / polar /
   orthogonal_columns / speigs on a charge-conserving matrix A (rank-2 block-sparse tensor, possibly
   the result of combine_legs on a rank-3/4 tensor).

   TLC has no reals.  Each factorization is therefore an action whose result record `last` is a
   RELATION: the *structural* part of the answer (charges and multiplicities of the new inner leg,
   its direction, total charges of the factors, labels, shapes, which error is raised) is computed
   exactly here from the charge data, together with exact integer data that characterise the numeric
   part (rank of every charge sector by Gaussian-integer elimination, Tr((A A^+)^k), Tr(A^k), planted
   singular values, the finite exponential series of nilpotent generators).  The replay harness
   evaluates the relation on the floats returned by the real routines.

   A behaviour: PickKind, PickLeg*, PickParams, PickMode*, Build make one tensor, then up to MaxOps factorizations are
   applied to it (the operand must stay unchanged: Obs).

   Conventions.  A leg is [sizes, ch, qconj] (block sizes, one charge vector per block, direction);
   charges need not be sorted and may repeat ("not blocked").  A side of the matrix is one leg or
   a pipe of two legs with pipe direction pq (combine_legs).  The matrix M is stored in *unfused*
   C order (row index (i1,i2) -> i1*d2+i2), so nothing here depends on the internal index order of a
   LegPipe (property C06); every relation used is invariant under that permutation.
   The signed charge of an index is qconj*charge; the charge rule is
        sL(i) + sR(j) = qtotal (mod)   wherever M[i][j] # 0.
   The charge sector with key k consists of the rows with Valid(sL) = k and the columns with
   Valid(qtotal - sR) = k.  `stored` lists the blocks the sparse representation holds (a stored block
   may be zero, an absent block is zero): tenpy factorizes stored sectors only. *)
EXTENDS Dense, TLC, Randomization

CONSTANTS MaxBlocks,   \* blocks per elementary leg
          MaxSize,     \* size of a block
          MaxDim,      \* bound on the dimension of a side (product for pipes)
          QWinU1,      \* charge values offered for U(1) components
          Mods,        \* set of mod vectors, <<1>> = U(1), <<2>> = Z2, <<1, 2>> = U(1) x Z2 ...
          Kinds,       \* subset of {"rect", "herm", "sq", "nil", "ipi2"}
          Shapes,      \* subset of {<<1,1>>, <<2,1>>, <<1,2>>, <<2,2>>}: elementary legs per side
          QTs,         \* integers offered as (uniform) total charge of rect tensors
          QX,          \* integers offered to qtotal_LR / qtotal_Q
          FillModes,   \* subset of {"absent","zero","rank1","gen","diag","first","nil","idiag"}
          NSeeds,      \* entry patterns
          Dtypes,      \* subset of {"int", "float", "complex"}: dtype of the Array (entries are Gaussian integers anyway)
          Ops,         \* enabled operations
          QModes,      \* subset of {"NN","LN","NR","LR","bad"}
          IQs,         \* subset of {1,-1}    inner_qconj
          Labs,        \* subset of BOOLEAN   inner labels given?
          MaxOps,      \* factorizations per tensor
          SampKind, SampLeg, SampPar, SampMode, SampOpt
                       \* 0: every choice is explored (exhaustive model checking);  n > 0: generator mode, only n
                       \* randomly chosen alternatives of the respective choice are explored (TLC's Randomization module)

\* named constant values for cfg files (cfg files cannot hold negative literals)
QWin01 == {0, 1}
QWin012 == {0, 1, 2}
QWinM11 == {-1, 0, 1}
ModsU1 == {<<1>>}
ModsU1Z2 == {<<1>>, <<2>>}
ModsAll == {<<1>>, <<2>>, <<3>>, <<1, 2>>}
ModsZ3 == {<<3>>}
Shapes11 == {<<1, 1>>}
ShapesPipe == {<<1, 1>>, <<2, 1>>, <<1, 2>>}
ShapesAll == {<<1, 1>>, <<2, 1>>, <<1, 2>>, <<2, 2>>}
QTsM11 == {-1, 0, 1}
IQBoth == {1, -1}
IQPlus == {1}

VARIABLES phase,   \* "kind" -> "legs" -> "modes" -> "op"
          T,       \* the tensor
          ana,     \* exact analysis of T (sectors, ranks, moments): computed once in Build
          last,    \* last operation with arguments and the expected relation data
          nops,
          hist
vars == <<phase, T, ana, last, nops, hist>>
AbsView == <<phase, T, ana, last, nops>>

-----------------------------------------------------------------------------
\* charge vectors
QAdd(a, b) == [k \in 1..Len(a) |-> a[k] + b[k]]
QSub(a, b) == [k \in 1..Len(a) |-> a[k] - b[k]]
QNeg(a) == [k \in 1..Len(a) |-> -a[k]]
QScale(c, a) == [k \in 1..Len(a) |-> c * a[k]]
QZero(mod) == [k \in 1..Len(mod) |-> 0]
XV(x, mod) == [k \in 1..Len(mod) |-> x]
Valid(q, mod) == [k \in 1..Len(mod) |-> IF mod[k] = 1 THEN q[k] ELSE q[k] % mod[k]]   \* ChargeInfo.make_valid
QVals(mk) == IF mk = 1 THEN QWinU1 ELSE 0..(mk - 1)
QVecSet(mod) == LET RECURSIVE B(_)
                    B(n) == IF n = 0 THEN {<<>>} ELSE {Append(p, v) : p \in B(n - 1), v \in QVals(mod[n])}
                IN B(Len(mod))

Pick(k, S) == IF k = 0 \/ k >= Cardinality(S) THEN S ELSE RandomSubset(k, S)

RECURSIVE SortedSeq(_)
SortedSeq(S) == IF S = {} THEN <<>> ELSE LET m == CHOOSE x \in S : \A y \in S : x <= y IN <<m>> \o SortedSeq(S \ {m})
RECURSIVE SetToSeq(_)
SetToSeq(S) == IF S = {} THEN <<>> ELSE LET x == CHOOSE x \in S : TRUE IN <<x>> \o SetToSeq(S \ {x})

\* elementary legs
Legs(mod) == UNION {{[sizes |-> sz, ch |-> c, qconj |-> d] :
                        sz \in [1..nb -> 1..MaxSize], c \in [1..nb -> QVecSet(mod)], d \in {1, -1}} : nb \in 1..MaxBlocks}
LDim(leg) == ISumSeq(leg.sizes)
LOff(leg, b) == ISumSeq(SubSeq(leg.sizes, 1, b - 1))
LBlockOf(leg, i) == CHOOSE b \in 1..Len(leg.sizes) : LOff(leg, b) < i /\ i <= LOff(leg, b) + leg.sizes[b]
LSigned(leg) == [i \in 1..LDim(leg) |-> QScale(leg.qconj, leg.ch[LBlockOf(leg, i)])]
LConj(leg) == [leg EXCEPT !.qconj = -leg.qconj]
\* LegCharge.test_contractible: same block structure, signed charges opposite (modulo mod)
LContractible(a, b, mod) == /\ a.sizes = b.sizes
                            /\ \A k \in 1..Len(a.sizes) : Valid(QScale(a.qconj, a.ch[k]), mod) = Valid(QScale(-b.qconj, b.ch[k]), mod)

\* sides
SDim(s) == IProdSeq([k \in 1..Len(s.legs) |-> LDim(s.legs[k])])
SSplit(s, i) == IF Len(s.legs) = 1 THEN <<i>>
                ELSE LET d2 == LDim(s.legs[2]) IN <<((i - 1) \div d2) + 1, ((i - 1) % d2) + 1>>
SSigned(s) == [i \in 1..SDim(s) |->
                 IF Len(s.legs) = 1 THEN LSigned(s.legs[1])[i]
                 ELSE QAdd(LSigned(s.legs[1])[SSplit(s, i)[1]], LSigned(s.legs[2])[SSplit(s, i)[2]])]
SBlock(s, i) == [k \in 1..Len(s.legs) |-> LBlockOf(s.legs[k], SSplit(s, i)[k])]
SConj(s) == [legs |-> [k \in 1..Len(s.legs) |-> LConj(s.legs[k])], pq |-> -s.pq]

-----------------------------------------------------------------------------
\* entry patterns (small Gaussian integers; components bounded by 3 so that every product below fits 32 bits)
Gen(s, c, i, j) == <<((s * 3 + i + j * 3 + 2 * i * j + 2 * s * i) % 5) - 2,
                     IF c THEN ((s * 3 + i * 5 + j * 7 + 1 + i * j * s) % 3) - 1 ELSE 0>>
HermGen(s, c, i, j) == IF i = j THEN <<Gen(s, c, i, i)[1], 0>> ELSE IF i < j THEN Gen(s, c, i, j) ELSE GConj(Gen(s, c, j, i))
U1(s, c, i) == <<1 + ((s + i) % 2), IF c THEN ((s + 2 * i) % 3) - 1 ELSE 0>>
V1(s, c, j) == <<2 * ((s + 3 * j + (j \div 2)) % 2) - 1, IF c THEN (s + j) % 2 ELSE 0>>
UH(s, c, i) == <<2 * ((s + i + (i \div 2)) % 2) - 1, IF c THEN ((s + 2 * i) % 3) - 1 ELSE 0>>
DiagVal(s, c, a) == LET t == (s + 2 * a + (a \div 3)) % 6 IN
    CASE t = 0 -> <<0, 0>> [] t = 1 -> <<1, 0>> [] t = 2 -> <<-2, 0>>
      [] t = 3 -> IF c THEN <<0, 3>> ELSE <<3, 0>>
      [] t = 4 -> IF c THEN <<1, 1>> ELSE <<2, 0>>
      [] OTHER -> <<-1, 0>>

EntryAt(kind, c, s, mode, i, j, a, b, inFirst) ==
    CASE mode = "gen" -> IF kind = "herm" THEN HermGen(s, c, i, j) ELSE Gen(s, c, i, j)
      [] mode = "first" -> IF ~inFirst THEN GZero ELSE IF kind = "herm" THEN HermGen(s, c, i, j) ELSE Gen(s, c, i, j)
      [] mode = "rank1" -> IF kind = "herm" THEN GMul(UH(s, c, i), GConj(UH(s, c, j))) ELSE GMul(U1(s, c, i), V1(s, c, j))
      [] mode = "diag" -> IF a # b THEN GZero ELSE IF kind = "herm" THEN <<DiagVal(s, c, a)[1], 0>> ELSE DiagVal(s, c, a)
      [] mode = "nil" -> IF a < b THEN Gen(s, c, i, j) ELSE GZero
      [] mode = "idiag" -> IF a = b THEN <<(s + a) % 4, 0>> ELSE GZero     \* generator (i pi/2) * n
      [] OTHER -> GZero                                                    \* "zero", "absent"

ModesOf(kind) == CASE kind = "rect" -> {"absent", "zero", "rank1", "gen", "diag", "first"}
                   [] kind = "herm" -> {"absent", "zero", "rank1", "gen", "diag", "first"}
                   [] kind = "sq" -> {"absent", "zero", "gen", "nil", "diag", "first"}
                   [] kind = "nil" -> {"absent", "zero", "nil"}
                   [] OTHER -> {"absent", "idiag"}
SquareKind(kind) == kind # "rect"

\* sector skeleton from the charge data alone
Skel(mod, L, R, qt) ==
    LET sL == SSigned(L)
        sR == SSigned(R)
        rk == [i \in 1..SDim(L) |-> Valid(sL[i], mod)]
        ck == [j \in 1..SDim(R) |-> Valid(QSub(qt, sR[j]), mod)]
    IN [rk |-> rk, ck |-> ck,
        keys |-> {rk[i] : i \in 1..SDim(L)} \cup {ck[j] : j \in 1..SDim(R)},
        mkeys |-> {rk[i] : i \in 1..SDim(L)} \cap {ck[j] : j \in 1..SDim(R)}]
RowsOf(sk, k) == {i \in DOMAIN sk.rk : sk.rk[i] = k}
ColsOf(sk, k) == {j \in DOMAIN sk.ck : sk.ck[j] = k}
Min(S) == CHOOSE x \in S : \A y \in S : x <= y

MkTensor(t0, L, R, qt, modes, seed, c) ==
    LET sk == Skel(t0.mod, L, R, qt)
        rpos == [i \in DOMAIN sk.rk |-> Cardinality({i2 \in 1..i : sk.rk[i2] = sk.rk[i]})]
        cpos == [j \in DOMAIN sk.ck |-> Cardinality({j2 \in 1..j : sk.ck[j2] = sk.ck[j]})]
        fr(k) == Min(RowsOf(sk, k))
        fc(k) == Min(ColsOf(sk, k))
        InFirst(k, i, j) == SBlock(L, i) = SBlock(L, fr(k)) /\ SBlock(R, j) = SBlock(R, fc(k))
        M == [i \in DOMAIN sk.rk |-> [j \in DOMAIN sk.ck |->
                IF sk.rk[i] # sk.ck[j] THEN GZero
                ELSE LET k == sk.rk[i] IN EntryAt(t0.kind, c, seed, modes[k], i, j, rpos[i], cpos[j], InFirst(k, i, j))]]
        stored == UNION {IF modes[k] = "absent" THEN {}
                         ELSE IF modes[k] = "first" THEN {<<SBlock(L, fr(k)), SBlock(R, fc(k))>>}
                         ELSE {<<SBlock(L, i), SBlock(R, j)>> : i \in RowsOf(sk, k), j \in ColsOf(sk, k)} : k \in sk.mkeys}
    IN [mod |-> t0.mod, kind |-> t0.kind, shape |-> t0.shape, L |-> L, R |-> R, qtotal |-> qt,
        cplx |-> c, dt |-> t0.dt, seed |-> seed, modes |-> modes, M |-> M, stored |-> stored]

-----------------------------------------------------------------------------
\* exact analysis
\* rank over the Gaussian integers by division-free elimination (sector dimension min(m,n) <= 4 keeps all
\* intermediate values below 2^31 for components bounded by 3)
RECURSIVE RankG(_)
RankG(A) ==
    IF Len(A) = 0 \/ Len(A[1]) = 0 THEN 0
    ELSE LET piv == {i \in 1..Len(A) : ~GIsZero(A[i][1])} IN
         IF piv = {} THEN RankG([i \in 1..Len(A) |-> Tail(A[i])])
         ELSE LET p == Min(piv)
                  nr == [r \in 1..(Len(A) - 1) |-> LET i == IF r < p THEN r ELSE r + 1 IN
                           [cc \in 1..(Len(A[1]) - 1) |->
                               GSub(GMul(A[p][1], A[i][cc + 1]), GMul(A[i][1], A[p][cc + 1]))]]
              IN 1 + RankG(nr)

\* Tr(B), Tr(B^2), Tr(B^3)
TraceMoments(B) == IF Len(B) = 0 THEN <<GZero, GZero, GZero>>
                   ELSE LET B2 == MMul(B, B) IN <<MTrace(B), MTrace(B2), MTrace(MMul(B2, B))>>
\* the same for B = A A^+ (real integers)
GramMoments(A) == IF Len(A) = 0 \/ Len(A[1]) = 0 THEN <<0, 0, 0>>
                  ELSE LET tm == TraceMoments(MMul(A, MDagger(A))) IN <<tm[1][1], tm[2][1], tm[3][1]>>

SubMat(M, rows, cols) == [a \in 1..Len(rows) |-> [b \in 1..Len(cols) |-> M[rows[a]][cols[b]]]]

\* squared singular values when the pattern plants them exactly; <<-1>> otherwise
PlantedSV2(mode, sub, m, n) ==
    LET d == IMin(m, n) IN
    CASE mode \in {"zero", "absent"} -> [p \in 1..d |-> 0]
      [] mode = "rank1" -> [p \in 1..d |-> IF p = 1 THEN GramMoments(sub)[1] ELSE 0]
      [] mode \in {"diag", "idiag"} -> [p \in 1..d |-> GAbs2(sub[p][p])]
      [] OTHER -> <<-1>>

Analyse(t) ==
    LET sk == Skel(t.mod, t.L, t.R, t.qtotal)
        Sect(k) == LET rows == SortedSeq(RowsOf(sk, k))
                       cols == SortedSeq(ColsOf(sk, k))
                       sub == SubMat(t.M, rows, cols)
                       two == rows # <<>> /\ cols # <<>>
                       mode == IF two THEN t.modes[k] ELSE "none"
                   IN [key |-> k, skey |-> Valid(QSub(t.qtotal, k), t.mod), rows |-> rows, cols |-> cols,
                       m |-> Len(rows), n |-> Len(cols), mode |-> mode,
                       stored |-> two /\ mode # "absent",
                       rank |-> IF two THEN RankG(sub) ELSE 0,
                       gm |-> IF two THEN GramMoments(sub) ELSE <<0, 0, 0>>,
                       tm |-> IF two /\ Len(rows) = Len(cols) THEN TraceMoments(sub) ELSE <<>>,
                       sv2 |-> IF two THEN PlantedSV2(mode, sub, Len(rows), Len(cols)) ELSE <<>>]
    IN [sect |-> [x \in 1..Cardinality(sk.keys) |-> Sect(SetToSeq(sk.keys)[x])],
        dimL |-> SDim(t.L), dimR |-> SDim(t.R),
        gm |-> GramMoments(t.M),
        tm |-> IF SDim(t.L) = SDim(t.R) THEN TraceMoments(t.M) ELSE <<>>]

Sects == {ana.sect[x] : x \in DOMAIN ana.sect}
Two(s) == s.m > 0 /\ s.n > 0
SumOver(S, f(_)) == LET RECURSIVE F(_)
                        F(U) == IF U = {} THEN 0 ELSE LET x == CHOOSE x \in U : TRUE IN f(x) + F(U \ {x})
                    IN F(S)
TotalRank == SumOver(Sects, LAMBDA s : s.rank)
ExactSV == \A s \in Sects : Two(s) => s.sv2 # <<-1>>
Contractible == Len(T.L.legs) = 1 /\ Len(T.R.legs) = 1 /\ LContractible(T.L.legs[1], T.R.legs[1], T.mod)
ZeroQ == T.qtotal = QZero(T.mod)

-----------------------------------------------------------------------------
Init == /\ phase = "kind"
        /\ T = [kind |-> "none"]
        /\ ana = [sect |-> <<>>]
        /\ last = [op |-> "init"]
        /\ nops = 0
        /\ hist = <<>>

PickKind(mod, kind, shape) ==
    /\ phase = "kind"
    /\ phase' = "legs"
    /\ T' = [mod |-> mod, kind |-> kind, shape |-> shape, legs |-> <<>>]
    /\ last' = [op |-> "kind"]
    /\ UNCHANGED <<ana, nops, hist>>

Needed(t) == IF SquareKind(t.kind) THEN t.shape[1] ELSE t.shape[1] + t.shape[2]
SideDimOf(legs) == IProdSeq([k \in 1..Len(legs) |-> LDim(legs[k])])

PickLeg(leg) ==
    /\ phase = "legs" /\ Len(T.legs) < Needed(T)
    /\ LET nl == Append(T.legs, leg)
           nL == T.shape[1]
       IN /\ SideDimOf(SubSeq(nl, 1, IMin(Len(nl), nL))) <= MaxDim
          /\ SideDimOf(SubSeq(nl, nL + 1, Len(nl))) <= MaxDim
          /\ T' = [T EXCEPT !.legs = nl]
    /\ last' = [op |-> "leg"]
    /\ UNCHANGED <<phase, ana, nops, hist>>

\* total charge, pipe directions, entry pattern (cheap step: nothing is computed yet)
PickParams(qt, pqL, pqR, seed, dt) ==
    /\ phase = "legs" /\ Len(T.legs) = Needed(T)
    /\ LET nL == T.shape[1]
           nR == T.shape[2]
           L == [legs |-> SubSeq(T.legs, 1, nL), pq |-> IF nL = 1 THEN T.legs[1].qconj ELSE pqL]
           R == IF SquareKind(T.kind) THEN SConj(L)
                ELSE [legs |-> SubSeq(T.legs, nL + 1, nL + nR), pq |-> IF nR = 1 THEN T.legs[nL + 1].qconj ELSE pqR]
           q == IF SquareKind(T.kind) THEN QZero(T.mod) ELSE Valid(XV(qt, T.mod), T.mod)
           sk == Skel(T.mod, L, R, q)
       IN /\ (nL = 1 => pqL = 1) /\ ((nR = 1 \/ SquareKind(T.kind)) => pqR = 1)
          /\ (SquareKind(T.kind) => qt = Min(QTs))
          /\ \A k \in sk.mkeys : IMin(Cardinality(RowsOf(sk, k)), Cardinality(ColsOf(sk, k))) <= 4
          /\ T' = [mod |-> T.mod, kind |-> T.kind, shape |-> T.shape, L |-> L, R |-> R, qtotal |-> q,
                   seed |-> seed, cplx |-> (dt = "complex"), dt |-> dt, todo |-> SetToSeq(sk.mkeys), modes |-> <<>>]
    /\ phase' = "modes"
    /\ last' = [op |-> "params"]
    /\ UNCHANGED <<ana, nops, hist>>

\* presence / rank pattern of the next charge sector
PickMode(mode) ==
    /\ phase = "modes" /\ Len(T.modes) < Len(T.todo)
    /\ mode \in ModesOf(T.kind) \cap FillModes
    /\ T' = [T EXCEPT !.modes = Append(T.modes, mode)]
    /\ last' = [op |-> "mode"]
    /\ UNCHANGED <<phase, ana, nops, hist>>

\* build the entries and analyse the tensor exactly (once)
Build ==
    /\ phase = "modes" /\ Len(T.modes) = Len(T.todo)
    /\ LET modes == [k \in {T.todo[x] : x \in 1..Len(T.todo)} |-> T.modes[CHOOSE x \in 1..Len(T.todo) : T.todo[x] = k]]
           t == MkTensor(T, T.L, T.R, T.qtotal, modes, T.seed, T.cplx)
       IN /\ T' = t
          /\ ana' = Analyse(t)
    /\ phase' = "op"
    /\ last' = [op |-> "fill"]
    /\ UNCHANGED <<nops, hist>>

DoParams == phase = "legs" /\ Len(T.legs) = Needed(T) /\
            \E o \in Pick(SampPar, {o \in QTs \X {1, -1} \X {1, -1} \X (1..NSeeds) \X Dtypes :
                                      /\ (T.shape[1] = 1 => o[2] = 1)
                                      /\ ((T.shape[2] = 1 \/ SquareKind(T.kind)) => o[3] = 1)
                                      /\ (SquareKind(T.kind) => o[1] = Min(QTs))}) :
                PickParams(o[1], o[2], o[3], o[4], o[5])
DoMode == phase = "modes" /\ Len(T.modes) < Len(T.todo) /\ \E mode \in Pick(SampMode, ModesOf(T.kind) \cap FillModes) : PickMode(mode)
DoBuild == Build

-----------------------------------------------------------------------------
\* the operand is never modified
Obs == [M |-> T.M, qtotal |-> T.qtotal]
Finish(rec) ==
    /\ phase = "op" /\ nops < MaxOps
    /\ rec.op \in Ops
    /\ last' = rec
    /\ nops' = nops + 1
    /\ hist' = Append(hist, [l |-> rec, o |-> [unchanged |-> TRUE]])
    /\ UNCHANGED <<phase, T, ana>>

Mult(cut, c2, s) ==
    IF ~Two(s) THEN 0
    ELSE CASE cut = "none" -> IF s.stored THEN IMin(s.m, s.n) ELSE 0
           [] cut = "eps" -> s.rank                       \* 1e-10: below every non-zero singular value
           [] OTHER -> Cardinality({p \in 1..Len(s.sv2) : 2 * s.sv2[p] > c2})     \* cutoff^2 = c2/2
InnerOf(f(_), mu(_)) == {<<f(s), mu(s)>> : s \in {s2 \in Sects : mu(s2) > 0}}
PowSum(cut, c2, k) ==   \* sum of S^(2k) over the kept singular values
    IF cut \in {"none", "eps"} THEN ana.gm[k]
    ELSE SumOver(Sects, LAMBDA s : IF ~Two(s) THEN 0 ELSE
            SumOver({p \in 1..Len(s.sv2) : 2 * s.sv2[p] > c2},
                    LAMBDA p : IF k = 1 THEN s.sv2[p] ELSE IF k = 2 THEN s.sv2[p] * s.sv2[p] ELSE s.sv2[p] * s.sv2[p] * s.sv2[p]))
\* what U diag(S) V must reproduce: A with the sectors / planted values below the cutoff removed
RecM(cut, c2) ==
    IF cut # "half" THEN T.M
    ELSE [i \in 1..ana.dimL |-> [j \in 1..ana.dimR |->
            LET hit == {s \in Sects : Two(s) /\ (\E a \in 1..s.m : s.rows[a] = i) /\ (\E b \in 1..s.n : s.cols[b] = j)} IN
            IF hit = {} THEN GZero
            ELSE LET s == CHOOSE s \in hit : TRUE IN
                 IF s.mode = "rank1" THEN (IF 2 * s.sv2[1] > c2 THEN T.M[i][j] ELSE GZero)
                 ELSE IF 2 * GAbs2(T.M[i][j]) > c2 THEN T.M[i][j] ELSE GZero]]

\* ---- svd(a, full_matrices, compute_uv, cutoff, qtotal_LR, inner_labels, inner_qconj)
Svd(cu, full, cut, c2, qm, x, iq, lab) ==
    LET xv == XV(x, T.mod)
        other == Valid(QSub(T.qtotal, xv), T.mod)
        argLR == CASE qm = "NN" -> <<"None", "None">> [] qm = "LN" -> <<xv, "None">> [] qm = "NR" -> <<"None", xv>>
                   [] qm = "LR" -> <<xv, other>> [] OTHER -> <<xv, QAdd(other, XV(1, T.mod))>>
        qL == CASE qm = "NN" -> QZero(T.mod) [] qm = "NR" -> other [] OTHER -> Valid(xv, T.mod)
        qR == CASE qm = "NN" -> T.qtotal [] qm = "NR" -> Valid(xv, T.mod) [] OTHER -> other
        mu(s) == Mult(cut, c2, s)
        K == SumOver(Sects, mu)
        res == IF full /\ (~cu \/ cut # "none") THEN "ValueError"
               ELSE IF qm = "bad" THEN "ValueError"
               ELSE IF K = 0 /\ cut # "none" THEN "RuntimeError"     \* nothing above the cutoff: explicit error
               ELSE "ok"                                          \* K = 0 without cutoff: empty factors (as qr)
        base == [op |-> "svd", cu |-> cu, full |-> full, cut |-> cut, c2 |-> c2, qm |-> qm, argLR |-> argLR,
                 iq |-> iq, lab |-> lab, res |-> res]
    IN IF res # "ok" THEN base
       ELSE IF ~cu THEN base @@ [K |-> K, pow |-> <<PowSum(cut, c2, 1), PowSum(cut, c2, 2), PowSum(cut, c2, 3)>>]
       ELSE IF full THEN
            base @@ [qtL |-> qL, qtR |-> qR, K |-> K, pow |-> ana.gm,
                     innerL |-> InnerOf(LAMBDA s : Valid(QSub(qL, s.key), T.mod), LAMBDA s : s.m),
                     innerR |-> InnerOf(LAMBDA s : Valid(QSub(qR, s.skey), T.mod), LAMBDA s : s.n)]
       ELSE base @@ [qtL |-> qL, qtR |-> qR, K |-> K, iqconj |-> iq,
                     inner |-> InnerOf(LAMBDA s : Valid(QSub(qR, s.skey), T.mod), mu),
                     pow |-> <<PowSum(cut, c2, 1), PowSum(cut, c2, 2), PowSum(cut, c2, 3)>>,
                     rec |-> IF cut = "half" THEN RecM(cut, c2) ELSE <<>>]

SvdOpts(ex) == {o \in BOOLEAN \X BOOLEAN \X {"none", "eps", "half"} \X {1, 5, 13} \X QModes \X QX \X IQs \X Labs :
              LET cu == o[1] full == o[2] cut == o[3] c2 == o[4] qm == o[5] x == o[6] iq == o[7] lab == o[8] IN
              /\ (cut # "half" => c2 = 1) /\ (cut = "half" => ex)
              /\ (qm = "NN" => x = Min(QX))
              /\ (~cu => qm = "NN" /\ iq = Min(IQs) /\ lab = (TRUE \in Labs))
              /\ (full /\ cut # "none" => cut = "eps" /\ qm = "NN" /\ iq = Min(IQs) /\ lab = (TRUE \in Labs))}
DoSvd == phase = "op" /\ T.kind \in {"rect", "herm", "sq"} /\
         \E o \in Pick(SampOpt, SvdOpts(ExactSV)) : Finish(Svd(o[1], o[2], o[3], o[4], o[5], o[6], o[7], o[8]))

\* ---- qr / lq(a, mode, inner_labels, cutoff, pos_diag, qtotal_Q, inner_qconj)
QrLike(op, mode, cut, pos, qn, x, iq, lab) ==
    LET qQ == IF qn THEN QZero(T.mod) ELSE Valid(XV(x, T.mod), T.mod)
        qO == Valid(QSub(T.qtotal, qQ), T.mod)
        mu(s) == IF mode = "complete" THEN (IF op = "qr" THEN s.m ELSE s.n) ELSE Mult(cut, 1, s)
        K == SumOver(Sects, mu)
    IN [op |-> op, mode |-> mode, cut |-> cut, pos |-> pos, argQ |-> IF qn THEN "None" ELSE XV(x, T.mod),
        iq |-> iq, lab |-> lab, res |-> "ok", K |-> K,
        qtL |-> IF op = "qr" THEN qQ ELSE qO, qtR |-> IF op = "qr" THEN qO ELSE qQ,
        iqconj |-> IF op = "qr" THEN iq ELSE -iq,
        inner |-> IF op = "qr" THEN InnerOf(LAMBDA s : Valid(QSub(s.key, qQ), T.mod), mu)
                  ELSE InnerOf(LAMBDA s : Valid(QSub(qQ, s.skey), T.mod), mu)]

QrOpts == {o \in {"reduced", "complete"} \X {"none", "eps"} \X BOOLEAN \X BOOLEAN \X QX \X IQs \X Labs : o[4] => o[5] = Min(QX)}
DoQr == phase = "op" /\ T.kind \in {"rect", "herm", "sq"} /\
        \E o \in Pick(SampOpt, QrOpts) : Finish(QrLike("qr", o[1], o[2], o[3], o[4], o[5], o[6], o[7]))
DoLq == phase = "op" /\ T.kind \in {"rect", "herm", "sq"} /\
        \E o \in Pick(SampOpt, QrOpts) : Finish(QrLike("lq", o[1], o[2], o[3], o[4], o[5], o[6], o[7]))

\* ---- eigh / eig / eigvalsh / eigvals (sort)
SectMoments == {<<s.key, s.m, s.tm>> : s \in {s2 \in Sects : s2.m > 0}}
Eigen(op, sort) ==
    LET ok == IF SquareKind(T.kind) THEN TRUE ELSE Contractible /\ ZeroQ IN
    IF ~ok THEN [op |-> op, sort |-> sort, res |-> "ValueError"]
    ELSE [op |-> op, sort |-> sort, res |-> "ok", dim |-> ana.dimL, tm |-> ana.tm, smom |-> SectMoments,
          qtV |-> QZero(T.mod)]
Sorts == {"None", "<", ">", "m<", "m>"}
EigenEnabled(op) ==
    IF op \in {"eigh", "eigvalsh"} THEN T.kind = "herm"
    ELSE \/ T.kind \in {"herm", "sq", "nil"}
         \/ T.kind = "rect" /\ Len(T.L.legs) = 1 /\ Len(T.R.legs) = 1 /\ ana.dimL = ana.dimR
            /\ (Contractible /\ ZeroQ => \A s \in Sects : s.m = s.n)
DoEigh == phase = "op" /\ EigenEnabled("eigh") /\ \E sort \in Pick(SampOpt, Sorts) : Finish(Eigen("eigh", sort))
DoEig == phase = "op" /\ EigenEnabled("eig") /\ \E sort \in Pick(SampOpt, Sorts) : Finish(Eigen("eig", sort))
DoEigvalsh == phase = "op" /\ EigenEnabled("eigvalsh") /\ \E sort \in Pick(SampOpt, Sorts) : Finish(Eigen("eigvalsh", sort))
DoEigvals == phase = "op" /\ EigenEnabled("eigvals") /\ \E sort \in Pick(SampOpt, Sorts) : Finish(Eigen("eigvals", sort))

\* ---- speigs(a, charge_sector, k): k eigenpairs inside one charge sector
\* (only k >= m-1, where tenpy.tools.math.speigs solves the block densely; ARPACK's convergence is not modelled --
\*  except for a stored all-zero block, whose eigenpairs are trivially (0, any basis vector))
DoSpeigs == phase = "op" /\ T.kind \in {"herm", "sq"} /\
    \E o \in Pick(SampOpt, {o \in Sects \X (1..4) \X BOOLEAN : o[1].m > 0 /\ o[2] <= o[1].m /\ (o[2] >= o[1].m - 1 \/ o[1].mode = "zero")}) :
       LET s == o[1] k == o[2] vec == o[3] IN
       Finish([op |-> "speigs", sector |-> s.key, k |-> k, vec |-> vec, res |-> "ok", m |-> s.m, stored |-> s.stored,
               sub |-> SubMat(T.M, s.rows, s.cols), rows |-> s.rows])

\* ---- expm
Fact(n) == IF n <= 1 THEN 1 ELSE IF n = 2 THEN 2 ELSE IF n = 3 THEN 6 ELSE 24
RECURSIVE NilIndex(_, _, _)
NilIndex(A, P, n) == IF MIsZero(P) THEN n ELSE NilIndex(A, MMul(P, A), n + 1)     \* least n with A^n = 0
ExpSeries(A, N) ==   \* (N-1)! * sum_{k<N} A^k / k!
    LET RECURSIVE S(_, _)
        S(k, P) == IF k >= N THEN MZero(Len(A), Len(A)) ELSE MAdd(MScale(<<Fact(N - 1) \div Fact(k), 0>>, P), S(k + 1, MMul(P, A)))
    IN S(0, MId(Len(A)))
Expm ==
    LET base == [op |-> "expm", res |-> "ok", trace |-> ana.tm[1]] IN
    IF T.kind = "nil" THEN
        LET N == NilIndex(T.M, T.M, 1) IN base @@ [exact |-> "series", den |-> Fact(N - 1), num |-> ExpSeries(T.M, N), nil |-> N]
    ELSE IF T.kind = "ipi2" THEN
        base @@ [exact |-> "ipi2", den |-> 1,
                 num |-> [i \in 1..ana.dimL |-> [j \in 1..ana.dimL |-> IF i = j THEN GIPow(T.M[i][i][1]) ELSE GZero]]]
    ELSE base @@ [exact |-> "no"]
DoExpm == phase = "op" /\ T.kind \in {"herm", "sq", "nil", "ipi2"} /\ Finish(Expm)

\* ---- pinv(a, cutoff) / polar(a, cutoff, left)
DoPinv == phase = "op" /\ /\ T.kind \in {"rect", "herm", "sq"}
          /\ Finish([op |-> "pinv", res |-> IF TotalRank = 0 THEN "RuntimeError" ELSE "ok",
                     qtB |-> Valid(QNeg(T.qtotal), T.mod), rank |-> TotalRank])
DoPolar == phase = "op" /\ \E left \in Pick(SampOpt, BOOLEAN) :
          /\ T.kind \in {"rect", "herm", "sq"}
          /\ Finish([op |-> "polar", left |-> left, res |-> IF TotalRank = 0 THEN "RuntimeError" ELSE "ok",
                     qtU |-> T.qtotal, qtP |-> QZero(T.mod), pow |-> ana.gm,
                     fullrank |-> IF left THEN TotalRank = ana.dimL ELSE TotalRank = ana.dimR])

\* ---- orthogonal_columns(a, new_label): precondition full column rank
ColFullRank == \A s \in Sects : s.n > 0 => (s.m >= s.n /\ s.rank = s.n)
DoOrtho == phase = "op" /\ \E lab \in Pick(SampOpt, Labs) :
          /\ T.kind = "rect" /\ ColFullRank
          /\ Finish([op |-> "ortho", lab |-> lab, res |-> "ok", K |-> ana.dimL - ana.dimR, qt |-> T.qtotal,
                     iqconj |-> T.R.pq,
                     inner |-> InnerOf(LAMBDA s : s.skey, LAMBDA s : s.m - s.n)])

DoKind == phase = "kind" /\ \E o \in Pick(SampKind, Mods \X Kinds \X Shapes) : PickKind(o[1], o[2], o[3])
LegFits(leg) == LET nl == Append(T.legs, leg) IN
                   /\ SideDimOf(SubSeq(nl, 1, IMin(Len(nl), T.shape[1]))) <= MaxDim
                   /\ SideDimOf(SubSeq(nl, T.shape[1] + 1, Len(nl))) <= MaxDim
One(k) == IF k = 0 THEN 0 ELSE 1
DoLeg == phase = "legs" /\ Len(T.legs) < Needed(T) /\
         \E nb \in Pick(SampLeg, 1..MaxBlocks) :
         \E sz \in Pick(One(SampLeg), {z \in [1..nb -> 1..MaxSize] : LegFits([sizes |-> z])}) :
         \E ch \in Pick(One(SampLeg), [1..nb -> QVecSet(T.mod)]) :
         \E d \in Pick(One(SampLeg), {1, -1}) : PickLeg([sizes |-> sz, ch |-> ch, qconj |-> d])

Next == DoKind \/ DoLeg \/ DoParams \/ DoMode \/ DoBuild \/ DoSvd \/ DoQr \/ DoLq \/ DoEigh \/ DoEig \/ DoEigvalsh \/ DoEigvals
        \/ DoSpeigs \/ DoExpm \/ DoPinv \/ DoPolar \/ DoOrtho
Spec == Init /\ [][Next]_vars

-----------------------------------------------------------------------------
\* Properties checked in the model

\* generator soundness: the tensor obeys the charge rule, non-zero entries lie in stored blocks
ChargeRule ==
    last.op = "fill" =>
        LET sL == SSigned(T.L)
            sR == SSigned(T.R)
        IN \A i \in 1..ana.dimL, j \in 1..ana.dimR :
              ~GIsZero(T.M[i][j]) => /\ Valid(QSub(QAdd(sL[i], sR[j]), T.qtotal), T.mod) = QZero(T.mod)
                                     /\ <<SBlock(T.L, i), SBlock(T.R, j)>> \in T.stored

\* the sectors partition rows and columns; ranks, planted singular values and moments are consistent
SectorsConsistent ==
    last.op = "fill" =>
        /\ SumOver(Sects, LAMBDA s : s.m) = ana.dimL
        /\ SumOver(Sects, LAMBDA s : s.n) = ana.dimR
        /\ \A k \in 1..3 : SumOver(Sects, LAMBDA s : s.gm[k]) = ana.gm[k]        \* block diagonality
        /\ \A s \in Sects :
              /\ s.rank <= IMin(s.m, s.n)
              /\ (~s.stored => s.rank = 0)
              /\ (s.rank = 0 <=> s.gm[1] = 0)
              /\ s.gm[1] * s.gm[1] <= s.rank * s.gm[2]                            \* Cauchy-Schwarz: rank vs moments
              /\ s.gm[2] * s.gm[2] <= s.gm[1] * s.gm[3] + 0
              /\ (Two(s) /\ s.sv2 # <<-1>> =>
                    /\ Cardinality({p \in 1..Len(s.sv2) : s.sv2[p] > 0}) = s.rank
                    /\ SumOver(1..Len(s.sv2), LAMBDA p : s.sv2[p]) = s.gm[1]
                    /\ SumOver(1..Len(s.sv2), LAMBDA p : s.sv2[p] * s.sv2[p]) = s.gm[2]
                    /\ SumOver(1..Len(s.sv2), LAMBDA p : s.sv2[p] * s.sv2[p] * s.sv2[p]) = s.gm[3])
        /\ (T.kind = "herm" => MIsHermitian(T.M))
        /\ (SquareKind(T.kind) => /\ \A s \in Sects : s.m = s.n
                                  /\ \A k \in 1..3 : GSumSeq([x \in DOMAIN ana.sect |-> ana.sect[x].tm[k]]) = ana.tm[k])
        /\ (T.kind = "herm" => \A k \in 1..3 : ana.tm[k][2] = 0)

\* the promised structure of two-factor results is charge-consistent: the new leg makes every block of
\* both factors obey the charge rule with exactly the requested total charges
TwoFactor == last.op \in {"svd", "qr", "lq"} /\ last.res = "ok" /\ "inner" \in DOMAIN last
FactorChargeRule ==
    TwoFactor =>
        /\ Valid(QSub(QAdd(last.qtL, last.qtR), T.qtotal), T.mod) = QZero(T.mod)
        /\ SumOver(last.inner, LAMBDA e : e[2]) = last.K
        /\ \A e \in last.inner :
              /\ e[2] > 0
              /\ \A f \in last.inner : e[1] = f[1] => e = f                     \* the new leg is blocked by charge
              /\ LET S == {s \in Sects : /\ Valid(QSub(QSub(s.key, e[1]), last.qtL), T.mod) = QZero(T.mod)
                                         /\ Valid(QSub(QAdd(e[1], s.skey), last.qtR), T.mod) = QZero(T.mod)}
                 IN /\ Cardinality(S) = 1
                    /\ \A s \in S : IF "mode" \in DOMAIN last /\ last.mode = "complete"
                                    THEN e[2] = (IF last.op = "qr" THEN s.m ELSE s.n)
                                    ELSE /\ e[2] <= IMin(s.m, s.n)
                                         /\ (last.cut # "half" => e[2] >= s.rank)
        /\ (last.op = "svd" /\ last.cut = "none" => \A k \in 1..3 : last.pow[k] = ana.gm[k])
        /\ last.K <= IMax(ana.dimL, ana.dimR)

\* svd with full_matrices: square unitary factors with the requested total charges need these legs
FullChargeRule ==
    (last.op = "svd" /\ last.res = "ok" /\ "innerL" \in DOMAIN last) =>
        /\ SumOver(last.innerL, LAMBDA e : e[2]) = ana.dimL
        /\ SumOver(last.innerR, LAMBDA e : e[2]) = ana.dimR
        /\ \A s \in Sects : /\ s.m > 0 => \E e \in last.innerL : e[2] = s.m /\ Valid(QSub(QAdd(s.key, e[1]), last.qtL), T.mod) = QZero(T.mod)
                            /\ s.n > 0 => \E e \in last.innerR : e[2] = s.n /\ Valid(QSub(QAdd(e[1], s.skey), last.qtR), T.mod) = QZero(T.mod)

\* orthogonal complement: dimensions add up and the new leg obeys the charge rule with a.qtotal
OrthoRule ==
    last.op = "ortho" =>
        /\ SumOver(last.inner, LAMBDA e : e[2]) = last.K /\ last.K >= 0
        /\ \A e \in last.inner : \E s \in Sects : e[2] = s.m - s.n /\ Valid(QSub(QAdd(s.key, e[1]), T.qtotal), T.mod) = QZero(T.mod)

\* the finite exponential series is an exponential: E(A) E(-A) = den^2, and i^n is a phase
ExpmRule ==
    (last.op = "expm" /\ last.exact = "series") =>
        /\ LET Em == ExpSeries(MScale(<<-1, 0>>, T.M), last.nil) IN
           MMul(last.num, Em) = MScale(<<last.den * last.den, 0>>, MId(ana.dimL))
        /\ last.nil <= 4
        /\ last.trace = GZero
ExpmPhase ==
    (last.op = "expm" /\ last.exact = "ipi2") => \A i \in 1..ana.dimL : GAbs2(last.num[i][i]) = 1

\* eigen-decompositions: sector sizes and moments add up
EigenRule ==
    (last.op \in {"eigh", "eig", "eigvalsh", "eigvals"} /\ last.res = "ok") =>
        /\ SumOver(last.smom, LAMBDA e : e[2]) = last.dim
        /\ \A e \in last.smom : e[3] # <<>>

\* below the cutoff "eps" = 1e-10 there is no non-zero singular value: prod of non-zero s_i^2 is a positive
\* integer (sum of squared minors), so s_min^2 >= 1 / gm1^(r-1) >= 1 / 10^9 (checked: gm1^(r-1) < 10^9 for r <= 4)
CutoffSeparation ==
    last.op = "fill" => \A s \in Sects : s.rank <= 1 \/ (s.rank = 2 /\ s.gm[1] < 1000000)
                                       \/ (s.rank = 3 /\ s.gm[1] < 30000) \/ (s.rank = 4 /\ s.gm[1] < 1000)
=============================================================================
