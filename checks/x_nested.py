"""Growth beyond the listed properties: the nested-options helpers of tenpy.tools.misc (get_recursive, set_recursive,
update_recursive, merge_recursive, flatten) against spec/Nested.tla.
Run: ./check X_nested --tier quick.  Not registered in MANIFEST.json (the property list is fixed); DESIGN §14.7."""
import copy
import shutil

from harness import core, tlc, tlaval

INVS = ['RootIsDict', 'FlatRoundTrip', 'MergeSelf', 'MergeLeaves', 'MergeLastWins', 'MergeFirstWins']
PROPS = ['SetThenGet', 'SetFrame', 'FailedSetNoChange']


def cfg(maxops, dd, do):
    return dict(spec='Spec', constants=dict(Keys={'a', 'b'}, Vals={1, 2}, MaxOps=maxops, DepthD=dd, DepthO=do),
                invariants=INVS, properties=PROPS, view='AbsView')


def py(t):
    """spec tree -> Python nested dict"""
    if t['t'] == 'leaf':
        return t['v']
    m = t['m']
    return {k: py(v) for k, v in (m.items() if isinstance(m, dict) else [])}


def res_of(r):
    return ('ok', py(r['v']) if isinstance(r.get('v'), dict) else r.get('v')) if r['k'] == 'ok' else ('err', r['e'])


def key(path, sep, lead):
    s = sep.join(path)
    return (sep + s) if lead else s


def replay(ctx, d0, o0, hist, origin, variant):
    from tenpy.tools import misc
    sep = './:'[variant % 3]
    lead = (variant // 3) % 2 == 1
    D, O = py(d0), py(o0)
    O_snap = copy.deepcopy(O)
    for n, st in enumerate(hist):
        l = st['l']
        op = l['op']
        before = copy.deepcopy(D)
        got = None
        try:
            if op == 'get':
                got = ('ok', misc.get_recursive(D, key(l['path'], sep, lead or not l['path']), sep))
            elif op == 'get_default':
                got = ('ok', misc.get_recursive(D, key(l['path'], sep, lead), sep, default=l['dflt']))
            elif op == 'set':
                misc.set_recursive(D, key(l['path'], sep, lead), py(l['val']), sep, insert_dicts=l['ins'])
                got = ('ok', 0)
            elif op == 'update':
                upd = {key(p, sep, lead): py(v) for p, v in l['items']}
                misc.update_recursive(D, upd, sep, insert_dicts=l['ins'])
                got = ('ok', 0)
            elif op == 'merge':
                a, b = (O, D) if l['swap'] else (D, O)
                M = misc.merge_recursive(a, b, conflict=l['conflict'])
                if D != before:
                    got = ('mutated-operand', D)
                else:
                    # sub-dicts present in only one operand are shared by reference with the result (shallow copies in
                    # merge_recursive); the spec has value semantics, so the sharing is cut here (DESIGN 14.7)
                    D = copy.deepcopy(M)
                    got = ('ok', 0)
            elif op == 'flatten':
                f = misc.flatten(D, sep)
                got = ('ok', sorted((tuple(k.split(sep)), v) for k, v in f.items()))
            elif op == 'rebuild':
                x = {}
                misc.update_recursive(x, misc.flatten(D, sep), sep)
                got = ('ok', x)
            else:
                raise core.MachineryError('unknown Nested op %r' % op)
        except (KeyError, TypeError, ValueError) as e:
            got = ('err', type(e).__name__)
        if op == 'flatten':
            exp = ('ok', sorted((tuple(p), v) for p, v in l['res']))
        elif op == 'rebuild':
            exp = ('ok', py(l['res']))
        else:
            exp = res_of(l['res'])
            if op == 'get_default' and exp[0] == 'ok' and isinstance(l['res']['v'], dict) and l['res']['v'].get('t') == 'leaf':
                exp = ('ok', l['res']['v']['v'])
        ok, clause = got == exp, 'result'
        if ok and D != py(st['d']):
            ok, clause = False, 'tree-after'
        if ok and O != O_snap:
            ok, clause = False, 'second-operand-mutated'
        ctx.case(('nested', origin, n, repr(l)), action='Nested.' + op)
        if not ok:
            ctx.violation(dict(kind='replay', spec='Nested', op=op, clause=clause),
                          dict(step=n, d0=tlaval.to_jsonable(d0), o0=tlaval.to_jsonable(o0), hist=tlaval.to_jsonable(hist),
                               got=repr(got), expected=repr(exp), tree=repr(D), sep=sep, lead=lead))
            return False
    return True


def check(ctx):
    quick = ctx.tier == 'quick'
    ctx.rule = ('behaviours of spec/Nested.tla (every state of the exhaustive one-step run + -simulate) replayed on '
                'tenpy.tools.misc; case = step; result, tree after the step and both operands compared')
    ctx.assume('TLC', 'projection: Python nested dicts <-> spec trees', 'keys without separator characters')
    res, dump, d = tlc.mc('Nested', cfg(1, 1 if quick else 2, 1), dump=True, workers=8, coverage=False)
    ctx.add_mc('Nested', res)
    if res.violated:
        ctx.violation(dict(kind='mc', spec='Nested', invariant=res.violated[0]), dict(trace=tlaval.to_jsonable(res.error_trace)))
    n = 0
    for st in tlaval.iter_dump(dump):
        h = st['hist']
        if len(h) < 2:
            continue
        replay(ctx, h[0]['d'], h[0]['l']['o'], h[1:], 'mc%d' % n, variant=n + ctx.seed)
        n += 1
    ctx.trace_ok(n)
    shutil.rmtree(d, ignore_errors=True)
    ctx.notes['mc_states_with_step'] = n
    res, traces, d = tlc.simulate('Nested', cfg(10, 2, 2), num=400 if quick else 6000, depth=11, seed=ctx.seed + 11, workers=4)
    for j, tr in enumerate(traces):
        s0 = tr[0][1]
        replay(ctx, s0['d'], s0['o'], tr[-1][1]['hist'][1:], 'sim%d' % j, variant=j + ctx.seed)
        if j == 2:
            ctx.sample(dict(spec='Nested', d0=tlaval.to_jsonable(s0['d']), o0=tlaval.to_jsonable(s0['o']),
                            behaviour=tlaval.to_jsonable([x['l'] for x in tr[-1][1]['hist'][1:]])))
    ctx.trace_ok(len(traces))
    shutil.rmtree(d, ignore_errors=True)


if __name__ == '__main__':
    core.main_wrapper('X_nested', check)
