------------------------------- MODULE Dense -------------------------------
(* Dense tensors over Gaussian integers: the reference semantics ("what numpy would compute") of the
   tensor layer.  A tensor is [shape |-> <<d1, .., dr>>, val |-> flat sequence in C order].
   Axes are numbered from 1, indices along an axis from 0 (as in numpy). *)
EXTENDS Exact

Rank(t) == Len(t.shape)
Size(shape) == IProdSeq(shape)
Stride(shape, a) == IProdSeq(SubSeq(shape, a + 1, Len(shape)))
Unflat(n, shape) == [a \in 1..Len(shape) |-> (n \div Stride(shape, a)) % shape[a]]
Flat(idx, shape) == ISumSeq([a \in 1..Len(shape) |-> idx[a] * Stride(shape, a)])
At(t, idx) == t.val[Flat(idx, t.shape) + 1]
\* build from a function of the (0-based) index tuple
\* (`\o <<>>` turns TLC's lazily evaluated function constructor into an explicit tuple: without it the body is
\* re-evaluated at every application)
Mk(shape, f(_)) == [shape |-> shape, val |-> [n \in 1..Size(shape) |-> f(Unflat(n - 1, shape))] \o <<>>]
Indices(shape) == {Unflat(n, shape) : n \in 0..(Size(shape) - 1)}

TZeros(shape) == Mk(shape, LAMBDA idx : GZero)
TAdd(a, b) == [shape |-> a.shape, val |-> [n \in 1..Len(a.val) |-> GAdd(a.val[n], b.val[n])] \o <<>>]
TSub(a, b) == [shape |-> a.shape, val |-> [n \in 1..Len(a.val) |-> GSub(a.val[n], b.val[n])] \o <<>>]
TScale(z, a) == [shape |-> a.shape, val |-> [n \in 1..Len(a.val) |-> GMul(z, a.val[n])] \o <<>>]
TConj(a) == [shape |-> a.shape, val |-> [n \in 1..Len(a.val) |-> GConj(a.val[n])] \o <<>>]
TIsZero(a) == \A n \in 1..Len(a.val) : GIsZero(a.val[n])
TNorm2(a) == ISumSeq([n \in 1..Len(a.val) |-> GAbs2(a.val[n])])

\* numpy.transpose(t, perm): new axis a is old axis perm[a]
TTranspose(t, perm) ==
    LET sh == [a \in 1..Rank(t) |-> t.shape[perm[a]]]
    IN Mk(sh, LAMBDA idx : At(t, [b \in 1..Rank(t) |-> idx[CHOOSE a \in 1..Rank(t) : perm[a] = b]]))

\* numpy.reshape in C order
TReshape(t, shape) == [shape |-> shape, val |-> t.val]

\* numpy.tensordot(a, b, axes=(axa, axb)); axa, axb sequences of axes (1-based) of equal length
FreeAxes(r, ax) == LET S == {ax[i] : i \in 1..Len(ax)} IN
    LET RECURSIVE F(_)
        F(k) == IF k > r THEN <<>> ELSE IF k \in S THEN F(k + 1) ELSE <<k>> \o F(k + 1)
    IN F(1)
TTensordot(a, b, axa, axb) ==
    LET fa == FreeAxes(Rank(a), axa)
        fb == FreeAxes(Rank(b), axb)
        sh == [i \in 1..(Len(fa) + Len(fb)) |-> IF i <= Len(fa) THEN a.shape[fa[i]] ELSE b.shape[fb[i - Len(fa)]]]
        csh == [i \in 1..Len(axa) |-> a.shape[axa[i]]]
        \* position tables, computed once: >0 : position among contracted axes, <0 : -(position among free axes)
        pa == [k \in 1..Rank(a) |-> IF \E i \in 1..Len(axa) : axa[i] = k
                                    THEN CHOOSE i \in 1..Len(axa) : axa[i] = k
                                    ELSE -(CHOOSE i \in 1..Len(fa) : fa[i] = k)]
        pb == [k \in 1..Rank(b) |-> IF \E i \in 1..Len(axb) : axb[i] = k
                                    THEN CHOOSE i \in 1..Len(axb) : axb[i] = k
                                    ELSE -(Len(fa) + (CHOOSE i \in 1..Len(fb) : fb[i] = k))]
        cidx == [n \in 1..Size(csh) |-> Unflat(n - 1, csh)] \o <<>>
        IdxA(idx, c) == [k \in 1..Rank(a) |-> IF pa[k] > 0 THEN c[pa[k]] ELSE idx[-pa[k]]]
        IdxB(idx, c) == [k \in 1..Rank(b) |-> IF pb[k] > 0 THEN c[pb[k]] ELSE idx[-pb[k]]]
    IN Mk(sh, LAMBDA idx : GSumSeq([n \in 1..Size(csh) |->
              GMul(At(a, IdxA(idx, cidx[n])), At(b, IdxB(idx, cidx[n])))]))

TOuter(a, b) == TTensordot(a, b, <<>>, <<>>)

\* numpy.trace(t, axis1=x, axis2=y) -- result keeps the remaining axes in order
TTrace(t, x, y) ==
    LET fr == FreeAxes(Rank(t), <<x, y>>)
        sh == [i \in 1..Len(fr) |-> t.shape[fr[i]]]
    IN Mk(sh, LAMBDA idx : GSumSeq([n \in 1..t.shape[x] |->
              At(t, [k \in 1..Rank(t) |-> IF k = x \/ k = y THEN n - 1
                                          ELSE idx[CHOOSE i \in 1..Len(fr) : fr[i] = k]])]))

\* sum over all entries of conj(a)*b  /  a*b
TInner(a, b, doConj) == GSumSeq([n \in 1..Len(a.val) |-> GMul(IF doConj THEN GConj(a.val[n]) ELSE a.val[n], b.val[n])])

\* take index i along axis x (removes the axis)
TTake(t, x, i) ==
    LET fr == FreeAxes(Rank(t), <<x>>)
        sh == [k \in 1..Len(fr) |-> t.shape[fr[k]]]
    IN Mk(sh, LAMBDA idx : At(t, [k \in 1..Rank(t) |-> IF k = x THEN i ELSE idx[CHOOSE j \in 1..Len(fr) : fr[j] = k]]))

\* t[..., sel, ...] along axis x with sel a sequence of indices (numpy fancy indexing along one axis)
TSelect(t, x, sel) ==
    LET sh == [k \in 1..Rank(t) |-> IF k = x THEN Len(sel) ELSE t.shape[k]]
    IN Mk(sh, LAMBDA idx : At(t, [k \in 1..Rank(t) |-> IF k = x THEN sel[idx[k] + 1] ELSE idx[k]]))

\* scale along axis x by vector s (numpy broadcasting t * s[None, :, None])
TScaleAxis(t, x, s) == Mk(t.shape, LAMBDA idx : GMul(At(t, idx), s[idx[x] + 1]))

\* concatenate along axis x
TConcat(a, b, x) ==
    LET sh == [k \in 1..Rank(a) |-> IF k = x THEN a.shape[k] + b.shape[k] ELSE a.shape[k]]
    IN Mk(sh, LAMBDA idx : IF idx[x] < a.shape[x] THEN At(a, idx)
                           ELSE At(b, [k \in 1..Rank(a) |-> IF k = x THEN idx[k] - a.shape[x] ELSE idx[k]]))

\* matrix <-> rank-2 tensor
TFromMat(A) == [shape |-> <<NRows(A), NCols(A)>>, val |-> [n \in 1..(NRows(A) * NCols(A)) |->
                  A[((n - 1) \div NCols(A)) + 1][((n - 1) % NCols(A)) + 1]]]
TToMat(t) == [i \in 1..t.shape[1] |-> [j \in 1..t.shape[2] |-> t.val[(i - 1) * t.shape[2] + j]]]
=============================================================================
