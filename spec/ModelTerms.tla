----------------------------- MODULE ModelTerms -----------------------------
(* C10: what a tenpy CouplingModel *means*.
   A model is a lattice configuration plus a list of coupling declarations (the add_* calls of
   tenpy.models.model.CouplingModel).  Its meaning is H = sum of terms, an exact Gaussian-integer matrix
   on the dense Hilbert space of a finite window (the whole system for finite MPS boundary conditions,
   `cells` unit cells for infinite ones: all translated copies of the terms that fit into the window,
   which is what the documentation of ExactDiag.from_infinite_model / extract_segment defines).

   Operators are defined from first principles: a local operator is a table  state -> (state, coefficient);
   a fermionic operator (FermionSite C, Cd) acting on site k carries the sign (-1)^(number of fermions on
   the sites m < k), i.e. the Jordan-Wigner string of the documentation; a term is the *product* of its
   operators in the written order (first operator acts last).  Nothing here is ordered, combined or
   JW-transformed the way tenpy does it: that is the point.

   Two independent readings are given and model-checked against each other:
     operator view  : meaning(declaration) = M + M^dagger (if plus_hc)
     term-list view : explicit list of terms with the conjugate terms written out by the documented rule
                      (conjugate strength, reversed order, hc operator names)
   plus the derived representations the implementation offers (stored half + explicit_plus_hc flag,
   nearest-neighbour bond operators).  *)
EXTENDS Dense, TLC

-----------------------------------------------------------------------------
\* local Hilbert spaces.  Local(type)[name][s+1] = <<t, c>>  means  op|s> = c|t>   (c = 0: annihilated)
Zr == <<0, GZero>>
P(t) == <<t, GOne>>
M1(t) == <<t, <<-1, 0>>>>
LocalTable == [
  spin    |-> [Id |-> <<P(0), P(1)>>, JW |-> <<P(0), P(1)>>,
               Sigmaz |-> <<P(0), M1(1)>>, Sigmax |-> <<P(1), P(0)>>,
               Sigmay |-> <<<<1, GI>>, <<0, <<0, -1>>>>>>,
               Sp |-> <<Zr, P(0)>>, Sm |-> <<P(1), Zr>>],
  fermion |-> [Id |-> <<P(0), P(1)>>, JW |-> <<P(0), M1(1)>>,
               C |-> <<Zr, P(0)>>, Cd |-> <<P(1), Zr>>, N |-> <<Zr, P(1)>>],
  boson1  |-> [Id |-> <<P(0), P(1)>>, JW |-> <<P(0), P(1)>>,
               B |-> <<Zr, P(0)>>, Bd |-> <<P(1), Zr>>, N |-> <<Zr, P(1)>>, NN |-> <<Zr, P(1)>>],
  boson2  |-> [Id |-> <<P(0), P(1), P(2)>>, JW |-> <<P(0), P(1), P(2)>>,
               N |-> <<Zr, P(1), <<2, <<2, 0>>>>>>, NN |-> <<Zr, P(1), <<2, <<4, 0>>>>>>],
  \* BosonSite(Nmax=4): only the diagonal operators have integer entries
  boson4  |-> [Id |-> <<P(0), P(1), P(2), P(3), P(4)>>, JW |-> <<P(0), P(1), P(2), P(3), P(4)>>,
               N |-> <<Zr, P(1), <<2, <<2, 0>>>>, <<3, <<3, 0>>>>, <<4, <<4, 0>>>>>>,
               NN |-> <<Zr, P(1), <<2, <<4, 0>>>>, <<3, <<9, 0>>>>, <<4, <<16, 0>>>>>>] ]
Dim(type) == CASE type = "boson2" -> 3 [] type = "boson4" -> 5 [] OTHER -> 2
NeedsJW(type, name) == type = "fermion" /\ name \in {"C", "Cd"}
\* diagonal of the string operator 'JW' of a site
JWDiag(type) == IF type = "fermion" THEN <<1, -1>> ELSE [s \in 1..Dim(type) |-> 1]
HcName(name) == CASE name = "Sp" -> "Sm" [] name = "Sm" -> "Sp" [] name = "C" -> "Cd" [] name = "Cd" -> "C"
                  [] name = "B" -> "Bd" [] name = "Bd" -> "B" [] OTHER -> name

-----------------------------------------------------------------------------
\* terms:  [c |-> coefficient, ops |-> << <<name, site>>, ... >>, raw |-> BOOLEAN]
\*   raw = FALSE: physical product of (possibly fermionic) operators in the written order
\*   raw = TRUE : plain tensor product of the named local operators (distinct sites), no signs
RECURSIVE GSumFn(_, _)
GSumFn(f, n) == IF n = 0 THEN GZero ELSE GAdd(f[n], GSumFn(f, n - 1))
RECURSIVE IProdFn(_, _)
IProdFn(f, n) == IF n = 0 THEN 1 ELSE f[n] * IProdFn(f, n - 1)
RECURSIVE Pow(_, _)
Pow(b, n) == IF n = 0 THEN 1 ELSE b * Pow(b, n - 1)
RECURSIVE GPow(_, _)
GPow(z, n) == IF n = 0 THEN GOne ELSE GMul(z, GPow(z, n - 1))

\* TLC evaluates function constructors lazily and re-evaluates the body on every application;
\* TLCEval forces one level.  EvalSeq / EvalMat make values concrete once (semantically the identity).
EvalSeq(f) == TLCEval(f)
EvalMat(A) == TLCEval([r \in 1..NRows(A) |-> TLCEval(A[r])])
EvalTerm(t) == [c |-> t.c, raw |-> t.raw, ops |-> TLCEval(t.ops)]
EvalTerms(ts) == TLCEval([n \in 1..Len(ts) |-> EvalTerm(ts[n])])

StringSign(types, d, k) == IProdFn([m \in 1..(k - 1) |-> JWDiag(types[m])[d[m] + 1]], k - 1)

\* apply ops[n], then ops[n-1], ..., ops[1] to the basis state st = [d |-> digits, c |-> coefficient]
RECURSIVE ApplyOps(_, _, _, _, _)
ApplyOps(types, ops, n, st, raw) ==
    IF n = 0 \/ GIsZero(st.c) THEN st
    ELSE LET name == ops[n][1]
             k == ops[n][2] + 1
             loc == LocalTable[types[k]][name][st.d[k] + 1]
             sgn == IF ~raw /\ NeedsJW(types[k], name) THEN StringSign(types, st.d, k) ELSE 1
         IN ApplyOps(types, ops, n - 1, [d |-> [st.d EXCEPT ![k] = loc[1]], c |-> GMul(GScale(sgn, loc[2]), st.c)], raw)

DimsOf(types) == [i \in 1..Len(types) |-> Dim(types[i])]

\* image of basis state number s (0-based, C order = kron order) under a term: <<row, coefficient>>
TermCol(types, t, s) ==
    LET dims == TLCEval(DimsOf(types))
        r == ApplyOps(types, t.ops, Len(t.ops), [d |-> TLCEval(Unflat(s, dims)), c |-> t.c], t.raw)
    IN <<Flat(r.d, dims), r.c>>

\* dense matrix of a sequence of terms: column s is the sum of the images of basis state s
RECURSIVE AccCol(_, _, _, _)
AccCol(col, img, n, lo) ==      \* add the images img[lo+1 .. lo+n] = <<row, coef>> into the column vector
    IF n = 0 THEN col ELSE
    LET e == img[lo + n] IN AccCol(IF GIsZero(e[2]) THEN col ELSE [col EXCEPT ![e[1] + 1] = GAdd(@, e[2])], img, n - 1, lo)
DenseOfTerms(types, terms0) ==
    LET D == Size(DimsOf(types))
        terms == EvalTerms(terms0)
        T == Len(terms)
        tys == TLCEval(types)
        img == TLCEval([k \in 1..(D * T) |-> TermCol(tys, terms[((k - 1) % T) + 1], (k - 1) \div T)])
        zero == TLCEval([r \in 1..D |-> GZero])
        cols == TLCEval([s \in 1..D |-> TLCEval(AccCol(zero, img, T, (s - 1) * T))])
    IN TLCEval([r \in 1..D |-> TLCEval([s \in 1..D |-> cols[s][r]])])

\* conjugate term by the documented rule: conjugate strength, reverse the order, hc of each operator
HcTerm(t) == [c |-> GConj(t.c), raw |-> t.raw,
              ops |-> [k \in 1..Len(t.ops) |-> <<HcName(t.ops[Len(t.ops) + 1 - k][1]), t.ops[Len(t.ops) + 1 - k][2]>>]]

\* non-zero entries <<row, col, re, im>> (0-based), as a set: the compact form handed to the harness
\* (no recursion: matrices of a few hundred rows must not exhaust the evaluation stack)
Sparse(A) == [n |-> NRows(A),
              e |-> UNION {{<<r - 1, q - 1, A[r][q][1], A[r][q][2]>> : q \in {x \in 1..NCols(A) : ~GIsZero(A[r][x])}} :
                              r \in 1..NRows(A)}]

-----------------------------------------------------------------------------
\* lattice configuration  c = [name, Lx, Ly, bcx, bcy, mps, uc (Seq of site types), cells]
\* MPS order is the default order of Chain / Ladder / Square: x slowest, then y, then u.
Nu(c) == Len(c.uc)
Infinite(c) == c.mps = "infinite"
Sx(c) == IF Infinite(c) THEN c.Lx * c.cells ELSE c.Lx        \* extent of the window in x
OpenX(c) == Infinite(c) \/ c.bcx = "open"                     \* the window itself is open in x
NCell(c) == c.Lx * c.Ly * Nu(c)                                \* sites per MPS unit cell
NW(c) == Sx(c) * c.Ly * Nu(c)                                  \* sites in the window
Idx(c, x, y, u) == (x * c.Ly + y) * Nu(c) + u
TypesOf(c) == [i \in 1..NW(c) |-> c.uc[((i - 1) % Nu(c)) + 1]]

\* strength arrays: [shape |-> <<nx, ny>>, vals |-> flat C-order Seq of Gaussian integers]; smaller arrays are tiled
StrengthAt(s, ix, iy) == s.vals[(ix % s.shape[1]) * s.shape[2] + (iy % s.shape[2]) + 1]

IMinFn(f, n) == CHOOSE v \in {f[k] : k \in 1..n} : \A k \in 1..n : v <= f[k]
IMaxFn(f, n) == CHOOSE v \in {f[k] : k \in 1..n} : \A k \in 1..n : v >= f[k]

\* ---- add_onsite(strength, u, op): sum_x strength[x] op_(x,u)
OnsiteTerms(c, d) ==
    [n \in 1..(Sx(c) * c.Ly) |->
        LET x == (n - 1) \div c.Ly
            y == (n - 1) % c.Ly
        IN [c |-> StrengthAt(d.s, x % c.Lx, y), ops |-> <<<<d.op, Idx(c, x, y, d.u)>>>>, raw |-> FALSE]]

\* ---- add_coupling / add_multi_coupling: ops = << <<name, <<dx, dy>>, u>>, ... >>
\* sum over all positions of the bounding box of the dx's that fit into the lattice (open directions)
\* or over all positions modulo L (periodic directions); strength[b] belongs to box corner b.
BoxMin(d, a) == IMinFn([k \in 1..Len(d.ops) |-> d.ops[k][2][a]], Len(d.ops))
BoxMax(d, a) == IMaxFn([k \in 1..Len(d.ops) |-> d.ops[k][2][a]], Len(d.ops))
BoxExt(d, a) == BoxMax(d, a) - BoxMin(d, a)
NBoxX(c, d) == IF OpenX(c) THEN IMax(0, Sx(c) - BoxExt(d, 1)) ELSE c.Lx
NBoxY(c, d) == IF c.bcy = "open" THEN IMax(0, c.Ly - BoxExt(d, 2)) ELSE c.Ly
ShapeX(c, d) == IF c.bcx = "open" THEN c.Lx - BoxExt(d, 1) ELSE c.Lx      \* coupling_shape of the documentation
ShapeY(c, d) == IF c.bcy = "open" THEN c.Ly - BoxExt(d, 2) ELSE c.Ly
WrapX(c, x) == IF OpenX(c) THEN x ELSE x % c.Lx
WrapY(c, y) == IF c.bcy = "open" THEN y ELSE y % c.Ly

\* shifted periodic boundary in y (c.shift, lattice bc = ['periodic', shift]): a position that leaves the lattice
\* w times across the y boundary re-enters displaced by -w * shift along x
CouplingSites(c, d, bx, by) ==
    [k \in 1..Len(d.ops) |->
        LET rawy == by + d.ops[k][2][2] - BoxMin(d, 2)
            wy == IF c.bcy = "open" THEN 0 ELSE rawy \div c.Ly
        IN Idx(c, WrapX(c, bx + d.ops[k][2][1] - BoxMin(d, 1) - wy * c.shift), WrapY(c, rawy), d.ops[k][3])]

RECURSIVE RangeSeq(_, _)
RangeSeq(a, b) == IF a > b THEN <<>> ELSE <<a>> \o RangeSeq(a + 1, b)

CouplingTermAt(c, d, bx, by) ==
    LET sites == CouplingSites(c, d, bx, by)
        coef == StrengthAt(d.s, bx % ShapeX(c, d), by % ShapeY(c, d))
    IN IF d.str = "auto"
       THEN [c |-> coef, ops |-> [k \in 1..Len(d.ops) |-> <<d.ops[k][1], sites[k]>>], raw |-> FALSE]
       ELSE \* explicit operator string between the two sites: a plain tensor product
            LET lo == IMin(sites[1], sites[2])
                hi == IMax(sites[1], sites[2])
                mid == RangeSeq(lo + 1, hi - 1)
            IN [c |-> coef, raw |-> TRUE,
                ops |-> <<<<d.ops[1][1], sites[1]>>, <<d.ops[2][1], sites[2]>>>>
                        \o [m \in 1..Len(mid) |-> <<d.str, mid[m]>>]]

CouplingTerms(c, d) ==
    LET nx == NBoxX(c, d)
        ny == NBoxY(c, d)
    IN [n \in 1..(nx * ny) |-> CouplingTermAt(c, d, (n - 1) \div ny, (n - 1) % ny)]

\* ---- add_exponentially_decaying_coupling(strength, lambda, op_i, op_j, subsites):
\*      strength * sum_{a < b} lambda^(b - a) A_{S[a]} B_{S[b]},  S = subsites repeated in every unit cell
\* lambda = lam / lamInv (lam a Gaussian integer: complex decay rates) and strength = s0 * lamInv^dmax with
\* dmax >= the largest distance, so everything is a Gaussian integer
SubsAll(c, d) == IF d.subs = <<>> THEN [i \in 1..NCell(c) |-> i - 1] ELSE d.subs
SubsWindow(c, d) ==
    LET S == SubsAll(c, d)
        reps == IF Infinite(c) THEN c.cells ELSE 1
    IN [n \in 1..(reps * Len(S)) |-> S[((n - 1) % Len(S)) + 1] + ((n - 1) \div Len(S)) * NCell(c)]
ExpDecayTerms(c, d) ==
    LET SW == SubsWindow(c, d)
        m == Len(SW)
        np == (m * (m - 1)) \div 2
        \* pair number n -> (a, b), a < b, enumerated by b then a
        PairB(n) == CHOOSE b \in 2..m : ((b - 1) * (b - 2)) \div 2 < n /\ n <= (b * (b - 1)) \div 2
        PairA(n) == n - ((PairB(n) - 1) * (PairB(n) - 2)) \div 2
    IN [n \in 1..np |->
          [c |-> GMul(GScale(Pow(d.lamInv, d.dmax - (PairB(n) - PairA(n))), d.s0), GPow(d.lam, PairB(n) - PairA(n))), raw |-> FALSE,
           ops |-> <<<<d.opi, SW[PairA(n)]>>, <<d.opj, SW[PairB(n)]>>>>]]

\* ---- add_exponentially_decaying_centered_terms(strength, lambda, op_i, op_j, i): finite systems,
\*      strength * sum_{j # i} lambda^|a(i) - a(j)| A_i B_j   (a = position within the subsites; bosonic operators)
ExpCenterTerms(c, d) ==
    LET S == SubsAll(c, d)
        ai == CHOOSE a \in 1..Len(S) : S[a] = d.i0
        others == SelectSeq([a \in 1..Len(S) |-> a], LAMBDA a : a # ai)
    IN [n \in 1..Len(others) |->
          LET dist == IAbs(others[n] - ai)
          IN [c |-> GMul(GScale(Pow(d.lamInv, d.dmax - dist), d.s0), GPow(d.lam, dist)), raw |-> FALSE,
              ops |-> <<<<d.opi, d.i0>>, <<d.opj, S[others[n]]>>>>]]

\* ---- add_local_term(strength, [(op, (x, y, u)), ...]): one term (and its translates in an infinite system)
LocalTermTerms(c, d) ==
    LET nops == Len(d.term)
        maxx == IMaxFn([k \in 1..nops |-> d.term[k][2][1]], nops)
        reps == IF Infinite(c) THEN IMax(0, ((Sx(c) - 1 - maxx) \div c.Lx) + 1) ELSE 1
    IN [t \in 1..reps |->
          [c |-> d.s, raw |-> FALSE,
           ops |-> [k \in 1..nops |-> <<d.term[k][1],
                       Idx(c, d.term[k][2][1] + (t - 1) * c.Lx, d.term[k][2][2], d.term[k][2][3])>>]]]

\* terms a declaration stands for, without the "+ h.c." part
BaseTerms(c, d) == EvalTerms(CASE d.kind = "onsite" -> OnsiteTerms(c, d)
                                  [] d.kind \in {"coupling", "multi"} -> CouplingTerms(c, d)
                                  [] d.kind = "expdecay" -> ExpDecayTerms(c, d)
                                  [] d.kind = "expcenter" -> ExpCenterTerms(c, d)
                                  [] d.kind = "local" -> LocalTermTerms(c, d))

\* term-list view: conjugates written out
FullTerms(c, d) == LET b == BaseTerms(c, d) IN IF d.hc THEN b \o EvalTerms([n \in 1..Len(b) |-> HcTerm(b[n])]) ELSE b
RECURSIVE AllTerms(_, _, _)
AllTerms(c, ds, n) == IF n = 0 THEN <<>> ELSE AllTerms(c, ds, n - 1) \o FullTerms(c, ds[n])

\* operator view
DeclBaseOp(c, d) == DenseOfTerms(TypesOf(c), BaseTerms(c, d))
DeclOp(c, d) == LET M == DeclBaseOp(c, d) IN IF d.hc THEN EvalMat(MAdd(M, MDagger(M))) ELSE M
\* what a model with explicit_plus_hc = True stores (times 2, to stay integer): H = G + G^dagger, 2G = G2
DeclStored2(c, d) == LET M == DeclBaseOp(c, d) IN IF d.hc THEN EvalMat(MScale(<<2, 0>>, M)) ELSE M

-----------------------------------------------------------------------------
\* nearest-neighbour form.  h_b acts on sites (b-1, b); onsite terms are split half/half between the two
\* adjacent bonds, except at the ends of a finite chain.  Everything times 2.
TermSites(t) == {t.ops[k][2] : k \in 1..Len(t.ops)}
TermRange(t) == LET S == TermSites(t) IN (CHOOSE a \in S : \A b \in S : a >= b) - (CHOOSE a \in S : \A b \in S : a <= b)
TermMin(t) == LET S == TermSites(t) IN CHOOSE a \in S : \A b \in S : a <= b
IsNNTerms(terms) == \A n \in 1..Len(terms) : TermRange(terms[n]) <= 1

\* share (in halves) of an onsite term on site j that goes to bond (b-1, b) of a finite chain of L sites
OnsiteShare2(L, j, b) ==
    IF j = b - 1 THEN (IF j = 0 THEN 2 ELSE 1)             \* left site of the bond; site 0 has no other bond
    ELSE IF j = b THEN (IF j = L - 1 THEN 2 ELSE 1)        \* right site of the bond; site L-1 has no other bond
    ELSE 0

RECURSIVE SelTerms(_, _, _, _)
SelTerms(terms, n, rng, mn) == IF n = 0 THEN <<>> ELSE
    SelTerms(terms, n - 1, rng, mn) \o (IF TermRange(terms[n]) = rng /\ TermMin(terms[n]) = mn THEN <<terms[n]>> ELSE <<>>)

\* 2 h_b as a dense two-site operator, for a finite chain (window) with L = NW sites
Bond2Finite(c, terms, b) ==
    LET L == NW(c)
        types2 == <<TypesOf(c)[b], TypesOf(c)[b + 1]>>
        Shift(t, w) == [c |-> GScale(w, t.c), raw |-> t.raw,
                        ops |-> [k \in 1..Len(t.ops) |-> <<t.ops[k][1], t.ops[k][2] - (b - 1)>>]]
        two == SelTerms(terms, Len(terms), 1, b - 1)
        oneL == SelTerms(terms, Len(terms), 0, b - 1)
        oneR == SelTerms(terms, Len(terms), 0, b)
    IN DenseOfTerms(types2,
          [n \in 1..Len(two) |-> Shift(two[n], 2)]
          \o [n \in 1..Len(oneL) |-> Shift(oneL[n], OnsiteShare2(L, b - 1, b))]
          \o [n \in 1..Len(oneR) |-> Shift(oneR[n], OnsiteShare2(L, b, b))])

\* embedding of a two-site operator on sites (b-1, b) into the window (even fermion parity: plain kron)
EmbedBond(c, h, b) ==
    LET dims == DimsOf(TypesOf(c))
        dl == IProdFn([i \in 1..(b - 1) |-> dims[i]], b - 1)
        dr == IProdFn([i \in 1..(NW(c) - b - 1) |-> dims[b + 1 + i]], NW(c) - b - 1)
    IN EvalMat(MKron(EvalMat(MId(dl)), EvalMat(MKron(h, EvalMat(MId(dr))))))

RECURSIVE BondSum2(_, _, _)
BondSum2(c, terms, b) == IF b = 0 THEN MZero(Size(DimsOf(TypesOf(c))), Size(DimsOf(TypesOf(c))))
                         ELSE EvalMat(MAdd(BondSum2(c, terms, b - 1), EmbedBond(c, Bond2Finite(c, terms, b), b)))

\* infinite: bond b of the unit cell, sites (b-1, b) with b in 1..NCell (site NCell = site 0 of the next cell);
\* evaluated inside a window of >= 2 cells where every bond has both neighbours: shares are always 1/2
Bond2Infinite(c, terms, b) ==
    LET types2 == <<TypesOf(c)[b], TypesOf(c)[b + 1]>>
        Shift(t, w) == [c |-> GScale(w, t.c), raw |-> t.raw,
                        ops |-> [k \in 1..Len(t.ops) |-> <<t.ops[k][1], t.ops[k][2] - (b - 1)>>]]
        two == SelTerms(terms, Len(terms), 1, b - 1)
        oneL == SelTerms(terms, Len(terms), 0, b - 1)
        oneR == SelTerms(terms, Len(terms), 0, b)
    IN DenseOfTerms(types2,
          [n \in 1..Len(two) |-> Shift(two[n], 2)] \o [n \in 1..Len(oneL) |-> Shift(oneL[n], 1)]
          \o [n \in 1..Len(oneR) |-> Shift(oneR[n], 1)])

\* ---- extract_segment(first, last): the terms that lie completely inside the sites first..last (0-based)
RECURSIVE TermsInside(_, _, _, _)
TermsInside(terms, n, first, last) ==
    IF n = 0 THEN <<>> ELSE
    TermsInside(terms, n - 1, first, last)
    \o (IF \A k \in 1..Len(terms[n].ops) : first <= terms[n].ops[k][2] /\ terms[n].ops[k][2] <= last
        THEN <<[c |-> terms[n].c, raw |-> terms[n].raw,
                ops |-> [k \in 1..Len(terms[n].ops) |-> <<terms[n].ops[k][1], terms[n].ops[k][2] - first>>]]>>
        ELSE <<>>)
SegmentOp(c, terms, first, last) ==
    DenseOfTerms(SubSeq(TypesOf(c), first + 1, last + 1), TermsInside(terms, Len(terms), first, last))

-----------------------------------------------------------------------------
\* charge conservation of an operator: every non-zero entry connects basis states of equal charge
\* charge of a local state:  spin Sz: up=+1, down=-1 (2*Sz);  fermion/boson N: occupation;  parity: N mod 2
LocalCharge(type, s, what) ==
    CASE what = "Sz" -> (IF type = "spin" THEN 1 - 2 * s ELSE 0)
      [] what = "N" -> (IF type = "spin" THEN 0 ELSE s)
      [] what = "parity" -> (IF type = "spin" THEN s ELSE s % 2)
StateCharge(types, s, what) ==
    LET d == Unflat(s, DimsOf(types)) IN ISumSeq([i \in 1..Len(types) |-> LocalCharge(types[i], d[i], what)])
\* charge carried by a named local operator (99: the operator has no definite charge)
OpCharge(type, name, what) ==
    LET tab == LocalTable[type][name]
        Q == {LocalCharge(type, tab[s][1], what) - LocalCharge(type, s - 1, what) : s \in {x \in 1..Len(tab) : ~GIsZero(tab[x][2])}}
        Qm == IF what = "parity" THEN {q % 2 : q \in Q} ELSE Q
    IN IF Cardinality(Qm) = 1 THEN CHOOSE q \in Qm : TRUE ELSE 99
\* every operator of the term has a definite charge and the charges add up to zero
TermConserves(types, t, what) ==
    LET q == [k \in 1..Len(t.ops) |-> OpCharge(types[t.ops[k][2] + 1], t.ops[k][1], what)]
    IN /\ \A k \in 1..Len(t.ops) : q[k] # 99
       /\ (IF what = "parity" THEN ISumSeq(q) % 2 = 0 ELSE ISumSeq(q) = 0)
Conserves(types, A, what) ==
    \A r \in 1..NRows(A) : \A s \in 1..NCols(A) :
        GIsZero(A[r][s]) \/ (IF what = "parity"
                             THEN (StateCharge(types, r - 1, what) - StateCharge(types, s - 1, what)) % 2 = 0
                             ELSE StateCharge(types, r - 1, what) = StateCharge(types, s - 1, what))

=============================================================================
