"""C04: rebuild tenpy/linalg/_npc_helper from the CURRENT _npc_helper.pyx of the tree under test and
make the interpreter use that binary instead of whatever stale .so lies in the tree.

The build happens in a scratch copy outside /repo and /verif/spec (under /verif/build), is cached by
the content hash of the inputs and takes ~45 s; nothing is written into the repository."""
import hashlib
import importlib.abc
import importlib.machinery
import importlib.util
import os
import shutil
import subprocess
import sys

VERIF = os.path.dirname(os.path.dirname(os.path.abspath(__file__)))
CACHE = os.path.join(VERIF, 'build', 'ext')
INPUTS = ['setup.py', 'tenpy/linalg/_npc_helper.pyx', 'tenpy/linalg/_cblas_mkl.pxd']


def content_hash(repo):
    h = hashlib.sha256()
    for rel in INPUTS:
        p = os.path.join(repo, rel)
        h.update(rel.encode())
        if os.path.exists(p):
            with open(p, 'rb') as f:
                h.update(f.read())
    import numpy
    import Cython
    h.update(('%s|%s|%s' % (sys.version, numpy.__version__, Cython.__version__)).encode())
    return h.hexdigest()[:20]


def build(repo):
    """Return the path of an extension module built from repo's current .pyx (cached)."""
    key = content_hash(repo)
    outdir = os.path.join(CACHE, key)
    if os.path.isdir(outdir):
        sos = [f for f in os.listdir(outdir) if f.startswith('_npc_helper') and f.endswith('.so')]
        if sos:
            return os.path.join(outdir, sos[0])
    work = os.path.join(CACHE, 'work-%s-%d' % (key, os.getpid()))
    shutil.rmtree(work, ignore_errors=True)
    os.makedirs(os.path.join(work, 'tenpy', 'linalg'))
    try:
        for rel in INPUTS:
            src = os.path.join(repo, rel)
            if os.path.exists(src):
                shutil.copy(src, os.path.join(work, rel))
        open(os.path.join(work, 'tenpy', '__init__.py'), 'w').close()
        open(os.path.join(work, 'tenpy', 'linalg', '__init__.py'), 'w').close()
        env = dict(os.environ)
        env.pop('TENPY_OPTIMIZE', None)
        env.pop('CONDA_PREFIX', None)
        env['HAVE_MKL'] = '0'
        p = subprocess.run([sys.executable, 'setup.py', 'build_ext', '--inplace'], cwd=work, env=env,
                           stdout=subprocess.PIPE, stderr=subprocess.STDOUT, text=True, timeout=1200)
        sos = [f for f in os.listdir(os.path.join(work, 'tenpy', 'linalg')) if f.endswith('.so')]
        if p.returncode != 0 or not sos:
            raise RuntimeError('building _npc_helper failed:\n' + p.stdout[-3000:])
        os.makedirs(outdir, exist_ok=True)
        shutil.copy(os.path.join(work, 'tenpy', 'linalg', sos[0]), os.path.join(outdir, sos[0]))
        return os.path.join(outdir, sos[0])
    finally:
        shutil.rmtree(work, ignore_errors=True)


class _Finder(importlib.abc.MetaPathFinder):
    def __init__(self, so):
        self.so = so

    def find_spec(self, fullname, path, target=None):
        if fullname == 'tenpy.linalg._npc_helper':
            loader = importlib.machinery.ExtensionFileLoader(fullname, self.so)
            return importlib.util.spec_from_file_location(fullname, self.so, loader=loader)
        return None


def install_finder(so):
    """Call before `import tenpy`: tenpy.linalg._npc_helper is then loaded from `so`."""
    if 'tenpy' in sys.modules:
        raise RuntimeError('install_finder must be called before tenpy is imported')
    sys.meta_path.insert(0, _Finder(so))


if __name__ == '__main__':
    print(build(sys.argv[1] if len(sys.argv) > 1 else '/repo'))
