"""C17: saving and loading reproduces an equal object.

Stages
  MC      spec/Hdf5.tla: all object graphs up to a bound are built (DFS construction through Next), saved
          (Hdf5Saver.save, one action per call) and loaded (Hdf5Loader.load); invariants: the file mirrors
          the graph, Load(Save(g)) ~ g exactly unless a hard link to a tuple under construction is followed
          (documented exception; known defect: a pickle-style state_setter makes the loader return None), bounded
          work (termination), sharing; a witness run with the pre-fix save_reduce protocol must violate RoundTripPlain.
  REPLAY  every graph TLC finished (PrintT record of the Judge action) is built as a real Python object
          graph, saved with tenpy.tools.hdf5_io.save_to_hdf5 into an h5py file (and with pickle), loaded
          back; compared with the spec: sequence of save()/load() calls (interposition on Hdf5Saver.save /
          Hdf5Loader.load), file structure (which paths are hard links to the same HDF5 object, type/len
          attributes), the loaded graph (isomorphism incl. `is`-identity), the raised/not-raised flag.
  CLASS   every class offering HDF5 export (reflection) : generated instances are round-tripped through
          HDF5 (each LegCharge format) and pickle; see checks/c17.py::class_layer.
"""
import json
import os
import pickle
import re
import shutil
import time
import warnings

import numpy as np

from harness import core, tlc, tlaval
from harness import objgraph as og

SPEC = 'Hdf5'
INVARIANTS = ['FileMirrorsGraph', 'FileNoAliasing', 'RoundTrip', 'ErrOnlyTupleCycle', 'AcyclicTuplesFine', 'BoundedWork', 'SharingPreserved']
CORE_LEAVES = {'none', 'box'}
ALL_CONT = {'list', 'tuple', 'set', 'sdict', 'gdict', 'inst'}


def cfg(kinds, N, E, deg=2, pairs=1, nkeys=2, fixed=True, emit=True, rvars=(1, 2, 3, 4, 5), globs=(0,), roots=None, invariants=None):
    return dict(spec='Spec', check_deadlock=True, invariants=invariants or INVARIANTS,
                constants=dict(MaxNodes=N, MaxEdges=E, MaxDeg=deg, MaxPairs=pairs, NKeys=nkeys, Kinds=set(kinds), RootKinds=set(roots or kinds),
                               IntVals={0, 1}, GlobVals=set(globs), RVariants=set(rvars), ReduceFixed=fixed,
                               SetterFixed=setter_model(), Emit=emit))


RKINDS = {'reduce', 'glob', 'tuple', 'sdict', 'box'}


_SETTER_MODEL = []


def setter_model():
    """Which of the two modelled behaviours of load_reduce with a state_setter does the tree under test have?
    FALSE: `obj = state_setter(obj, state)` (the loaded object is the setter's return value, None for a setter that
    follows the pickle protocol; known finding C17-reduce-state-setter, reported for every such graph);
    TRUE: the repaired loader, which ignores the return value.  Decided by one behavioural probe so that the check
    is bound to either tree; once the finding is marked fixed the defective behaviour is a VIOLATION again."""
    if not _SETTER_MODEL:
        import h5py
        from tenpy.tools import hdf5_io
        o = og.RObj()
        o._variant = 5
        o.a = 1
        d = tlc.scratch('c17-setter')
        try:
            with warnings.catch_warnings():
                warnings.simplefilter('ignore')
                with h5py.File(os.path.join(d, 's.h5'), 'w') as f:
                    hdf5_io.save_to_hdf5(f, o, 'x')
                with h5py.File(os.path.join(d, 's.h5'), 'r') as f:
                    back = hdf5_io.load_from_hdf5(f, 'x')
        finally:
            shutil.rmtree(d, ignore_errors=True)
        _SETTER_MODEL.append(back is not None)
    return _SETTER_MODEL[0]


def mc_configs(tier):
    """(name, cfg, replay share): exhaustive runs"""
    q = tier == 'quick'
    out = [
        ('core4', cfg({'none', 'box', 'list', 'tuple'}, 4, 4 if q else 5), 1),
        ('cont3', cfg(({'box'} if q else CORE_LEAVES) | ALL_CONT, 3, 3 if q else 4), 1),
        ('leaf3', cfg({'none', 'int', 'box', 'arr', 'dtype', 'glob', 'range', 'list', 'tuple', 'set', 'gdict'}, 3, 3 if q else 4,
                      globs=(0, 1)), 1),
        # objects saved through __reduce__: state / listitems / dictitems / state_setter
        ('reduce', cfg(RKINDS, 5 if q else 6, 5 if q else 6, roots={'reduce'}, globs=(0, 2)), 1),
    ]
    if not q:
        out.append(('core5', cfg({'box', 'list', 'tuple'}, 5, 5), 1))
    return out


def witness_old_protocol(ctx):
    """non-vacuity of RoundTrip: under the save_reduce protocol as it was before fix a37a275 (ReduceFixed = FALSE)
    TLC must find a graph violating the plain round-trip theorem"""
    c = cfg(RKINDS, 4, 4, roots={'reduce'}, fixed=False, emit=False, rvars=(1, 2, 3, 4), invariants=['RoundTripPlain'])
    res = run_tlc(ctx, 'reduce-old-protocol', c)
    hit = 'RoundTripPlain' in res.violated
    g = res.error_trace[-1][1].get('g') if res.error_trace else None
    ctx.notes['witness_old_save_reduce'] = dict(violates_RoundTripPlain=hit, states=res.distinct,
                                                counterexample_graph=tlaval.to_jsonable(g))
    if not hit:
        raise core.MachineryError('witness run: the old save_reduce protocol no longer violates RoundTripPlain (vacuous invariant?)')


_NOISE = re.compile(r'^(Progress\(|Checkpointing|Finished|Computing|Computed|Warning|TLC |Starting|Implied|Semantic|Parsing|Linting)')


def final_records(stdout):
    """the records printed by the Judge action: `<< "C17FINAL", [...] >>`, pretty-printed over several lines;
    other TLC messages may be interleaved line-wise"""
    lines = stdout.split('\n')
    i, n = 0, len(lines)
    while i < n:
        if not lines[i].startswith('<< "C17FINAL",'):
            i += 1
            continue
        buf, bal, j = [], 0, i
        while j < n:
            ln = lines[j]
            if j > i and not ln[:1].isspace():
                if _NOISE.match(ln) or ln == '':
                    j += 1
                    continue
                break
            buf.append(ln)
            bal += ln.count('<<') - ln.count('>>')
            j += 1
            if bal == 0:
                break
        txt = '\n'.join(buf)
        if bal != 0:
            dbg = os.path.join(tlc.BUILD, 'c17-truncated-record.txt')
            with open(dbg, 'w') as f:
                f.write('\n'.join(lines[max(0, i - 3):j + 5]))
            raise core.MachineryError('truncated C17FINAL record (context written to %s)' % dbg)
        yield tlaval.parse_value(txt)[1]
        i = j


def run_tlc(ctx, name, c, mode='mc', num=0, depth=0):
    d = tlc.scratch('c17-' + name)
    try:
        cfgp = tlc.write_cfg(os.path.join(d, SPEC + '.cfg'), **c)
        spec = os.path.join(tlc.SPEC_DIR, SPEC + '.tla')
        if mode == 'mc':
            res = tlc.run(spec, cfgp, workers=8, coverage=True, timeout=3000)
            tlc.require_clean(res, name)
            tlc.name_coverage(res, spec)
        else:
            res = tlc.run(spec, cfgp, workers=4, simulate=dict(num=num), depth=depth, seed=ctx.seed + 17, timeout=3000)
            tlc.require_clean(res, name + ' (simulate)')
    finally:
        shutil.rmtree(d, ignore_errors=True)
    return res


# ------------------------------------------------------------------------------------------------
# replay of one graph
# ------------------------------------------------------------------------------------------------
class Scratch:
    def __init__(self):
        self.dir = tlc.scratch('c17-files')
        self.n = 0

    def h5(self):
        self.n += 1
        return os.path.join(self.dir, 'g%d.h5' % (self.n % 4))

    def close(self):
        shutil.rmtree(self.dir, ignore_errors=True)


def graph_feature(g, objs):
    vs = {nd['v'] for nd in g if nd['k'] == 'reduce'}
    if 5 in vs:
        return 'reduce-state-setter'    # known finding: the loader returns the return value of the setter
    if vs:
        return 'reduce'
    return 'containers'


def expected_type_fn(g, objs):
    def f(sr):
        t = sr['t']
        if t == 'none':
            return {'None'}
        if t == 'int':
            return {'int'}
        if t == 'arr':
            return {'array'}
        if t == 'dtype':
            return {'dtype'}
        if t == 'glob':
            return {'class'} if g[sr['n'] - 1]['v'] == 0 else {'function'}
        if t == 'box':
            o = objs[sr['n']]
            if type(o) is int:
                return {'int', 'int_as_str'}
            return {og.BOX_REPR[type(o)]}
        return {t}
    return f


def replay_graph(ctx, rec, scratch, idx, origin, style=None, corrupt=False, table=None, force=None):
    """returns True if the real code behaved as the spec predicts"""
    import h5py
    from tenpy.tools import hdf5_io
    g = rec['g']
    hasset = any(nd['k'] in ('set', 'gdict') or (nd['k'] == 'reduce' and nd['v'] == 4) for nd in g)
    if style is None:
        style = og.BOX_STYLES[(idx + ctx.seed) % len(og.BOX_STYLES)]
    same = (not hasset) and ((idx // 3 + ctx.seed) % 4 == 0)
    if force:
        style, same = force['style'], force['same']
    try:
        objs = og.build(g, style, same)
    except og.NotConstructible as e:
        ctx.notes['graphs_not_constructible'] = ctx.notes.get('graphs_not_constructible', 0) + 1
        return None
    if any(nd['k'] == 'set' for nd in g):
        # the iteration order of a python set is not ours to choose: take the spec's prediction for the graph
        # that was actually built (same graph, set elements in python's order)
        g2, _, objs2 = og.describe(objs[1], with_objs=True)
        k2 = og.graph_key(g2)
        if k2 != og.graph_key(g):
            rec = table.get(k2) if table is not None else None
            if rec is None:
                ctx.notes['set_order_not_in_enumeration'] = ctx.notes.get('set_order_not_in_enumeration', 0) + 1
                return None
            g = rec['g']
        objs = objs2        # node numbers follow python's iteration order of the sets
    fo, lk, h = rec['fo'], [list(x) for x in rec['lk']], rec['h']
    feature = graph_feature(g, objs)
    base = 'x' if (g[0]['k'] in ('none', 'int', 'box', 'arr', 'glob') or (idx + ctx.seed) % 2) else '/'
    if force:
        base = force['base']
    detail = dict(origin=origin, g=tlaval.to_jsonable(g), style=style, same=same, base=base,
                  spec=dict(fo=tlaval.to_jsonable(fo), lk=tlaval.to_jsonable(lk), h=tlaval.to_jsonable(h), hroot=rec['hroot'],
                            err=rec['err'], ok=rec['ok'], tback=rec['tback'], hist=tlaval.to_jsonable(rec['hist'])))
    key = json.dumps([detail['g'], style, same, base], sort_keys=True)

    def sig(clause, medium='hdf5'):
        return dict(kind='replay', spec=SPEC, layer='graph', clause=clause, medium=medium, feature=feature)

    root = objs[1]
    mt0 = og.Matcher(g, lambda nd, n: objs[n])
    if mt0.match(1, root) is None:
        raise core.MachineryError('builder does not produce the spec graph: %s %r' % (mt0.why, g))
    ctx.case(key, action='Hdf5.roundtrip')
    ssave, sload = og.spec_events(rec['hist'])
    if corrupt:  # canary: corrupt one predicted value
        h = [dict(x) for x in h]
        h[rec['hroot'] - 1]['k'] = 'tuple' if h[rec['hroot'] - 1]['k'] != 'tuple' else 'list'
    fn = scratch.h5()
    # ---- save
    with og.Recorder(base) as rcd:
        with warnings.catch_warnings():
            warnings.simplefilter('ignore')
            try:
                with h5py.File(fn, 'w') as f:
                    hdf5_io.save_to_hdf5(f, root, base)
                    psave = rcd.take()
                    recs, links = og.project_file(f[base])
            except Exception as e:
                detail.update(got='save raised %s: %s' % (type(e).__name__, e))
                ctx.violation(sig('save-raises'), detail)
                return False
            for op, _ in psave:
                ctx.replay_actions['Save.' + op] = ctx.replay_actions.get('Save.' + op, 0) + 1
            if psave != ssave:
                detail.update(got=dict(save_calls=psave), expected=dict(save_calls=ssave))
                ctx.violation(sig('save-call-sequence'), detail)
                return False
            why = og.compare_file(fo, lk, recs, links, expected_type_fn(g, objs))
            if why:
                detail.update(got=dict(file=recs, links=sorted(links)), why=why)
                ctx.violation(sig('file-structure'), detail)
                return False
            if mt0.match(1, root) is None:
                detail.update(why='saving changed the object: ' + str(mt0.why))
                ctx.violation(sig('save-mutates'), detail)
                return False
            # ---- load
            raised = None
            loaded = None
            try:
                with h5py.File(fn, 'r') as f:
                    loaded = hdf5_io.load_from_hdf5(f, None if base == '/' else base)
            except Exception as e:
                raised = '%s: %s' % (type(e).__name__, e)
            pload = rcd.take()
    for op, _ in pload:
        ctx.replay_actions['Load.' + op] = ctx.replay_actions.get('Load.' + op, 0) + 1
    if bool(raised) != bool(rec['err']):
        detail.update(got=dict(raised=raised), expected=dict(raised=rec['err']))
        ctx.violation(sig('load-raises'), detail)
        return False
    if rec['err']:
        okev = pload == sload[:len(pload)] and len(pload) >= len(sload) - 1
    else:
        okev = pload == sload
    if not okev:
        detail.update(got=dict(load_calls=pload), expected=dict(load_calls=sload))
        ctx.violation(sig('load-call-sequence'), detail)
        return False
    good = True
    if not rec['err']:
        mt = og.Matcher(h, lambda nd, n: objs[nd['src']])
        if mt.match(rec['hroot'], loaded) is None:
            detail.update(why=mt.why, got=og._short(loaded))
            ctx.violation(sig('loaded-graph'), detail)
            return False
        same_g, why = og.same_graph(root, loaded)
        if same_g != rec['ok']:
            raise core.MachineryError('spec verdict ok=%r but python comparison of original and loaded says %r (%s): %r'
                                      % (rec['ok'], same_g, why, g))
    # ---- the property itself: outside the documented exception the round trip must be exact
    if not rec['ok'] and not rec['tback']:
        d2 = dict(detail)
        d2.update(why='real code reproduces the spec-predicted loss: loaded object differs from the saved one'
                  if not rec['err'] else 'real code raises while loading: ' + str(raised))
        ctx.violation(dict(kind='roundtrip', spec=SPEC, layer='graph', clause='load(save(g)) == g', medium='hdf5',
                           feature=feature), d2)
        good = False
    # ---- pickle: always exact
    try:
        back = pickle.loads(pickle.dumps(root))
        mtp = og.Matcher(g, lambda nd, n: objs[n], box_identity=False)
        if mtp.match(1, back) is None:
            detail.update(why=mtp.why)
            ctx.violation(sig('loaded-graph', 'pickle'), detail)
            return False
    except Exception as e:
        detail.update(why='pickle raised %s: %s' % (type(e).__name__, e))
        ctx.violation(sig('pickle-raises', 'pickle'), detail)
        return False
    ctx.trace_ok(1)
    if len(ctx.samples) < 3 and len(g) >= 3 and (rec['tback'] or len(ctx.samples) < 2):
        ctx.sample(dict(graph=detail['g'], style=style, base=base, spec_ok=rec['ok'], tuple_back_edge=rec['tback'],
                        save_calls=psave, load_calls=pload, n_file_objects=len(recs)))
    return good


def graph_layer(ctx):
    from concurrent.futures import ThreadPoolExecutor
    scratch = Scratch()
    stats = {}
    quick = ctx.tier == 'quick'
    # replay every k-th graph of the big enumerations (seeded)
    share_q = {'core4': 4, 'cont3': 4, 'leaf3': 2, 'reduce': 2} if quick else {'cont3': 2}
    try:
        idx = 0
        cfgs = [(name, c, share) for name, c, share in mc_configs(ctx.tier)
                if not ctx.only or name in ctx.only or 'graph' in ctx.only]
        sims = [] if (ctx.only and 'sim' not in ctx.only and 'graph' not in ctx.only) else sim_configs(ctx.tier)
        with ThreadPoolExecutor(max_workers=3) as pool:
            futs = [(name, share, 'mc', pool.submit(timed, run_tlc, ctx, name, c)) for name, c, share in cfgs]
            futs += [(name, 1, 'sim', pool.submit(timed, run_tlc, ctx, name, c, 'sim', num, depth)) for name, c, num, depth in sims]
            for name, share, mode, fut in futs:
                res, tlc_s = fut.result()
                if mode == 'mc':
                    ctx.add_mc('Hdf5/' + name, res)
                if res.violated or res.deadlock:
                    ctx.violation(dict(kind='mc', spec=SPEC, config=name, invariant=(res.violated or ['deadlock'])[0]),
                                  dict(trace=tlaval.to_jsonable(res.error_trace)))
                n = nrep = nok = 0
                t1 = time.time()
                if share:
                    recs = list(final_records(res.stdout))
                    res.stdout = ''
                    table = {}
                    for r in recs:
                        table.setdefault(og.graph_key(r['g']), r)
                    k = share_q.get(name, 1)
                    for key, rec in table.items():
                        idx += 1
                        n += 1
                        if (n + ctx.seed) % k:
                            continue
                        nrep += 1
                        r = replay_graph(ctx, rec, scratch, idx, '%s#%d' % (name, n), table=table)
                        nok += bool(r)
                    if k > 1:
                        ctx.exhaustive = False
                sizes = [len(r['g']) for r in table.values()] if share else [0]
                stats[name] = dict(mode=mode, states=res.distinct, graphs=n, replayed=nrep, replayed_ok=nok, tlc_s=round(tlc_s, 1),
                                   nodes_max=max(sizes or [0]), nodes_mean=round(sum(sizes) / max(len(sizes), 1), 2),
                                   tuple_back_edges=sum(1 for r in table.values() if r['tback']) if share else 0,
                                   replay_s=round(time.time() - t1, 1))
        ctx.notes['graph_layer'] = stats
        ctx.notes['state_setter_model'] = 'repaired (return value ignored)' if setter_model() else 'as implemented: returns the setter result'
        if not ctx.only or 'witness' in ctx.only or 'graph' in ctx.only:
            witness_old_protocol(ctx)
    finally:
        scratch.close()


def timed(f, *a):
    t0 = time.time()
    r = f(*a)
    return r, time.time() - t0


def sim_configs(tier):
    """random larger graphs (TLC -simulate): (name, cfg, number of behaviours, depth)"""
    q = tier == 'quick'
    c = cfg(CORE_LEAVES | ALL_CONT | {'arr', 'int'}, 7, 10, deg=3, pairs=2, nkeys=3)
    c['check_deadlock'] = False
    return [('sim7', c, 200 if q else 4000, 150)]


class _Single:
    """an object whose __reduce__ returns a string (pickle: "a global variable of that name")"""
    def __reduce__(self):
        return 'SINGLE'


SINGLE = _Single()


def probe_layer(ctx):
    """cases outside the enumerated graph domain, stated directly on the property: load(save(x)) == x"""
    import h5py
    from tenpy.tools import hdf5_io
    scratch = Scratch()
    cases = [('reduce-returns-string', 'reduce', lambda: SINGLE, lambda a, b: b is a),
             ('empty-string-key', 'container', lambda: {'': 1, 'a': 2}, lambda a, b: a == b),
             ('odd-keys', 'container', lambda: {'..': 1, 'a/b': 2, 'x y': 3, 0: 4, (1, 2): 5, None: 6}, lambda a, b: a == b),
             ('numpy-scalars', 'container',
              lambda: [np.int32(-3), np.float32(0.5), np.complex64(1j), np.complex128(2 - 1j), np.int64(2) ** 62, True, False, 2 ** 63, -2 ** 63,
                       -2 ** 70, 'unicode \u00e4\u4e2d', '', b'', b'ab'],
              lambda a, b: len(a) == len(b) and all(type(x) is type(y) and x == y for x, y in zip(a, b))),
             ('arrays', 'container',
              lambda: [np.zeros((0, 3)), np.array(3.5), np.arange(6).reshape(2, 3)[:, ::2], np.array([True, False]), np.array([1 + 2j]),
                       np.array([b'ab', b'c']), np.ma.masked_equal(np.arange(4), 2)],
              lambda a, b: len(a) == len(b) and all(type(x) is type(y) and x.dtype == y.dtype and x.shape == y.shape
                                                    and np.array_equal(np.ma.filled(x, 99), np.ma.filled(y, 99)) for x, y in zip(a, b))),
             ('partial-load', 'container', lambda: {'a': [1, 2, {'b': (3, 4)}]}, None),
             # ranges with a step other than 1 (the model's IntVals = {0, 1} only reach step 1), shared twice
             ('ranges', 'container', lambda: (lambda r: [range(1, 10, 3), range(5, -1, -2), range(0), r, {'again': r}])(range(2, 9, 2)),
              lambda a, b: len(a) == len(b) and all(type(y) is range and (x.start, x.stop, x.step) == (y.start, y.stop, y.step)
                                                    for x, y in zip(a[:4], b[:4])) and b[4]['again'] is b[3]),
             # an unmasked array whose entries all equal the fill value must not come back masked
             ('masked-fill-collision', 'container',
              lambda: [np.ma.MaskedArray([999999, 999999]), np.ma.MaskedArray([999999, 5], mask=[False, True]),
                       np.ma.MaskedArray([1., 2.], mask=[True, True])],
              lambda a, b: len(a) == len(b) and all(type(x) is type(y) and np.array_equal(np.ma.getmaskarray(x), np.ma.getmaskarray(y))
                                                    and np.array_equal(x.filled(-7), y.filled(-7)) for x, y in zip(a, b))),
             ('dtype-objects', 'container',
              lambda: [np.dtype('float64'), np.dtype('complex128'), np.dtype('int64'), np.dtype([('a', '<i4'), ('b', '<f8')]),
                       np.dtype('<U8'), np.dtype('S5'), np.dtype('>f8'), np.dtype('V8')],
              lambda a, b: len(a) == len(b) and all(x == y and x.str == y.str for x, y in zip(a, b))),
             ('ignored-in-list', 'container', lambda: [1, hdf5_io.Hdf5Ignored('skip'), 2],
              lambda a, b: type(b) is list and len(b) == 3 and b[0] == 1 and b[2] == 2 and isinstance(b[1], hdf5_io.Hdf5Ignored)),
             ]
    try:
        for name, layer, make, same in cases:
            obj = make()
            ctx.case('probe:' + name, action='Probe.' + name)
            sig = dict(kind='probe', layer=layer, clause=name)
            try:
                with warnings.catch_warnings():
                    warnings.simplefilter('ignore')
                    fn = scratch.h5()
                    with h5py.File(fn, 'w') as f:
                        hdf5_io.save_to_hdf5(f, obj, 'x')
                    with h5py.File(fn, 'r') as f:
                        if name == 'partial-load':
                            back = hdf5_io.load_from_hdf5(f, 'x/a/2/b')
                            good = back == (3, 4) and type(back) is tuple
                        else:
                            back = hdf5_io.load_from_hdf5(f, 'x')
                            good = bool(same(obj, back))
                if not good:
                    ctx.violation(sig, dict(obj=repr(obj), loaded=repr(back)))
                else:
                    ctx.trace_ok(1)
            except Exception as e:
                ctx.violation(sig, dict(obj=repr(obj), raised='%s: %s' % (type(e).__name__, e)))
        # the handle given to save_to_hdf5 / load_from_hdf5 may be a sub-group of the file
        ctx.case('probe:subgroup-handle', action='Probe.subgroup-handle')
        sig = dict(kind='probe', layer='container', clause='subgroup-handle')
        obj = {'a': [1, 2], 'b': 'text'}
        try:
            with warnings.catch_warnings():
                warnings.simplefilter('ignore')
                fn = scratch.h5()
                with h5py.File(fn, 'w') as f:
                    f.create_group('sub')
                    f.create_group('other')
                    hdf5_io.save_to_hdf5(f['sub'], obj)
                    hdf5_io.save_to_hdf5(f['other'], [7], 'y')
                with h5py.File(fn, 'r') as f:
                    root_names = sorted(f.keys())
                    back = hdf5_io.load_from_hdf5(f['sub'])
                    back2 = hdf5_io.load_from_hdf5(f['other'], 'y')
            if back != obj or back2 != [7] or root_names != ['other', 'sub']:
                ctx.violation(sig, dict(obj=repr(obj), loaded=repr(back), root_members=root_names))
            else:
                ctx.trace_ok(1)
        except Exception as e:
            ctx.violation(sig, dict(obj=repr(obj), raised='%s: %s' % (type(e).__name__, e)))
        # objects outside the supported set: the save must fail loudly (format guideline 0) or the round trip be exact
        silent = []
        for o in [b'ab\x00', 'a\x00', np.uint64(5), np.float16(0.5), np.longdouble(1.5), np.array(['ab', 'c']), np.bool_(True)]:
            ctx.case('probe:unsupported:' + repr(o), action='Probe.unsupported')
            try:
                with warnings.catch_warnings():
                    warnings.simplefilter('ignore')
                    fn = scratch.h5()
                    with h5py.File(fn, 'w') as f:
                        hdf5_io.save_to_hdf5(f, o, 'x')
            except Exception:
                continue            # loud failure at save time: nothing was promised
            try:
                with warnings.catch_warnings():
                    warnings.simplefilter('ignore')
                    with h5py.File(fn, 'r') as f:
                        back = hdf5_io.load_from_hdf5(f, 'x')
                if not np.all(back == o) or (type(back) is not type(o) and not isinstance(o, np.bool_)):
                    silent.append('%r -> %r' % (o, back))
            except Exception as e:
                silent.append('%r saved, but loading raises %s: %s' % (o, type(e).__name__, e))
        if silent:
            ctx.violation(dict(kind='probe', layer='container', clause='unsupported-saves-silently'), dict(cases=silent))
        else:
            ctx.trace_ok(1)
    finally:
        scratch.close()


class _CanaryCtx:
    """swallows the reports of a replay whose prediction was corrupted on purpose"""
    def __init__(self, ctx):
        self.seed, self.tier, self.notes, self.replay_actions, self.samples = ctx.seed, ctx.tier, {}, {}, [0] * 9
        self.rejected = 0

    def case(self, *a, **k):
        pass

    def trace_ok(self, n=1):
        pass

    def sample(self, o):
        pass

    def violation(self, sig, detail):
        self.rejected += 1
        return True


def canary(ctx):
    """corrupt one predicted value (kind of the loaded root) in each of some behaviours: the replay must reject all"""
    res = run_tlc(ctx, 'canary', cfg({'box', 'list', 'tuple'}, 3, 3))
    recs = [r for r in final_records(res.stdout) if not r['err']][:40]
    c = _CanaryCtx(ctx)
    scratch = Scratch()
    try:
        for j, rec in enumerate(recs):
            replay_graph(c, rec, scratch, j, 'canary#%d' % j, corrupt=True)
    finally:
        scratch.close()
    ctx.notes['canary'] = dict(corrupted=len(recs), rejected=c.rejected)
    if c.rejected != len(recs) or not recs:
        raise core.MachineryError('canary: %d of %d corrupted predictions were accepted' % (len(recs) - c.rejected, len(recs)))


def replay_file(ctx, path):
    """./check C17 --replay evidence/replays/C17-....json : re-execute exactly that case"""
    with open(path) as f:
        d = json.load(f)
    det = d['detail']
    ctx.seed = d.get('seed', ctx.seed)
    if 'g' in det and 'spec' in det:
        sp = det['spec']
        rec = dict(g=det['g'], fo=sp['fo'], lk=sp['lk'], h=sp['h'], hroot=sp['hroot'], err=sp['err'], ok=sp['ok'], tback=sp['tback'],
                   hist=sp.get('hist', []))
        scratch = Scratch()
        try:
            r = replay_graph(ctx, rec, scratch, 0, det.get('origin', 'replay'), force=dict(style=det['style'], same=det['same'], base=det['base']))
        finally:
            scratch.close()
        print('replayed graph case: %s' % ('as predicted' if r else 'DIVERGES'))
    elif 'label' in det:
        class_layer(ctx, only_label=det['label'])
    elif d['signature'].get('kind') == 'probe':
        probe_layer(ctx)
    else:
        raise core.MachineryError('cannot replay %s (MC counterexample: rerun the tier)' % path)


def check(ctx):
    ctx.rule = ('a case = one TLC-enumerated object graph (x leaf style x path) saved and loaded through the real '
                'Hdf5Saver/Hdf5Loader and pickle, compared with the spec (call sequence, file, loaded graph); '
                'plus one case per (class instance, format)')
    ctx.assume('TLC', 'harness/objgraph.py (builder, matcher, file projection)', 'the specification module Hdf5',
               'h5py object identity (ObjectID equality) as the notion of "same HDF5 object"')
    ctx.exhaustive = True
    if ctx.replay_file:
        return replay_file(ctx, ctx.replay_file)
    if not ctx.only or ctx.only - {'class', 'probe', 'canary'}:
        graph_layer(ctx)
    if not ctx.only or 'class' in ctx.only:
        class_layer(ctx)
    if not ctx.only or 'probe' in ctx.only:
        probe_layer(ctx)
    if (not ctx.only and ctx.tier == 'thorough') or (ctx.only and 'canary' in ctx.only):
        canary(ctx)



# ================================================================================================
# class layer
# ================================================================================================
def discover_classes():
    """every class of the package offering HDF5 export: recursive Hdf5Exportable.__subclasses__() after
    importing all tenpy sub-modules, plus classes defining save_hdf5 / from_hdf5"""
    import importlib
    import inspect
    import pkgutil
    import sys
    import tenpy
    from tenpy.tools.hdf5_io import Hdf5Exportable
    failed = []
    with warnings.catch_warnings():
        warnings.simplefilter('ignore')
        for m in pkgutil.walk_packages(tenpy.__path__, 'tenpy.'):
            try:
                importlib.import_module(m.name)
            except Exception as e:
                failed.append('%s: %s' % (m.name, e))

    def subs(c):
        out = set()
        for s in c.__subclasses__():
            out.add(s)
            out |= subs(s)
        return out
    S = {c for c in subs(Hdf5Exportable) if c.__module__.startswith('tenpy')}
    for name, mod in list(sys.modules.items()):
        if name.startswith('tenpy') and mod is not None:
            for o in list(vars(mod).values()):
                if inspect.isclass(o) and o.__module__.startswith('tenpy') and o is not Hdf5Exportable \
                        and (hasattr(o, 'save_hdf5') or hasattr(o, 'from_hdf5')):
                    S.add(o)
    return sorted(S, key=lambda c: (c.__module__, c.__qualname__)), failed


def gen_instances(seed):
    """list of (label, object); a failing generator is recorded, not hidden"""
    import tenpy.linalg.np_conserved as npc
    from tenpy.linalg import charges
    from tenpy.linalg.truncation import TruncationError
    from tenpy.networks import site as tsite
    from tenpy.networks.mps import MPS
    from tenpy.networks import terms
    from tenpy.models import lattice as tlat
    from tenpy.tools.params import Config
    rng = np.random.RandomState(1000 + seed)
    out, failed = [], []

    def add(label, f):
        try:
            with warnings.catch_warnings():
                warnings.simplefilter('ignore')
                out.append((label, f()))
        except Exception as e:
            failed.append('%s: %s: %s' % (label, type(e).__name__, str(e)[:200]))
    # ---- charges
    ci0 = charges.ChargeInfo()
    ci1 = charges.ChargeInfo([1], ['N'])
    ci2 = charges.ChargeInfo([1, 2], ['N', 'parity'])
    ci3 = charges.ChargeInfo([3])
    for j, ci in enumerate([ci0, ci1, ci2, ci3]):
        add('ChargeInfo%d' % j, lambda ci=ci: ci)
    add('DipolarChargeInfo', lambda: charges.DipolarChargeInfo([1, 1], ['N', 'P'], [0], [1]))
    add('DipolarChargeInfo-dims', lambda: charges.DipolarChargeInfo([1, 4], ['N', 'P'], [0], [1], [1]))
    legs = {}
    legs['u1'] = charges.LegCharge.from_qflat(ci1, [[-1], [0], [0], [2]], 1)
    legs['u1-unsorted'] = charges.LegCharge.from_qflat(ci1, [[2], [-1], [2], [0]], -1)
    legs['u1-bunched'] = charges.LegCharge.from_qflat(ci1, [[0], [0], [1], [1], [1]], -1).bunch()[1]
    legs['u1z2'] = charges.LegCharge.from_qind(ci2, [0, 1, 3, 4], [[0, 1], [1, 0], [-2, 1]], 1)
    legs['z3'] = charges.LegCharge.from_qflat(ci3, [[0], [1], [2], [1]], 1).sort()[1]
    legs['trivial'] = charges.LegCharge.from_trivial(3)
    legs['empty'] = charges.LegCharge.from_qflat(ci1, np.zeros((0, 1), int), 1)
    legs['single'] = charges.LegCharge.from_qflat(ci1, [[5]], -1)
    for k, l in legs.items():
        add('LegCharge-' + k, lambda l=l: l)
    add('LegPipe', lambda: charges.LegPipe([legs['u1'], legs['u1-unsorted']], qconj=1))
    add('LegPipe-unsorted', lambda: charges.LegPipe([legs['u1'], legs['u1'].conj()], qconj=-1, sort=False, bunch=False))
    add('LegPipe-nested', lambda: charges.LegPipe([charges.LegPipe([legs['u1'], legs['u1-bunched']]), legs['single']], qconj=-1))
    add('LegPipe-u1z2', lambda: charges.LegPipe([legs['u1z2'], legs['u1z2'].conj(), legs['u1z2']]))
    # sort != bunch, both ways; sub-legs with several blocks, qnumber > 0
    add('LegPipe-sort-nobunch', lambda: charges.LegPipe([legs['u1'], legs['u1-unsorted']], qconj=1, sort=True, bunch=False))
    add('LegPipe-nosort-bunch', lambda: charges.LegPipe([legs['u1-bunched'], legs['u1']], qconj=-1, sort=False, bunch=True))
    add('LegPipe-u1z2-sort-nobunch', lambda: charges.LegPipe([legs['u1z2'], legs['u1z2'].conj()], qconj=-1, sort=True, bunch=False))
    add('LegPipe-u1z2-nosort-bunch', lambda: charges.LegPipe([legs['u1z2'], legs['u1z2']], qconj=1, sort=False, bunch=True))

    # ---- arrays
    def rand_array(ls, qtotal=None, dtype=float, labels=None):
        def fn(shape):
            x = rng.randint(-4, 5, size=shape).astype(dtype)
            if dtype is complex:
                x = x + 1j * rng.randint(-4, 5, size=shape)
            return x
        a = npc.Array.from_func(fn, ls, dtype=dtype, qtotal=qtotal, labels=labels)
        return a
    add('Array-u1', lambda: rand_array([legs['u1'], legs['u1'].conj()], labels=['a', 'b']))
    add('Array-u1-qtotal', lambda: rand_array([legs['u1'], legs['u1-unsorted'], legs['u1-bunched']], qtotal=[1], dtype=complex,
                                              labels=['a', None, 'c']))
    add('Array-u1z2', lambda: rand_array([legs['u1z2'], legs['u1z2'].conj()], qtotal=[0, 1]))
    add('Array-trivial', lambda: npc.Array.from_ndarray_trivial(np.arange(6.).reshape(2, 3), labels=['x', 'y']))
    add('Array-zeros', lambda: npc.zeros([legs['u1'], legs['u1'].conj()], labels=['p', 'p*']))
    add('Array-missing-blocks', lambda: _missing_blocks(npc, legs))
    add('Array-empty-leg', lambda: npc.zeros([legs['empty'], legs['u1']], labels=['e', 'f']))
    add('Array-pipe', lambda: rand_array([legs['u1'], legs['u1-unsorted'], legs['u1'].conj()], labels=['a', 'b', 'c'])
        .combine_legs(['a', 'b']))
    for sort, bunch in [(True, False), (False, True)]:
        add('Array-pipe-sort%d-bunch%d' % (sort, bunch), lambda sort=sort, bunch=bunch: _array_on_pipe(npc, charges, legs, rand_array, sort, bunch))
        add('pipe-site-like-sort%d-bunch%d' % (sort, bunch), lambda sort=sort, bunch=bunch: _site_like_on_pipe(npc, charges, legs, rand_array, sort, bunch))
    add('Array-pipe-outer-conj', lambda: _array_pipe_outer_conj(npc, charges, ci1))
    add('Array-int', lambda: npc.Array.from_ndarray(np.diag([1, 2, 3, 4]), [legs['u1'], legs['u1'].conj()], dtype=np.int64))
    add('Array-shared-legs', lambda: _shared_arrays(npc, legs, rng))
    # ---- sites
    site_makers = {
        'SpinHalfSite-Sz': lambda: tsite.SpinHalfSite('Sz'), 'SpinHalfSite-parity': lambda: tsite.SpinHalfSite('parity'),
        'SpinHalfSite-None': lambda: tsite.SpinHalfSite(None), 'SpinSite-1': lambda: tsite.SpinSite(1., 'Sz'),
        'SpinSite-1.5-parity': lambda: tsite.SpinSite(1.5, 'parity'), 'FermionSite-N': lambda: tsite.FermionSite('N'),
        'FermionSite-parity': lambda: tsite.FermionSite('parity', filling=0.25),
        'SpinHalfFermionSite': lambda: tsite.SpinHalfFermionSite('N', 'Sz'),
        'SpinHalfFermionSite-parity': lambda: tsite.SpinHalfFermionSite('parity', None),
        'SpinHalfHoleSite': lambda: tsite.SpinHalfHoleSite('N', 'Sz'), 'BosonSite': lambda: tsite.BosonSite(3, 'N', 0.5),
        'BosonSite-parity': lambda: tsite.BosonSite(2, 'parity'), 'ClockSite': lambda: tsite.ClockSite(3, 'Z'),
        'GroupedSite': lambda: tsite.GroupedSite([tsite.SpinHalfSite('Sz'), tsite.FermionSite('N')], charges='independent'),
        'GroupedSite-same': lambda: tsite.GroupedSite([tsite.SpinHalfSite('Sz')] * 2, charges='same'),
        'Site-generic': lambda: tsite.Site(legs['u1'], ['a', 'b', 'c', 'd'], Op=np.diag([1., 2., 2., 5.])),
    }
    for k, f in site_makers.items():
        add(k, f)
    # ---- MPS (sites shared by reference), MPO, lattices, models, terms
    add('MPS-finite', lambda: _mps('finite', 4))
    add('MPS-L1', lambda: _mps('finite', 1))
    add('MPS-infinite', lambda: _mps('infinite', 2))
    add('MPS-segment', lambda: _mps('finite', 6).extract_segment(1, 4))
    add('MPS-entangled', lambda: _mps_entangled())
    add('PurificationMPS', lambda: _purification())
    add('MPO', lambda: _model('TFIChain', dict(L=4, bc_MPS='finite')).H_MPO)
    add('MPO-infinite', lambda: _model('XXZChain', dict(L=2, bc_MPS='infinite')).H_MPO)
    s = tsite.SpinHalfSite('Sz')
    f = tsite.SpinSite(1., 'Sz')
    lat_makers = {
        'Chain': lambda: tlat.Chain(4, s), 'Chain-infinite': lambda: tlat.Chain(2, s, bc='periodic', bc_MPS='infinite'),
        'Ladder': lambda: tlat.Ladder(3, [s, f]), 'NLegLadder': lambda: tlat.NLegLadder(2, 3, s),
        'Square': lambda: tlat.Square(2, 3, s, order='snake', bc=['open', 'periodic']),
        'Triangular': lambda: tlat.Triangular(2, 2, s), 'Honeycomb': lambda: tlat.Honeycomb(2, 2, [s, s]),
        'Kagome': lambda: tlat.Kagome(2, 2, s), 'Lattice': lambda: tlat.Lattice([2, 2], [s, f], bc=['periodic', -1], bc_MPS='infinite'),
        'SimpleLattice': lambda: tlat.SimpleLattice([3, 2], s), 'TrivialLattice': lambda: tlat.TrivialLattice([s, f, s]),
        'IrregularLattice': lambda: tlat.IrregularLattice(tlat.Chain(4, s), remove=[[1, 0]], add=([[4, 0]], [0]), add_unit_cell=[f]),
        'HelicalLattice': lambda: tlat.HelicalLattice(tlat.Square(2, 3, s, bc=['periodic', -1], bc_MPS='infinite'), 2),
        'MultiSpeciesLattice': lambda: tlat.MultiSpeciesLattice(tlat.Chain(3, None), [f, f], ['up', 'down']),
        'Lattice-segment': lambda: tlat.Chain(6, s, bc_MPS='infinite', bc='periodic').extract_segment(1, 4),
    }
    for k, fmk in lat_makers.items():
        add(k, fmk)
    add('DualSquare', lambda: _dual_square(s))
    add('Lattice-grouped-sites', lambda: tlat.Chain(4, s, bc='periodic', bc_MPS='infinite').with_grouped_sites(
        [tsite.GroupedSite([s, s])] * 2))
    model_pars = {
        'TFIChain': dict(L=4, bc_MPS='finite', J=1., g=0.5), 'TFIModel': dict(lattice='Square', Lx=2, Ly=2, bc_MPS='finite'),
        'XXZChain': dict(L=4, bc_MPS='finite'), 'XXZChain2': dict(L=2, bc_MPS='infinite'),
        'SpinChain': dict(L=3, S=1., bc_MPS='finite', D=0.2), 'SpinModel': dict(lattice='Ladder', L=2, bc_MPS='finite'),
        'SpinChainNNN': dict(L=4, bc_MPS='finite'), 'SpinChainNNN2': dict(L=4, bc_MPS='finite'),
        'FermionChain': dict(L=4, bc_MPS='finite', V=0.5), 'FermionModel': dict(lattice='Ladder', L=2, bc_MPS='finite'),
        'FermiHubbardChain': dict(L=3, bc_MPS='finite'), 'FermiHubbardModel': dict(lattice='Chain', L=2, bc_MPS='infinite'),
        'FermiHubbardModel2': dict(L=3, bc_MPS='finite'),
        'BoseHubbardChain': dict(L=3, bc_MPS='finite', n_max=2), 'BoseHubbardModel': dict(lattice='Chain', L=2, n_max=1, bc_MPS='infinite'),
        'DipolarBoseHubbardChain': dict(L=4, bc_MPS='finite', Nmax=1),
        'AKLTChain': dict(L=4, bc_MPS='finite'), 'tJChain': dict(L=3, bc_MPS='finite'), 'tJModel': dict(lattice='Chain', L=3, bc_MPS='finite'),
        'ClockChain': dict(L=3, q=3, bc_MPS='finite'), 'ClockModel': dict(lattice='Chain', L=2, q=3, bc_MPS='infinite'),
        'PXPChain': dict(L=4, bc_MPS='finite'), 'ToricCode': dict(Lx=2, Ly=2, bc_MPS='infinite'),
        'BosonicHaldaneModel': dict(Lx=1, Ly=2, bc_MPS='infinite'), 'FermionicHaldaneModel': dict(Lx=1, Ly=2, bc_MPS='infinite'),
        'HofstadterBosons': dict(Lx=2, Ly=2, bc_MPS='infinite', Nmax=1, phi=(1, 2)),
        'HofstadterFermions': dict(Lx=2, Ly=2, bc_MPS='infinite', phi=(1, 2)),
        'DipolarSpinChain': dict(L=4, bc_MPS='finite'), 'SpinlessMixedXKSquare': dict(Lx=2, Ly=2, bc_MPS='infinite'),
        'HubbardMixedXKSquare': dict(Lx=1, Ly=2, bc_MPS='infinite'),
    }
    for k, p in model_pars.items():
        add(k, lambda k=k, p=p: _model(k, p))
    add('MolecularModel', lambda: _molecular())
    add('generic-models', lambda: _generic_models(s))
    add('OnsiteTerms', lambda: _terms(terms)[0])
    add('CouplingTerms', lambda: _terms(terms)[1])
    add('MultiCouplingTerms', lambda: _terms(terms)[2])
    add('ExponentiallyDecayingTerms', lambda: _terms(terms)[3])
    add('TermList', lambda: terms.TermList([[('Sz', 0)], [('Sp', 1), ('Sm', 3)]], [0.5, 2.]))
    add('TruncationError', lambda: TruncationError(0.25, 0.5) + TruncationError(0.125, 0.75))
    add('Config', lambda: Config(dict(a=1, b=[1, 2.5], sub=dict(c='x'), chi_list={0: 10, 5: 20}), 'conf'))
    add('Config-read', lambda: _config_read(Config))
    add('Config-nonstring-keys', lambda: Config({1: 'a', 2: 'b'}, 'intkeys'))
    add('MomentumMPS', lambda: _momentum_mps())
    add('UniformMPS', lambda: _uniform_mps())
    add('shared-container', lambda: _shared_container(legs, s))
    return out, failed


def _array_on_pipe(npc, charges, legs, rand_array, sort, bunch):
    a = rand_array([legs['u1'], legs['u1-unsorted'], legs['u1-bunched']], qtotal=[1], labels=['a', 'b', 'c'])
    pipe = charges.LegPipe([a.legs[0], a.legs[1]], qconj=-1, sort=sort, bunch=bunch)
    return a.combine_legs(['a', 'b'], pipes=[pipe])


def _site_like_on_pipe(npc, charges, legs, rand_array, sort, bunch):
    """what a GroupedSite holds, but on a pipe with sort != bunch: the pipe and operators p, p* on it"""
    pipe = charges.LegPipe([legs['u1z2'], legs['u1z2']], qconj=1, sort=sort, bunch=bunch)
    a = rand_array([legs['u1z2'], legs['u1z2'], legs['u1z2'].conj(), legs['u1z2'].conj()], labels=['p0', 'p1', 'p0*', 'p1*'])
    op = a.combine_legs([['p0', 'p1'], ['p0*', 'p1*']], pipes=[pipe, pipe.conj()], new_axes=[0, 1]).iset_leg_labels(['p', 'p*'])
    return dict(leg=pipe, ops=dict(A=op, Id=npc.eye_like(op, 0, labels=['p', 'p*'])), ops_list=[op, op.conj().itranspose(['p', 'p*'])])


def _array_pipe_outer_conj(npc, charges, ci1):
    """a legal pipe state that is not the one the constructor produces from (legs, qconj, sorted, bunched)"""
    a = charges.LegCharge.from_qflat(ci1, [[0], [1]])
    b = charges.LegCharge.from_qflat(ci1, [[0], [1], [2]])
    c = charges.LegCharge.from_qflat(ci1, [[0], [1], [2], [3]], qconj=-1)
    T = npc.Array.from_func(np.ones, [a, b, c], labels=['a', 'b', 'c'])
    Tc = T.combine_legs(['a', 'b'])
    Tc.legs[0] = Tc.legs[0].outer_conj()
    Tc.test_sanity()
    return Tc


def _missing_blocks(npc, legs):
    a = npc.zeros([legs['u1'], legs['u1'].conj()], labels=['a', 'b'])
    a[0, 0] = 2.
    a[3, 3] = -1.
    return a


def _shared_arrays(npc, legs, rng):
    l = legs['u1']
    a = npc.Array.from_func(np.ones, [l, l.conj()], labels=['a', 'b'])
    b = npc.Array.from_func(np.ones, [l, l.conj()], labels=['c', 'd'])
    return dict(a=a, b=b, again=a, legs=[l, a.legs[0]])


def _mps(bc, L):
    from tenpy.networks.mps import MPS
    from tenpy.networks.site import SpinHalfSite
    s = SpinHalfSite('Sz')
    psi = MPS.from_product_state([s] * L, (['up', 'down'] * L)[:L], bc=bc, unit_cell_width=L)
    psi.norm = 0.25
    return psi


def _mps_entangled():
    from tenpy.networks.mps import MPS
    from tenpy.networks.site import SpinHalfSite
    s = SpinHalfSite('Sz')
    return MPS.from_singlets(s, 4, [(0, 2), (1, 3)], bc='finite')


def _purification():
    from tenpy.networks.purification_mps import PurificationMPS
    from tenpy.networks.site import SpinHalfSite
    return PurificationMPS.from_infiniteT([SpinHalfSite('Sz')] * 3, bc='finite')


def _model(name, pars):
    import importlib
    import tenpy.models
    for mod in ('tf_ising', 'xxz_chain', 'spins', 'spins_nnn', 'fermions_spinless', 'hubbard', 'aklt', 'tj_model', 'clock',
                'pxp', 'toric_code', 'haldane', 'hofstadter', 'mixed_xk'):
        m = importlib.import_module('tenpy.models.' + mod)
        if hasattr(m, name):
            return getattr(m, name)(dict(pars))
    raise KeyError(name)


def _molecular():
    from tenpy.models.molecular import MolecularModel
    rs = np.random.RandomState(5)
    h1 = rs.rand(3, 3)
    h1 = h1 + h1.T
    h2 = rs.rand(3, 3, 3, 3)
    h2 = h2 + h2.transpose(1, 0, 3, 2)
    return MolecularModel(dict(one_body_tensor=h1, two_body_tensor=h2, constant=0.5))


def _generic_models(s):
    from tenpy.models import model as tm
    from tenpy.models.lattice import Chain
    lat = Chain(3, s)
    cm = tm.CouplingModel(lat)
    cm.add_onsite(0.5, 0, 'Sz')
    cm.add_coupling(1.5, 0, 'Sp', 0, 'Sm', 1, plus_hc=True)
    mpo = cm.calc_H_MPO()
    nn = tm.NearestNeighborModel(lat, cm.calc_H_bond())
    mm = tm.MPOModel(lat, mpo)
    return dict(CouplingModel=cm, NearestNeighborModel=nn, MPOModel=mm, Model=tm.Model(lat))


def _terms(terms):
    ot = terms.OnsiteTerms(4)
    ot.add_onsite_term(0.5, 1, 'Sz')
    ot.add_onsite_term(1.5, 3, 'Sx')
    ct = terms.CouplingTerms(4)
    ct.add_coupling_term(2., 0, 2, 'Sp', 'Sm', 'Id')
    ct.add_coupling_term(-1., 1, 2, 'Sz', 'Sz')
    mt = terms.MultiCouplingTerms(5)
    mt.add_multi_coupling_term(0.25, [0, 1, 3], ['Sz', 'Sp', 'Sm'], ['Id', 'Id'])
    mt.add_coupling_term(3., 2, 4, 'Sz', 'Sz')
    et = terms.ExponentiallyDecayingTerms(4)
    et.add_exponentially_decaying_coupling(0.5, 0.25, 'Sz', 'Sz')
    return ot, ct, mt, et


def _config_read(Config):
    c = Config(dict(a=1, b=2, c=3), 'read')
    c['a']
    c.get('zz', 5)
    return c


def _dual_square(s):
    from tenpy.models.toric_code import DualSquare
    return DualSquare(2, 2, s, bc='periodic', bc_MPS='infinite')


def _momentum_mps():
    from tenpy.networks.momentum_mps import MomentumMPS
    psi = _mps('infinite', 2)
    Xs = [B.copy() for B in psi._B]
    return MomentumMPS(Xs, psi, 0.5)


def _uniform_mps():
    from tenpy.networks.uniform_mps import UniformMPS
    return UniformMPS.from_MPS(_mps('infinite', 2))


def _shared_container(legs, s):
    return dict(sites=[s, s], tup=(s, legs['u1']), leg=legs['u1'], nested=dict(site=s))


LEG_FORMATS = ('blocks', 'compact', 'flat')


def contains_legs(obj, _seen=None, depth=0):
    """does the object (transitively) contain LegCharges?  then all three formats are distinct cases"""
    from tenpy.linalg import charges
    import tenpy.linalg.np_conserved as npc
    if isinstance(obj, (charges.LegCharge, npc.Array)):
        return True
    _seen = set() if _seen is None else _seen
    if id(obj) in _seen or depth > 6:
        return False
    _seen.add(id(obj))
    if isinstance(obj, dict):
        return any(contains_legs(v, _seen, depth + 1) for v in obj.values())
    if isinstance(obj, (list, tuple)):
        return any(contains_legs(v, _seen, depth + 1) for v in obj)
    if hasattr(obj, '__dict__') and not isinstance(obj, type):
        return any(contains_legs(v, _seen, depth + 1) for v in obj.__dict__.values())
    return False


def contains_type(obj, name):
    import tenpy.linalg.np_conserved as npc
    from tenpy.linalg import charges
    t = dict(Array=npc.Array, LegPipe=charges.LegPipe)[name]
    if name == 'LegPipe':
        return any(isinstance(l, t) for _, l in iter_legs(obj))
    return any(issubclass(c, t) for c in classes_in(obj)) or isinstance(obj, t)


def classes_in(obj, acc=None, _seen=None, depth=0):
    acc = set() if acc is None else acc
    _seen = set() if _seen is None else _seen
    if id(obj) in _seen or depth > 8:
        return acc
    _seen.add(id(obj))
    if isinstance(obj, dict):
        for v in obj.values():
            classes_in(v, acc, _seen, depth + 1)
    elif isinstance(obj, (list, tuple)):
        for v in obj:
            classes_in(v, acc, _seen, depth + 1)
    elif isinstance(obj, np.ndarray):
        if obj.dtype.kind == 'O':
            for v in obj.flat:
                classes_in(v, acc, _seen, depth + 1)
    elif hasattr(obj, '__dict__') and not isinstance(obj, type) and type(obj).__module__.startswith('tenpy'):
        acc.add(type(obj))
        for v in obj.__dict__.values():
            classes_in(v, acc, _seen, depth + 1)
    return acc


def sanity(obj, _seen=None, depth=0):
    """test_sanity() of the object and of the tenpy objects in containers"""
    _seen = set() if _seen is None else _seen
    if id(obj) in _seen or depth > 4:
        return None
    _seen.add(id(obj))
    if isinstance(obj, dict):
        for v in obj.values():
            r = sanity(v, _seen, depth + 1)
            if r:
                return r
    elif isinstance(obj, (list, tuple)):
        for v in obj:
            r = sanity(v, _seen, depth + 1)
            if r:
                return r
    elif hasattr(obj, 'test_sanity'):
        try:
            obj.test_sanity()
        except Exception as e:
            return '%s.test_sanity(): %s: %s' % (type(obj).__name__, type(e).__name__, str(e)[:200])
    return None


def sanity_strict(obj):
    """test_sanity() at optimization level 0 ('none'), the level at which tenpy verifies cached flags"""
    from tenpy.tools.optimization import temporary_level
    with temporary_level(0):
        return sanity(obj)


def iter_legs(obj, _seen=None, depth=0, path='obj'):
    """every LegCharge reachable from obj: in containers, attributes, Arrays, Sites, MPS, and the legs of pipes"""
    from tenpy.linalg import charges
    _seen = set() if _seen is None else _seen
    if id(obj) in _seen or depth > 12:
        return
    _seen.add(id(obj))
    if isinstance(obj, charges.LegCharge):
        yield path, obj
    if isinstance(obj, dict):
        for k, v in obj.items():
            yield from iter_legs(v, _seen, depth + 1, '%s[%r]' % (path, k))
    elif isinstance(obj, (list, tuple)):
        for j, v in enumerate(obj):
            yield from iter_legs(v, _seen, depth + 1, '%s[%d]' % (path, j))
    elif isinstance(obj, np.ndarray):
        if obj.dtype.kind == 'O':
            for j, v in enumerate(obj.flat):
                yield from iter_legs(v, _seen, depth + 1, '%s.flat[%d]' % (path, j))
    elif hasattr(obj, '__dict__') and not isinstance(obj, type) and type(obj).__module__.startswith('tenpy'):
        for k, v in obj.__dict__.items():
            yield from iter_legs(v, _seen, depth + 1, '%s.%s' % (path, k))


def untruthful_flags(obj):
    """cached claims of LegCharges as implications: sorted => charges lexsorted, bunched => no equal neighbouring
    charges (recomputed with is_sorted / is_bunched, which look at the charges only)"""
    n = 0
    for path, leg in iter_legs(obj):
        n += 1
        try:
            if leg.sorted and not leg.is_sorted():
                return n, '%s: LegCharge flagged sorted=True but the charges are not sorted' % path
            if leg.bunched and not leg.is_bunched():
                return n, '%s: LegCharge flagged bunched=True but neighbouring blocks have equal charges' % path
        except Exception as e:
            return n, '%s: flags of LegCharge cannot be checked: %s: %s' % (path, type(e).__name__, e)
    return n, None


def normalise_reason(why):
    """the kind of failure without the data: drop the attribute path prefix, file paths, addresses, numbers"""
    m = re.match(r'^(obj[^:]*): (.*)$', why, re.S)
    w = why
    if m:
        last = re.sub(r'\[[^\]]*\]|\(\)', '', m.group(1).split('.')[-1])
        w = last + ': ' + m.group(2)
    w = re.sub(r'/obj\S*', '<path>', w)
    w = re.sub(r"missing attribute '\w+'", "missing attribute '<name>'", w)
    w = re.sub(r'0x[0-9a-f]+', '<addr>', w)
    w = re.sub(r'\d+', 'N', w)
    return w[:100]


def class_layer(ctx, only_label=None):
    import h5py
    from tenpy.tools import hdf5_io
    classes, import_failed = discover_classes()
    insts, gen_failed = gen_instances(ctx.seed)
    covered = {}
    scratch = Scratch()
    results = {}
    ninst = 0
    nlegs_checked = 0
    pre_existing = []
    try:
        for label, obj in insts:
            if only_label and label != only_label:
                continue
            cls_here = classes_in(obj)
            for c in cls_here:
                covered.setdefault(c, []).append(label)
            top = type(obj).__name__ if not isinstance(obj, dict) else 'dict'
            with warnings.catch_warnings():
                warnings.simplefilter('ignore')
                orig_strict_ok = sanity_strict(obj) is None
                orig_flags_ok = untruthful_flags(obj)[1] is None
            if not orig_strict_ok or not orig_flags_ok:
                pre_existing.append('%s: strict sanity %s, flags %s' % (label, 'ok' if orig_strict_ok else 'FAILS',
                                                                        'ok' if orig_flags_ok else 'UNTRUTHFUL'))
            has_array, has_pipe = contains_type(obj, 'Array'), contains_type(obj, 'LegPipe')
            media = [('pickle', None)]
            fmts = LEG_FORMATS if contains_legs(obj) else ('blocks',)
            if ctx.tier == 'quick' and len(fmts) == 3 and (hasattr(obj, 'lat') or isinstance(obj, dict)):
                # models are slow to save: one seeded leg format each in the quick tier (all three in thorough)
                ninst += 1
                fmts = (LEG_FORMATS[(ninst + ctx.seed) % 3],)
            media += [('hdf5', f) for f in fmts]
            for medium, fmt in media:
                ctx.case('class:%s:%s:%s' % (label, medium, fmt), action='Class.%s' % medium)
                sig = dict(kind='class', layer='class', cls=top, label=label, medium=medium, format=fmt, has_array=has_array,
                           has_pipe=has_pipe)
                detail = dict(label=label, medium=medium, format=fmt, classes=sorted(c.__name__ for c in cls_here))
                try:
                    with warnings.catch_warnings():
                        warnings.simplefilter('ignore')
                        if medium == 'pickle':
                            back = pickle.loads(pickle.dumps(obj))
                        else:
                            fn = scratch.h5()
                            with h5py.File(fn, 'w') as f:
                                hdf5_io.Hdf5Saver(f, format_selection={'LegCharge': fmt}).save(obj, '/obj')
                            with h5py.File(fn, 'r') as f:
                                back = hdf5_io.load_from_hdf5(f, '/obj')
                except Exception as e:
                    import traceback
                    detail.update(why='%s: %s' % (type(e).__name__, str(e)[:300]), tb=traceback.format_exc()[-1500:])
                    ctx.violation(dict(sig, clause='raises', reason=normalise_reason(detail['why'])), detail)
                    results['%s/%s/%s' % (label, medium, fmt)] = 'raises'
                    continue
                why = og.DeepCmp(lossy=(fmt == 'flat')).cmp(obj, back)
                if why:
                    detail.update(why=why)
                    ctx.violation(dict(sig, clause='equal', reason=normalise_reason(why)), detail)
                    results['%s/%s/%s' % (label, medium, fmt)] = 'differs'
                    continue
                # the loaded object's own sanity check, at the level that verifies cached flags (if the original
                # itself does not pass at that level -- not a C17 matter -- at the default level)
                why = sanity_strict(back) if orig_strict_ok else sanity(back)
                if why:
                    detail.update(why=why, level='none' if orig_strict_ok else 'default')
                    ctx.violation(dict(sig, clause='sanity', reason=normalise_reason(why)), detail)
                    results['%s/%s/%s' % (label, medium, fmt)] = 'sanity'
                    continue
                if orig_flags_ok:
                    nl, why = untruthful_flags(back)
                    nlegs_checked += nl
                    if why:
                        detail.update(why=why)
                        ctx.violation(dict(sig, clause='flags', reason=normalise_reason(why)), detail)
                        results['%s/%s/%s' % (label, medium, fmt)] = 'flags'
                        continue
                ctx.trace_ok(1)
                results['%s/%s/%s' % (label, medium, fmt)] = 'ok'
    finally:
        scratch.close()
    names = lambda cs: sorted('%s.%s' % (c.__module__, c.__qualname__) for c in cs)
    via_sub = [c for c in classes if c not in covered and any(issubclass(d, c) for d in covered)]
    ctx.notes['class_layer'] = dict(
        discovered=len(classes), covered=names(c for c in classes if c in covered),
        covered_only_through_subclass_instances=names(via_sub),
        not_covered=names(c for c in classes if c not in covered and c not in via_sub),
        generators_failed=gen_failed, import_failed=import_failed,
        legs_with_flags_recomputed=nlegs_checked, originals_failing_strict_sanity_or_flags=pre_existing,
        cases=len(results), ok=sum(1 for v in results.values() if v == 'ok'),
        failing={k: v for k, v in results.items() if v != 'ok'})

if __name__ == '__main__':
    core.main_wrapper('C17', check)
