#!/venv/bin/python
"""tools/markfixed.py <finding-id> <commit>: turn a known finding into a `fixed` record (suppresses nothing)."""
import glob
import json
import os
import sys

V = os.path.dirname(os.path.dirname(os.path.abspath(__file__)))
fid, commit = sys.argv[1], sys.argv[2]
for path in [os.path.join(V, 'known_findings.json')] + sorted(glob.glob(os.path.join(V, 'known_findings.d', '*.json'))):
    d = json.load(open(path))
    hit = False
    for f in d['findings']:
        if f['id'] == fid:
            f['status'] = 'fixed'
            f['commit'] = commit
            if not f['what'].startswith('fixed:'):
                f['what'] = 'fixed: property=%s %s %s' % (f['property'], commit, f['what'])
            hit = True
    if hit:
        json.dump(d, open(path, 'w'), indent=1)
        print('marked', fid, 'in', path)
        break
else:
    sys.exit('finding %s not found' % fid)
