------------------------------- MODULE SimIO -------------------------------
(* tenpy.simulations.simulation.Simulation: results on disk and resuming from a checkpoint (C18).

   The file system holds two files, `out` (Simulation.output_filename) and `bak`
   (Simulation._backup_filename = out.with_suffix('.backup' + suffix)).  One process runs the
   simulation; every action below is ONE system call on one of the two files, or one step of the
   simulation's control flow, written in the order in which the code performs them:

     Simulation.__init__ -> fix_output_filenames : stat out ; stat bak ; [open/write/close bak: the
                                                   "simulation initialized on ..." text goes into
                                                   the *backup* file]
     run / resume_run                            : [initial measurement] ; engine loop ; final
                                                   measurement ; finished_run = True ; save_results
     engine loop, three shapes (constant Kind):
        "dummy": step ; checkpoint            (harness algorithm, checkpoint after every step)
        "iter" : IterativeSweeps.run: stopping_criterion ; checkpoint unless first ; iteration
        "tevo" : RealTimeEvolution.run_algorithm: engine.run ; measurement ; checkpoint
                 engine.run = TimeEvolutionAlgorithm.evolve: NSub times evolve_step on psi, and only after the
                 loop evolved_time / trunc_err are advanced; no checkpoint inside (SubCkpt = TRUE is the witness
                 configuration with a checkpoint between two steps, which TLC refutes)
     checkpoint event                            : [measurement (measure_at_algorithm_checkpoints),
                                                   priority 0] ; save_at_checkpoint (priority -100)
     save_results (Protocol "replace", the code) : open(bak, trunc) ; write+ ; close ; rename bak -> out
                                                   (os.replace: `out` is replaced atomically);
                                                   with safe_write off: stat out ; [unlink out] ;
                                                   open(out, trunc) ; write+ ; close
     save_results (Protocol "legacy")            : the protocol tenpy had before commit 894bf4d, kept as a
                                                   witness configuration that TLC must refute:
                                                   stat out ; [stat bak ; [unlink bak] ; rename out
                                                   -> bak] ; open(out, trunc) ; write+ ; close ;
                                                   stat bak ; [unlink bak]
     Crash    : enabled in every state of a live process; memory is lost, files stay
                (the graceful abort after SIGINT -- save at the next checkpoint, then KeyboardInterrupt --
                is the special case of a Crash right after a completed save)
     Resume(f): resume_from_checkpoint(filename=f): load f, Simulation.from_saved_checkpoint
                (loaded_from_checkpoint = True), fix_output_filenames again, resume_run
     Restart  : nothing loadable on disk: the same job is started again with overwrite_output.

   Abstract content of a results file = the in-memory `results` at the moment save_results copied
   them: [k = progress of the algorithm as the engine's bookkeeping sees it (sweeps, evolved_time in units
   of one engine.run), p = progress of the state psi itself (update steps applied to it), acc = accumulated
   truncation error in units of one engine.run, meas = sequence of measurements (each <<k, acc, p>> at the
   time it was taken), fin = finished_run].  A file is a checkpoint of the abstract run only if these belong
   to the same step (SavedIsCheckpoint). *)
EXTENDS Naturals, Sequences, FiniteSets, TLC

CONSTANTS Kind,         \* "dummy" | "iter" | "tevo"
          NSteps,       \* steps of the algorithm in an uninterrupted run
          MeasAtCkpt,   \* option measure_at_algorithm_checkpoints (Kind "dummy", "iter")
          MinSweeps,    \* Kind "iter": option min_sweeps (is_converged is consulted once sweeps > min_sweeps)
          GuardStats,   \* Kind "iter": is_converged() copes with empty statistics (the code: TRUE, since 4a7cb42;
                        \* FALSE = witness configuration, refuted)
          NSub,         \* Kind "tevo": evolve_step calls per engine.run (option N_steps); 1 for the other kinds
          SubCkpt,      \* Kind "tevo": the engine emits its checkpoint also between two evolve_step calls
                        \* (the code: FALSE; TRUE = witness configuration, refuted)
          TruncErr,     \* Kind "tevo": every step truncates (non-zero contribution to trunc_err)
          SavesAcc,     \* the engine's resume data contain the accumulated error (the code: TRUE, since 1170ece;
                        \* FALSE = witness configuration, refuted)
          SafeWrite,    \* option safe_write
          Protocol,     \* "replace": save_results as implemented (write bak, then rename bak -> out)
                        \* | "legacy": the protocol before 894bf4d (witness configuration, refuted)
          MaxWrites,    \* a save issues 0..MaxWrites write calls before the one that completes the data
          MaxCrashes,
          AllowRestart  \* model the restart-from-scratch of a job that has nothing to resume from

VARIABLES out, bak,     \* file states
          pc,           \* control point of the process
          mem,          \* in-memory results [k, acc, meas, fin]
          eng,          \* engine-local state that is NOT part of the results: [first, stats]
          lfc,          \* Simulation.loaded_from_checkpoint
          sv,           \* content being written by the save in progress
          ret,          \* where the control flow continues after save_results
          saved,        \* some save has completed (history)
          durable,      \* content of the most recently completed save (history)
          crashes,
          last, hist

vars == <<out, bak, pc, mem, eng, lfc, sv, ret, saved, durable, crashes, last, hist>>
AbsView == <<out, bak, pc, mem, eng, lfc, sv, ret, saved, durable, crashes, last>>

----------------------------------------------------------------------------
Absent == [st |-> "absent"]
TextF == [st |-> "text"]                      \* the init text (or an empty / partly written text file)
Partial(c, w) == [st |-> "partial", c |-> c, w |-> w]    \* opened with truncation, w write calls done, data incomplete
Complete(c) == [st |-> "complete", c |-> c]
Exists(f) == f.st # "absent"
IsComplete(f) == f.st = "complete"

Fresh == [k |-> 0, p |-> 0, acc |-> 0, meas |-> <<>>, fin |-> FALSE]
NewEngine == [first |-> TRUE, stats |-> FALSE, i |-> 0, ck |-> FALSE]
File(n) == IF n = "out" THEN out ELSE bak

\* ----- the uninterrupted run (what the property compares with) -----
A(k) == IF TruncErr THEN k ELSE 0
P(k) == IF Kind = "tevo" THEN k * NSub ELSE k        \* state of psi that belongs to bookkeeping value k
M(k) == <<k, A(k), P(k)>>
IdealMeas ==
    CASE Kind = "dummy" -> << M(0) >> \o (IF MeasAtCkpt THEN [i \in 1..NSteps |-> M(i)] ELSE <<>>) \o << M(NSteps) >>
      [] Kind = "iter"  -> << M(0) >> \o (IF MeasAtCkpt THEN [i \in 1..(NSteps - 1) |-> M(i)] ELSE <<>>) \o << M(NSteps) >>
      [] Kind = "tevo"  -> << M(0) >> \o [i \in 1..NSteps |-> M(i)]
IsPrefix(s, t) == Len(s) <= Len(t) /\ SubSeq(t, 1, Len(s)) = s

Init == /\ out = Absent /\ bak = Absent
        /\ pc = "fx_stat_out"
        /\ mem = Fresh /\ eng = NewEngine /\ lfc = FALSE
        /\ sv = Fresh /\ ret = "none"
        /\ saved = FALSE /\ durable = Fresh
        /\ crashes = 0
        /\ last = [op |-> "start"]
        /\ hist = <<>>

Tau == [op |-> "tau"]
----------------------------------------------------------------------------
\* fix_output_filenames (called from Simulation.__init__, fresh and resumed alike)
FxStatOut ==
    /\ pc = "fx_stat_out"
    /\ last' = [op |-> "stat", f |-> "out", r |-> Exists(out)]
    \* out exists: a resumed simulation (and overwrite_output) keeps the name; nothing happens here
    /\ pc' = IF SafeWrite THEN "fx_stat_bak" ELSE "sim_init"
    /\ UNCHANGED <<out, bak, mem, eng, lfc, sv, ret, saved, durable, crashes>>

FxStatBak ==
    /\ pc = "fx_stat_bak"
    /\ last' = [op |-> "stat", f |-> "bak", r |-> Exists(bak)]
    /\ pc' = IF Exists(bak) THEN "sim_init" ELSE "fx_open_bak"
    /\ UNCHANGED <<out, bak, mem, eng, lfc, sv, ret, saved, durable, crashes>>

FxOpenBak ==
    /\ pc = "fx_open_bak"
    /\ bak' = TextF
    /\ last' = [op |-> "open", f |-> "bak"]
    /\ pc' = "fx_write_bak"
    /\ UNCHANGED <<out, mem, eng, lfc, sv, ret, saved, durable, crashes>>

FxWriteBak ==
    /\ pc = "fx_write_bak"
    /\ last' = [op |-> "write", f |-> "bak", n |-> 1]
    /\ pc' = "fx_close_bak"
    /\ UNCHANGED <<out, bak, mem, eng, lfc, sv, ret, saved, durable, crashes>>

FxCloseBak ==
    /\ pc = "fx_close_bak"
    /\ last' = [op |-> "close", f |-> "bak"]
    /\ pc' = "sim_init"
    /\ UNCHANGED <<out, bak, mem, eng, lfc, sv, ret, saved, durable, crashes>>

----------------------------------------------------------------------------
\* run() / resume_run(): init_algorithm creates a new engine; a resumed run makes no initial measurement
SimInit ==
    /\ pc = "sim_init"
    /\ eng' = NewEngine
    /\ pc' = IF lfc THEN "loop" ELSE "meas_init"
    /\ last' = Tau
    /\ UNCHANGED <<out, bak, mem, lfc, sv, ret, saved, durable, crashes>>

Measured(m) == [m EXCEPT !.meas = Append(@, <<m.k, m.acc, m.p>>)]

MeasInit ==
    /\ pc = "meas_init"
    /\ mem' = Measured(mem)
    /\ last' = [op |-> "meas", k |-> mem.k]
    /\ pc' = "loop"
    /\ UNCHANGED <<out, bak, eng, lfc, sv, ret, saved, durable, crashes>>

Stepped(m) == [m EXCEPT !.k = @ + 1, !.p = @ + 1, !.acc = @ + (IF TruncErr THEN 1 ELSE 0)]

\* top of the engine loop
LoopDummy ==
    /\ Kind = "dummy" /\ pc = "loop"
    /\ IF mem.k >= NSteps
       THEN pc' = "post" /\ last' = Tau /\ UNCHANGED mem
       ELSE pc' = "ckpt" /\ mem' = Stepped(mem) /\ last' = [op |-> "alg", k |-> mem.k + 1]
    /\ ret' = "loop"
    /\ UNCHANGED <<out, bak, eng, lfc, sv, saved, durable, crashes>>

\* IterativeSweeps.run: stopping_criterion consults is_converged(), which reads sweep_stats[...][-1];
\* the statistics are engine-local (reset_stats at engine creation) and empty until an iteration ran.
LoopIter ==
    /\ Kind = "iter" /\ pc = "loop"
    /\ IF ~GuardStats /\ (mem.k >= NSteps \/ mem.k > MinSweeps) /\ ~eng.stats
       THEN pc' = "error" /\ last' = [op |-> "exc"]
       ELSE /\ last' = Tau
            /\ pc' = IF mem.k >= NSteps THEN "post" ELSE IF eng.first THEN "iterate" ELSE "ckpt"
    /\ ret' = "iterate"
    /\ UNCHANGED <<out, bak, mem, eng, lfc, sv, saved, durable, crashes>>

Iterate ==
    /\ Kind = "iter" /\ pc = "iterate"
    /\ mem' = Stepped(mem)
    /\ eng' = [eng EXCEPT !.first = FALSE, !.stats = TRUE]
    /\ last' = [op |-> "alg", k |-> mem.k + 1]
    /\ pc' = "loop"
    /\ UNCHANGED <<out, bak, lfc, sv, ret, saved, durable, crashes>>

LoopTevo ==
    /\ Kind = "tevo" /\ pc = "loop"
    /\ IF mem.k >= NSteps
       THEN pc' = "post" /\ last' = Tau /\ UNCHANGED mem
       ELSE pc' = "tevo_run" /\ last' = Tau /\ UNCHANGED mem
    /\ eng' = [eng EXCEPT !.i = 0, !.ck = FALSE]
    /\ ret' = "loop"
    /\ UNCHANGED <<out, bak, lfc, sv, saved, durable, crashes>>

\* engine.run() -> TimeEvolutionAlgorithm.evolve(N_steps, dt): the loop over evolve_step changes psi only;
\* evolved_time and trunc_err are advanced after the loop.  (SubCkpt: checkpoint before every step but the first.)
TevoRun ==
    /\ Kind = "tevo" /\ pc = "tevo_run"
    /\ IF eng.i >= NSub
       THEN /\ mem' = [mem EXCEPT !.k = @ + 1, !.acc = @ + (IF TruncErr THEN 1 ELSE 0)]
            /\ last' = [op |-> "alg", k |-> mem.k + 1]
            /\ pc' = "tevo_meas" /\ ret' = "loop" /\ UNCHANGED eng
       ELSE IF SubCkpt /\ eng.i > 0 /\ ~eng.ck
       THEN /\ eng' = [eng EXCEPT !.ck = TRUE]
            /\ last' = Tau
            /\ pc' = "ckpt" /\ ret' = "tevo_run" /\ UNCHANGED mem
       ELSE /\ mem' = [mem EXCEPT !.p = @ + 1]
            /\ eng' = [eng EXCEPT !.i = @ + 1, !.ck = FALSE]
            /\ last' = [op |-> "sub", p |-> mem.p + 1]
            /\ UNCHANGED <<pc, ret>>
    /\ UNCHANGED <<out, bak, lfc, sv, saved, durable, crashes>>

TevoMeas ==
    /\ pc = "tevo_meas"
    /\ mem' = Measured(mem)
    /\ last' = [op |-> "meas", k |-> mem.k]
    /\ pc' = "ckpt"
    /\ UNCHANGED <<out, bak, eng, lfc, sv, ret, saved, durable, crashes>>

\* checkpoint event: listeners in priority order (marker +100, measurement 0, save_at_checkpoint -100)
SaveEntry == IF Protocol = "replace" /\ SafeWrite THEN "rp_open" ELSE "sv_stat_out"

Ckpt ==
    /\ pc = "ckpt"
    /\ last' = [op |-> "ckpt", k |-> mem.k]
    /\ IF MeasAtCkpt /\ Kind # "tevo"
       THEN pc' = "ckpt_meas" /\ UNCHANGED sv
       ELSE pc' = SaveEntry /\ sv' = mem
    /\ UNCHANGED <<out, bak, mem, eng, lfc, ret, saved, durable, crashes>>

CkptMeas ==
    /\ pc = "ckpt_meas"
    /\ mem' = Measured(mem)
    /\ last' = [op |-> "meas", k |-> mem.k]
    /\ sv' = mem'
    /\ pc' = SaveEntry
    /\ UNCHANGED <<out, bak, eng, lfc, ret, saved, durable, crashes>>

\* after the engine returned: final measurement (not for RealTimeEvolution), finished_run, save
Post ==
    /\ pc = "post"
    /\ last' = Tau
    /\ IF Kind = "tevo"
       THEN /\ mem' = [mem EXCEPT !.fin = TRUE]
            /\ sv' = mem' /\ ret' = "finishing" /\ pc' = SaveEntry
       ELSE pc' = "post_meas" /\ UNCHANGED <<mem, sv, ret>>
    /\ UNCHANGED <<out, bak, eng, lfc, saved, durable, crashes>>

PostMeas ==
    /\ pc = "post_meas"
    /\ mem' = [Measured(mem) EXCEPT !.fin = TRUE]
    /\ last' = [op |-> "meas", k |-> mem.k]
    /\ sv' = mem' /\ ret' = "finishing" /\ pc' = SaveEntry
    /\ UNCHANGED <<out, bak, eng, lfc, saved, durable, crashes>>

Done ==
    /\ pc = "finishing"
    /\ pc' = "done"
    /\ last' = [op |-> "done", k |-> mem.k, ks |-> [i \in 1..Len(mem.meas) |-> mem.meas[i][1]],
                accs |-> [i \in 1..Len(mem.meas) |-> mem.meas[i][2]]]
    /\ UNCHANGED <<out, bak, mem, eng, lfc, sv, ret, saved, durable, crashes>>

----------------------------------------------------------------------------
\* Protocol "legacy": save_results as it was before commit 894bf4d (rename out -> bak, write out, unlink
\* bak).  Kept as the witness that AlwaysACompleteFile is not vacuous: TLC refutes it (crash during the
\* write, resume from bak, the next save unlinks bak first).  The part from sv_stat_out / sv_unlink_out /
\* sv_open on is also what the code does with safe_write off.
SvStatOut ==
    /\ pc = "sv_stat_out"
    /\ last' = [op |-> "stat", f |-> "out", r |-> Exists(out)]
    /\ pc' = IF Exists(out) THEN (IF SafeWrite THEN "sv_stat_bak" ELSE "sv_unlink_out") ELSE "sv_open"
    /\ UNCHANGED <<out, bak, mem, eng, lfc, sv, ret, saved, durable, crashes>>

SvStatBak ==
    /\ pc = "sv_stat_bak"
    /\ last' = [op |-> "stat", f |-> "bak", r |-> Exists(bak)]
    /\ pc' = IF Exists(bak) THEN "sv_unlink_bak" ELSE "sv_rename"
    /\ UNCHANGED <<out, bak, mem, eng, lfc, sv, ret, saved, durable, crashes>>

SvUnlinkBak ==
    /\ pc = "sv_unlink_bak"
    /\ bak' = Absent
    /\ last' = [op |-> "unlink", f |-> "bak"]
    /\ pc' = "sv_rename"
    /\ UNCHANGED <<out, mem, eng, lfc, sv, ret, saved, durable, crashes>>

SvRename ==
    /\ pc = "sv_rename"
    /\ bak' = out /\ out' = Absent
    /\ last' = [op |-> "rename", f |-> "out", t |-> "bak"]
    /\ pc' = "sv_open"
    /\ UNCHANGED <<mem, eng, lfc, sv, ret, saved, durable, crashes>>

SvUnlinkOut ==                  \* safe_write = False
    /\ pc = "sv_unlink_out"
    /\ out' = Absent
    /\ last' = [op |-> "unlink", f |-> "out"]
    /\ pc' = "sv_open"
    /\ UNCHANGED <<bak, mem, eng, lfc, sv, ret, saved, durable, crashes>>

SvOpen ==
    /\ pc = "sv_open"
    /\ out' = Partial(sv, 0)
    /\ last' = [op |-> "open", f |-> "out"]
    /\ pc' = "sv_write"
    /\ UNCHANGED <<bak, mem, eng, lfc, sv, ret, saved, durable, crashes>>

\* a write call that is not the last one of this save
SvWrite(n) ==
    /\ pc = "sv_write" /\ out.w + n <= MaxWrites
    /\ out' = Partial(sv, out.w + n)
    /\ last' = [op |-> "write", f |-> "out", n |-> n]
    /\ UNCHANGED <<bak, pc, mem, eng, lfc, sv, ret, saved, durable, crashes>>

\* the write call after which the data of this save are completely in the file: from here on the file
\* loads, whether or not it has been closed (close does not change the content)
SvWriteLast(n) ==
    /\ pc = "sv_write"
    /\ out' = Complete(sv)
    /\ saved' = TRUE /\ durable' = sv
    /\ last' = [op |-> "write", f |-> "out", n |-> n]
    /\ pc' = "sv_close"
    /\ UNCHANGED <<bak, mem, eng, lfc, sv, ret, crashes>>

SvClose ==
    /\ pc = "sv_close"
    /\ last' = [op |-> "close", f |-> "out"]
    /\ pc' = IF SafeWrite THEN "sv_stat_bak2" ELSE ret
    /\ UNCHANGED <<out, bak, mem, eng, lfc, sv, ret, saved, durable, crashes>>

SvStatBak2 ==
    /\ pc = "sv_stat_bak2"
    /\ last' = [op |-> "stat", f |-> "bak", r |-> Exists(bak)]
    /\ pc' = IF Exists(bak) THEN "sv_unlink_bak2" ELSE ret
    /\ UNCHANGED <<out, bak, mem, eng, lfc, sv, ret, saved, durable, crashes>>

SvUnlinkBak2 ==
    /\ pc = "sv_unlink_bak2"
    /\ bak' = Absent
    /\ last' = [op |-> "unlink", f |-> "bak"]
    /\ pc' = ret
    /\ UNCHANGED <<out, mem, eng, lfc, sv, ret, saved, durable, crashes>>

\* Protocol "replace": save_results as implemented: write the new results under the backup name (used
\* as a temporary file), then os.replace(bak, out), which replaces `out` atomically; a save counts as
\* completed when the rename is done
RpOpen ==
    /\ pc = "rp_open"
    /\ bak' = Partial(sv, 0)
    /\ last' = [op |-> "open", f |-> "bak"]
    /\ pc' = "rp_write"
    /\ UNCHANGED <<out, mem, eng, lfc, sv, ret, saved, durable, crashes>>

RpWrite(n) ==
    /\ pc = "rp_write" /\ bak.w + n <= MaxWrites
    /\ bak' = Partial(sv, bak.w + n)
    /\ last' = [op |-> "write", f |-> "bak", n |-> n]
    /\ UNCHANGED <<out, pc, mem, eng, lfc, sv, ret, saved, durable, crashes>>

RpWriteLast(n) ==
    /\ pc = "rp_write"
    /\ bak' = Complete(sv)
    /\ last' = [op |-> "write", f |-> "bak", n |-> n]
    /\ pc' = "rp_close"
    /\ UNCHANGED <<out, mem, eng, lfc, sv, ret, saved, durable, crashes>>

RpClose ==
    /\ pc = "rp_close"
    /\ last' = [op |-> "close", f |-> "bak"]
    /\ pc' = "rp_replace"
    /\ UNCHANGED <<out, bak, mem, eng, lfc, sv, ret, saved, durable, crashes>>

RpReplace ==
    /\ pc = "rp_replace"
    /\ out' = bak /\ bak' = Absent
    /\ saved' = TRUE /\ durable' = sv          \* the rename is the commit point of this protocol
    /\ last' = [op |-> "rename", f |-> "bak", t |-> "out"]
    /\ pc' = ret
    /\ UNCHANGED <<mem, eng, lfc, sv, ret, crashes>>

----------------------------------------------------------------------------
Live == pc \notin {"crashed", "done", "error"}

Crash ==
    /\ Live /\ crashes < MaxCrashes
    /\ pc' = "crashed"
    /\ mem' = Fresh /\ eng' = NewEngine /\ sv' = Fresh /\ ret' = "none" /\ lfc' = FALSE
    /\ crashes' = crashes + 1
    /\ last' = [op |-> "crash", at |-> pc]      \* (the control point is remembered so that crashes at different
                                                \*  points are different states of the state cover used for GEN)
    /\ UNCHANGED <<out, bak, saved, durable>>

\* resume_from_checkpoint(filename = f): needs a loadable file of an unfinished run
Resume(f) ==
    /\ pc = "crashed"
    /\ IsComplete(File(f)) /\ ~File(f).c.fin
    /\ mem' = [k |-> File(f).c.k, p |-> File(f).c.p, acc |-> IF SavesAcc THEN File(f).c.acc ELSE 0,
               meas |-> File(f).c.meas, fin |-> FALSE]
    /\ lfc' = TRUE
    /\ pc' = "fx_stat_out"
    /\ last' = [op |-> "resume", f |-> f]
    /\ UNCHANGED <<out, bak, eng, sv, ret, saved, durable, crashes>>

\* nothing to resume from: run the job again from the start (overwrite_output = True)
Restart ==
    /\ AllowRestart /\ pc = "crashed"
    /\ ~IsComplete(out) /\ ~IsComplete(bak)
    /\ mem' = Fresh /\ lfc' = FALSE
    /\ pc' = "fx_stat_out"
    /\ last' = [op |-> "restart"]
    /\ UNCHANGED <<out, bak, eng, sv, ret, saved, durable, crashes>>

----------------------------------------------------------------------------
FileObs(f) == IF f.st \in {"absent", "text"} THEN [st |-> f.st]
              ELSE [st |-> f.st, k |-> f.c.k, nm |-> Len(f.c.meas), fin |-> f.c.fin]
Obs == [out |-> FileObs(out), bak |-> FileObs(bak), pc |-> pc, k |-> mem.k, nm |-> Len(mem.meas)]

Step(Act) == Act /\ hist' = Append(hist, [l |-> last', o |-> Obs'])

DoFxStatOut    == Step(FxStatOut)
DoFxStatBak    == Step(FxStatBak)
DoFxOpenBak    == Step(FxOpenBak)
DoFxWriteBak   == Step(FxWriteBak)
DoFxCloseBak   == Step(FxCloseBak)
DoSimInit      == Step(SimInit)
DoMeasInit     == Step(MeasInit)
DoLoopDummy    == Step(LoopDummy)
DoLoopIter     == Step(LoopIter)
DoIterate      == Step(Iterate)
DoLoopTevo     == Step(LoopTevo)
DoTevoRun      == Step(TevoRun)
DoTevoMeas     == Step(TevoMeas)
DoCkpt         == Step(Ckpt)
DoCkptMeas     == Step(CkptMeas)
DoPost         == Step(Post)
DoPostMeas     == Step(PostMeas)
DoDone         == Step(Done)
DoSvStatOut    == Step(SvStatOut)
DoSvStatBak    == Step(SvStatBak)
DoSvUnlinkBak  == Step(SvUnlinkBak)
DoSvRename     == Step(SvRename)
DoSvUnlinkOut  == Step(SvUnlinkOut)
DoSvOpen       == Step(SvOpen)
DoSvWrite      == Step(SvWrite(1))
DoSvWriteLast  == Step(SvWriteLast(1))
DoSvClose      == Step(SvClose)
DoSvStatBak2   == Step(SvStatBak2)
DoSvUnlinkBak2 == Step(SvUnlinkBak2)
DoRpOpen       == Step(RpOpen)
DoRpWrite      == Step(RpWrite(1))
DoRpWriteLast  == Step(RpWriteLast(1))
DoRpClose      == Step(RpClose)
DoRpReplace    == Step(RpReplace)
DoCrash        == Step(Crash)
DoResume       == Step(\E f \in {"out", "bak"} : Resume(f))
DoRestart      == Step(Restart)

\* every action except the write calls (the trace specification re-uses it and takes the number of
\* merged write calls from the recorded event)
NextNoWrite ==
        \/ DoFxStatOut \/ DoFxStatBak \/ DoFxOpenBak \/ DoFxWriteBak \/ DoFxCloseBak
        \/ DoSimInit \/ DoMeasInit \/ DoLoopDummy \/ DoLoopIter \/ DoIterate \/ DoLoopTevo \/ DoTevoRun \/ DoTevoMeas
        \/ DoCkpt \/ DoCkptMeas \/ DoPost \/ DoPostMeas \/ DoDone
        \/ DoSvStatOut \/ DoSvStatBak \/ DoSvUnlinkBak \/ DoSvRename \/ DoSvUnlinkOut \/ DoSvOpen
        \/ DoSvClose \/ DoSvStatBak2 \/ DoSvUnlinkBak2
        \/ DoRpOpen \/ DoRpClose \/ DoRpReplace
        \/ DoCrash \/ DoResume \/ DoRestart

Next == NextNoWrite \/ DoSvWrite \/ DoSvWriteLast \/ DoRpWrite \/ DoRpWriteLast

Spec == Init /\ [][Next]_vars

----------------------------------------------------------------------------
\* C18, first sentence: once a save has completed, whatever happens (in particular in every crashed
\* state) a complete file holding the results of the most recently completed save is on disk
AlwaysACompleteFile ==
    saved => \E f \in {out, bak} : IsComplete(f) /\ f.c = durable

\* the same, restricted to the states a failure actually leaves behind (with MaxCrashes = 1 this
\* says: a single crash is survived)
CrashedHasComplete == pc = "crashed" => AlwaysACompleteFile

\* a first crash is always survived (holds for any MaxCrashes)
FirstCrashSafe == (pc = "crashed" /\ crashes = 1) => AlwaysACompleteFile

\* ... "no failure leaves only a partial file"
NeverOnlyPartial ==
    saved => ((out.st = "partial" \/ bak.st = "partial") => (IsComplete(out) \/ IsComplete(bak)))

\* C18, second sentence.  Measurements in memory and in every loadable file are a prefix of the
\* uninterrupted sequence (none lost, none duplicated, same values) ...
MeasPrefixOfIdeal ==
    /\ IsPrefix(mem.meas, IdealMeas)
    /\ \A f \in {out, bak} : IsComplete(f) => IsPrefix(f.c.meas, IdealMeas)

\* ... and a run that finishes, finishes with the uninterrupted run's results
FinalEqual ==
    pc = "done" => /\ mem.k = NSteps /\ mem.p = P(NSteps) /\ mem.meas = IdealMeas
                   /\ out = Complete(mem) /\ mem.fin

\* whatever is written to a results file is a checkpoint of the abstract run: the state psi, the engine's
\* bookkeeping (evolved_time / sweeps) and the measurement list belong to the same step
Consistent(c) == /\ c.p = P(c.k)
                 /\ Kind = "tevo" => Len(c.meas) = c.k + 1
SavedIsCheckpoint == \A f \in {out, bak} : f.st \in {"partial", "complete"} => Consistent(f.c)

\* "Resuming from any checkpoint finishes the simulation": the resumed run does not abort
ResumeRuns == pc # "error"

\* a live process can always take a step, a crashed one can be resumed / restarted unless its
\* results are finished (or it never saved and restarts are not modelled)
NoStuck ==
    \/ pc \in {"done", "error"}
    \/ crashes >= MaxCrashes
    \/ ENABLED Next
    \/ pc = "crashed" /\ (\E f \in {out, bak} : IsComplete(f) /\ f.c.fin)
    \/ pc = "crashed" /\ ~AllowRestart /\ ~IsComplete(out) /\ ~IsComplete(bak)

TypeOK ==
    /\ out.st \in {"absent", "text", "partial", "complete"}
    /\ bak.st \in {"absent", "text", "partial", "complete"}
    /\ mem.k \in 0..NSteps /\ crashes \in 0..MaxCrashes
=============================================================================
