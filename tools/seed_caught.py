#!/venv/bin/python
"""tools/seed_caught.py <seed-id> <check> "<signature/clause>" [<check> "<clause>" ...]: record which checks catch a seeded change."""
import json, os, sys
V = os.path.dirname(os.path.dirname(os.path.abspath(__file__)))
sid = sys.argv[1]
p = os.path.join(V, 'seeded', sid, 'meta.json')
m = json.load(open(p))
pairs = sys.argv[2:]
m['caught_by'] = [dict(check=pairs[i], clause=pairs[i + 1], cmd='tools/try_seed.sh <worktree> seeded/%s/patch.diff %s' % (sid, pairs[i])) for i in range(0, len(pairs), 2)]
json.dump(m, open(p, 'w'), indent=1)
print(sid, m['caught_by'])
