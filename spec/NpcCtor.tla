------------------------------ MODULE NpcCtor ------------------------------
(* Growth of C02 / C04: the parts of the public tensor API of tenpy.linalg.np_conserved / charges that
   spec/NpcProgram.tla does not cover -- constructors, charge-changing methods (the ChargeInfo of the
   result differs from that of the operand), grid functions, the label API and element-wise methods.

   A tensor here is the record of module Npc extended by its ChargeInfo and its data type:
       [mods, names, dtype, legs, qtotal, labels, val]
   (mods : Seq of moduli, 1 = U(1); names : Seq of strings; dtype : "i" | "f" | "c" = int64 / float64 /
   complex128).  Module Npc is instantiated once per ChargeInfo:  N(mods)!Op(...).  Every action computes
   the expected result itself from the dense reference semantics (module Dense) and the documented charge
   bookkeeping; the replay only projects tenpy objects onto these records. *)
EXTENDS Dense, TLC

N(m) == INSTANCE Npc WITH Mods <- m
L == INSTANCE Npc WITH Mods <- <<>>      \* operators on legs / labels that do not depend on the moduli

CONSTANTS Catalogue,     \* sequence of configurations; a configuration is a sequence of initial tensors
          NSlots, MaxOps, MaxRank, MaxSize, MaxAbs

Slots == 1..NSlots
XT(mods, names, dtype, core) ==
    [mods |-> mods, names |-> names, dtype |-> dtype, legs |-> core.legs, qtotal |-> core.qtotal,
     labels |-> core.labels, val |-> core.val]
Core(t) == [legs |-> t.legs, qtotal |-> t.qtotal, labels |-> t.labels, val |-> t.val]
Same(t, core) == XT(t.mods, t.names, t.dtype, core)
Null == [mods |-> <<>>, names |-> <<>>, dtype |-> "f", legs |-> <<>>, qtotal |-> <<>>, labels |-> <<>>,
         val |-> [shape |-> <<>>, val |-> <<>>]]

\* data types: int64 < float64 < complex128 (numpy promotion)
DRank(d) == CASE d = "i" -> 1 [] d = "f" -> 2 [] OTHER -> 3
Promote(a, b) == IF DRank(a) >= DRank(b) THEN a ELSE b
IsRealD(d) == \A n \in 1..Len(d.val) : d.val[n][2] = 0
ScalarDtype(z) == IF z[2] # 0 THEN "c" ELSE "f"      \* the replay passes python floats / complex numbers

VARIABLES cfg, pool, used, cls, pending, last, nops, hist
vars == <<cfg, pool, used, cls, pending, last, nops, hist>>
AbsView == <<cfg, pool, used, cls, pending, nops, last>>
Nil == [op |-> "nil"]

Init == /\ cfg = 0
        /\ pool = [s \in Slots |-> Null]
        /\ used = {}
        /\ cls = "none"
        /\ pending = Nil
        /\ last = [op |-> "init", out |-> 0, inplace |-> FALSE, err |-> "none"]
        /\ nops = 0
        /\ hist = <<>>

\* the first step picks a catalogue configuration
Setup == /\ cfg = 0
         /\ \E c \in 1..Len(Catalogue) :
               /\ cfg' = c
               /\ pool' = [s \in Slots |-> IF s <= Len(Catalogue[c]) THEN Catalogue[c][s] ELSE Null]
               /\ used' = 1..Len(Catalogue[c])
         /\ UNCHANGED <<cls, pending, last, nops, hist>>

OutSlot == IF used # Slots THEN CHOOSE s \in Slots \ used : \A s2 \in Slots \ used : s <= s2
           ELSE (nops % NSlots) + 1

SmallEnough(t) == /\ Len(t.legs) <= MaxRank /\ Size(t.val.shape) <= MaxSize
                  /\ \A n \in 1..Len(t.val.val) : IAbs(t.val.val[n][1]) <= MaxAbs /\ IAbs(t.val.val[n][2]) <= MaxAbs

Base == [out |-> 0, inplace |-> FALSE, err |-> "none"]
\* operations documented to return copies: the entries of the result are not shared with any operand
\* (the others -- replace_label(s), unary_blockwise, binary_blockwise -- are documented to work on shallow copies)
Fresh(desc) == \/ desc.op \in {"from_ndarray", "from_ndarray_copy", "add_charge", "drop_charge", "change_charge", "astype", "mul_scalar",
                               "transpose_l", "grid_concat", "grid_outer", "combine_legs_l"}
               \/ (desc.op = "concatenate" /\ desc.copy)
               \/ (desc.op = "binary" /\ desc.func = "sub")
               \/ (desc.op = "unary" /\ desc.func = "neg" /\ FALSE)
Skipped == /\ UNCHANGED <<pool, used>> /\ last' = [op |-> "skipped"] @@ Base
Store(t, desc) ==
    IF SmallEnough(t) THEN
        /\ pool' = [pool EXCEPT ![OutSlot] = t]
        /\ used' = used \cup {OutSlot}
        /\ last' = desc @@ [out |-> OutSlot, inplace |-> FALSE, err |-> "none", fresh |-> Fresh(desc)]
    ELSE Skipped
Update(s, t, desc) ==
    /\ pool' = [pool EXCEPT ![s] = t]
    /\ used' = used
    /\ last' = desc @@ [out |-> s, inplace |-> TRUE, err |-> "none"]
\* an observer: the result is a value (scalar, index, leg, ChargeInfo, dense array, ...) in desc.value
Observe(desc) == /\ UNCHANGED <<pool, used>> /\ last' = desc @@ Base
\* a documented precondition is violated: the call must raise (class e; "any" = class not documented)
Fail(desc, e) == /\ UNCHANGED <<pool, used>> /\ last' = desc @@ [out |-> 0, inplace |-> FALSE, err |-> e]

T(s) == pool[s]
R(s) == Len(pool[s].legs)
M(s) == pool[s].mods
U == used
Perms(n) == {p \in [1..n -> 1..n] : {p[k] : k \in 1..n} = 1..n}
InjSeqs(n, k) == {q \in [1..k -> 1..n] : \A i, j \in 1..k : i # j => q[i] # q[j]}
DelAt(s, k) == SubSeq(s, 1, k - 1) \o SubSeq(s, k + 1, Len(s))
SetAt(s, k, v) == [s EXCEPT ![k] = v]
Lab(x) == <<x>>
FreshLabels(r) == [a \in 1..r |-> Lab(<<"u", "v", "w", "x", "y">>[a])]

-----------------------------------------------------------------------------
\* (a) constructors

\* cutoff arguments are given as twice their value (c = 5 means cutoff = 2.5); c = 0 stands for the default
\* (QCUTOFF, tiny): a non-zero Gaussian integer has modulus >= 1
C2(c) == IF c = 0 THEN 1 ELSE c
Greater(z, c) == 4 * GAbs2(z) > C2(c) * C2(c)
Smaller(z, c) == 4 * GAbs2(z) < C2(c) * C2(c)

\* position (1-based, C order) of the first entry of largest modulus: numpy.argmax(abs(.))
ArgMax(d) == CHOOSE n \in 1..Len(d.val) : /\ \A k \in 1..Len(d.val) : GAbs2(d.val[k]) <= GAbs2(d.val[n])
                                          /\ \A k \in 1..(n - 1) : GAbs2(d.val[k]) < GAbs2(d.val[n])
\* detect_qtotal: charge sector of the largest entry; if that is smaller than the cutoff: warning and charge 0
DetectQ(mods, d, legs, c) ==
    IF Smaller(d.val[ArgMax(d)], c) THEN [q |-> N(mods)!QZero, warn |-> TRUE]
    ELSE [q |-> N(mods)!IndexCharge(legs, Unflat(ArgMax(d) - 1, d.shape)), warn |-> FALSE]
\* the detection is well defined: all entries of largest modulus lie in the same sector
DetectDefined(mods, d, legs) ==
    LET m == GAbs2(d.val[ArgMax(d)])
        S == {n \in 1..Len(d.val) : GAbs2(d.val[n]) = m}
    IN m = 0 \/ \A n1, n2 \in S : N(mods)!IndexCharge(legs, Unflat(n1 - 1, d.shape)) = N(mods)!IndexCharge(legs, Unflat(n2 - 1, d.shape))

InSector(mods, legs, q, d) == Mk(d.shape, LAMBDA idx : IF N(mods)!IndexCharge(legs, idx) = q THEN At(d, idx) ELSE GZero)
OffSectorAbove(mods, legs, q, d, c) ==
    \E n \in 1..Len(d.val) : Greater(d.val[n], c) /\ N(mods)!IndexCharge(legs, Unflat(n - 1, d.shape)) # q
Perturbed(d, pert) == IF pert.n = 0 THEN d ELSE [d EXCEPT !.val = [@ EXCEPT ![pert.n] = pert.z]]

\* Array.from_ndarray(data, legs, dtype, qtotal, cutoff, labels, raise_wrong_sector)
FromNdarrayRes(t, P) ==
    LET d == Perturbed(t.val, P.pert)
        det == DetectQ(t.mods, d, t.legs, P.cut)
        q == IF P.qgiven THEN t.qtotal ELSE det.q
        bad == OffSectorAbove(t.mods, t.legs, q, d, P.cut)
        dt == IF P.dtype = "none" THEN t.dtype ELSE P.dtype
    IN [raise |-> bad /\ P.raise,
        warn |-> (~P.qgiven /\ det.warn) \/ (bad /\ ~P.raise),
        tensor |-> XT(t.mods, t.names, dt, [legs |-> t.legs, qtotal |-> q, labels |-> P.labels, val |-> InSector(t.mods, t.legs, q, d)])]
FromNdarray(s, P) ==
    LET r == FromNdarrayRes(T(s), P)
        desc == [op |-> "from_ndarray", a |-> s, pert |-> P.pert, cut |-> P.cut, qgiven |-> P.qgiven, raise |-> P.raise,
                 labels |-> P.labels, dtype |-> P.dtype, warn |-> r.warn]
    IN IF r.raise THEN Fail(desc, "ValueError") ELSE Store(r.tensor, desc)

TrivialLeg(n) == L!PlainLeg(<<n>>, <<<<>>>>, 1)
FromNdarrayTrivial(s, labels) ==
    LET t == T(s) IN
    Store(XT(<<>>, <<>>, t.dtype, [legs |-> [a \in 1..R(s) |-> TrivialLeg(t.val.shape[a])], qtotal |-> <<>>, labels |-> labels, val |-> t.val]),
          [op |-> "from_ndarray_trivial", a |-> s, labels |-> labels])

\* Array.from_func(func, legs, dtype, qtotal, labels): every block allowed by the charge rule is func(block shape).
\* The deterministic functions of the block shape used here:  ones -> all 1 (numpy.ones, float64);
\*   arange -> 1 + C-order position within the block (int64);  cplx -> (1 + k) - k i  for position k (complex128)
FuncVal(f, w, bs) == CASE f = "ones" -> <<1, 0>>
                       [] f = "arange" -> <<1 + Flat(w, bs), 0>>
                       [] OTHER -> <<1 + Flat(w, bs), -Flat(w, bs)>>
FuncDtype(f) == CASE f = "ones" -> "f" [] f = "arange" -> "i" [] OTHER -> "c"
FromFuncT(t, q, labels, f, dtype) ==
    LET legs == t.legs
        r == Len(legs)
        val(idx) == FuncVal(f, [a \in 1..r |-> L!Within(legs[a], idx[a])], [a \in 1..r |-> legs[a].sizes[L!QIndex(legs[a], idx[a])]])
    IN XT(t.mods, t.names, IF dtype = "none" THEN FuncDtype(f) ELSE dtype, N(t.mods)!MkTensor(legs, q, labels, val))
FromFunc(s, q, labels, f, dtype, how) ==
    Store(FromFuncT(T(s), q, labels, f, dtype), [op |-> "from_func", a |-> s, q |-> q, labels |-> labels, func |-> f, dtype |-> dtype, how |-> how])
Zeros(s, q, labels, dtype) ==
    Store(XT(M(s), T(s).names, IF dtype = "none" THEN "f" ELSE dtype, N(M(s))!MkTensor(T(s).legs, q, labels, LAMBDA idx : GZero)),
          [op |-> "zeros", a |-> s, q |-> q, labels |-> labels, dtype |-> dtype])

\* diag(s, leg, dtype, labels): legs (leg, leg.conj()), charge 0, entries s on the diagonal; eye_like(a, axis) = diag(1., a.legs[axis])
DiagT(t, x, sv, labels, dtype) ==
    LET leg == t.legs[x]
        legs == <<leg, L!ConjLeg(leg)>>
    IN XT(t.mods, t.names, dtype, [legs |-> legs, qtotal |-> N(t.mods)!QZero, labels |-> labels,
                                    val |-> Mk(L!ShapeOf(legs), LAMBDA idx : IF idx[1] = idx[2] THEN sv[idx[1] + 1] ELSE GZero)])
DiagVec(kind, n) == [i \in 1..n |-> CASE kind = "one" -> <<1, 0>> [] kind = "scalar" -> <<3, 0>> [] kind = "cscalar" -> <<0, 2>>
                                      [] kind = "vec" -> <<i + 1, 0>> [] OTHER -> <<i, 1 - i>>]
DiagKindDtype(kind) == IF kind \in {"cscalar", "cvec"} THEN "c" ELSE "f"
Diag(s, x, kind, labels, dtype, short) ==
    LET n == L!IndLen(T(s).legs[x])
        desc == [op |-> "diag", a |-> s, x |-> x, kind |-> kind, labels |-> labels, dtype |-> dtype, short |-> short,
                 sv |-> DiagVec(kind, IF short THEN n + 1 ELSE n)]
    IN IF short THEN Fail(desc, "ValueError")      \* documented: len(s) must equal leg.ind_len
       ELSE Store(DiagT(T(s), x, DiagVec(kind, n), labels, IF dtype = "none" THEN DiagKindDtype(kind) ELSE dtype), desc)
EyeLike(s, arg, x, labels) ==
    Store(DiagT(T(s), x, DiagVec("one", L!IndLen(T(s).legs[x])), labels, "f"), [op |-> "eye_like", a |-> s, axis |-> arg, x |-> x, labels |-> labels])

\* detect_qtotal(flat, legs, cutoff) on the (perturbed) dense array of a tensor
DetectQtotal(s, pert, c) ==
    LET r == DetectQ(M(s), Perturbed(T(s).val, pert), T(s).legs, c) IN
    Observe([op |-> "detect_qtotal", a |-> s, pert |-> pert, cut |-> c, value |-> r.q, warn |-> r.warn])
\* detect_legcharge(flat, chinfo, legs with legs[x] = None, qtotal, qconj): the (bunched) leg that makes `flat` obey the
\* charge rule.  Defined when every slice along x has a non-zero entry.
SliceNonzero(t, x) == \A i \in 0..(t.val.shape[x] - 1) : ~TIsZero(TTake(t.val, x, i))
DetectLegOf(t, x, qc) ==
    LET others == DelAt(t.legs, x)
        qf == [i \in 1..t.val.shape[x] |->
                  N(t.mods)!QScale(qc, N(t.mods)!QSub(t.qtotal, DetectQ(t.mods, TTake(t.val, x, i - 1), others, 0).q))]
    IN N(t.mods)!LegFromQFlat(qf, qc)
DetectLegcharge(s, x, qc) ==
    Observe([op |-> "detect_legcharge", a |-> s, x |-> x, qconj |-> qc, value |-> DetectLegOf(T(s), x, qc)])
ToNdarray(s) == Observe([op |-> "to_ndarray", a |-> s, value |-> T(s).val, dtype |-> T(s).dtype])

-----------------------------------------------------------------------------
\* (b) charges added / dropped / changed

\* LegCharge.from_add_charge([l1, l2]): a block boundary wherever one of the legs has one; charges concatenated
AddLeg2(l1, l2) ==
    LET n == L!IndLen(l1)
        starts == {L!BlockStart(l1, b) : b \in 1..L!NBlocks(l1)} \cup {L!BlockStart(l2, b) : b \in 1..L!NBlocks(l2)}
        st == L!SortedSeqOf(starts)
        nb == Len(st)
    IN L!PlainLeg([j \in 1..nb |-> (IF j = nb THEN n ELSE st[j + 1]) - st[j]],
                  [j \in 1..nb |-> L!FlatCharge(l1, st[j]) \o L!FlatCharge(l2, st[j])], l1.qconj)
CanAddLeg(l1, l2) == L!IndLen(l1) = L!IndLen(l2) /\ l1.qconj = l2.qconj /\ L!IndLen(l1) > 0
DropLeg(leg, k) == L!PlainLeg(leg.sizes, [b \in 1..L!NBlocks(leg) |-> DelAt(leg.charges[b], k)], leg.qconj)
DropAllLeg(leg) == L!PlainLeg(<<L!IndLen(leg)>>, <<<<>>>>, leg.qconj)
ChangeLeg(leg, newmods) == L!PlainLeg(leg.sizes, [b \in 1..L!NBlocks(leg) |-> N(newmods)!MakeValid(leg.charges[b])], leg.qconj)

\* the legs handed to add_charge are derived from the legs of a pool tensor (same shape as the operand):
\* as they are / one block per index (from_qflat) / neighbouring blocks of equal charge merged (bunch) / all charges negated
Derived(mods, leg, mode) ==
    CASE mode = "same" -> L!ToLegCharge(leg)
      [] mode = "neg" -> L!PlainLeg(leg.sizes, [b \in 1..L!NBlocks(leg) |-> N(mods)!QNeg(leg.charges[b])], leg.qconj)
      [] mode = "flat" -> L!PlainLeg([i \in 1..L!IndLen(leg) |-> 1], L!QFlat(leg), leg.qconj)
      [] OTHER -> LET b == L!BunchBlocks(leg.sizes, leg.charges) IN L!PlainLeg(b[1], b[2], leg.qconj)
AddLegsFrom(b, mode) == [a \in 1..R(b) |-> Derived(M(b), T(b).legs[a], mode)]
AddQ(b, mode) == IF mode = "neg" THEN N(M(b))!QNeg(T(b).qtotal) ELSE T(b).qtotal
AddChargeT(t, addlegs, mods2, names2, q2) ==
    LET nm == t.mods \o mods2 IN
    XT(nm, t.names \o names2, t.dtype,
       [legs |-> [a \in 1..Len(t.legs) |-> AddLeg2(L!ToLegCharge(t.legs[a]), addlegs[a])],
        qtotal |-> N(nm)!MakeValid(t.qtotal \o q2), labels |-> t.labels, val |-> t.val])
\* (the derived legs carry the same charge at every index, so the precondition does not depend on the mode)
CanAddCharge(s, b) ==
    /\ R(s) = R(b) /\ \A a \in 1..R(s) : CanAddLeg(T(s).legs[a], T(b).legs[a])
    /\ Len(M(b)) >= 1
    /\ N(M(b))!ChargeRule([legs |-> T(b).legs, qtotal |-> T(b).qtotal, labels |-> T(s).labels, val |-> T(s).val])
\* add_charge(add_legs, qtotal=q2): qtotal of the result = old qtotal followed by q2.  With qtotal=None the second part is
\* derived from the non-zero entries of self (all of them give the same answer when the precondition holds).
AddCharge(s, b, mode, qgiven) ==
    LET desc == [op |-> "add_charge", a |-> s, b |-> b, mode |-> mode, addlegs |-> AddLegsFrom(b, mode), mods2 |-> M(b),
                 names2 |-> T(b).names, q2 |-> AddQ(b, mode), qgiven |-> qgiven]
    IN IF ~qgiven /\ TIsZero(T(s).val) THEN Fail(desc, "ValueError")
       ELSE Store(AddChargeT(T(s), AddLegsFrom(b, mode), M(b), T(b).names, AddQ(b, mode)), desc)
\* wrong number of legs: documented ValueError
AddChargeWrongLegs(s) ==
    Fail([op |-> "add_charge_wrong", a |-> s, addlegs |-> DelAt(AddLegsFrom(s, "same"), 1), mods2 |-> M(s), names2 |-> T(s).names, q2 |-> T(s).qtotal],
         "ValueError")

\* drop_charge(charge): k = 0 drops all charges (every leg becomes one trivial block, as LegCharge.from_trivial)
DropChargeT(t, k) ==
    IF k = 0 THEN XT(<<>>, <<>>, t.dtype, [legs |-> [a \in 1..Len(t.legs) |-> DropAllLeg(t.legs[a])], qtotal |-> <<>>, labels |-> t.labels, val |-> t.val])
    ELSE XT(DelAt(t.mods, k), DelAt(t.names, k), t.dtype,
            [legs |-> [a \in 1..Len(t.legs) |-> DropLeg(t.legs[a], k)], qtotal |-> DelAt(t.qtotal, k), labels |-> t.labels, val |-> t.val])
NameUsable(t, k) == k >= 1 /\ t.names[k] # "" /\ \A j \in 1..Len(t.names) : j # k => t.names[j] # t.names[k]
DropCharge(s, k, byname) ==
    Store(DropChargeT(T(s), k), [op |-> "drop_charge", a |-> s, k |-> k, byname |-> byname, name |-> IF byname THEN T(s).names[k] ELSE ""])
\* change_charge(charge, new_qmod, new_name): charges and total charge reduced with the new modulus
ChangeMods(t, k, nm) == SetAt(t.mods, k, nm)
ChangeChargeT(t, k, nm, nn) ==
    LET mods2 == ChangeMods(t, k, nm) IN
    XT(mods2, SetAt(t.names, k, nn), t.dtype,
       [legs |-> [a \in 1..Len(t.legs) |-> ChangeLeg(t.legs[a], mods2)], qtotal |-> N(mods2)!MakeValid(t.qtotal), labels |-> t.labels, val |-> t.val])
CanChangeCharge(s, k, nm) == LET r == ChangeChargeT(T(s), k, nm, "") IN N(r.mods)!ChargeRule(Core(r))
ChangeCharge(s, k, nm, nn, byname) ==
    Store(ChangeChargeT(T(s), k, nm, nn), [op |-> "change_charge", a |-> s, k |-> k, newmod |-> nm, newname |-> nn, byname |-> byname,
                                             name |-> IF byname THEN T(s).names[k] ELSE ""])

\* the class methods themselves: results are values (a ChargeInfo [mods, names] or a leg)
CI(mods, names) == [mods |-> mods, names |-> names]
ChinfoOp(s, b, what, k, nm) ==
    LET t == T(s)
        v == CASE what = "add" -> CI(t.mods \o M(b), t.names \o T(b).names)
               [] what = "drop" -> IF k = 0 THEN CI(<<>>, <<>>) ELSE CI(DelAt(t.mods, k), DelAt(t.names, k))
               [] OTHER -> CI(SetAt(t.mods, k, nm), SetAt(t.names, k, "new"))
    IN Observe([op |-> "chinfo", what |-> what, a |-> s, b |-> b, k |-> k, newmod |-> nm, value |-> v])
LegOp(s, x, what, b, y, k, nm, byname) ==
    LET t == T(s)
        leg == L!ToLegCharge(t.legs[x])
        desc == [op |-> "leg", what |-> what, a |-> s, x |-> x, b |-> b, y |-> y, k |-> k, newmod |-> nm, byname |-> byname,
                 name |-> IF byname THEN t.names[k] ELSE ""]
    IN CASE what = "from_add_charge" ->
              IF CanAddLeg(leg, T(b).legs[y])
              THEN Observe(desc @@ [value |-> AddLeg2(leg, L!ToLegCharge(T(b).legs[y])), vmods |-> t.mods \o M(b), vnames |-> t.names \o T(b).names])
              ELSE Fail(desc, "ValueError")
         [] what = "from_drop_charge" ->
              Observe(desc @@ [value |-> IF k = 0 THEN DropAllLeg(leg) ELSE DropLeg(leg, k),
                               vmods |-> IF k = 0 THEN <<>> ELSE DelAt(t.mods, k), vnames |-> IF k = 0 THEN <<>> ELSE DelAt(t.names, k)])
         [] what = "from_change_charge" ->
              Observe(desc @@ [value |-> ChangeLeg(leg, SetAt(t.mods, k, nm)), vmods |-> SetAt(t.mods, k, nm), vnames |-> SetAt(t.names, k, "new")])
         [] what = "from_qflat" ->      \* one block per index, neither sorted nor bunched
              Observe(desc @@ [value |-> L!PlainLeg([i \in 1..L!IndLen(leg) |-> 1], L!QFlat(leg), leg.qconj), vmods |-> t.mods, vnames |-> t.names])
         [] what = "from_qind" -> Observe(desc @@ [value |-> leg, vmods |-> t.mods, vnames |-> t.names])
         [] what = "from_qdict" ->      \* the dictionary is handed over in a rotated order (k); blocks come out ordered by slice
              Observe(desc @@ [value |-> leg, vmods |-> t.mods, vnames |-> t.names])
         [] what = "to_qdict" ->        \* documented: ValueError if not blocked
              Fail(desc, "ValueError")
         [] OTHER -> \* from_trivial(ind_len, chinfo, qconj)
              Observe(desc @@ [value |-> L!PlainLeg(<<L!IndLen(leg)>>, <<N(t.mods)!QZero>>, leg.qconj), vmods |-> t.mods, vnames |-> t.names])
Blocked(leg) == \A i, j \in 1..L!NBlocks(leg) : i # j => leg.charges[i] # leg.charges[j]

-----------------------------------------------------------------------------
\* (c) concatenate / grid_concat / grid_outer

SameCI(a, b) == M(a) = M(b)
CanConcat(a, b, x) == SameCI(a, b) /\ x <= R(a) /\ N(M(a))!CanConcat(Core(T(a)), Core(T(b)), x)
ConcatT(ta, tb, x) == XT(ta.mods, ta.names, Promote(ta.dtype, tb.dtype), N(ta.mods)!OpConcat(Core(ta), Core(tb), x))
\* concatenate([a, b(, a)], axis = label or index)
Concat(a, b, x, arg, three, copy) ==
    LET r2 == ConcatT(T(a), T(b), x)
        r == IF three THEN ConcatT(r2, T(a), x) ELSE r2
    IN Store(r, [op |-> "concatenate", a |-> a, b |-> b, x |-> x, axis |-> arg, three |-> three, copy |-> copy])
\* grid_concat([[z1 a, z1 b], [z2 a, z2 b]], axes = [x, y]); entries listed in `none` are None (zeros)
ScaleT(t, z) == XT(t.mods, t.names, Promote(t.dtype, ScalarDtype(z)), N(t.mods)!OpScale(Core(t), z))
ZeroLike(t) == Same(t, N(t.mods)!OpScale(Core(t), GZero))
GridEntry(a, b, zs, none, i, j) ==
    LET t == IF j = 1 THEN T(a) ELSE T(b) IN IF <<i, j>> \in none THEN ZeroLike(t) ELSE ScaleT(t, zs[i])
GridConcat(a, b, x, y, zs, none) ==
    LET row(i) == ConcatT(GridEntry(a, b, zs, none, i, 1), GridEntry(a, b, zs, none, i, 2), y)
        r == ConcatT(row(1), row(2), x)
    IN Store(r, [op |-> "grid_concat", a |-> a, b |-> b, x |-> x, y |-> y, zs |-> zs, none |-> none])

\* grid_outer(grid, grid_legs, qtotal, grid_labels).  The grid is one-dimensional (entries: pool tensors with equal legs, or
\* None) or has two rows (first row built from tensor a, second row from tensor b).  The grid legs are what
\* detect_grid_outer_legcharge is documented to return for the total charge Q: the charges of the grid indices and the total
\* charge of the entry add up to Q.  `grid` is a sequence of rows of slot numbers, 0 = None.
SameLegs(a, b) == SameCI(a, b) /\ R(a) = R(b) /\ \A i \in 1..R(a) : N(M(a))!LegEqual(T(a).legs[i], T(b).legs[i]) /\ L!IsPipe(T(a).legs[i]) = L!IsPipe(T(b).legs[i])
FlatLeg(qf, qc) == L!PlainLeg([i \in 1..Len(qf) |-> 1], qf, qc)       \* LegCharge.from_qflat: not bunched
GridEntries(grid) == {grid[i][j] : i \in 1..Len(grid), j \in 1..Len(grid[1])} \ {0}
GridFirst(grid) == LET n == Len(grid[1])
                       k == CHOOSE k \in 0..(Len(grid) * n - 1) : grid[(k \div n) + 1][(k % n) + 1] # 0 /\ \A k2 \in 0..(k - 1) : grid[(k2 \div n) + 1][(k2 % n) + 1] = 0
                   IN grid[(k \div n) + 1][(k % n) + 1]
GridLegs(mods, grid, a, b, Q, qcr, qc) ==
    LET n == Len(grid[1])
    IN IF Len(grid) = 1
       THEN <<FlatLeg([j \in 1..n |-> N(mods)!QScale(qc, N(mods)!QSub(Q, T(IF grid[1][j] = 0 THEN a ELSE grid[1][j]).qtotal))], qc)>>
       ELSE <<FlatLeg(<<N(mods)!QZero, N(mods)!QScale(qcr, N(mods)!QSub(T(a).qtotal, T(b).qtotal))>>, qcr),
              FlatLeg([j \in 1..n |-> N(mods)!QScale(qc, N(mods)!QSub(Q, T(a).qtotal))], qc)>>
GridOuterT(grid, gridlegs, Q, glabels) ==
    LET g == Len(gridlegs)
        first == T(GridFirst(grid))
        legs == gridlegs \o first.legs
        E == GridEntries(grid)
        dt == IF \E s \in E : T(s).dtype = "c" THEN "c" ELSE IF \E s \in E : T(s).dtype = "f" THEN "f" ELSE "i"
        ent(idx) == IF g = 1 THEN grid[1][idx[1] + 1] ELSE grid[idx[1] + 1][idx[2] + 1]
    IN XT(first.mods, first.names, dt,
          [legs |-> legs, qtotal |-> Q, labels |-> glabels \o first.labels,
           val |-> Mk(L!ShapeOf(legs), LAMBDA idx : IF ent(idx) = 0 THEN GZero ELSE At(T(ent(idx)).val, SubSeq(idx, g + 1, Len(idx))))])
GridOuter(grid, a, b, Q, qcr, qc, qgiven, glabels) ==
    LET gl == GridLegs(M(a), grid, a, b, Q, qcr, qc) IN
    Store(GridOuterT(grid, gl, Q, glabels),
          [op |-> "grid_outer", grid |-> grid, a |-> a, b |-> b, Q |-> Q, qconj |-> qc, qgiven |-> qgiven, glabels |-> glabels, gridlegs |-> gl,
           detect |-> \A i \in 1..Len(grid[1]) : \E r \in 1..Len(grid) : grid[r][i] # 0])

-----------------------------------------------------------------------------
\* (d) labels.  An axis argument is [k |-> "int", i |-> i] (python index, may be negative) or [k |-> "lab", l |-> label]
IntArg(i) == [k |-> "int", i |-> i]
LabArg(l) == [k |-> "lab", l |-> l]
\* get_leg_index: KeyError for an unknown label, ValueError for an index outside -rank .. rank-1
Resolve(t, arg) ==
    LET r == Len(t.legs) IN
    IF arg.k = "lab" THEN
        IF \E a \in 1..r : t.labels[a] = arg.l
        THEN [err |-> "none", ax |-> CHOOSE a \in 1..r : t.labels[a] = arg.l /\ \A a2 \in 1..(a - 1) : t.labels[a2] # arg.l]
        ELSE [err |-> "KeyError", ax |-> 0]
    ELSE LET i == IF arg.i < 0 THEN arg.i + r ELSE arg.i IN
         IF i >= 0 /\ i < r THEN [err |-> "none", ax |-> i + 1] ELSE [err |-> "ValueError", ax |-> 0]
ResolveAll(t, args) == [j \in 1..Len(args) |-> Resolve(t, args[j])]
FirstErr(rs) == IF \E j \in 1..Len(rs) : rs[j].err # "none"
                THEN rs[CHOOSE j \in 1..Len(rs) : rs[j].err # "none" /\ \A j2 \in 1..(j - 1) : rs[j2].err = "none"].err
                ELSE "none"
Axes(rs) == [j \in 1..Len(rs) |-> rs[j].ax]
Distinct(q) == \A i, j \in 1..Len(q) : i # j => q[i] # q[j]
\* an axis argument naming axis a: its label if it has one (and bylabel), else the index (negative for odd a)
ArgOf(t, a, bylabel) == IF bylabel /\ t.labels[a] # L!NoneLabel THEN LabArg(t.labels[a])
                        ELSE IntArg(IF a % 2 = 1 THEN a - 1 - Len(t.legs) ELSE a - 1)

GetLegIndex(s, arg) ==
    LET r == Resolve(T(s), arg)
        desc == [op |-> "get_leg_index", a |-> s, arg |-> arg]
    IN IF r.err # "none" THEN Fail(desc, r.err) ELSE Observe(desc @@ [value |-> r.ax - 1])
GetLegIndices(s, args) ==
    LET rs == ResolveAll(T(s), args)
        desc == [op |-> "get_leg_indices", a |-> s, args |-> args]
    IN IF FirstErr(rs) # "none" THEN Fail(desc, FirstErr(rs)) ELSE Observe(desc @@ [value |-> [j \in 1..Len(rs) |-> rs[j].ax - 1]])
EmptyLabel == <<"">>       \* the string '' (not allowed as a label)
LabelsValid(t, labels) == /\ Len(labels) = Len(t.legs)
                          /\ \A i \in 1..Len(labels) : labels[i] # EmptyLabel
                          /\ \A i, j \in 1..Len(labels) : (i # j /\ labels[i] # L!NoneLabel) => labels[i] # labels[j]
ISetLegLabels(s, labels) ==
    LET desc == [op |-> "iset_leg_labels", a |-> s, labels |-> labels] IN
    IF LabelsValid(T(s), labels) THEN Update(s, [T(s) EXCEPT !.labels = labels], desc) ELSE Fail(desc, "ValueError")
\* (i)replace_labels(old, new): all old labels are removed first, then the new ones are set one by one; a new label that is
\* already present (after the removals) is a duplicate: ValueError
ReplaceRes(t, olds, news) ==
    LET rs == ResolveAll(t, olds)
        ax == Axes(rs)
        cleared == [a \in 1..Len(t.labels) |-> IF \E j \in 1..Len(ax) : ax[j] = a THEN L!NoneLabel ELSE t.labels[a]]
        RECURSIVE Put(_, _)
        Put(labels, j) == IF j > Len(ax) THEN [err |-> "none", labels |-> labels]
                          ELSE IF \E a \in 1..Len(labels) : labels[a] = news[j] THEN [err |-> "ValueError", labels |-> labels]
                          ELSE Put(SetAt(labels, ax[j], news[j]), j + 1)
    IN IF FirstErr(rs) # "none" THEN [err |-> FirstErr(rs), labels |-> t.labels] ELSE Put(cleared, 1)
ReplaceLabels(s, olds, news, inpl, single) ==
    LET r == ReplaceRes(T(s), olds, news)
        desc == [op |-> IF inpl THEN "ireplace_labels" ELSE "replace_labels", a |-> s, olds |-> olds, news |-> news, single |-> single]
    IN IF r.err # "none" THEN Fail(desc, r.err)
       ELSE IF inpl THEN Update(s, [T(s) EXCEPT !.labels = r.labels], desc) ELSE Store([T(s) EXCEPT !.labels = r.labels], desc)
IDropLabels(s, args, all) ==
    LET rs == ResolveAll(T(s), args)
        ax == Axes(rs)
        desc == [op |-> "idrop_labels", a |-> s, args |-> args, all |-> all]
    IN IF ~all /\ FirstErr(rs) # "none" THEN Fail(desc, FirstErr(rs))
       ELSE Update(s, [T(s) EXCEPT !.labels = [a \in 1..R(s) |-> IF all \/ \E j \in 1..Len(ax) : ax[j] = a THEN L!NoneLabel ELSE @[a]]], desc)
HasLabel(s, l) == Observe([op |-> "has_label", a |-> s, l |-> l, value |-> \E a \in 1..R(s) : T(s).labels[a] = l])
GetLegLabels(s) == Observe([op |-> "get_leg_labels", a |-> s, value |-> T(s).labels])

\* transpose(axes) with labels / indices
TransposeL(s, args) ==
    LET rs == ResolveAll(T(s), args)
        desc == [op |-> "transpose_l", a |-> s, args |-> args]
    IN IF FirstErr(rs) # "none" THEN Fail(desc, FirstErr(rs))
       ELSE IF Len(args) # R(s) \/ ~Distinct(Axes(rs)) THEN Fail(desc, "ValueError")
       ELSE Store(Same(T(s), L!OpTranspose(Core(T(s)), Axes(rs))), desc)
\* tensordot(a, b, axes=(labels_a, labels_b))
TensordotL(a, b, la, lb) ==
    LET ra == ResolveAll(T(a), la)
        rb == ResolveAll(T(b), lb)
        desc == [op |-> "tensordot_l", a |-> a, b |-> b, la |-> la, lb |-> lb]
        axa == Axes(ra)
        axb == Axes(rb)
    IN IF FirstErr(ra) # "none" THEN Fail(desc, FirstErr(ra))
       ELSE IF FirstErr(rb) # "none" THEN Fail(desc, FirstErr(rb))
       ELSE IF Len(la) # Len(lb) \/ ~Distinct(axa) \/ ~Distinct(axb) THEN Fail(desc, "ValueError")
       ELSE IF ~N(M(a))!CanTensordot(Core(T(a)), Core(T(b)), axa, axb) THEN Fail(desc, "ValueError")
       ELSE IF Len(axa) = R(a) /\ Len(axb) = R(b)
            THEN Observe(desc @@ [value |-> TInner(L!OpTranspose(Core(T(a)), axa).val, L!OpTranspose(Core(T(b)), axb).val, FALSE), scalar |-> TRUE])
       ELSE Store(XT(M(a), T(a).names, Promote(T(a).dtype, T(b).dtype), N(M(a))!OpTensordot(Core(T(a)), Core(T(b)), axa, axb)), desc)
\* inner(a, b, axes='labels' | (la, lb), do_conj): b's leg lb[i] is contracted with a's leg la[i]
AllLabeled(t) == \A i \in 1..Len(t.labels) : t.labels[i] # L!NoneLabel
InnerL(a, b, mode, la, lb, dc) ==
    LET ta == T(a)
        tb == T(b)
        la2 == IF mode = "labels" THEN [i \in 1..R(a) |-> LabArg(ta.labels[i])] ELSE la
        lb2 == IF mode = "labels" THEN [i \in 1..R(a) |-> LabArg(IF dc THEN ta.labels[i] ELSE L!ConjLabel(ta.labels[i]))] ELSE lb
        ra == ResolveAll(ta, la2)
        rb == ResolveAll(tb, lb2)
        desc == [op |-> "inner_l", a |-> a, b |-> b, mode |-> mode, la |-> la2, lb |-> lb2, do_conj |-> dc]
        axa == Axes(ra)
        axb == Axes(rb)
        \* a transposed such that its i-th leg meets b's i-th leg
        pa == [i \in 1..R(b) |-> axa[CHOOSE j \in 1..Len(axb) : axb[j] = i]]
    IN IF R(a) # R(b) THEN Fail(desc, "ValueError")
       ELSE IF FirstErr(ra) # "none" THEN Fail(desc, FirstErr(ra))
       ELSE IF FirstErr(rb) # "none" THEN Fail(desc, FirstErr(rb))
       ELSE IF Len(la2) # R(a) \/ Len(lb2) # R(b) \/ ~Distinct(axa) \/ ~Distinct(axb) THEN Fail(desc, "ValueError")
       ELSE LET at == L!OpTranspose(Core(ta), pa) IN
            IF ~N(M(a))!CanInner(at, Core(tb), dc) THEN Fail(desc, "ValueError")
            ELSE Observe(desc @@ [value |-> TInner(at.val, tb.val, dc)])
\* trace(a, leg1, leg2) with labels
TraceL(s, a1, a2) ==
    LET rs == ResolveAll(T(s), <<a1, a2>>)
        desc == [op |-> "trace_l", a |-> s, a1 |-> a1, a2 |-> a2]
    IN IF FirstErr(rs) # "none" THEN Fail(desc, FirstErr(rs))
       ELSE IF rs[1].ax = rs[2].ax THEN Fail(desc, "ValueError")
       ELSE IF ~N(M(s))!CanTrace(Core(T(s)), rs[1].ax, rs[2].ax) THEN Fail(desc, "ValueError")
       ELSE IF R(s) = 2 THEN Observe(desc @@ [value |-> GSumSeq([n \in 1..T(s).val.shape[1] |-> At(T(s).val, <<n - 1, n - 1>>)]), scalar |-> TRUE])
       ELSE Store(Same(T(s), N(M(s))!OpTrace(Core(T(s)), rs[1].ax, rs[2].ax)), desc)
\* combine_legs([labels], qconj)
CombineL(s, args, qc) ==
    LET rs == ResolveAll(T(s), args)
        desc == [op |-> "combine_legs_l", a |-> s, args |-> args, qconj |-> qc]
    IN IF FirstErr(rs) # "none" THEN Fail(desc, FirstErr(rs))
       ELSE IF ~Distinct(Axes(rs)) THEN Fail(desc, "ValueError")
       ELSE Store(Same(T(s), N(M(s))!OpCombine(Core(T(s)), Axes(rs), qc, TRUE, TRUE)), desc)

-----------------------------------------------------------------------------
\* (e) element-wise
TMap(d, f(_)) == [shape |-> d.shape, val |-> [n \in 1..Len(d.val) |-> f(d.val[n])] \o <<>>]
TMap2(d, e, f(_, _)) == [shape |-> d.shape, val |-> [n \in 1..Len(d.val) |-> f(d.val[n], e.val[n])] \o <<>>]
AsType(s, dt) == Store([T(s) EXCEPT !.dtype = dt], [op |-> "astype", a |-> s, dtype |-> dt])
\* unary_blockwise(numpy.real / imag / conj / negative): block-wise = element-wise (all map 0 to 0)
Unary(s, f) ==
    LET t == T(s)
        v == CASE f = "real" -> TMap(t.val, LAMBDA z : <<z[1], 0>>)
               [] f = "imag" -> TMap(t.val, LAMBDA z : <<z[2], 0>>)
               [] f = "conj" -> TConj(t.val)
               [] OTHER -> TMap(t.val, GNeg)       \* "negative" (unary_blockwise) and "neg" (-a)
        dt == IF f \in {"real", "imag"} /\ t.dtype = "c" THEN "f" ELSE t.dtype
    IN Store([t EXCEPT !.val = v, !.dtype = dt], [op |-> "unary", a |-> s, func |-> f])
\* binary_blockwise(func, other) / a - b: same legs and total charge required, else ValueError; `other` is transposed first if
\* it carries the same labels in another order
LabelsPermuted(ta, tb) == /\ Len(ta.legs) = Len(tb.legs) /\ AllLabeled(ta) /\ AllLabeled(tb) /\ ta.labels # tb.labels
                          /\ {ta.labels[i] : i \in 1..Len(ta.labels)} = {tb.labels[i] : i \in 1..Len(tb.labels)}
EffB(a, b) == IF LabelsPermuted(T(a), T(b)) THEN L!OpTranspose(Core(T(b)), L!LabelPerm(Core(T(a)), Core(T(b)))) ELSE Core(T(b))
LegsMatch(ta, cb) == Len(ta.legs) = Len(cb.legs) /\ \A i \in 1..Len(ta.legs) : N(ta.mods)!LegEqual(ta.legs[i], cb.legs[i])
EffBLegs(a, b) == IF LabelsPermuted(T(a), T(b)) THEN [i \in 1..R(a) |-> T(b).legs[L!LabelPerm(Core(T(a)), Core(T(b)))[i]]] ELSE T(b).legs
Binary(a, b, f) ==
    LET ta == T(a)
        tb == EffB(a, b)
        desc == [op |-> "binary", a |-> a, b |-> b, func |-> f]
        v == CASE f = "add" -> TAdd(ta.val, tb.val)
               [] f = "multiply" -> TMap2(ta.val, tb.val, GMul)
               [] f = "maximum" -> TMap2(ta.val, tb.val, LAMBDA y, z : IF y[1] >= z[1] THEN y ELSE z)
               [] OTHER -> TSub(ta.val, tb.val)     \* "subtract" (binary_blockwise) and "sub" (a - b)
        dt == IF f = "sub" THEN Promote("f", Promote(ta.dtype, T(b).dtype)) ELSE Promote(ta.dtype, T(b).dtype)
    IN IF ~(LegsMatch(ta, tb) /\ ta.qtotal = tb.qtotal) THEN Fail(desc, "ValueError")
       ELSE Store([ta EXCEPT !.val = v, !.dtype = dt], desc)
\* a * z, z * a, a / w  for scalars; a / 0 raises ZeroDivisionError.  The divisor is given as z such that a / w = z a exactly.
MulScalar(s, z, how) ==
    Store([T(s) EXCEPT !.val = TScale(z, @), !.dtype = Promote(@, ScalarDtype(z))], [op |-> "mul_scalar", a |-> s, z |-> z, how |-> how])
DivZero(s) == Fail([op |-> "div_zero", a |-> s], "ZeroDivisionError")
\* a == b: same legs; False if the total charges differ, else all entries equal
Eq(a, b) ==
    LET tb == EffB(a, b) IN
    Observe([op |-> "eq", a |-> a, b |-> b, value |-> (T(a).qtotal = tb.qtotal /\ T(a).val = tb.val)])
\* norm(a, ord) == numpy.linalg.norm(a.to_ndarray().flatten(), ord); reported exactly:
\*   None / 2 / 'fro': the square;  1: sum of |re| (real data only);  inf, -inf: the square of max / min modulus;  0: number of non-zeros
IMaxSeq(q) == LET RECURSIVE F(_) F(i) == IF i = Len(q) THEN q[i] ELSE IMax(q[i], F(i + 1)) IN F(1)
IMinSeq(q) == LET RECURSIVE F(_) F(i) == IF i = Len(q) THEN q[i] ELSE IMin(q[i], F(i + 1)) IN F(1)
NormVal(d, ord) ==
    CASE ord \in {"none", "2", "fro"} -> TNorm2(d)
      [] ord = "1" -> ISumSeq([n \in 1..Len(d.val) |-> IAbs(d.val[n][1])])
      [] ord = "inf" -> IMaxSeq([n \in 1..Len(d.val) |-> GAbs2(d.val[n])])
      [] ord = "-inf" -> IMinSeq([n \in 1..Len(d.val) |-> GAbs2(d.val[n])])
      [] OTHER -> Cardinality({n \in 1..Len(d.val) : ~GIsZero(d.val[n])})
Norm(s, ord) == Observe([op |-> "norm", a |-> s, ord |-> ord, value |-> NormVal(T(s).val, ord)])

-----------------------------------------------------------------------------
\* phases as in NpcProgram: PickClass, Ch* (arguments; only preconditions are evaluated), Exec (one result)
CanChoose(c) == cfg # 0 /\ pending = Nil /\ nops < MaxOps /\ cls = c
Choose(p) == /\ pending' = p
             /\ cls' = "none"
             /\ UNCHANGED <<cfg, pool, used, last, nops, hist>>
Plain(s) == \A a \in 1..R(s) : ~L!IsPipe(T(s).legs[a])
Dtypes(t) == {d \in {"none", "f", "c"} : d = "none" \/ DRank(d) >= DRank(IF IsRealD(t.val) THEN t.dtype ELSE "c")}
\* total charges to construct with: zero and the sector of the first / last index tuple
Sectors(s) == {N(M(s))!QZero, N(M(s))!IndexCharge(T(s).legs, [a \in 1..R(s) |-> 0]),
               N(M(s))!IndexCharge(T(s).legs, [a \in 1..R(s) |-> T(s).val.shape[a] - 1])}
\* positions (flat, 1-based) where a stray entry is planted: first / last position outside the sector of the tensor, and first inside
OffPositions(s) ==
    LET off == {n \in 1..Len(T(s).val.val) : N(M(s))!IndexCharge(T(s).legs, Unflat(n - 1, T(s).val.shape)) # T(s).qtotal}
        on == (1..Len(T(s).val.val)) \ off
        ext(S) == IF S = {} THEN {} ELSE {CHOOSE n \in S : \A k \in S : n <= k, CHOOSE n \in S : \A k \in S : n >= k}
    IN (IF off = {} THEN {} ELSE {CHOOSE n \in off : \A k \in off : n <= k}) \cup (IF on = {} THEN {} ELSE {CHOOSE n \in on : \A k \in on : n >= k})
Perts(s) == {[n |-> 0, z |-> GZero]} \cup {[n |-> n, z |-> z] : n \in OffPositions(s), z \in {<<2, 0>>, <<-3, 0>>, <<60, 0>>}}

ChFromNdarray ==
    CanChoose("FromNdarray") /\ \E s \in U : Plain(s) /\ Size(T(s).val.shape) > 0 /\
        \E pert \in Perts(s), c \in {0, 4}, qg \in BOOLEAN, ra \in BOOLEAN, dt \in Dtypes(T(s)), lab \in BOOLEAN :
            /\ (qg \/ DetectDefined(M(s), Perturbed(T(s).val, pert), T(s).legs))
            /\ (dt # "none" => pert.n = 0)
            /\ (pert.n = 0 => c = 0 /\ ra) /\ (c # 0 => ra)
            /\ (lab => pert.n = 0)
            /\ Choose([op |-> "from_ndarray", a |-> s, par |-> [pert |-> pert, cut |-> c, qgiven |-> qg, raise |-> ra, dtype |-> dt,
                                                                 labels |-> IF lab THEN FreshLabels(R(s)) ELSE T(s).labels]])
ChFromTrivial == CanChoose("FromTrivial") /\ \E s \in U, lab \in BOOLEAN :
                    Choose([op |-> "from_ndarray_trivial", a |-> s, labels |-> IF lab THEN FreshLabels(R(s)) ELSE [a \in 1..R(s) |-> L!NoneLabel]])
ChFromFunc == CanChoose("FromFunc") /\ \E s \in U : Plain(s) /\ Size(T(s).val.shape) > 0 /\
                 \E q \in Sectors(s), f \in {"ones", "arange", "cplx"}, dt \in {"none", "f", "c"}, how \in {"from_func", "shape_kw", "ones"} :
                     /\ (dt # "none" => DRank(dt) >= DRank(FuncDtype(f)))
                     /\ (how = "ones" => f = "ones") /\ (how = "shape_kw" => f = "arange") /\ dt # "f"
                     /\ Choose([op |-> "from_func", a |-> s, q |-> q, func |-> f, dtype |-> dt, how |-> how])
ChZeros == CanChoose("Zeros") /\ \E s \in U : Size(T(s).val.shape) > 0 /\ \E q \in Sectors(s), dt \in {"none", "i", "c"} : Choose([op |-> "zeros", a |-> s, q |-> q, dtype |-> dt])
ChDiag == CanChoose("Diag") /\ \E s \in U : \E x \in 1..R(s), kind \in {"scalar", "cscalar", "vec", "cvec"}, dt \in {"none", "c"}, short \in BOOLEAN :
             LET lab == (dt = "c") IN
             /\ L!IndLen(T(s).legs[x]) * L!IndLen(T(s).legs[x]) <= MaxSize
             /\ (short => kind \in {"vec", "cvec"} /\ dt = "none" /\ ~lab)
             /\ Choose([op |-> "diag", a |-> s, x |-> x, kind |-> kind, dtype |-> dt, short |-> short,
                        labels |-> IF lab THEN <<Lab("p"), Lab("q")>> ELSE <<L!NoneLabel, L!NoneLabel>>])
ChEyeLike == CanChoose("EyeLike") /\ \E s \in U : \E x \in 1..R(s), bl \in BOOLEAN, lab \in BOOLEAN :
                /\ L!IndLen(T(s).legs[x]) * L!IndLen(T(s).legs[x]) <= MaxSize
                /\ Choose([op |-> "eye_like", a |-> s, x |-> x, axis |-> ArgOf(T(s), x, bl),
                           labels |-> IF lab THEN <<Lab("p"), Lab("q")>> ELSE <<L!NoneLabel, L!NoneLabel>>])
ChDetectQtotal == CanChoose("DetectQtotal") /\ \E s \in U : Plain(s) /\ Size(T(s).val.shape) > 0 /\ \E pert \in Perts(s), c \in {0, 4, 200} :
                     /\ DetectDefined(M(s), Perturbed(T(s).val, pert), T(s).legs)
                     /\ Choose([op |-> "detect_qtotal", a |-> s, pert |-> pert, cut |-> c])
ChDetectLeg == CanChoose("DetectLeg") /\ \E s \in U : Plain(s) /\ R(s) >= 2 /\ \E x \in 1..R(s), qc \in {1, -1} :
                  SliceNonzero(T(s), x) /\ Choose([op |-> "detect_legcharge", a |-> s, x |-> x, qconj |-> qc])
ChToNdarray == CanChoose("ToNdarray") /\ \E s \in U : Choose([op |-> "to_ndarray", a |-> s])

ChAddCharge == CanChoose("AddCharge") /\ \E s, b \in U :
                  /\ Plain(s) /\ Plain(b) /\ Len(M(s)) + Len(M(b)) <= 4
                  /\ CanAddCharge(s, b)
                  /\ \E mode \in {"same", "flat", "bunch", "neg"}, qg \in BOOLEAN : Choose([op |-> "add_charge", a |-> s, b |-> b, mode |-> mode, qgiven |-> qg])
ChAddChargeWrong == CanChoose("AddCharge") /\ \E s \in U : Plain(s) /\ R(s) >= 2 /\ Len(M(s)) >= 1 /\ Choose([op |-> "add_charge_wrong", a |-> s])
ChDropCharge == CanChoose("DropCharge") /\ \E s \in U : Plain(s) /\ \E k \in 0..Len(M(s)), bn \in BOOLEAN :
                   (bn => NameUsable(T(s), k)) /\ Choose([op |-> "drop_charge", a |-> s, k |-> k, byname |-> bn])
ChChangeCharge == CanChoose("ChangeCharge") /\ \E s \in U : Plain(s) /\ \E k \in 1..Len(M(s)), nm \in 1..4, bn \in BOOLEAN, nn \in {"", "new"} :
                     /\ nm # M(s)[k] /\ (bn => NameUsable(T(s), k)) /\ CanChangeCharge(s, k, nm)
                     /\ Choose([op |-> "change_charge", a |-> s, k |-> k, newmod |-> nm, newname |-> nn, byname |-> bn])
ChChinfoOp == CanChoose("ChinfoOp") /\ \E s, b \in U : \E what \in {"add", "drop", "change"}, k \in 0..Len(M(s)), nm \in {1, 3} :
                 /\ (what = "add" => k = 0 /\ nm = 1) /\ (what # "add" => b = s) /\ (what = "drop" => nm = 1) /\ (what = "change" => k >= 1)
                 /\ Choose([op |-> "chinfo", a |-> s, b |-> b, what |-> what, k |-> k, newmod |-> nm])
ChLegOp == CanChoose("LegOp") /\ \E s \in U : Plain(s) /\ \E x \in 1..R(s) :
              \/ \E b \in U : \E y \in {IMin(x, R(b)), (x % R(b)) + 1} : Plain(b) /\ Len(M(s)) + Len(M(b)) <= 4 /\ Choose([op |-> "leg", a |-> s, x |-> x, what |-> "from_add_charge", b |-> b, y |-> y, k |-> 0, newmod |-> 1, byname |-> FALSE])
              \/ \E k \in 0..Len(M(s)), bn \in BOOLEAN : (bn => NameUsable(T(s), k)) /\
                    Choose([op |-> "leg", a |-> s, x |-> x, what |-> "from_drop_charge", b |-> s, y |-> x, k |-> k, newmod |-> 1, byname |-> bn])
              \/ \E k \in 1..Len(M(s)), nm \in {2, 3}, bn \in BOOLEAN : (bn => NameUsable(T(s), k)) /\ nm # M(s)[k] /\
                    Choose([op |-> "leg", a |-> s, x |-> x, what |-> "from_change_charge", b |-> s, y |-> x, k |-> k, newmod |-> nm, byname |-> bn])
              \/ \E what \in {"from_qflat", "from_qind", "from_trivial"} :
                    Choose([op |-> "leg", a |-> s, x |-> x, what |-> what, b |-> s, y |-> x, k |-> 0, newmod |-> 1, byname |-> FALSE])
              \/ \E k \in 0..2 : /\ Len(M(s)) >= 1 /\ L!NBlocks(T(s).legs[x]) >= 1
                                 /\ Choose([op |-> "leg", a |-> s, x |-> x, what |-> IF Blocked(T(s).legs[x]) THEN "from_qdict" ELSE "to_qdict",
                                            b |-> s, y |-> x, k |-> k, newmod |-> 1, byname |-> FALSE])

ChConcat == CanChoose("Concat") /\ \E a, b \in U : \E x \in 1..R(a), bl \in BOOLEAN, three \in BOOLEAN, copy \in BOOLEAN :
               /\ CanConcat(a, b, x) /\ (copy \/ ~three)
               /\ Choose([op |-> "concatenate", a |-> a, b |-> b, x |-> x, axis |-> ArgOf(T(a), x, bl), three |-> three, copy |-> copy])
ChGridConcat == CanChoose("GridConcat") /\ \E a, b \in U : R(a) >= 2 /\ \E x, y \in 1..R(a) :
                   /\ x # y /\ CanConcat(a, b, y)
                   /\ \E none \in {{}, {<<1, 2>>}, {<<2, 1>>}, {<<1, 1>>, <<2, 2>>}} :
                         LET zs == IF none \in {{}, {<<1, 2>>}} THEN <<<<1, 0>>, <<2, 0>>>> ELSE <<<<-1, 0>>, <<0, 1>>>> IN
                         /\ (<<1, 1>> \in none => T(a).labels = T(b).labels)
                         /\ Choose([op |-> "grid_concat", a |-> a, b |-> b, x |-> x, y |-> y, zs |-> zs, none |-> none])
ChGridOuter == CanChoose("GridOuter") /\ \E a, b \in U : SameLegs(a, b) /\ Plain(a) /\
                  \E pat \in {<<<<1, 2>>>>, <<<<2, 1, 1>>>>, <<<<0, 1, 2>>>>, <<<<1, 0, 2, 0>>>>, <<<<1>>>>,
                              <<<<1, 1, 0>>, <<0, 2, 2>>>>, <<<<1, 0>>, <<2, 2>>>>, <<<<0, 1>>, <<2, 0>>>>},
                     qc \in {1, -1}, qg \in BOOLEAN :
                      LET grid == [i \in 1..Len(pat) |-> [j \in 1..Len(pat[i]) |-> CASE pat[i][j] = 0 -> 0 [] pat[i][j] = 1 -> a [] OTHER -> b]]
                          lab == qg
                          Q == IF (qc = 1) = qg THEN T(a).qtotal ELSE N(M(a))!QAdd(T(b).qtotal, T(b).qtotal)
                      IN /\ R(a) + Len(pat) <= MaxRank
                         /\ (\E i \in 1..Len(pat) : \E j \in 1..Len(pat[i]) : pat[i][j] = 2) = (a # b)
                         /\ Choose([op |-> "grid_outer", grid |-> grid, a |-> a, b |-> b, Q |-> Q, qconjr |-> -qc, qconj |-> qc, qgiven |-> qg,
                                    glabels |-> IF Len(pat) = 1 THEN <<IF lab THEN Lab("g") ELSE L!NoneLabel>>
                                                ELSE <<IF lab THEN Lab("g") ELSE L!NoneLabel, Lab("h")>>])

UnknownLabel == Lab("zz")
ArgsFor(t) == {IntArg(i) : i \in (-Len(t.legs) - 1)..(Len(t.legs) + 1)} \cup {LabArg(t.labels[a]) : a \in {a \in 1..Len(t.legs) : t.labels[a] # L!NoneLabel}}
              \cup {LabArg(UnknownLabel)}
ChGetLegIndex == CanChoose("GetLegIndex") /\ \E s \in U : \E arg \in ArgsFor(T(s)) : Choose([op |-> "get_leg_index", a |-> s, arg |-> arg])
TwoPerms(n) == {[i \in 1..n |-> i], [i \in 1..n |-> n + 1 - i], [i \in 1..n |-> (i % n) + 1]}
ChGetLegIndices == CanChoose("GetLegIndices") /\ \E s \in U : \E bl \in BOOLEAN, bad \in {"no", "unknown", "range"}, p \in TwoPerms(R(s)) :
                      LET good == [j \in 1..R(s) |-> ArgOf(T(s), p[j], bl)] IN
                      (bad # "no" => bl) /\ Choose([op |-> "get_leg_indices", a |-> s,
                              args |-> CASE bad = "no" -> good [] bad = "unknown" -> Append(good, LabArg(UnknownLabel)) [] OTHER -> <<IntArg(R(s) + 1)>> \o good])
LabelPool == {Lab("a"), Lab("b"), Lab("k"), <<"a", "*">>, L!NoneLabel}
ChISetLegLabels == CanChoose("ISetLegLabels") /\ \E s \in U : \E kind \in {"ok", "dup", "short", "empty", "none"}, p \in TwoPerms(R(s)) :
                      LET base == [a \in 1..R(s) |-> Lab(<<"k", "l", "m", "n", "o">>[p[a]])]
                          labels == CASE kind = "ok" -> SetAt(base, 1, <<"l", "*">>)
                                      [] kind = "dup" -> IF R(s) >= 2 THEN SetAt(base, R(s), base[1]) ELSE <<>>
                                      [] kind = "short" -> Tail(base)
                                      [] kind = "empty" -> SetAt(base, R(s), EmptyLabel)
                                      [] OTHER -> SetAt(SetAt(base, 1, L!NoneLabel), R(s), L!NoneLabel)
                      IN Choose([op |-> "iset_leg_labels", a |-> s, labels |-> labels])
ChReplaceLabels == CanChoose("ReplaceLabels") /\ \E s \in U : \E inpl \in BOOLEAN, bl \in BOOLEAN :
                      \/ \E x \in 1..R(s), new \in {Lab("k"), Lab("a"), Lab("b"), <<"a", "*">>} :      \* (i)replace_label
                            Choose([op |-> "replace_labels", a |-> s, olds |-> <<ArgOf(T(s), x, bl)>>, news |-> <<new>>, inpl |-> inpl, single |-> TRUE])
                      \/ Choose([op |-> "replace_labels", a |-> s, olds |-> <<LabArg(UnknownLabel)>>, news |-> <<Lab("k")>>, inpl |-> inpl, single |-> bl])
                      \/ R(s) >= 2 /\ bl = inpl /\ \E x, y \in 1..R(s) : x # y /\ \E news \in {<<Lab("k"), Lab("k")>>, <<T(s).labels[y], T(s).labels[x]>>, <<Lab("a"), Lab("b")>>} :
                            /\ \A j \in 1..2 : news[j] # L!NoneLabel
                            /\ Choose([op |-> "replace_labels", a |-> s, olds |-> <<ArgOf(T(s), x, bl), ArgOf(T(s), y, bl)>>, news |-> news, inpl |-> inpl, single |-> FALSE])
ChIDropLabels == CanChoose("IDropLabels") /\ \E s \in U :
                    \/ Choose([op |-> "idrop_labels", a |-> s, args |-> <<>>, all |-> TRUE])
                    \/ \E x \in 1..R(s), bl \in BOOLEAN : Choose([op |-> "idrop_labels", a |-> s, args |-> <<ArgOf(T(s), x, bl)>>, all |-> FALSE])
                    \/ Choose([op |-> "idrop_labels", a |-> s, args |-> <<ArgOf(T(s), 1, TRUE), LabArg(UnknownLabel)>>, all |-> FALSE])
ChHasLabel == CanChoose("HasLabel") /\ \E s \in U :
                 \/ \E l \in {Lab("a"), Lab("b"), <<"a", "*">>, UnknownLabel} : Choose([op |-> "has_label", a |-> s, l |-> l])
                 \/ Choose([op |-> "get_leg_labels", a |-> s])
ChTransposeL == CanChoose("TransposeL") /\ \E s \in U : \E p \in Perms(R(s)), bl \in BOOLEAN, bad \in {"no", "dup", "short", "unknown"} :
                   LET good == [j \in 1..R(s) |-> ArgOf(T(s), p[j], bl)] IN
                   /\ (bad # "no" => bl /\ p \in TwoPerms(R(s)))
                   /\ Choose([op |-> "transpose_l", a |-> s,
                              args |-> CASE bad = "no" -> good [] bad = "dup" -> SetAt(good, R(s), good[1]) [] bad = "short" -> Tail(good)
                                         [] OTHER -> SetAt(good, 1, LabArg(UnknownLabel))])
ChTensordotL == CanChoose("TensordotL") /\ \E a, b \in U : SameCI(a, b) /\ \E k \in 1..2 : k <= R(a) /\ k <= R(b) /\
                   \E axa \in InjSeqs(R(a), k), axb \in InjSeqs(R(b), k), bad \in {"no", "unknown", "charge"} :
                       /\ R(a) + R(b) - 2 * k <= MaxRank
                       /\ (bad = "charge") = ~N(M(a))!CanTensordot(Core(T(a)), Core(T(b)), axa, axb)
                       /\ (bad = "charge" => k = 1 /\ L!IndLen(T(a).legs[axa[1]]) = L!IndLen(T(b).legs[axb[1]]))
                       /\ (bad = "unknown" => k = 1) /\ (k = 2 => axa[1] < axa[2])
                       /\ Choose([op |-> "tensordot_l", a |-> a, b |-> b,
                                  la |-> [j \in 1..k |-> IF bad = "unknown" /\ j = 1 THEN LabArg(UnknownLabel) ELSE ArgOf(T(a), axa[j], TRUE)],
                                  lb |-> [j \in 1..k |-> ArgOf(T(b), axb[j], TRUE)]])
ChInnerL == CanChoose("InnerL") /\ \E a, b \in U : SameCI(a, b) /\ R(a) = R(b) /\ \E dc \in BOOLEAN :
               \/ /\ AllLabeled(T(a))
                  /\ Choose([op |-> "inner_l", a |-> a, b |-> b, mode |-> "labels", la |-> <<>>, lb |-> <<>>, do_conj |-> dc])
               \/ \E p \in Perms(R(a)) : /\ (\A m \in 1..R(a) : IF dc THEN N(M(a))!LegEqual(T(a).legs[p[m]], T(b).legs[m]) ELSE N(M(a))!Contractible(T(a).legs[p[m]], T(b).legs[m]))
                                          /\ \E q \in {[i \in 1..R(a) |-> i], [i \in 1..R(a) |-> R(a) + 1 - i]} :
                                                Choose([op |-> "inner_l", a |-> a, b |-> b, mode |-> "pairs", do_conj |-> dc,
                                                        la |-> [i \in 1..R(a) |-> ArgOf(T(a), p[q[i]], TRUE)], lb |-> [i \in 1..R(a) |-> ArgOf(T(b), q[i], TRUE)]])
ChTraceL == CanChoose("TraceL") /\ \E s \in U : R(s) >= 2 /\ \E x, y \in 1..R(s), bl \in BOOLEAN :
               /\ (x = y \/ L!IndLen(T(s).legs[x]) = L!IndLen(T(s).legs[y]))
               /\ Choose([op |-> "trace_l", a |-> s, a1 |-> ArgOf(T(s), x, bl), a2 |-> ArgOf(T(s), y, TRUE)])
ChCombineL == CanChoose("CombineL") /\ \E s \in U : R(s) >= 2 /\ \E k \in 2..3 : k <= R(s) /\ \E g \in InjSeqs(R(s), k), qc \in {1, -1}, bad \in BOOLEAN :
                 (bad => qc = 1) /\ (qc = -1 => g[1] < g[2]) /\ Choose([op |-> "combine_legs_l", a |-> s, qconj |-> qc,
                         args |-> [j \in 1..k |-> IF bad /\ j = k THEN LabArg(UnknownLabel) ELSE ArgOf(T(s), g[j], TRUE)]])

ChAsType == CanChoose("AsType") /\ \E s \in U, dt \in {"i", "f", "c"} : (IsRealD(T(s).val) \/ dt = "c") /\ Choose([op |-> "astype", a |-> s, dtype |-> dt])
\* (real / imag of a complex tensor without any stored block: the data type of the result is not documented)
ChUnary == CanChoose("Unary") /\ \E s \in U, f \in {"real", "imag", "conj", "negative", "neg"} :
              /\ ((f \in {"real", "imag"} /\ T(s).dtype = "c") => ~TIsZero(T(s).val))
              /\ Choose([op |-> "unary", a |-> s, func |-> f])
ChBinary == CanChoose("Binary") /\ \E a, b \in U, f \in {"add", "subtract", "multiply", "maximum", "sub"} :
               /\ SameCI(a, b) /\ R(a) = R(b) /\ T(a).val.shape = T(b).val.shape
               /\ (f = "maximum" => IsRealD(T(a).val) /\ IsRealD(T(b).val) /\ T(a).dtype # "c" /\ T(b).dtype # "c")
               /\ Choose([op |-> "binary", a |-> a, b |-> b, func |-> f])
AllEven(d) == \A n \in 1..Len(d.val) : d.val[n][1] % 2 = 0 /\ d.val[n][2] % 2 = 0
ChMulScalar == CanChoose("MulScalar") /\ \E s \in U :
                  \/ \E z \in {<<2, 0>>, <<-1, 0>>, <<0, 1>>, <<1, -1>>, <<0, 0>>}, how \in {"mul", "rmul"} :
                        (z = <<0, 0>> => T(s).dtype # "i") /\ Choose([op |-> "mul_scalar", a |-> s, z |-> z, how |-> how])
                  \/ \E how \in {"div_half", "div_-1", "div_i"} : Choose([op |-> "mul_scalar", a |-> s, how |-> how,
                                                                         z |-> CASE how = "div_half" -> <<2, 0>> [] how = "div_-1" -> <<-1, 0>> [] OTHER -> <<0, -1>>])
                  \/ Choose([op |-> "div_zero", a |-> s])
ChEq == CanChoose("Eq") /\ \E a, b \in U : /\ SameCI(a, b) /\ R(a) = R(b) /\ LegsMatch(T(a), [legs |-> EffBLegs(a, b)])
                                            /\ (T(a).qtotal = T(b).qtotal \/ ~TIsZero(T(a).val) \/ ~TIsZero(T(b).val))
                                            /\ Choose([op |-> "eq", a |-> a, b |-> b])
ChNorm == CanChoose("Norm") /\ \E s \in U, ord \in {"none", "1", "inf", "0", "2", "-inf", "fro"} :
             /\ Size(T(s).val.shape) > 0 /\ (ord = "1" => IsRealD(T(s).val))
             /\ Choose([op |-> "norm", a |-> s, ord |-> ord])

Classes == {"FromNdarray", "FromTrivial", "FromFunc", "Zeros", "Diag", "EyeLike", "DetectQtotal", "DetectLeg", "ToNdarray",
            "AddCharge", "DropCharge", "ChangeCharge", "ChinfoOp", "LegOp", "Concat", "GridConcat", "GridOuter",
            "GetLegIndex", "GetLegIndices", "ISetLegLabels", "ReplaceLabels", "IDropLabels", "HasLabel", "TransposeL", "TensordotL",
            "InnerL", "TraceL", "CombineL", "AsType", "Unary", "Binary", "MulScalar", "Eq", "Norm"}
PickClass == /\ cfg # 0 /\ cls = "none" /\ pending = Nil /\ nops < MaxOps
             /\ \E c \in Classes : cls' = c
             /\ UNCHANGED <<cfg, pool, used, pending, last, nops, hist>>
Abandon == /\ cls # "none" /\ pending = Nil
           /\ cls' = "none"
           /\ UNCHANGED <<cfg, pool, used, pending, last, nops, hist>>

P == pending
Perform ==
    CASE P.op = "from_ndarray" -> FromNdarray(P.a, P.par)
      [] P.op = "from_ndarray_trivial" -> FromNdarrayTrivial(P.a, P.labels)
      [] P.op = "from_func" -> FromFunc(P.a, P.q, T(P.a).labels, P.func, P.dtype, P.how)
      [] P.op = "zeros" -> Zeros(P.a, P.q, T(P.a).labels, P.dtype)
      [] P.op = "diag" -> Diag(P.a, P.x, P.kind, P.labels, P.dtype, P.short)
      [] P.op = "eye_like" -> EyeLike(P.a, P.axis, P.x, P.labels)
      [] P.op = "detect_qtotal" -> DetectQtotal(P.a, P.pert, P.cut)
      [] P.op = "detect_legcharge" -> DetectLegcharge(P.a, P.x, P.qconj)
      [] P.op = "to_ndarray" -> ToNdarray(P.a)
      [] P.op = "add_charge" -> AddCharge(P.a, P.b, P.mode, P.qgiven)
      [] P.op = "add_charge_wrong" -> AddChargeWrongLegs(P.a)
      [] P.op = "drop_charge" -> DropCharge(P.a, P.k, P.byname)
      [] P.op = "change_charge" -> ChangeCharge(P.a, P.k, P.newmod, P.newname, P.byname)
      [] P.op = "chinfo" -> ChinfoOp(P.a, P.b, P.what, P.k, P.newmod)
      [] P.op = "leg" -> LegOp(P.a, P.x, P.what, P.b, P.y, P.k, P.newmod, P.byname)
      [] P.op = "concatenate" -> Concat(P.a, P.b, P.x, P.axis, P.three, P.copy)
      [] P.op = "grid_concat" -> GridConcat(P.a, P.b, P.x, P.y, P.zs, P.none)
      [] P.op = "grid_outer" -> GridOuter(P.grid, P.a, P.b, P.Q, P.qconjr, P.qconj, P.qgiven, P.glabels)
      [] P.op = "get_leg_index" -> GetLegIndex(P.a, P.arg)
      [] P.op = "get_leg_indices" -> GetLegIndices(P.a, P.args)
      [] P.op = "iset_leg_labels" -> ISetLegLabels(P.a, P.labels)
      [] P.op = "replace_labels" -> ReplaceLabels(P.a, P.olds, P.news, P.inpl, P.single)
      [] P.op = "idrop_labels" -> IDropLabels(P.a, P.args, P.all)
      [] P.op = "has_label" -> HasLabel(P.a, P.l)
      [] P.op = "get_leg_labels" -> GetLegLabels(P.a)
      [] P.op = "transpose_l" -> TransposeL(P.a, P.args)
      [] P.op = "tensordot_l" -> TensordotL(P.a, P.b, P.la, P.lb)
      [] P.op = "inner_l" -> InnerL(P.a, P.b, P.mode, P.la, P.lb, P.do_conj)
      [] P.op = "trace_l" -> TraceL(P.a, P.a1, P.a2)
      [] P.op = "combine_legs_l" -> CombineL(P.a, P.args, P.qconj)
      [] P.op = "astype" -> AsType(P.a, P.dtype)
      [] P.op = "unary" -> Unary(P.a, P.func)
      [] P.op = "binary" -> Binary(P.a, P.b, P.func)
      [] P.op = "mul_scalar" -> MulScalar(P.a, P.z, P.how)
      [] P.op = "div_zero" -> DivZero(P.a)
      [] P.op = "eq" -> Eq(P.a, P.b)
      [] P.op = "norm" -> Norm(P.a, P.ord)
Exec == /\ pending # Nil
        /\ Perform
        /\ pending' = Nil
        /\ UNCHANGED <<cfg, cls>>
        /\ nops' = nops + 1
        /\ hist' = Append(hist, [l |-> last', t |-> IF last'.out = 0 THEN Null ELSE pool'[last'.out]])

Next == \/ Setup \/ PickClass \/ Abandon \/ Exec
        \/ ChFromNdarray \/ ChFromTrivial \/ ChFromFunc \/ ChZeros \/ ChDiag \/ ChEyeLike \/ ChDetectQtotal \/ ChDetectLeg \/ ChToNdarray
        \/ ChAddCharge \/ ChAddChargeWrong \/ ChDropCharge \/ ChChangeCharge \/ ChChinfoOp \/ ChLegOp
        \/ ChConcat \/ ChGridConcat \/ ChGridOuter
        \/ ChGetLegIndex \/ ChGetLegIndices \/ ChISetLegLabels \/ ChReplaceLabels \/ ChIDropLabels \/ ChHasLabel \/ ChTransposeL
        \/ ChTensordotL \/ ChInnerL \/ ChTraceL \/ ChCombineL
        \/ ChAsType \/ ChUnary \/ ChBinary \/ ChMulScalar \/ ChEq \/ ChNorm
Spec == Init /\ [][Next]_vars
-----------------------------------------------------------------------------
\* C02 at the design level: whatever the operations return obeys the charge rule of its own ChargeInfo and is well formed
PoolChargeRule == \A s \in used : N(pool[s].mods)!ChargeRule(Core(pool[s]))
PoolWellFormed == \A s \in used : /\ N(pool[s].mods)!WellFormed(Core(pool[s]))
                                   /\ Len(pool[s].names) = Len(pool[s].mods)
                                   /\ \A k \in 1..Len(pool[s].mods) : pool[s].mods[k] >= 1
                                   /\ (pool[s].dtype # "c" => IsRealD(pool[s].val))
\* a pure operation leaves every other slot untouched
OnlyOutChanges == [][\A s \in Slots : (cfg # 0 /\ s # last'.out) => pool'[s] = pool[s]]_vars
\* the documented total-charge functions, as action properties on the executed step
QTotalRule == [][(pending # Nil /\ last'.err = "none" /\ last'.out # 0 /\ last'.op # "skipped") =>
                   LET r == pool'[last'.out] IN
                   CASE last'.op = "drop_charge" -> r.qtotal = (IF last'.k = 0 THEN <<>> ELSE DelAt(pool[last'.a].qtotal, last'.k))
                     [] last'.op = "change_charge" -> r.qtotal = N(r.mods)!MakeValid(pool[last'.a].qtotal)
                     [] last'.op = "add_charge" -> r.qtotal = N(r.mods)!MakeValid(pool[last'.a].qtotal \o last'.q2)
                     [] last'.op \in {"diag", "eye_like"} -> r.qtotal = N(r.mods)!QZero
                     [] last'.op \in {"concatenate", "grid_concat", "unary", "binary", "mul_scalar", "astype", "transpose_l", "combine_legs_l", "trace_l"} ->
                            r.qtotal = pool[last'.a].qtotal
                     [] last'.op = "tensordot_l" -> r.qtotal = N(r.mods)!QAdd(pool[last'.a].qtotal, pool[last'.b].qtotal)
                     [] last'.op = "grid_outer" -> r.qtotal = last'.Q
                     [] OTHER -> TRUE]_vars
=============================================================================
