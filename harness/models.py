"""Helpers for C10/C11: build real tenpy models from declaration lists produced by the specification
(spec/ModelDecl.tla) and *project* every representation of the Hamiltonian onto a dense matrix in the
conserve=None product basis (kron order, site 0 most significant).

Nothing in here decides anything: the judge is the exact matrix computed by TLC.  numpy is used to read
out implementation objects (W tensors, bond arrays, nested term dictionaries) into that common basis.
"""
import warnings

import numpy as np

from . import core

SITE_TYPES = ('spin', 'fermion', 'boson1', 'boson2', 'boson4')
CONSERVE_OPTIONS = {
    'spin': [None, 'Sz', 'parity'],
    'fermion': [None, 'N', 'parity'],
    'boson1': [None, 'N', 'parity'],
    'boson2': [None, 'N', 'parity'],
    'boson4': [None, 'N', 'parity'],   # parity: the sort permutation of the basis is not an involution
}


# ------------------------------------------------------------------------------------------------
# TLA+ values -> Python
# ------------------------------------------------------------------------------------------------
def gnum(z):
    """Gaussian integer <<re, im>> -> python number (float if real, complex otherwise)."""
    re, im = z
    return float(re) if im == 0 else complex(re, im)


def dense_of_sparse(sp):
    """[n |-> D, e |-> <<<<r, c, re, im>>, ...>>]  ->  complex ndarray."""
    n = sp['n']
    A = np.zeros((n, n), dtype=complex)
    for r, c, re, im in sp['e']:
        A[r, c] = complex(re, im)
    return A


def strength_value(s, dim, ints=False):
    """Strength record [shape, vals] -> scalar or ndarray of the lattice dimension.
    ints: real integer strengths are passed as Python int / integer arrays (users do write add_onsite(1, ...))."""
    vals = [complex(re, im) for re, im in s['vals']]
    real = all(v.imag == 0 for v in vals)
    nx, ny = s['shape']
    if nx == 1 and ny == 1:
        return (int(vals[0].real) if ints else vals[0].real) if real else vals[0]
    arr = np.array(vals, dtype=complex).reshape(nx, ny)
    if real:
        arr = arr.real.copy()
        if ints:
            arr = arr.astype(np.int64)
    if dim == 1:
        if ny != 1:
            raise core.MachineryError('2D strength for a 1D lattice')
        arr = arr[:, 0].copy()
    return arr


# ------------------------------------------------------------------------------------------------
# sites, lattices, models
# ------------------------------------------------------------------------------------------------
def make_site(kind, conserve=None):
    from tenpy.networks import site as ts
    if kind == 'spin':
        return ts.SpinHalfSite(conserve=conserve)
    if kind == 'fermion':
        return ts.FermionSite(conserve=conserve)
    if kind == 'boson1':
        return ts.BosonSite(Nmax=1, conserve=conserve)
    if kind == 'boson2':
        return ts.BosonSite(Nmax=2, conserve=conserve)
    if kind == 'boson4':
        return ts.BosonSite(Nmax=4, conserve=conserve)
    raise core.MachineryError('unknown site type %r' % kind)


def make_unit_cell(uc, conserve=None):
    """conserve: None, or a name valid for all site types of the cell (uniform cells), or 'common'
    (mixed cells: each site conserves its natural charge, combined by set_common_charges)."""
    from tenpy.networks import site as ts
    if conserve == 'common':
        nat = {'spin': 'Sz', 'fermion': 'N', 'boson1': 'N', 'boson2': 'N', 'boson4': 'N'}
        sites = [make_site(k, nat[k]) for k in uc]
        ts.set_common_charges(sites, 'independent')
        return sites
    if len(set(uc)) == 1:
        s = make_site(uc[0], conserve)
        return [s] * len(uc)
    return [make_site(k, conserve) for k in uc]


def make_lattice(cfg, sites):
    from tenpy.models import lattice as tl
    name = cfg['name']
    bcx, bcy, mps = cfg['bcx'], cfg['bcy'], cfg['mps']
    if name == 'Chain':
        lat = tl.Chain(cfg['Lx'], sites[0], bc=bcx, bc_MPS=mps)
    elif name == 'Ladder':
        lat = tl.Ladder(cfg['Lx'], sites, bc=bcx, bc_MPS=mps)
    elif name == 'Square':
        shift = int(cfg.get('shift', 0))
        lat = tl.Square(cfg['Lx'], cfg['Ly'], sites[0], bc=[bcx, shift if shift else bcy], bc_MPS=mps)
    else:
        raise core.MachineryError('unknown lattice %r' % name)
    # the specification assumes the default order: x slowest, then y, then u
    exp = [[x, y, u] for x in range(cfg['Lx']) for y in range(cfg['Ly']) for u in range(len(cfg['uc']))]
    got = lat.order.tolist()
    if lat.dim == 1:
        got = [[x, 0, u] for x, u in got]
    if got != exp:
        raise core.MachineryError('lattice order differs from the order assumed by the spec: %r' % (got,))
    return lat


def lat_dim(cfg):
    return 2 if cfg['name'] == 'Square' else 1


def _dx(cfg, dx):
    return [dx[0]] if lat_dim(cfg) == 1 else [dx[0], dx[1]]


def _latidx(cfg, xyu):
    x, y, u = xyu
    return [x, u] if lat_dim(cfg) == 1 else [x, y, u]


def apply_declaration(model, cfg, d, ints=False, scale=1.0):
    """One add_* call on a CouplingModel for declaration record `d` of the specification.
    scale: all strengths are multiplied by this power of two (H is linear in them; small couplings exercise cutoffs)."""
    kind = d['kind']
    dim = lat_dim(cfg)
    if scale != 1.0:
        ints = False
        sv = lambda s_, dim_, ints_=False: strength_value(s_, dim_) * scale
        gn = lambda z: gnum(z) * scale
    else:
        sv, gn = strength_value, gnum
    if kind == 'onsite':
        model.add_onsite(sv(d['s'], dim, ints), d['u'], d['op'], plus_hc=d['hc'])
    elif kind == 'coupling':
        (op1, dx1, u1), (op2, dx2, u2) = d['ops']
        if any(dx1):
            raise core.MachineryError('first operator of a coupling must have dx = 0')
        op_string = None if d['str'] == 'auto' else d['str']
        model.add_coupling(sv(d['s'], dim), u1, op1, u2, op2, _dx(cfg, dx2), op_string=op_string,
                           plus_hc=d['hc'])
    elif kind == 'multi':
        ops = [(op, _dx(cfg, dx), u) for op, dx, u in d['ops']]
        model.add_multi_coupling(sv(d['s'], dim), ops, plus_hc=d['hc'], switchLR=str(d.get('sw', 'middle_i')))
    elif kind == 'expdecay':
        strength = gn(d['s0']) * float(d['lamInv'] ** d['dmax'])
        subs = list(d['subs']) if d['subs'] else None
        model.add_exponentially_decaying_coupling(strength, gnum(d['lam']) / d['lamInv'], d['opi'], d['opj'], subsites=subs,
                                                  plus_hc=d['hc'])
    elif kind == 'expcenter':
        strength = gn(d['s0']) * float(d['lamInv'] ** d['dmax'])
        subs = list(d['subs']) if d['subs'] else None
        model.add_exponentially_decaying_centered_terms(strength, gnum(d['lam']) / d['lamInv'], d['opi'], d['opj'], int(d['i0']),
                                                        subsites=subs, plus_hc=d['hc'])
    elif kind == 'local':
        term = [(op, _latidx(cfg, xyu)) for op, xyu in d['term']]
        model.add_local_term(gn(d['s']), term, plus_hc=d['hc'])
    else:
        raise core.MachineryError('unknown declaration kind %r' % kind)


def model_classes():
    from tenpy.models.model import CouplingMPOModel, NearestNeighborModel

    class DeclModel(CouplingMPOModel):
        """CouplingMPOModel whose init_terms replays a declaration list."""

        def init_lattice(self, model_params):
            return model_params.get('lattice', None)

        def init_terms(self, model_params):
            cfg = model_params.get('verif_cfg', None)
            ints = model_params.get('verif_ints', False)
            scale = model_params.get('verif_scale', 1.0)
            for d in model_params.get('verif_decls', []):
                apply_declaration(self, cfg, d, ints, scale)

    class DeclNNModel(DeclModel, NearestNeighborModel):
        pass

    return DeclModel, DeclNNModel


_CLASSES = None


def build_model(cfg, decls, explicit_plus_hc=False, conserve=None, nn=False, sort_mpo_legs=False, int_strengths=False,
                scale=1.0):
    """The real model for (lattice configuration, declarations) with the given representation options."""
    global _CLASSES
    if _CLASSES is None:
        _CLASSES = model_classes()
    sites = make_unit_cell(list(cfg['uc']), conserve)
    lat = make_lattice(cfg, sites)
    params = dict(lattice=lat, verif_cfg=cfg, verif_decls=list(decls), explicit_plus_hc=explicit_plus_hc,
                  sort_mpo_legs=sort_mpo_legs, verif_ints=bool(int_strengths), verif_scale=float(scale))
    cls = _CLASSES[1] if nn else _CLASSES[0]
    with warnings.catch_warnings():
        warnings.simplefilter('ignore')
        return cls(params)


def build_plain_coupling_model(cfg, decls, explicit_plus_hc=False, conserve=None):
    """A bare CouplingModel (no MPO built), for the lower-level entry points."""
    from tenpy.models.model import CouplingModel
    sites = make_unit_cell(list(cfg['uc']), conserve)
    lat = make_lattice(cfg, sites)
    M = CouplingModel(lat, explicit_plus_hc=explicit_plus_hc)
    with warnings.catch_warnings():
        warnings.simplefilter('ignore')
        for d in decls:
            apply_declaration(M, cfg, d)
    return M


# ------------------------------------------------------------------------------------------------
# projections
# ------------------------------------------------------------------------------------------------
def site_op(site, name):
    """Matrix of a (possibly composite 'A B') operator name in the conserve=None basis order."""
    op = site.get_op(name).to_ndarray()
    perm = unperm(site)
    return op[np.ix_(perm, perm)]


SPEC_STATES = [('up', 'down'), ('empty', 'full'), ('0', '1', '2', '3', '4'), ('0', '1', '2'), ('0', '1')]


def unperm(site):
    """Indices of the site's basis states in the order the specification uses (by state label: up/down,
    empty/full, 0/1/2); falls back to undoing sort_charge for sites without such labels (GroupedSite)."""
    labels = site.state_labels
    for names in SPEC_STATES:
        if len(names) == site.dim and all(n in labels for n in names):
            return np.array([labels[n] for n in names])
    return np.argsort(site.perm)


def native_to_spec(H, sites):
    """Matrix given in the kron basis of the sites' *native* (not charge-sorted) local order -> spec order."""
    dims = [s_.dim for s_ in sites]
    q = [np.asarray(s_.perm)[unperm(s_)] for s_ in sites]
    T = np.asarray(H).reshape(dims + dims)
    T = T[np.ix_(*(q + q))]
    D = int(np.prod(dims))
    return T.reshape(D, D)


def window_sites(sites, cells):
    return list(sites) * cells


def dense_of_local_terms(sites_w, terms):
    """terms: iterable of (coefficient, {site index: opname}) with *all* operators explicit (strings filled in);
    plain tensor products.  sites_w: the sites of the window."""
    dims = [s.dim for s in sites_w]
    D = int(np.prod(dims))
    H = np.zeros((D, D), dtype=complex)
    for coef, ops in terms:
        t = np.ones((1, 1), dtype=complex)
        for i, s in enumerate(sites_w):
            t = np.kron(t, site_op(s, ops[i]) if i in ops else np.eye(s.dim))
        H += coef * t
    return H


def translate_into_window(terms, N, cells):
    """Infinite systems: all translates by whole unit cells of the terms that fit into [0, cells*N)."""
    out = []
    NWn = N * cells
    for coef, ops in terms:
        lo, hi = min(ops), max(ops)
        for c in range(-(hi // N) - 1, cells + 1):
            if lo + c * N >= 0 and hi + c * N < NWn:
                out.append((coef, {i + c * N: o for i, o in ops.items()}))
    return out


def fill_string(ops_sites, strings):
    """ops_sites: [(i, opname)] ascending; strings[k]: operator name between ops k and k+1 -> {site: opname}."""
    full = {}
    for k, (i, op) in enumerate(ops_sites):
        full[i] = op
        if k + 1 < len(ops_sites):
            for j in range(i + 1, ops_sites[k + 1][0]):
                if strings[k] != 'Id':
                    full[j] = strings[k]
    return full


def local_terms_of_onsite(ot):
    return [(strength, {i: op}) for i, d in enumerate(ot.onsite_terms) for op, strength in d.items()]


def local_terms_of_coupling(ct, with_strings=True):
    """CouplingTerms / MultiCouplingTerms -> local terms including the operator strings they store
    (with_strings=False: strings replaced by identities, what a TermList keeps)."""
    from tenpy.networks.terms import MultiCouplingTerms
    out = []
    if not with_strings:
        for term, strength in ct.to_TermList():
            out.append((strength, {i: op for op, i in term}))
        return out
    if not isinstance(ct, MultiCouplingTerms):
        for i, d1 in ct.coupling_terms.items():
            for (op_i, op_str), d2 in d1.items():
                for j, d3 in d2.items():
                    for op_j, strength in d3.items():
                        out.append((strength, fill_string([(i, op_i), (j, op_j)], [op_str])))
        return out
    # MultiCouplingTerms: walk terms_left / terms_right like to_TermList does, but keep the strings
    nconn = len(ct.connections)

    def fill(d0, connect, res, part):
        for i, d1 in d0.items():
            if i == connect:
                for c in d1:
                    res[c] = part
            else:
                for (op_i, op_str), d2 in d1.items():
                    fill(d2, connect, res, part + ((i, op_i, op_str),))
        return res

    left = fill(ct.terms_left, ct._connect_left, [None] * nconn, ())
    right = fill(ct.terms_right, ct._connect_right, [None] * nconn, ())
    for tL, tR, conn in zip(left, right, ct.connections):
        if conn is None:
            continue
        switchLR, op_switch, shift, strength = conn
        full = {}
        last_i, last_str = None, None
        for i, op_i, op_str in tL:
            if last_i is not None:
                for j in range(last_i + 1, i):
                    if last_str != 'Id':
                        full[j] = last_str
            full[i] = op_i
            last_i, last_str = i, op_str
        # from the last left operator up to switchLR (exclusive) the left string continues
        if last_i is not None:
            for j in range(last_i + 1, switchLR):
                if last_str != 'Id':
                    full[j] = last_str
        if op_switch != 'Id':
            full[switchLR] = op_switch
        # right part: entries (i, op_i, op_str) from the outside in; op_str is the string to the *left* of op_i
        first_i, first_str = None, None
        for i, op_i, op_str in tR:  # descending sites
            i = i + shift
            if first_i is not None:
                for j in range(i + 1, first_i):
                    if op_str_prev != 'Id':
                        full[j] = op_str_prev
            full[i] = op_i
            first_i, op_str_prev = i, op_str
        if first_i is not None:
            for j in range(switchLR + 1, first_i):
                if op_str_prev != 'Id':
                    full[j] = op_str_prev
        out.append((strength, full))
    return out


def local_terms_of_expdecay(edt, bc, N, cells, with_strings=True):
    """ExponentiallyDecayingTerms -> local terms (within `cells` unit cells), strings filled in.
    Reads the stored tuples with the formula of the documentation
    strength * lambda_i * prod_{n in S, i < n < j} lambda_n  A_i B_j."""
    out = []
    for strength, lam, op_i, op_j, subsites, subsites_start, op_string in edt.exp_decaying_terms:
        lam = np.full(N, lam) if np.isscalar(lam) else np.asarray(lam)
        reps = cells if bc == 'infinite' else 1
        S = [int(s) + c * N for c in range(reps) for s in subsites]
        S0 = [int(s) + c * N for c in range(reps) for s in subsites_start]
        for i in S0:
            pref = strength * lam[i % N]
            for j in S:
                if j <= i:
                    continue
                out.append((pref, fill_string([(i, op_i), (j, op_j)], [op_string if with_strings else 'Id'])))
                pref = pref * lam[j % N]
    # centred terms (finite systems): strength * prod of lambda_n over the subsites between i (included) and j (excluded)
    for strength, lam, op_i, op_j, i, subsites, op_string in edt.centered_terms:
        lam = np.full(N, lam) if np.isscalar(lam) else np.asarray(lam)
        S = [int(s) for s in subsites]
        for j in S:
            if j == i:
                continue
            between = [n for n in S if (j < n <= i) or (i <= n < j)]
            lo, hi = min(i, j), max(i, j)
            ops = [(lo, op_i if lo == i else op_j), (hi, op_j if hi == j else op_i)]
            out.append((strength * np.prod(lam[between]), fill_string(ops, [op_string if with_strings else 'Id'])))
    return out


def dense_from_terms(model, cells=1):
    """sum of OnsiteTerms + CouplingTerms + ExponentiallyDecayingTerms of a CouplingModel as a dense matrix
    (the stored terms only: no '+ h.c.' for explicit_plus_hc)."""
    sites = model.lat.mps_sites()
    N = len(sites)
    infinite = model.lat.bc_MPS == 'infinite'
    terms = local_terms_of_onsite(model.all_onsite_terms()) + local_terms_of_coupling(model.all_coupling_terms())
    if infinite:
        terms = translate_into_window(terms, N, cells)
    terms += local_terms_of_expdecay(model.exp_decaying_terms, model.lat.bc_MPS, N, cells)
    return dense_of_local_terms(window_sites(sites, cells if infinite else 1), terms)


def dense_from_termlist(term_list, sites, infinite=False, cells=1):
    """TermList (no operator strings stored) -> dense matrix; Jordan-Wigner strings are re-inserted by the
    documented rule: between two operators iff an odd number of JW-needing operators is to the left."""
    N = len(sites)
    terms = []
    for term, strength in term_list:
        term = sorted(term, key=lambda t: t[1])
        ops = {}
        odd = False
        for k, (op, i) in enumerate(term):
            ops[i] = op if i not in ops else ops[i] + ' ' + op
            if sites[i % N].op_needs_JW(op):
                odd = not odd
            if odd and k + 1 < len(term):
                for j in range(i + 1, term[k + 1][1]):
                    ops[j] = 'JW'
        terms.append((strength, ops))
    if infinite:
        terms = translate_into_window(terms, N, cells)
    return dense_of_local_terms(window_sites(sites, cells if infinite else 1), terms)


def dense_from_mpo(H, cells=1, first=None, last=None):
    """Contract the W tensors of an MPO over `cells` unit cells (finite: 1) between IdL on the left and
    IdR on the right.  Returns the matrix of the *stored* operator (without '+ h.c.')."""
    L = H.L
    n = L * cells
    vL = H.get_IdL(0)
    vR = H.get_IdR(L - 1)
    if vL is None or vR is None:
        raise core.MachineryError('MPO without IdL/IdR at the boundary')
    T = None
    dims = []
    for k in range(n):
        i = k % L
        W = H.get_W(i).itranspose(['wL', 'wR', 'p', 'p*']).to_ndarray()
        perm = unperm(H.sites[i])
        W = W[:, :, perm, :][:, :, :, perm]
        dims.append(W.shape[2])
        if T is None:
            T = W[vL]  # (wR, p, p*)
            T = np.moveaxis(T, 0, -1)  # (p, p*, wR)
        else:
            T = np.tensordot(T, W, axes=(-1, 0))  # (..., wR, p, p*)
            T = np.moveaxis(T, -3, -1)
    T = T[..., vR]
    order = list(range(0, 2 * n, 2)) + list(range(1, 2 * n, 2))
    D = int(np.prod(dims))
    return np.transpose(T, order).reshape(D, D).astype(complex)


def bond_matrix(Hb, site_l, site_r):
    """Two-site npc array with legs p0, p0*, p1, p1* -> (d0*d1, d0*d1) matrix in conserve=None order."""
    if Hb is None:
        return np.zeros((site_l.dim * site_r.dim,) * 2, dtype=complex)
    A = Hb.transpose(['p0', 'p1', 'p0*', 'p1*']).to_ndarray()
    pl, pr = unperm(site_l), unperm(site_r)
    A = A[np.ix_(pl, pr, pl, pr)]
    d = site_l.dim * site_r.dim
    return A.reshape(d, d).astype(complex)


def full_H_matrix(ed):
    """ExactDiag.full_H -> dense matrix in the conserve=None kron order (undoing pipe sorting and site perms)."""
    sites = ed._sites
    n = len(sites)
    res = ed.full_H.split_legs()
    res = res.itranspose(['p%d%s' % (k, star) for star in ['', '*'] for k in range(n)]).to_ndarray()
    perms = [unperm(s) for s in sites] * 2
    res = res[np.ix_(*perms)]
    D = int(np.prod(res.shape[:n]))
    return res.reshape(D, D).astype(complex)


def max_abs_diff(A, B):
    if A.shape != B.shape:
        return float('inf')
    return float(np.max(np.abs(A - B))) if A.size else 0.0


def first_diffs(A, B, k=6):
    if A.shape != B.shape:
        return [('shape', A.shape, B.shape)]
    idx = np.argwhere(A != B)[:k]
    return [(int(r), int(c), str(A[r, c]), str(B[r, c])) for r, c in idx]


def boundary_residual(D, dims):
    """Relation used for infinite systems where a representation may re-distribute single-site parts across
    the edge of the window: residual of  D = A x 1 + 1 x B  (A on the first, B on the last site)."""
    n = len(dims)
    T = D.reshape(list(dims) + list(dims))
    Dtot = int(np.prod(dims))
    rest_first = Dtot // dims[0]
    rest_last = Dtot // dims[-1]
    letters = 'abcdefghijklmnopqrstuvwxyz'
    up, lo = letters[:n], letters[n:2 * n]
    # A[i, j] = partial trace over all sites but the first
    sub = up[0] + up[1:] + lo[0] + up[1:]
    A = np.einsum(sub + '->' + up[0] + lo[0], T) / rest_first
    sub = up[:-1] + up[-1] + up[:-1] + lo[-1]
    B = np.einsum(sub + '->' + up[-1] + lo[-1], T) / rest_last
    c = np.trace(D) / Dtot
    model = np.kron(A, np.eye(rest_first)) + np.kron(np.eye(rest_last), B) - c * np.eye(Dtot)
    return float(np.max(np.abs(D - model))) if D.size else 0.0
