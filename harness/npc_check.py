"""Replay of NpcProgram behaviours into tenpy.linalg.np_conserved; shared by C01, C02, C03, C04.

`replay_behaviour` steps one TLC behaviour through real Arrays and returns, per step, every finding
tagged with the property it belongs to:
  C01  result differs from the specification (dense values, labels, qtotal, legs) or the operation
       raised although the specification enables it
  C02  storage invariants / flag truthfulness violated on any live tensor after the step
  C03  a slot other than the step's target changed, or a shared leg object was mutated
"""
import json
import os
import sys

import numpy as np

from . import npc, tlaval


def _jsonable(x):
    return tlaval.to_jsonable(x)


def replay_behaviour(beh, want=('C01', 'C02', 'C03'), canon=False, variant=None):
    """Returns (findings, nsteps, records). finding = dict(prop, clause, step, op, detail).
    records (if canon) = canonical per-step serialisation for cross-configuration comparison (C04)."""
    import tenpy.linalg.np_conserved as npc_mod  # noqa: F401
    from tenpy.linalg import charges as ch
    mods = list(beh['mods'])
    chinfo = ch.ChargeInfo(mods)
    findings = []
    records = []
    pool = {}
    for s, t in enumerate(beh['init']):
        if t['legs']:
            pool[s + 1] = npc.storage_variant(npc.build_array(chinfo, t, dtype_variant=beh.get('dtype_variant', 0)),
                                              beh.get('variant', 0) if variant is None else variant)
            if 'C01' in want:
                clause = npc.compare_tensor(npc.project_array(pool[s + 1]), t, mods)
                if clause:
                    findings.append(dict(prop='C01', clause='init-' + clause, step=-1, op='from_ndarray'))
                    return findings, 0, records
    for s_new, s_src in beh.get('shared0', []):
        pool[s_new] = pool[s_src].copy(deep=False)  # initial shallow copy (spec: InitShared)
    leg_registry = {}

    def register_legs():
        for a in pool.values():
            for l in a.legs:
                if id(l) not in leg_registry:
                    leg_registry[id(l)] = (l, npc.fingerprint_leg(l))

    register_legs()
    nsteps = 0
    for n, st in enumerate(beh['steps']):
        l = st['l']
        op = l['op']
        if op == 'skipped':
            continue
        nsteps += 1
        pre = {s: npc.fingerprint_array(a) for s, a in pool.items()} if 'C03' in want else {}
        pre_ids = {s: id(a) for s, a in pool.items()}
        flags = context_flags(pool, l)
        try:
            kind, val = npc.apply_step(pool, l, chinfo)
        except Exception as e:  # the spec enables the step, so an exception is a divergence
            findings.append(dict(prop='C01', clause='raised-' + type(e).__name__, step=n, op=op, detail=str(e)[:300], flags=flags))
            records.append(dict(step=n, error=type(e).__name__))
            break
        out = l['out']
        if kind == 'scalar':
            exp = complex(l['value'][0], l['value'][1])
            got = complex(val)
            if 'C01' in want and not (got == exp or (op == 'norm2' and abs(got - exp) <= 1e-9 * max(1.0, abs(exp)))):
                findings.append(dict(prop='C01', clause='scalar', step=n, op=op, detail=dict(got=str(got), expected=str(exp))))
            if canon:
                records.append(dict(step=n, scalar=[got.real, got.imag]))
        else:
            if kind == 'store':
                if not hasattr(val, 'legs'):
                    findings.append(dict(prop='C01', clause='not-an-array', step=n, op=op, detail=repr(val)[:100]))
                    break
                pool[out] = val
            # kind == 'inplace': pool[l['a']] already is the modified object (possibly re-created by an upcast)
            proj = npc.project_array(pool[out])
            if 'C01' in want:
                clause = npc.compare_tensor(proj, st['t'], mods)
                if clause is None and op == 'sort_legcharge':
                    if getattr(val, '_verif_perm', None) != [int(x) for x in l['perm']]:
                        clause = 'returned-perm'
                if clause:
                    findings.append(dict(prop='C01', clause=clause, step=n, op=op,
                                         detail=dict(impl=dict(shape=proj['shape'], labels=proj['labels'], qtotal=proj['qtotal'],
                                                               legs=proj['legs'],
                                                               val=[[v.real, v.imag] for v in proj['val'][:64]]))))
            if canon:
                a = pool[out]
                blocks = sorted((tuple(int(x) for x in q), np.asarray(b, dtype=np.complex128).reshape(-1).tolist())
                                for q, b in zip(a._qdata, a._data))
                records.append(dict(step=n, shape=proj['shape'], labels=proj['labels'], qtotal=proj['qtotal'], legs=proj['legs'],
                                    dtype=proj['dtype'], val=[[v.real, v.imag] for v in proj['val']],
                                    blocks=[[list(q), [[z.real, z.imag] for z in b]] for q, b in blocks]))
        if 'C02' in want:
            for s, a in pool.items():
                bad = npc.sanity_clauses(a)
                if bad:
                    findings.append(dict(prop='C02', clause=bad[0], step=n, op=op, detail=dict(slot=s, target=out, all=bad)))
                    break
        if 'C03' in want:
            for s, fp in pre.items():
                if s == out:
                    continue
                if s not in pool:
                    continue
                if npc.fingerprint_array(pool[s]) != fp:
                    findings.append(dict(prop='C03', clause='operand-changed', step=n, op=op,
                                         detail=dict(slot=s, target=out, operands=[l.get('a'), l.get('b')])))
                    break
            # sharing of tensor entries between slots must be a subset of what the specification allows (`shared`)
            allowed = {frozenset(int(x) for x in pr) for pr in st.get('sh', [])}
            slots = sorted(pool)
            for i1, s1 in enumerate(slots):
                for s2 in slots[i1 + 1:]:
                    if frozenset((s1, s2)) in allowed or pool[s1] is pool[s2]:
                        continue
                    if any(np.shares_memory(x, y) for x in pool[s1]._data for y in pool[s2]._data if x.size and y.size):
                        findings.append(dict(prop='C03', clause='unexpected-aliasing', step=n, op=op,
                                             detail=dict(slots=[s1, s2], target=out)))
                        break
            for lid, (leg, fp) in leg_registry.items():
                if npc.fingerprint_leg(leg) != fp:
                    findings.append(dict(prop='C03', clause='leg-mutated', step=n, op=op, detail=dict(target=out)))
                    leg_registry[lid] = (leg, npc.fingerprint_leg(leg))
                    break
            register_legs()
        if any(f['step'] == n for f in findings):
            break  # after a divergence the rest of the behaviour is not meaningful
    return findings, nsteps, records


def behaviours_to_json(behs, path):
    with open(path, 'w') as f:
        json.dump([_jsonable(b) for b in behs], f)


def sig_of(finding):
    """Normalised signature of a finding (what known-findings match on)."""
    return dict(kind='replay', spec='NpcProgram', op=finding['op'], clause=finding['clause'], flags=finding.get('flags', []))


def context_flags(pool, l):
    """Structural facts about the operands of a step that distinguish classes of failures."""
    flags = []
    a = pool.get(l.get('a'))
    if a is not None:
        if any(leg.ind_len == 0 for leg in a.legs):
            flags.append('zero-length-leg')
        if l['op'] in ('getitem', 'setitem_scaled', 'setitem_from'):
            for ax, sp in enumerate(l['spec']):
                if sp['k'] == 'sel' and list(sp['sel']) != sorted(sp['sel']):
                    flags.append('unsorted-selection')
                    if not a.legs[ax].is_bunched():
                        flags.append('on-unbunched-leg')
    return flags


# ---- subprocess mode (C04): replay a file of behaviours under the current interpreter configuration ----
def main():
    import argparse
    ap = argparse.ArgumentParser()
    ap.add_argument('--inp')
    ap.add_argument('--out')
    ap.add_argument('--so', default=None, help='path of a rebuilt _npc_helper extension to use instead of the one in the tree')
    args = ap.parse_args()
    if args.so:
        from . import buildext
        buildext.install_finder(args.so)
    import tenpy  # noqa
    from tenpy.tools import optimization
    with open(args.inp) as f:
        behs = json.load(f)
    out = []
    for b in behs:
        findings, nsteps, records = replay_behaviour(b, want=('C01', 'C02', 'C03'), canon=True)
        out.append(dict(findings=findings, nsteps=nsteps, records=records))
    import tenpy.linalg.np_conserved as npc_mod
    info = dict(have_cython=bool(optimization.have_cython_functions),
                helper_file=getattr(sys.modules.get('tenpy.linalg._npc_helper'), '__file__', None),
                tensordot_impl=type(npc_mod._tensordot_worker).__name__)
    with open(args.out, 'w') as f:
        json.dump(dict(info=info, results=out), f, default=str)


if __name__ == '__main__':
    main()


# ------------------------------------------------------------------------------------------------
# driver shared by checks/c01.py, c02.py, c03.py
# ------------------------------------------------------------------------------------------------
TIERS = {
    # n_configs, mc_ops, sim_num, sim_ops, procs, workers
    'quick': dict(n_configs=6, mc_ops=1, sim_num=6, sim_ops=6, procs=4, workers=4, timeout=600),
    'thorough': dict(n_configs=40, mc_ops=1, sim_num=40, sim_ops=8, procs=4, workers=4, timeout=1500),
}


def run_property(ctx, prop, seed_offset=0, tiers=None):
    from . import core
    p = dict((tiers or TIERS)[ctx.tier])
    seed = ctx.seed * 7919 + seed_offset
    results = npc.generate(seed=seed, **p)
    ctx.rule = ('cases = steps of TLC-generated behaviours of spec/NpcProgram.tla (all operations enabled at the initial '
                'catalogue state, exhaustively, plus random programs from -simulate) over random charge structures; '
                'distinct = distinct (catalogue config, behaviour, step)')
    ctx.assume('TLC 1.8', 'spec/Npc.tla dense layer (tested against numpy for tensordot/transpose/trace)',
               'projection functions harness/npc.py (to_ndarray, get_leg_labels, qtotal, leg slices/charges/qconj)',
               'exact arithmetic: entries are Gaussian integers < 2^31, float64 represents them exactly')
    for r in results:
        if r['error']:
            raise core.MachineryError('TLC failed on catalogue config %d: %s' % (r['idx'], r['error'][-1500:]))
        for stage in ('mc', 'sim'):
            info = r[stage]
            if not info:
                continue
            ctx.states += info['summary']['states']
            ctx.transitions += info['summary']['transitions']
            ctx.mc_runs.append(dict(name='NpcProgram[%s cfg%d mods=%s]' % (stage, r['idx'], r['cfg']['mods']), **info['summary']))
            if stage == 'mc':
                for a, (d, t) in info['coverage'].items():
                    od, ot = ctx.coverage_actions.get(a, (0, 0))
                    ctx.coverage_actions[a] = (od + d, ot + t)
            if info['violated']:
                # the design itself (spec actions) breaks a spec invariant: a spec-level finding, reported for C02/C03
                target = 'C03' if 'OnlyOutChanges' in info['violated'] else 'C02'
                if prop == target:
                    ctx.violation(dict(kind='mc', spec='NpcProgram', invariant=info['violated'][0]),
                                  dict(config=r['cfg'], trace=info['trace']))
        for bi, beh in enumerate(r['behaviours']):
            # the same behaviour is replayed from equivalent internal storage states of the initial tensors
            # (lexsorted blocks / permuted block order / an explicitly stored zero block), chosen per behaviour
            beh['variant'] = (bi + ctx.seed) % 4
            findings, nsteps, _ = replay_behaviour(beh, want=(prop,) if prop != 'C01' else ('C01',))
            ctx.trace_ok(1)
            for n, st in enumerate(beh['steps']):
                if st['l']['op'] != 'skipped':
                    ctx.case((seed, r['idx'], beh['origin'], bi, n), action='Npc.' + st['l']['op'])
            if bi == 0 and r['idx'] < 2:
                ctx.sample(dict(mods=beh['mods'], ops=[_jsonable(s['l']) for s in beh['steps']][:6]))
            for f in findings:
                if f['prop'] != prop:
                    continue
                ctx.violation(sig_of(f), dict(finding=f, behaviour=_jsonable(beh)))
    ctx.exhaustive = False


def replay_file(ctx, prop):
    """./check Cxx --replay FILE : re-execute the stored behaviour."""
    with open(ctx.replay_file) as f:
        rep = json.load(f)
    beh = rep['detail']['behaviour']
    findings, nsteps, _ = replay_behaviour(beh, want=(prop,))
    ctx.trace_ok(1)
    ctx.case(('replay', ctx.replay_file))
    ctx.case(('replay2', ctx.replay_file))
    ctx.sample(dict(replayed=ctx.replay_file, findings=findings))
    ctx.states = ctx.transitions = 1
    for f in findings:
        if f['prop'] == prop:
            ctx.violation(sig_of(f), dict(finding=f, behaviour=beh))
