-------------------------------- MODULE Env --------------------------------
(* Environment bookkeeping of tenpy.networks.mps.BaseEnvironment / MPSEnvironment and
   tenpy.networks.mpo.MPOEnvironment at the level of *values* (growth beyond the listed properties,
   DESIGN 14.7; spec/Sweep.tla has the version-only abstraction used for the sweep engines).

   A configuration cfg = [L, finite, kind, shared, s0, tab] fixes a small exact instance: two MPS ("ket", and
   "bra" unless cfg.shared, i.e. `ket is bra`) with physical dimension 2, bond dimension 2 (1 at the ends of a
   finite chain), Gaussian-integer Vidal tensors Gam(m, i, v)  (v = version of the tensor: ModifySite puts version
   v + 1 there with psi.set_B), integer singular values SV(m, b) in {1, 2} so that the 'A' form SV.Gam and the
   'B' form Gam.SV are integer tensors, and for kind = "mpo" an MPO with the 2x2 operator grid
   [[Id, O_i], [0, Id]].  The spec computes every contraction itself (Exact.tla); nothing is normalised.

   State: for every slot s in 0..L-1 the stored LP[s] / RP[s]:  has, age (the implementation's _LP_age), val (the
   tensor: one chi x chi matrix per MPO index; LP[w][vR*][vR], RP[w][vL][vL*]) and the ghost fields
   ext / a0 / vers: vers = versions <<ket, bra>> of the site tensors contracted since the base (oldest first),
   the base being the identity part of init_LP / init_RP (ext = FALSE, a0 = 0) or a tensor handed to
   set_LP / set_RP with age a0 (ext = TRUE).

   One action per public operation; `last` = operation, arguments, observable result. *)
EXTENDS Exact, TLC

CONSTANTS Ls, Finites, Kinds, Shareds, S0s, Tabs,   \* the configurations offered to Init (see Configs)
          MaxOps,    \* bound on the length of a behaviour
          MaxVer,    \* bound on the version of a site tensor
          MaxAge,    \* bound on the age of a computed part and on the number of sites in a fully contracted network
                     \* (entries grow about tenfold per site: 6 keeps every number far below 2^31)
          WithInst   \* BOOLEAN: put the instance (all tensors) into hist[1] (the harness fetches it once per cfg)

VARIABLES cfg, verK, verB, LP, RP, disc, last, nops, hist
vars == <<cfg, verK, verB, LP, RP, disc, last, nops, hist>>
AbsView == <<cfg, verK, verB, LP, RP, disc, last, nops>>

\* L sites; finite / infinite b.c.; kind "mps" (MPSEnvironment) / "mpo" (MPOEnvironment); shared: `ket is bra`;
\* s0 = start_env_sites of the constructor (infinite chains only); tab: "gen" no charges / "z2" parity-conserving tensors
Configs == {c \in [L : Ls, finite : Finites, kind : Kinds, shared : Shareds, s0 : S0s, tab : Tabs] :
                c.finite => \A x \in S0s : c.s0 <= x}
S0 == IF cfg.finite THEN 0 ELSE cfg.s0
L == cfg.L
Sites == 0..(L - 1)
Slot(i) == i % L                                     \* MPSGeometry._to_valid_site_index
IdxRange == IF cfg.finite THEN 0..(L - 1) ELSE (-1)..L
Ms == IF cfg.shared THEN {"ket"} ELSE {"ket", "bra"}
SetMax(S) == CHOOSE x \in S : \A y \in S : y <= x
SetMin(S) == CHOOSE x \in S : \A y \in S : y >= x

-----------------------------------------------------------------------------
\* the exact instance
ChiB(b) == IF cfg.finite /\ (b = 0 \/ b = L) THEN 1 ELSE 2                     \* MPS bond dimension of bond b
DwB(b) == IF cfg.kind = "mps" THEN 1 ELSE IF cfg.finite /\ (b = 0 \/ b = L) THEN 1 ELSE 2   \* MPO bond dimension
TabOf(m) == IF cfg.shared THEN "ket" ELSE m
VK(s) == verK[s]
VB(s) == IF cfg.shared THEN verK[s] ELSE verB[s]
VerOf(m, s) == IF m = "ket" THEN VK(s) ELSE VB(s)
NormOf(m) == IF TabOf(m) = "ket" THEN 2 ELSE 3                                 \* MPS.norm

\* singular values on bond b (b in 0..L; for an infinite chain bond L is bond 0)
SV(m, b) ==
    LET bb == IF cfg.finite THEN b ELSE b % L IN
    IF ChiB(bb) = 1 THEN <<1>>
    ELSE IF TabOf(m) = "ket" THEN (IF bb % 2 = 1 THEN <<1, 2>> ELSE <<2, 1>>)
    ELSE (IF bb % 2 = 1 THEN <<2, 1>> ELSE <<1, 1>>)

\* Vidal tensor Gamma of MPS m at site i in version v; all indices 0-based here
GEntry(m, i, v, p, a, b) ==
    LET h == 3 * a + 5 * b + 7 * p + 11 * i + 13 * v + (IF TabOf(m) = "bra" THEN 17 ELSE 0)
        re == CASE h % 5 = 0 -> 1 [] h % 5 = 1 -> 0 [] h % 5 = 2 -> -1 [] h % 5 = 3 -> 1 [] OTHER -> 0
        im == IF h % 7 = 3 THEN 1 ELSE 0
    IN IF cfg.tab = "z2" /\ (a + b + p) % 2 = 1 THEN GZero ELSE <<re, im>>

\* site tensor as <<matrix for p = 0, matrix for p = 1>>, matrices chi_left x chi_right
TenA(m, i) == TLCEval([p \in 1..2 |-> TLCEval([a \in 1..ChiB(i) |-> TLCEval([b \in 1..ChiB(i + 1) |->     \* 'A' form
                 GScale(SV(m, i)[a], GEntry(m, i, VerOf(m, i), p - 1, a - 1, b - 1))])])])
TenB(m, i) == TLCEval([p \in 1..2 |-> TLCEval([a \in 1..ChiB(i) |-> TLCEval([b \in 1..ChiB(i + 1) |->     \* 'B' form
                 GScale(SV(m, i + 1)[b], GEntry(m, i, VerOf(m, i), p - 1, a - 1, b - 1))])])])
TenTh(m, i) == TLCEval([p \in 1..2 |-> TLCEval([a \in 1..ChiB(i) |-> TLCEval([b \in 1..ChiB(i + 1) |->    \* 'Th' form
                 GScale(SV(m, i)[a] * SV(m, i + 1)[b], GEntry(m, i, VerOf(m, i), p - 1, a - 1, b - 1))])])])

\* onsite operators op[p][p*] (integers), the MPO grid W[wL][wR] of site i
OpId == <<<<1, 0>>, <<0, 1>>>>
OpZero == <<<<0, 0>>, <<0, 0>>>>
OpSp == <<<<0, 1>>, <<0, 0>>>>
OpN2 == <<<<0, 0>>, <<0, 2>>>>
OpX == <<<<0, 1>>, <<1, 0>>>>
OpNamed(o) == CASE o = "Id" -> OpId [] o = "Sp" -> OpSp [] o = "N2" -> OpN2 [] o = "X" -> OpX
OpNameAt(i) == IF cfg.tab = "z2" THEN (IF i % 2 = 0 THEN "Sp" ELSE "X")
               ELSE (CASE i % 3 = 0 -> "Sp" [] i % 3 = 1 -> "N2" [] OTHER -> "X")
WFull(i) == IF cfg.kind = "mps" THEN <<<<OpId>>>> ELSE <<<<OpId, OpNamed(OpNameAt(i))>>, <<OpZero, OpId>>>>
WG(i) == IF cfg.kind = "mps" THEN WFull(i)
         ELSE IF cfg.finite /\ i = 0 THEN <<WFull(i)[1]>>                               \* row IdL of the grid
         ELSE IF cfg.finite /\ i = L - 1 THEN <<<<WFull(i)[1][2]>>, <<WFull(i)[2][2]>>>>  \* column IdR of the grid
         ELSE WFull(i)
EvOps == IF cfg.tab = "z2" THEN {"N2"} ELSE {"Sp", "N2"}

-----------------------------------------------------------------------------
\* small matrix algebra (eagerly evaluated)
RECURSIVE DotK(_, _, _, _, _)
DotK(A, B, i, j, k) == IF k = 0 THEN GZero ELSE GAdd(GMul(A[i][k], B[k][j]), DotK(A, B, i, j, k - 1))
MM(A, B) == TLCEval([i \in 1..Len(A) |-> TLCEval([j \in 1..Len(B[1]) |-> DotK(A, B, i, j, Len(B))])])
MDag(A) == TLCEval([j \in 1..Len(A[1]) |-> TLCEval([i \in 1..Len(A) |-> GConj(A[i][j])])])
MPlus(A, B) == TLCEval([i \in 1..Len(A) |-> TLCEval([j \in 1..Len(A[1]) |-> GAdd(A[i][j], B[i][j])])])
MTimes(c, A) == TLCEval([i \in 1..Len(A) |-> TLCEval([j \in 1..Len(A[1]) |-> GScale(c, A[i][j])])])
MZ(m, n) == TLCEval([i \in 1..m |-> TLCEval([j \in 1..n |-> GZero])])
MI(n) == TLCEval([i \in 1..n |-> TLCEval([j \in 1..n |-> IF i = j THEN GOne ELSE GZero])])
RECURSIVE TrK(_, _, _)
TrK(A, B, n) == IF n = 0 THEN GZero        \* sum_{n} (A B)[n][n]
                ELSE GAdd(DotK(A, B, n, n, Len(B)), TrK(A, B, n - 1))
MTr2(A, B) == TrK(A, B, Len(A))
DiagScale(s, A, t) == TLCEval([i \in 1..Len(A) |-> TLCEval([j \in 1..Len(A[1]) |-> GScale(s[i] * t[j], A[i][j])])])

\* BaseEnvironment._contract_LP(j, LP): LP'[w'] = sum_{w, p, p*} W[w][w'][p][p*] N[p]^+ LP[w] M[p*]   ('A' forms)
RECURSIVE AccL(_, _, _, _, _, _)
AccL(W, Nd, X, w2, n, acc) ==
    IF n = 0 THEN acc ELSE
    LET w == ((n - 1) \div 4) + 1
        po == (((n - 1) \div 2) % 2) + 1
        pi == ((n - 1) % 2) + 1
        c == W[w][w2][po][pi]
    IN AccL(W, Nd, X, w2, n - 1, IF c = 0 THEN acc ELSE TLCEval(MPlus(acc, MTimes(c, MM(Nd[po], X[w][pi])))))
ContractL(val, j) ==
    LET jj == Slot(j)
        M == TenA("ket", jj)
        N == TenA("bra", jj)
        Nd == TLCEval([p \in 1..2 |-> MDag(N[p])])
        W == WG(jj)
        X == TLCEval([w \in 1..Len(val) |-> TLCEval([pi \in 1..2 |-> MM(val[w], M[pi])])])
        c2 == ChiB(jj + 1)
    IN TLCEval([w2 \in 1..Len(W[1]) |-> AccL(W, Nd, X, w2, 4 * Len(val), MZ(c2, c2))])

\* BaseEnvironment._contract_RP(j, RP): RP'[w] = sum_{w', p, p*} W[w][w'][p][p*] M[p*] RP[w'] N[p]^+   ('B' forms)
RECURSIVE AccR(_, _, _, _, _, _)
AccR(W, M, X, w1, n, acc) ==
    IF n = 0 THEN acc ELSE
    LET w2 == ((n - 1) \div 4) + 1
        po == (((n - 1) \div 2) % 2) + 1
        pi == ((n - 1) % 2) + 1
        c == W[w1][w2][po][pi]
    IN AccR(W, M, X, w1, n - 1, IF c = 0 THEN acc ELSE TLCEval(MPlus(acc, MTimes(c, MM(M[pi], X[w2][po])))))
ContractR(val, j) ==
    LET jj == Slot(j)
        M == TenB("ket", jj)
        N == TenB("bra", jj)
        W == WG(jj)
        X == TLCEval([w2 \in 1..Len(val) |-> TLCEval([po \in 1..2 |-> MM(val[w2], MDag(N[po]))])])
        c1 == ChiB(jj)
    IN TLCEval([w1 \in 1..Len(W) |-> AccR(W, M, X, w1, 4 * Len(val), MZ(c1, c1))])

\* identity parts of init_LP / init_RP on bond b (MPO index IdL = first, IdR = last)
BondOf(b) == IF cfg.finite THEN b ELSE b % L
BaseLVal(b) == LET bb == BondOf(b) IN TLCEval([w \in 1..DwB(bb) |-> IF w = 1 THEN MI(ChiB(bb)) ELSE MZ(ChiB(bb), ChiB(bb))])
BaseRVal(b) == LET bb == BondOf(b) IN TLCEval([w \in 1..DwB(bb) |-> IF w = DwB(bb) THEN MI(ChiB(bb)) ELSE MZ(ChiB(bb), ChiB(bb))])

-----------------------------------------------------------------------------
\* environment parts
NoPart == [has |-> FALSE, age |-> -1, val |-> <<>>, ext |-> FALSE, a0 |-> 0, vers |-> <<>>]
MkPart(age, val, ext, a0, vers) == [has |-> TRUE, age |-> age, val |-> val, ext |-> ext, a0 |-> a0, vers |-> vers]
CurVers(j) == <<VK(Slot(j)), VB(Slot(j))>>
StepL(e, j) == MkPart(e.age + 1, ContractL(e.val, j), e.ext, e.a0, Append(e.vers, CurVers(j)))
StepR(e, j) == MkPart(e.age + 1, ContractR(e.val, j), e.ext, e.a0, Append(e.vers, CurVers(j)))
\* parts for the bonds left of sites j, j+1, .., i  given the part e left of site j
RECURSIVE ChainL(_, _, _)
ChainL(e, j, i) == IF j >= i THEN <<e>> ELSE <<e>> \o ChainL(TLCEval(StepL(e, j)), j + 1, i)
\* parts for the bonds right of sites j, j-1, .., i  given the part e right of site j
RECURSIVE ChainR(_, _, _)
ChainR(e, j, i) == IF j <= i THEN <<e>> ELSE <<e>> \o ChainR(TLCEval(StepR(e, j)), j - 1, i)
LastOf(s) == s[Len(s)]

\* the part is built from the current tensors only (part left of site i / right of site i)
FreshL(e, i) == ~e.ext /\ \A k \in 1..Len(e.vers) : e.vers[Len(e.vers) - k + 1] = CurVers(i - k)
FreshR(e, i) == ~e.ext /\ \A k \in 1..Len(e.vers) : e.vers[Len(e.vers) - k + 1] = CurVers(i + k)
\* does the part contain the tensor of site s (of the unit cell)?
DependsL(e, i, s) == \E k \in 1..Len(e.vers) : Slot(i - k) = s
DependsR(e, i, s) == \E k \in 1..Len(e.vers) : Slot(i + k) = s

\* recomputed from scratch with the current tensors: n sites contracted onto the identity part
ScratchL(i, n) == LastOf(ChainL(MkPart(0, BaseLVal(i - n), FALSE, 0, <<>>), i - n, i)).val
ScratchR(i, n) == LastOf(ChainR(MkPart(0, BaseRVal(i + n + 1), FALSE, 0, <<>>), i + n, i)).val

\* get_LP(i): nearest stored part at or left of i.  Finite chains: only down to site 0 (the implementation's
\* loop comment: "for finite, LP[0] should always be set, so we should abort at latest with i0=0").
CandL(i) == {j \in (IF cfg.finite THEN 0 ELSE i - L + 1)..i : LP[Slot(j)].has}
CandR(i) == {j \in i..(IF cfg.finite THEN L - 1 ELSE i + L - 1) : RP[Slot(j)].has}
InRange(i) == ~cfg.finite \/ (0 <= i /\ i < L)
OkL(i) == InRange(i) /\ CandL(i) # {}
OkR(i) == InRange(i) /\ CandR(i) # {}
AgeL(i) == LET i0 == SetMax(CandL(i)) IN LP[Slot(i0)].age + (i - i0)
AgeR(i) == LET i0 == SetMin(CandR(i)) IN RP[Slot(i0)].age + (i0 - i)
ChL(i) == LET i0 == SetMax(CandL(i)) IN TLCEval(ChainL(LP[Slot(i0)], i0, i))
ChR(i) == LET i0 == SetMin(CandR(i)) IN TLCEval(ChainR(RP[Slot(i0)], i0, i))
\* store=True: exactly the parts computed on the way are stored
StoredL(i, ch) == LET i0 == SetMax(CandL(i)) IN
    [s \in Sites |-> IF \E k \in 2..Len(ch) : Slot(i0 + k - 1) = s
                     THEN ch[CHOOSE k \in 2..Len(ch) : Slot(i0 + k - 1) = s] ELSE LP[s]]
StoredR(i, ch) == LET i0 == SetMin(CandR(i)) IN
    [s \in Sites |-> IF \E k \in 2..Len(ch) : Slot(i0 - k + 1) = s
                     THEN ch[CHOOSE k \in 2..Len(ch) : Slot(i0 - k + 1) = s] ELSE RP[s]]

\* tensors offered to set_LP / set_RP
ExtVal(k, b) == LET bb == BondOf(b) IN
    TLCEval([w \in 1..DwB(bb) |-> TLCEval([r \in 1..ChiB(bb) |-> TLCEval([c \in 1..ChiB(bb) |->
        IF cfg.tab = "z2" THEN (IF r = c /\ w = 1 THEN <<k + r, 0>> ELSE GZero)
        ELSE <<k + r + 2 * c + w, IF r < c THEN 1 ELSE IF r > c THEN -1 ELSE 0>>])])])

-----------------------------------------------------------------------------
\* the instance, handed to the harness with the first entry of `hist`
Instance ==
    [G |-> [m \in Ms |-> [i \in Sites |-> [v \in 0..MaxVer |-> [p \in 1..2 |-> [a \in 1..ChiB(i) |-> [b \in 1..ChiB(i + 1) |->
               GEntry(m, i, v, p - 1, a - 1, b - 1)]]]]]],
     S |-> [m \in Ms |-> [b \in 0..L |-> SV(m, b)]],
     W |-> [i \in Sites |-> WFull(i)],
     ops |-> [o \in EvOps |-> OpNamed(o)],
     norm |-> [m \in Ms |-> NormOf(m)]]

Init ==
    /\ cfg \in Configs
    /\ verK = [s \in 0..(cfg.L - 1) |-> 0]
    /\ verB = [s \in 0..(cfg.L - 1) |-> 0]
    /\ LP = [s \in 0..(cfg.L - 1) |-> IF s = 0
              THEN LastOf(ChainL(MkPart(0, BaseLVal(-S0), FALSE, 0, <<>>), -S0, 0)) ELSE NoPart]
    /\ RP = [s \in 0..(cfg.L - 1) |-> IF s = cfg.L - 1
              THEN LastOf(ChainR(MkPart(0, BaseRVal(cfg.L + S0), FALSE, 0, <<>>), cfg.L - 1 + S0, cfg.L - 1)) ELSE NoPart]
    /\ disc = TRUE
    /\ last = [op |-> "init", res |-> "ok"]
    /\ nops = 0
    /\ hist = <<[l |-> [op |-> "init", cfg |-> cfg, inst |-> IF WithInst THEN Instance ELSE <<>>, res |-> "ok"],
                 o |-> [LP |-> [s \in 0..(cfg.L - 1) |-> [has |-> LP[s].has, age |-> LP[s].age, val |-> LP[s].val]],
                        RP |-> [s \in 0..(cfg.L - 1) |-> [has |-> RP[s].has, age |-> RP[s].age, val |-> RP[s].val]]]]>>
                                                                                         \* (= ObsPart of every slot)

\* get_LP(i, store) / get_RP(i, store)   (the chain of contractions is the same for both values of `store`)
GetLP(i) ==
    IF ~OkL(i) THEN
        /\ \E st \in BOOLEAN : last' = [op |-> "get_LP", i |-> i, store |-> st, res |-> "ValueError"]
        /\ UNCHANGED <<cfg, verK, verB, LP, RP, disc>>
    ELSE
        /\ AgeL(i) <= MaxAge
        /\ LET ch == ChL(i)
               r == LastOf(ch)
           IN \E st \in BOOLEAN :
              /\ LP' = IF st THEN StoredL(i, ch) ELSE LP
              /\ last' = [op |-> "get_LP", i |-> i, store |-> st, res |-> "ok", val |-> r.val, age |-> r.age,
                          n |-> Len(r.vers), fresh |-> FreshL(r, i)]
        /\ UNCHANGED <<cfg, verK, verB, RP, disc>>
GetRP(i) ==
    IF ~OkR(i) THEN
        /\ \E st \in BOOLEAN : last' = [op |-> "get_RP", i |-> i, store |-> st, res |-> "ValueError"]
        /\ UNCHANGED <<cfg, verK, verB, LP, RP, disc>>
    ELSE
        /\ AgeR(i) <= MaxAge
        /\ LET ch == ChR(i)
               r == LastOf(ch)
           IN \E st \in BOOLEAN :
              /\ RP' = IF st THEN StoredR(i, ch) ELSE RP
              /\ last' = [op |-> "get_RP", i |-> i, store |-> st, res |-> "ok", val |-> r.val, age |-> r.age,
                          n |-> Len(r.vers), fresh |-> FreshR(r, i)]
        /\ UNCHANGED <<cfg, verK, verB, LP, disc>>

\* set_LP(i, tensor, age) / set_RP: "Store part ... No copy is made"
SetLP(i, k, a) ==
    /\ LP' = [LP EXCEPT ![Slot(i)] = MkPart(a, ExtVal(k, i), TRUE, a, <<>>)]
    /\ disc' = FALSE
    /\ last' = [op |-> "set_LP", i |-> i, k |-> k, age |-> a, val |-> ExtVal(k, i), res |-> "ok"]
    /\ UNCHANGED <<cfg, verK, verB, RP>>
SetRP(i, k, a) ==
    /\ RP' = [RP EXCEPT ![Slot(i)] = MkPart(a, ExtVal(k, i + 1), TRUE, a, <<>>)]
    /\ disc' = FALSE
    /\ last' = [op |-> "set_RP", i |-> i, k |-> k, age |-> a, val |-> ExtVal(k, i + 1), res |-> "ok"]
    /\ UNCHANGED <<cfg, verK, verB, LP>>

\* del_LP(i) / del_RP(i): exactly that part (also the boundary part); deleting a missing part is no error
DelLP(i) ==
    /\ LP' = [LP EXCEPT ![Slot(i)] = NoPart]
    /\ last' = [op |-> "del_LP", i |-> i, res |-> "ok"]
    /\ UNCHANGED <<cfg, verK, verB, RP, disc>>
DelRP(i) ==
    /\ RP' = [RP EXCEPT ![Slot(i)] = NoPart]
    /\ last' = [op |-> "del_RP", i |-> i, res |-> "ok"]
    /\ UNCHANGED <<cfg, verK, verB, LP, disc>>

\* clear(): "Delete all partial contractions except the left-most LP and right-most RP"
Clear ==
    /\ LP' = [s \in Sites |-> IF s = 0 THEN LP[s] ELSE NoPart]
    /\ RP' = [s \in Sites |-> IF s = L - 1 THEN RP[s] ELSE NoPart]
    /\ last' = [op |-> "clear", res |-> "ok"]
    /\ UNCHANGED <<cfg, verK, verB, disc>>

\* psi.set_B(i, new tensor) on MPS m.  inval = TRUE: the caller then deletes every part that contains the old
\* tensor (what the sweeping algorithms do after an update: del_LP right of the site, del_RP left of it).
ModifySite(m, i, inval) ==
    /\ VerOf(m, i) < MaxVer
    /\ LET dl == {s \in Sites : LP[s].has /\ DependsL(LP[s], s, i)}
           dr == {s \in Sites : RP[s].has /\ DependsR(RP[s], s, i)}
       IN /\ IF inval THEN /\ LP' = [s \in Sites |-> IF s \in dl THEN NoPart ELSE LP[s]]
                           /\ RP' = [s \in Sites |-> IF s \in dr THEN NoPart ELSE RP[s]]
                           /\ disc' = disc
                      ELSE /\ UNCHANGED <<LP, RP>>
                           /\ disc' = (disc /\ dl = {} /\ dr = {})
          /\ last' = [op |-> "modify", m |-> m, i |-> i, v |-> VerOf(m, i) + 1, inval |-> inval,
                      delL |-> IF inval THEN dl ELSE {}, delR |-> IF inval THEN dr ELSE {}, res |-> "ok"]
    /\ IF m = "ket" THEN verK' = [verK EXCEPT ![i] = @ + 1] /\ verB' = verB
                    ELSE verB' = [verB EXCEPT ![i] = @ + 1] /\ verK' = verK
    /\ UNCHANGED cfg

\* init_first_LP_last_RP(start_env_sites=s): "(Re)initialize first LP and last RP"; the other parts stay
Reinit(s) ==
    /\ s = 0 \/ ~cfg.finite
    /\ s <= MaxAge
    /\ LP' = [LP EXCEPT ![0] = LastOf(ChainL(MkPart(0, BaseLVal(-s), FALSE, 0, <<>>), -s, 0))]
    /\ RP' = [RP EXCEPT ![L - 1] = LastOf(ChainR(MkPart(0, BaseRVal(L + s), FALSE, 0, <<>>), L - 1 + s, L - 1))]
    /\ last' = [op |-> "reinit", s |-> s, res |-> "ok"]
    /\ UNCHANGED <<cfg, verK, verB, disc>>

\* get_initialization_data(first, last) = get_LP(first, True), get_RP(last, True) and their ages
InitData(f, l) ==
    /\ OkL(f) /\ OkR(l)
    /\ AgeL(f) <= MaxAge /\ AgeR(l) <= MaxAge
    /\ LET cl == ChL(f)
           cr == ChR(l)
       IN /\ LP' = StoredL(f, cl)
          /\ RP' = StoredR(l, cr)
          /\ last' = [op |-> "init_data", first |-> f, last |-> l, res |-> "ok",
                      valL |-> LastOf(cl).val, ageL |-> LastOf(cl).age, valR |-> LastOf(cr).val, ageR |-> LastOf(cr).age]
    /\ UNCHANGED <<cfg, verK, verB, disc>>

\* a new environment built from get_initialization_data() of the old one:  Env(bra, ket, **data)
Rebuild ==
    /\ OkL(0) /\ OkR(L - 1)
    /\ AgeL(0) <= MaxAge /\ AgeR(L - 1) <= MaxAge
    /\ LP' = [s \in Sites |-> IF s = 0 THEN LastOf(ChL(0)) ELSE NoPart]
    /\ RP' = [s \in Sites |-> IF s = L - 1 THEN LastOf(ChR(L - 1)) ELSE NoPart]
    /\ last' = [op |-> "rebuild", res |-> "ok"]
    /\ UNCHANGED <<cfg, verK, verB, disc>>

\* full_contraction(i0): get_LP(i0+1, store=False) (finite, i0 = L-1: get_LP(i0) and one more contraction),
\* singular values of bond i0+1 on both sides, get_RP(i0, store=False); MPSEnvironment multiplies the norms
FullVal(lv, rv, i0) ==
    LET sb == SV("bra", Slot(i0) + 1)
        sk == SV("ket", Slot(i0) + 1)
        RECURSIVE SumW(_)
        SumW(w) == IF w = 0 THEN GZero ELSE GAdd(MTr2(DiagScale(sb, lv[w], sk), rv[w]), SumW(w - 1))
        nrm == IF cfg.kind = "mps" THEN NormOf("bra") * NormOf("ket") ELSE 1
    IN GScale(nrm, SumW(Len(lv)))
FullContraction(i0) ==
    LET lastSite == cfg.finite /\ i0 = L - 1
        iL == IF lastSite THEN i0 ELSE i0 + 1
    IN IF ~(InRange(i0) /\ OkL(iL) /\ OkR(i0)) THEN
           /\ last' = [op |-> "full_contraction", i0 |-> i0, res |-> "ValueError"]
           /\ UNCHANGED <<cfg, verK, verB, LP, RP, disc>>
       ELSE
           /\ AgeL(iL) + (IF lastSite THEN 1 ELSE 0) + AgeR(i0) <= MaxAge      \* sites in the whole network
           /\ LET l0 == LastOf(ChL(iL))
                  l == IF lastSite THEN StepL(l0, i0) ELSE l0
                  r == LastOf(ChR(i0))
              IN last' = [op |-> "full_contraction", i0 |-> i0, res |-> "ok", val |-> FullVal(l.val, r.val, i0),
                          nL |-> Len(l.vers), nR |-> Len(r.vers), fresh |-> FreshL(l, i0 + 1) /\ FreshR(r, i0)]
           /\ UNCHANGED <<cfg, verK, verB, LP, RP, disc>>

\* MPSEnvironment.expectation_value(op, [i]): <bra| op_i |ket> with get_LP(i, store=True), get_RP(i, store=True)
ExpVal(i) ==
    /\ cfg.kind = "mps"
    /\ OkL(i) /\ OkR(i)
    /\ AgeL(i) + 1 + AgeR(i) <= MaxAge
    /\ LET cl == ChL(i)
           cr == ChR(i)
           lv == LastOf(cl).val[1]
           rv == LastOf(cr).val[1]
           tk == TenTh("ket", Slot(i))
           tb == TenTh("bra", Slot(i))
           C(op, p) == TLCEval(MPlus(MTimes(op[p][1], tk[1]), MTimes(op[p][2], tk[2])))
           E(op, p) == MTr2(MM(MDag(tb[p]), MM(lv, C(op, p))), rv)
       IN /\ LP' = StoredL(i, cl)
          /\ RP' = StoredR(i, cr)
          /\ \E o \in EvOps :
                last' = [op |-> "expectation_value", o |-> o, i |-> i, res |-> "ok",
                         val |-> GScale(NormOf("bra") * NormOf("ket"), GAdd(E(OpNamed(o), 1), E(OpNamed(o), 2))),
                         fresh |-> FreshL(LastOf(cl), i) /\ FreshR(LastOf(cr), i),
                         nL |-> Len(LastOf(cl).vers), nR |-> Len(LastOf(cr).vers)]
    /\ UNCHANGED <<cfg, verK, verB, disc>>

\* cache_optimize(short_term_LP=[i], short_term_RP=[i], preload_LP=.., preload_RP=..): no visible effect
CacheOptimize(i) ==
    /\ last' = [op |-> "cache_optimize", i |-> i, res |-> "ok"]
    /\ UNCHANGED <<cfg, verK, verB, LP, RP, disc>>

-----------------------------------------------------------------------------
\* observable state: per slot has / age / tensor.  hist[1] holds it completely (with the instance), every later
\* entry the slots the step changed
ObsPart(e) == [has |-> e.has, age |-> e.age, val |-> e.val]
Delta == [LP |-> [s \in {t \in Sites : LP'[t] # LP[t]} |-> ObsPart(LP'[s])],
          RP |-> [s \in {t \in Sites : RP'[t] # RP[t]} |-> ObsPart(RP'[s])]]
Step(A) == nops < MaxOps /\ nops' = nops + 1 /\ A /\ hist' = Append(hist, [l |-> last', o |-> Delta])

DoGetLP == Step(\E i \in IdxRange \cup {L} : GetLP(i))
DoGetRP == Step(\E i \in IdxRange \cup {L} : GetRP(i))
SetArgs == {<<i, 1, 0>> : i \in IdxRange} \cup {<<1, 2, 3>>}
DoSetLP == Step(\E a \in SetArgs : SetLP(a[1], a[2], a[3]))
DoSetRP == Step(\E a \in SetArgs : SetRP(a[1], a[2], a[3]))
DoDelLP == Step(\E i \in IdxRange : DelLP(i))
DoDelRP == Step(\E i \in IdxRange : DelRP(i))
DoClear == Step(Clear)
DoModify == Step(\E m \in Ms, i \in Sites, inval \in BOOLEAN : ModifySite(m, i, inval))
DoReinit == Step(\E s \in {0, 1, L} : Reinit(s))
DoInitData == Step(\E f \in {0, 1}, l \in {L - 2, L - 1} : f <= l /\ InitData(f, l))
DoRebuild == Step(Rebuild)
DoFull == Step(\E i0 \in IdxRange : FullContraction(i0))
DoExpVal == Step(\E i \in Sites : ExpVal(i))
DoCacheOpt == Step(\E i \in Sites : CacheOptimize(i))

Next == DoGetLP \/ DoGetRP \/ DoSetLP \/ DoSetRP \/ DoDelLP \/ DoDelRP \/ DoClear \/ DoModify \/ DoReinit
        \/ DoInitData \/ DoRebuild \/ DoFull \/ DoExpVal \/ DoCacheOpt
Spec == Init /\ [][Next]_vars

-----------------------------------------------------------------------------
\* (2) ages: the book-keeping number is the number of physical sites in the part (incl. the age of its base);
\*     a part that is not stored has no age; finite chains: LP[s] made of s sites, RP[s] of L-1-s sites
AgeRule ==
    \A s \in Sites :
        /\ LP[s].has => (LP[s].age = LP[s].a0 + Len(LP[s].vers)) /\ (cfg.finite /\ ~LP[s].ext => LP[s].age = s)
        /\ RP[s].has => (RP[s].age = RP[s].a0 + Len(RP[s].vers)) /\ (cfg.finite /\ ~RP[s].ext => RP[s].age = L - 1 - s)
        /\ ~LP[s].has => LP[s] = NoPart
        /\ ~RP[s].has => RP[s] = NoPart

\* (1) a stored part that was built from the current tensors has the value recomputed from scratch
ValueFresh ==
    \A s \in Sites :
        /\ (LP[s].has /\ FreshL(LP[s], s)) => LP[s].val = ScratchL(s, Len(LP[s].vers))
        /\ (RP[s].has /\ FreshR(RP[s], s)) => RP[s].val = ScratchR(s, Len(RP[s].vers))

\* (1) the same for what get_LP / get_RP return (also with store=False)
ResultFresh ==
    /\ (last.op = "get_LP" /\ last.res = "ok" /\ last.fresh) => last.val = ScratchL(last.i, last.n)
    /\ (last.op = "get_RP" /\ last.res = "ok" /\ last.fresh) => last.val = ScratchR(last.i, last.n)

\* the contract of the callers: as long as every tensor update is followed by the deletion of the parts that contain
\* the old tensor (and no foreign tensors are set), every stored part is fresh
DisciplineFresh ==
    disc => \A s \in Sites : (LP[s].has => FreshL(LP[s], s)) /\ (RP[s].has => FreshR(RP[s], s))

\* (5) the full contraction of fresh parts does not depend on i0: finite chains <bra|H|ket>; infinite chains the
\*     network with nL sites to the left and nR sites to the right of bond i0+1 between the identity parts
FullFromScratch(i0, nL, nR) == FullVal(ScratchL(i0 + 1, nL), ScratchR(i0, nR), i0)
FullIndependent ==
    (last.op = "full_contraction" /\ last.res = "ok" /\ last.fresh) =>
        /\ last.val = FullFromScratch(last.i0, last.nL, last.nR)
        /\ cfg.finite => last.val = FullFromScratch(0, 1, L - 1)

\* (3) store=False (and full_contraction) leave the stored parts alone; store=True adds exactly the intermediate parts
StoreFlag ==
    [][/\ (last'.op \in {"get_LP", "get_RP"} /\ ~last'.store) => (LP' = LP /\ RP' = RP)
       /\ (last'.op \in {"full_contraction", "cache_optimize"}) => (LP' = LP /\ RP' = RP)
       /\ (last'.op = "get_LP" /\ last'.res = "ok" /\ last'.store) =>
             /\ RP' = RP
             /\ LET i0 == SetMax(CandL(last'.i)) IN
                \A s \in Sites : IF \E j \in (i0 + 1)..last'.i : Slot(j) = s THEN LP'[s].has ELSE LP'[s] = LP[s]
       /\ (last'.op = "get_RP" /\ last'.res = "ok" /\ last'.store) =>
             /\ LP' = LP
             /\ LET i0 == SetMin(CandR(last'.i)) IN
                \A s \in Sites : IF \E j \in last'.i..(i0 - 1) : Slot(j) = s THEN RP'[s].has ELSE RP'[s] = RP[s]
      ]_vars

\* (4) clear() keeps exactly the left-most LP and the right-most RP; del_* removes exactly the named part
BoundaryKept ==
    [][/\ last'.op = "clear" => /\ LP'[0] = LP[0] /\ RP'[L - 1] = RP[L - 1]
                                /\ \A s \in Sites : (s # 0 => ~LP'[s].has) /\ (s # L - 1 => ~RP'[s].has)
       /\ last'.op = "del_LP" => RP' = RP /\ \A s \in Sites : LP'[s] = IF s = Slot(last'.i) THEN NoPart ELSE LP[s]
       /\ last'.op = "del_RP" => LP' = LP /\ \A s \in Sites : RP'[s] = IF s = Slot(last'.i) THEN NoPart ELSE RP[s]
      ]_vars

\* every number stays far below 2^31 (TLC would also stop at an overflow)
Small(z) == z[1] < 100000000 /\ z[1] > -100000000 /\ z[2] < 100000000 /\ z[2] > -100000000
ValSmall(v) == \A w \in 1..Len(v) : \A r \in 1..Len(v[w]) : \A c \in 1..Len(v[w][r]) : Small(v[w][r][c])
NoOverflow == \A s \in Sites : (LP[s].has => ValSmall(LP[s].val)) /\ (RP[s].has => ValSmall(RP[s].val))
=============================================================================
