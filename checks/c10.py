"""C10: all representations of a model Hamiltonian are the same operator.

Stages
  SITES   the operator tables of spec/ModelTerms.tla are evaluated by TLC and compared with the real Site classes
  MC      spec/ModelDecl.tla exhaustively with small alphabets (invariants: the two readings of '+ h.c.' agree,
          stored half + its conjugate = H, Hermitian whenever the terms are, H = sum of bond operators, ...)
  REPLAY  every TLC-generated declaration list (state cover of the MC run + -simulate with the full alphabets)
          is built as a real CouplingMPOModel; every representation is projected to a dense matrix and must
          *equal* the exact matrix computed by the specification
  TRACE   the real MPOGraph of each model is dumped as JSON; spec/TraceMPOGraph.tla lets TLC enumerate all
          accepted paths of that automaton and compare their sum with the declared terms
"""
import hashlib
import json
import os
import shutil
import warnings

import numpy as np

from harness import core, tlc, tlaval
from harness import models as hm

INVARIANTS = ['TermViewEqualsOpView', 'StoredHalf', 'HermitianWheneverTermsAre', 'BondSumIsH', 'ConservationInherited',
              'GraphSemantics']  # the last one is stated in module MPOGraph (EXTENDS ModelDecl)
WORKERS = int(os.environ.get('VERIF_TLC_WORKERS', '8'))


# ------------------------------------------------------------------------------------------------
# no TLC process may outlive the check: explicit timeouts on every run, and all descendants are killed on exit /
# SIGTERM / SIGINT / SIGHUP (a killed check must not leave a JVM behind)
# ------------------------------------------------------------------------------------------------
TLC_TIMEOUT = int(os.environ.get('VERIF_TLC_TIMEOUT', '1500'))
# recursive operators on matrices of a few hundred entries need more than the default thread stack of the JVM
JVM_ENV = dict(JAVA_TOOL_OPTIONS='-Xss32m')


def _descendants(pid):
    kids = {}
    for name in os.listdir('/proc'):
        if name.isdigit():
            try:
                with open('/proc/%s/stat' % name) as f:
                    fields = f.read().rsplit(')', 1)[1].split()
                kids.setdefault(int(fields[1]), []).append(int(name))
            except (OSError, IndexError, ValueError):
                pass
    out, todo = [], [pid]
    while todo:
        for k in kids.get(todo.pop(), []):
            out.append(k)
            todo.append(k)
    return out


def _kill_children(*_sig):
    import signal
    for k in _descendants(os.getpid()):
        try:
            os.kill(k, signal.SIGKILL)
        except OSError:
            pass
    if _sig:  # called as a signal handler: terminate with the conventional status
        os._exit(128 + _sig[0])


def _install_reaper():
    import atexit
    import signal
    atexit.register(_kill_children)
    for s in (signal.SIGTERM, signal.SIGINT, signal.SIGHUP):
        try:
            signal.signal(s, _kill_children)
        except (ValueError, OSError):
            pass



def decl_cfg(lattices, maxdecl, profile, invariants=INVARIANTS):
    return dict(spec='Spec', constants=dict(Lattices='<-' + lattices, MaxDecl=maxdecl, Profile=profile),
                invariants=list(invariants), view='AbsView')


def _h(*parts):
    return int(hashlib.blake2b(json.dumps(parts, sort_keys=True, default=str).encode(), digest_size=4).hexdigest(), 16)


def decl_class(d):
    """The distinguishing argument classes of a declaration (for violation signatures)."""
    out = dict(kind=d['kind'], hc=d['hc'])
    if d['kind'] in ('coupling', 'multi'):
        out['str'] = 'auto' if d['str'] == 'auto' else 'explicit'
        out['nops'] = len(d['ops'])
    return out


def cfg_class(cfg):
    return dict(lattice=cfg['name'], mps=cfg['mps'], bcx=cfg['bcx'], uc='+'.join(sorted(set(cfg['uc']))))


def uses_jw(cfg, decls):
    for d in decls:
        names = []
        if d['kind'] in ('coupling', 'multi'):
            names = [o[0] for o in d['ops']]
        elif d['kind'] in ('expdecay', 'expcenter'):
            names = [d['opi'], d['opj']]
        elif d['kind'] == 'local':
            names = [o[0] for o in d['term']]
        if any(n in ('C', 'Cd') for n in names):
            return True
    return False


class Case:
    """One (lattice configuration, declaration list) with the observable state predicted by the spec."""

    def __init__(self, cfg, decls, obs):
        self.cfg, self.decls, self.obs = cfg, decls, obs
        self.H = hm.dense_of_sparse(obs['H'])
        self.G2 = hm.dense_of_sparse(obs['G2'])
        self.cells = cfg['cells'] if cfg['mps'] == 'infinite' else 1
        self.infinite = cfg['mps'] == 'infinite'

    scale = 1.0     # all strengths of the real model are multiplied by this power of two (set per option combination)

    def expected(self, explicit, stored):
        """Exact matrix a representation must have.  stored: the operator that is stored (G for explicit_plus_hc,
        where H is represented as G + G^dagger); otherwise the represented operator."""
        if not explicit:
            return self.H * self.scale
        if stored:
            return self.G2 / 2 * self.scale
        return (self.G2 + self.G2.conj().T) / 2 * self.scale


def diagnose_exporter(case, M, got, explicit):
    """Classification only (never turns a mismatch into a pass): which documented ingredient did a matrix
    exporter leave out?  Compares with the model's own stored terms with / without their operator strings."""
    try:
        sites = M.lat.mps_sites()
        res = {}
        for ws in (True, False):
            terms = hm.local_terms_of_onsite(M.all_onsite_terms()) + hm.local_terms_of_coupling(M.all_coupling_terms(), ws)
            terms += hm.local_terms_of_expdecay(M.exp_decaying_terms, 'finite', len(sites), 1, ws)
            res[ws] = hm.dense_of_local_terms(sites, terms)
    except Exception:
        return 'undiagnosed'
    if explicit and np.array_equal(got, res[True]):
        return 'stored-half-without-hc'
    if np.array_equal(got, res[False]):
        return 'op-strings-dropped' + ('+stored-half-without-hc' if explicit else '')
    if explicit and np.array_equal(got, res[False] + res[False].conj().T):
        return 'op-strings-dropped'     # the conjugate is added, the strings are still missing
    return 'other'


def compare(ctx, case, rep, got, exp, opts, exact=True, extra=None):
    """Report a violation unless got == exp (exactly; or within 1e-9*scale where LAPACK is involved)."""
    ctx.case(('c10', case.cfg, case.decls, rep, opts), action='C10.' + rep)
    if got.shape == exp.shape:
        if exact:
            ok = np.array_equal(got, exp)
        else:
            scale = max(1.0, float(np.max(np.abs(exp))) if exp.size else 1.0)
            ok = hm.max_abs_diff(got, exp) <= 1e-9 * scale
    else:
        ok = False
    if ok:
        return True
    sig = dict(kind='replay', spec='ModelDecl', rep=rep, last=decl_class(case.decls[-1]), jw=uses_jw(case.cfg, case.decls),
               explicit=bool(opts.get('explicit')), conserve=str(opts.get('conserve')), **cfg_class(case.cfg))
    if extra:
        sig.update(extra)
    ctx.violation(sig, dict(cfg=tlaval.to_jsonable(case.cfg), decls=tlaval.to_jsonable(case.decls), opts=opts, rep=rep,
                            first_differences=hm.first_diffs(got, exp), max_abs_diff=hm.max_abs_diff(got, exp),
                            expected_nonzeros=tlaval.to_jsonable(case.obs['H']['e'][:40])))
    return False


def attempt(ctx, case, rep, opts, fn):
    """Run one exporter; an exception of the code under test for an admissible model is a violation."""
    try:
        with warnings.catch_warnings():
            warnings.simplefilter('ignore')
            return fn()
    except core.MachineryError:
        raise
    except Exception as e:
        ctx.case(('c10', case.cfg, case.decls, rep, opts, 'raise'), action='C10.' + rep)
        onsite_only = no_two_site_part(case)
        # classification only: centred exponentially decaying terms with partners left of the centre
        centered_left = any(d['kind'] == 'expcenter' and d['i0'] > 0 for d in case.decls)
        ctx.violation(dict(kind='replay', spec='ModelDecl', rep=rep, error=type(e).__name__, onsite_only=onsite_only,
                           centered_left=centered_left,
                           explicit=bool(opts.get('explicit')), conserve=str(opts.get('conserve')), **cfg_class(case.cfg)),
                      dict(cfg=tlaval.to_jsonable(case.cfg), decls=tlaval.to_jsonable(case.decls), opts=opts, rep=rep, error=repr(e)))
        return None


def no_two_site_part(case):
    """Classification only: every bond operator predicted by the spec is of the form A x 1 + 1 x B."""
    if not case.obs['nn']:
        return False
    N = hm_ncell(case.cfg)
    dims = [hm_dim(t) for t in list(case.cfg['uc'])] * (case.cfg['Lx'] * case.cfg['Ly'] * (case.cells + 1))
    for b, sp in enumerate(case.obs['bonds'], start=1):
        h = hm.dense_of_sparse(sp)
        dl, dr = dims[b - 1], dims[b]
        T = h.reshape(dl, dr, dl, dr)
        A = np.einsum('iaja->ij', T) / dr
        B = np.einsum('aiaj->ij', T) / dl
        c = np.trace(h) / (dl * dr)
        rest = h - np.kron(A, np.eye(dr)) - np.kron(np.eye(dl), B) + c * np.eye(dl * dr)
        if np.max(np.abs(rest)) > 1e-12:
            return False
    return True


def hm_dim(t):
    return {'boson2': 3, 'boson4': 5}.get(t, 2)


def hm_ncell(cfg):
    return cfg['Lx'] * cfg['Ly'] * len(cfg['uc'])


def conserve_options(case, explicit):
    """Charge conservation options admissible for the case: every stored term conserves the charge (decided by
    the spec) and the model is not empty (tenpy refuses to assign charges to an MPO without any term)."""
    if not np.any(case.expected(explicit, True)):
        return []
    uc = list(case.cfg['uc'])
    cons = case.obs['cons']
    out = []
    if len(set(uc)) == 1:
        no_sz = any(d.get('str') in ('Sigmax', 'Sigmay') for d in case.decls)  # op_string must exist on the site
        for c in hm.CONSERVE_OPTIONS[uc[0]][1:]:
            if cons[c] and not (c == 'Sz' and no_sz):
                out.append(c)
    else:
        if cons['Sz'] and cons['N']:
            out.append('common')
    return out


def replay_case(ctx, case, combo, model=None):
    """Build the real model with the representation options `combo` and compare every representation."""
    from tenpy.algorithms import exact_diag as ted
    explicit, conserve, sort_legs = combo['explicit'], combo['conserve'], combo['sort']
    case.scale = float(combo.get('scale', 1.0)) if model is None else 1.0
    cfg, decls, obs = case.cfg, case.decls, case.obs
    nn = bool(obs['nn']) and (not case.infinite or case.cells >= 2)
    opts = dict(explicit=explicit, conserve=conserve, sort=sort_legs, ints=bool(combo.get('ints')), scale=case.scale)
    if not np.any(case.expected(explicit, True)):
        # precondition: tenpy does not build an MPO for a model whose stored terms cancel completely (H = 0)
        ctx.replay_actions['C10.skipped-empty-model'] = ctx.replay_actions.get('C10.skipped-empty-model', 0) + 1
        return None
    try:
        M = model if model is not None else hm.build_model(cfg, decls, explicit_plus_hc=explicit, conserve=conserve, nn=nn,
                                                          sort_mpo_legs=sort_legs, int_strengths=bool(combo.get('ints')),
                                                          scale=case.scale)
        if model is not None:
            nn = nn and hasattr(M, 'H_bond')
    except Exception as e:  # the documented interface accepts every declaration TLC generates
        ctx.case(('c10', cfg, decls, 'build', opts), action='C10.build')
        str_eq_op = any(d.get('str', 'auto') != 'auto' and d['str'] in [o[0] for o in d['ops']] for d in decls)
        ctx.violation(dict(kind='replay', spec='ModelDecl', rep='build', error=type(e).__name__, last=decl_class(decls[-1]),
                           explicit=explicit, conserve=str(conserve), nn=nn, str_eq_op=str_eq_op,
                           has_multi=any(d['kind'] in ('multi', 'local') for d in decls), **cfg_class(cfg)),
                      dict(cfg=tlaval.to_jsonable(cfg), decls=tlaval.to_jsonable(decls), opts=opts, error=repr(e)))
        return None
    cells = case.cells

    def rep(name, fn, exp, exact=True, o=opts):
        got = attempt(ctx, case, name, o, fn)
        if got is not None:
            compare(ctx, case, name, got, exp, o, exact=exact)

    stored = case.expected(explicit, True)
    represented = case.expected(explicit, False)
    # 1. the terms (OnsiteTerms / CouplingTerms / MultiCouplingTerms / ExponentiallyDecayingTerms)
    rep('terms', lambda: hm.dense_from_terms(M, cells), stored)
    # 2. the MPO, by explicit contraction of its W tensors
    rep('H_MPO', lambda: hm.dense_from_mpo(M.H_MPO, cells), stored)
    if all(d['kind'] not in ('expdecay', 'expcenter') and d.get('str', 'auto') == 'auto' for d in decls) and not uses_jw(cfg, decls):
        # TermList: documented as lossy w.r.t. operator strings, hence only for models without any string
        rep('TermList', lambda: hm.dense_from_termlist(M.all_onsite_terms().to_TermList() + M.all_coupling_terms().to_TermList(),
                                                       M.lat.mps_sites(), case.infinite, cells), stored)
    if not case.infinite:
        def ed_mpo():
            ed = ted.ExactDiag(M)
            ed.build_full_H_from_mpo()
            return hm.full_H_matrix(ed)

        def ed_from_H_mpo():
            ed = ted.ExactDiag.from_H_mpo(M.H_MPO)
            ed.build_full_H_from_mpo()
            return hm.full_H_matrix(ed)
        rep('ExactDiag.from_mpo', ed_mpo, represented)
        rep('ExactDiag.from_H_mpo', ed_from_H_mpo, represented)
        msites = M.lat.mps_sites()
        for name, fn in (('get_numpy_Hamiltonian',
                          lambda: hm.native_to_spec(np.asarray(ted.get_numpy_Hamiltonian(M), dtype=complex), msites)),
                         ('get_scipy_sparse_Hamiltonian',
                          lambda: hm.native_to_spec(np.asarray(ted.get_scipy_sparse_Hamiltonian(M).toarray(), dtype=complex), msites))):
            got = attempt(ctx, case, name, opts, fn)
            if got is not None:
                cause = None if np.array_equal(got, represented) else dict(cause=diagnose_exporter(case, M, got, explicit))
                compare(ctx, case, name, got, represented, opts, extra=cause)
        if conserve is not None:
            # undo_sort_charge=False: the matrix in the charge-sorted local bases
            def sorted_basis():
                A = np.asarray(ted.get_numpy_Hamiltonian(M, undo_sort_charge=False), dtype=complex)
                dims = [s_.dim for s_ in msites]
                q = [hm.unperm(s_) for s_ in msites]
                return A.reshape(dims + dims)[np.ix_(*(q + q))].reshape(A.shape)
            got = attempt(ctx, case, 'get_numpy_Hamiltonian(sorted)', opts, sorted_basis)
            if got is not None:
                cause = None if np.array_equal(got, represented) else dict(cause=diagnose_exporter(case, M, got, explicit))
                compare(ctx, case, 'get_numpy_Hamiltonian(sorted)', got, represented, opts, extra=cause)
    else:
        # the window: extract_segment + finite boundary conditions, as ExactDiag.from_infinite_model documents
        def ed_inf():
            ed = ted.ExactDiag.from_infinite_model(M, first=0, last=M.lat.N_sites * cells - 1)
            ed.build_full_H_from_mpo()
            return hm.full_H_matrix(ed)
        rep('ExactDiag.from_infinite_model', ed_inf, represented)
    if nn and (obs['herm'] or not explicit):
        sites = M.lat.mps_sites()
        N = len(sites)
        bonds = obs['bonds']
        for b in range(1, len(bonds) + 1):
            exp = hm.dense_of_sparse(bonds[b - 1]) / 2 * case.scale
            rep('H_bond', lambda: hm.bond_matrix(M.H_bond[b % N], sites[(b - 1) % N], sites[b % N]), exp, o=dict(opts, bond=b))
        if not case.infinite:
            def ed_bonds():
                ed = ted.ExactDiag(M)
                ed.build_full_H_from_bonds()
                return hm.full_H_matrix(ed)
            rep('ExactDiag.from_bonds', ed_bonds, represented)
        # H_bond -> MPO (SVD inside: relation with tolerance) and MPO -> H_bond
        if not case.infinite:
            rep('calc_H_MPO_from_bond', lambda: hm.dense_from_mpo(M.calc_H_MPO_from_bond(), cells), represented, exact=False)
        else:
            # the bond operators of an infinite chain do not say which single-site parts belong to which side of the
            # window edge: relation "equal up to single-site operators on the first and last site of the window"
            got = attempt(ctx, case, 'calc_H_MPO_from_bond', opts, lambda: hm.dense_from_mpo(M.calc_H_MPO_from_bond(), cells))
            if got is not None:
                dims = [s_.dim for s_ in sites] * cells
                r = hm.boundary_residual(got - represented, dims)
                scale = max(1.0, float(np.max(np.abs(represented))))
                compare(ctx, case, 'calc_H_MPO_from_bond', np.array([[0.0 if r <= 1e-9 * scale else r]]), np.zeros((1, 1)), opts)
        def plain_mpo_model_bonds():
            from tenpy.models.model import MPOModel
            return MPOModel(M.lat, M.H_MPO).calc_H_bond_from_MPO()
        Hb3 = attempt(ctx, case, 'MPOModel.calc_H_bond_from_MPO', opts, plain_mpo_model_bonds)
        if Hb3 is not None:
            for b in range(1, len(bonds) + 1):
                exp = hm.dense_of_sparse(bonds[b - 1]) / 2 * case.scale
                rep('MPOModel.calc_H_bond_from_MPO', lambda: hm.bond_matrix(Hb3[b % N], sites[(b - 1) % N], sites[b % N]), exp,
                    o=dict(opts, bond=b))
        Hb2 = attempt(ctx, case, 'calc_H_bond_from_MPO', opts, M.calc_H_bond_from_MPO)
        if Hb2 is not None:
            for b in range(1, len(bonds) + 1):
                exp = hm.dense_of_sparse(bonds[b - 1]) / 2 * case.scale
                rep('calc_H_bond_from_MPO', lambda: hm.bond_matrix(Hb2[b % N], sites[(b - 1) % N], sites[b % N]), exp,
                    o=dict(opts, bond=b))
    return M


def replay_options(ctx, case, M, opts):
    """Operations that only change the representation: group_sites, enlarge_mps_unit_cell, extract_segment.
    (conserve=None models: the grouped basis is then the kron basis.)"""
    from tenpy.algorithms import exact_diag as ted
    cells = case.cells
    explicit = opts['explicit']
    stored = case.expected(explicit, True)
    represented = case.expected(explicit, False)
    N = M.lat.N_sites

    def rep(name, fn, exp, exact=True):
        got = attempt(ctx, case, name, opts, fn)
        if got is not None:
            compare(ctx, case, name, got, exp, opts, exact=exact)

    # group_sites(2)
    if N % 2 == 0 and N >= 2 and opts['conserve'] is None:
        def grouped():
            M2 = M.copy()
            M2.group_sites(2)
            if case.infinite and (cells * N) % 2:
                raise core.MachineryError('odd window')
            out = [hm.dense_from_mpo(M2.H_MPO, cells)]
            if hasattr(M2, 'H_bond') and not case.infinite and M2.lat.N_sites >= 2:
                ed = ted.ExactDiag(M2)
                ed.build_full_H_from_bonds()
                out.append(hm.full_H_matrix(ed))
            return out
        if not case.infinite:
            def grouped_exporter():
                M2 = M.copy()
                M2.group_sites(2)
                return np.asarray(ted.get_numpy_Hamiltonian(M2), dtype=complex)
            got = attempt(ctx, case, 'group_sites.get_numpy_Hamiltonian', opts, grouped_exporter)
            if got is not None:
                compare(ctx, case, 'group_sites.get_numpy_Hamiltonian', got, represented, opts)
        got = attempt(ctx, case, 'group_sites', opts, grouped)
        if got is not None:
            compare(ctx, case, 'group_sites.H_MPO', got[0], stored, opts)
            if len(got) > 1 and (case.obs['herm'] or not explicit):
                # classification only: the old bond between the last two groups is empty
                empty_bond = (not case.infinite) and N >= 4 and M.H_bond[N - 2 if N % 2 == 0 else N - 1] is None
                compare(ctx, case, 'group_sites.H_bond', got[1], represented, opts, extra=dict(empty_bond_between_last_groups=empty_bond))
    # enlarge_mps_unit_cell(2): same operator on the same window
    if case.infinite and cells % 2 == 0:
        def enlarged():
            M2 = M.copy()
            M2.lat = M.lat.copy()
            M2.enlarge_mps_unit_cell(2)
            return hm.dense_from_mpo(M2.H_MPO, cells // 2)
        rep('enlarge_mps_unit_cell', enlarged, stored)
    # extract_segment(first ring dropped): the terms inside the segment
    seg = case.obs['seg']
    if seg['n'] > 0 and not explicit:
        def segment():
            NWn = N * cells
            M2 = M.extract_segment(case.cfg['Ly'] * len(case.cfg['uc']), NWn - 1)
            H2 = M2.H_MPO
            n = H2.L
            T = None
            dims = []
            vL, vR = H2.get_IdL(0), H2.get_IdR(n - 1)
            for i in range(n):
                W = H2.get_W(i).itranspose(['wL', 'wR', 'p', 'p*']).to_ndarray()
                perm = hm.unperm(H2.sites[i])
                W = W[:, :, perm, :][:, :, :, perm]
                dims.append(W.shape[2])
                if T is None:
                    T = np.moveaxis(W[vL], 0, -1)
                else:
                    T = np.moveaxis(np.tensordot(T, W, axes=(-1, 0)), -3, -1)
            T = T[..., vR]
            order = list(range(0, 2 * n, 2)) + list(range(1, 2 * n, 2))
            D = int(np.prod(dims))
            return np.transpose(T, order).reshape(D, D).astype(complex)
        rep('extract_segment', segment, hm.dense_of_sparse(seg) * case.scale)


def combos_for(ctx, case, key, full=False):
    """Representation options to try for a case: always the plain one, plus seeded others."""
    base = dict(explicit=False, conserve=None, sort=False)
    # a third of the variants with all strengths scaled by 2^-12 (couplings below the cutoffs some exporters know)
    others = [dict(explicit=e, conserve=c, sort=s, ints=(_h(key, e, c, s) % 4 == 0),
                   scale=(2.0 ** -12 if _h(key, e, c, s, 'scale') % 3 == 0 else 1.0)) for e in (False, True)
              for c in [None] + conserve_options(case, e) for s in (False, True)]
    others = [o for o in others if (o['explicit'], o['conserve'], o['sort']) != (False, None, False)]
    if full:
        return [base] + others
    k = _h(ctx.seed, key)
    return [base, others[k % len(others)]]


def replay_hist(ctx, cfg, hist, key, only_last=False, full=False):
    decls = [st['l']['d'] for st in hist]
    steps = [len(hist)] if only_last else range(1, len(hist) + 1)
    for n in steps:
        case = Case(cfg, decls[:n], hist[n - 1]['o'])
        for j, combo in enumerate(combos_for(ctx, case, (key, n), full=full)):
            M = replay_case(ctx, case, combo)
            if M is not None and (j == 0 or full or _h(ctx.seed, key, n, 'opt') % 3 == 0):
                replay_options(ctx, case, M, combo)


# ------------------------------------------------------------------------------------------------
# TRACE: the real MPOGraph, judged by TLC
# ------------------------------------------------------------------------------------------------
def printed_value_at(txt, i):
    """Parse the TLA+ value starting with '<<' at position i; returns (value, end position)."""
    depth, k = 0, i
    while k < len(txt):
        if txt.startswith('<<', k):
            depth += 1
            k += 2
        elif txt.startswith('>>', k):
            depth -= 1
            k += 2
            if depth == 0:
                return tlaval.parse_value(txt[i:k]), k
        else:
            k += 1
    raise core.MachineryError('unbalanced value printed by TLC')


def plain(v):
    """Declaration / configuration records as plain Python data (for tla_lit and json)."""
    if isinstance(v, dict):
        return {str(k): plain(x) for k, x in v.items()}
    if isinstance(v, (list, tuple)):
        return [plain(x) for x in v]
    if isinstance(v, (bool, np.bool_)):
        return bool(v)
    if isinstance(v, (int, np.integer)):
        return int(v)
    return str(v) if isinstance(v, tlaval.MV) else v


def spec_obs(items):
    """Ask TLC for the observable state (module ModelDecl: H, G2, bonds, conservation, segment) of arbitrary
    (cfg, declaration list) pairs: a generated module EXTENDS ModelDecl and prints Obs for each pair."""
    d = tlc.scratch('c10obs')
    try:
        lines = ['---- MODULE C10Obs ----', 'EXTENDS ModelDecl']
        for n, (cfg, decls) in enumerate(items):
            lines.append('Cfg%d == %s' % (n, tlc.tla_lit(plain(cfg))))
            lines.append('Decls%d == %s' % (n, tlc.tla_lit(plain(decls))))
        zero = 'MZero(Size(DimsOf(TypesOf(c))), Size(DimsOf(TypesOf(c))))'
        lines += [
            'RECURSIVE SumH(_, _, _)',
            'SumH(c, ds, n) == IF n = 0 THEN %s ELSE EvalMat(MAdd(SumH(c, ds, n - 1), DeclOp(c, ds[n])))' % zero,
            'RECURSIVE SumG(_, _, _)',
            'SumG(c, ds, n) == IF n = 0 THEN %s ELSE EvalMat(MAdd(SumG(c, ds, n - 1), DeclStored2(c, ds[n])))' % zero,
            'ConsOf(c, ds) == [w \\in {"Sz", "N", "parity"} |-> \\A n \\in 1..Len(ds) : '
            '\\A k \\in 1..Len(BaseTerms(c, ds[n])) : TermConserves(TypesOf(c), BaseTerms(c, ds[n])[k], w)]',
            'ObsOf(c, ds) == Obs(c, ds, SumH(c, ds, Len(ds)), SumG(c, ds, Len(ds)), ConsOf(c, ds))',
        ]
        for n in range(len(items)):
            lines.append('ASSUME PrintT(<<"OBS", %d, ObsOf(Cfg%d, Decls%d)>>)' % (n, n, n))
        lines.append('====')
        mod = os.path.join(d, 'C10Obs.tla')
        with open(mod, 'w') as f:
            f.write('\n'.join(lines) + '\n')
        cfgp = tlc.write_cfg(os.path.join(d, 'C10Obs.cfg'), spec='Spec',
                             constants=dict(Lattices='<-LatticesOne', MaxDecl=0, Profile='mc'))
        res = tlc.run(mod, cfgp, workers=1, timeout=min(900, TLC_TIMEOUT))
        tlc.require_clean(res, 'C10Obs')
        out = {}
        txt = res.stdout
        pos = 0
        while True:
            i = txt.find('"OBS"', pos)
            if i < 0:
                break
            v, pos = printed_value_at(txt, txt.rfind('<<', 0, i))
            out[v[1]] = v[2]
        if len(out) != len(items):
            raise core.MachineryError('C10Obs: %d of %d observations\n%s' % (len(out), len(items), txt[-1500:]))
        return [out[n] for n in range(len(items))], res
    finally:
        shutil.rmtree(d, ignore_errors=True)


def printed_value(txt, tag):
    """The TLA+ value TLC printed with PrintT(<<tag, ...>>), possibly spread over several lines."""
    i = txt.find('"%s"' % tag)
    i = txt.rfind('<<', 0, i) if i >= 0 else -1
    if i < 0:
        return None
    depth, k = 0, i
    while k < len(txt):
        if txt.startswith('<<', k):
            depth += 1
            k += 2
        elif txt.startswith('>>', k):
            depth -= 1
            k += 2
            if depth == 0:
                return tlaval.parse_value(txt[i:k])
        else:
            k += 1
    return None


# operator names outside the tables of the spec that are multiples of tabulated ones
OPMAP = {'Sz': ('Sigmaz', 0.5), 'Sx': ('Sigmax', 0.5), 'Sy': ('Sigmay', 0.5)}


def dyadic(x):
    """float/complex -> (re, im, k) with x = (re + i im) / 2^k exactly."""
    z = complex(x)
    for k in range(0, 40):
        re, im = z.real * 2 ** k, z.imag * 2 ** k
        if re == int(re) and im == int(im):
            return int(re), int(im), k
    raise core.MachineryError('strength %r is not a dyadic rational' % (x,))


def keystr(key):
    return key if isinstance(key, str) else repr(tuple(int(x) if isinstance(x, (int, np.integer)) else x for x in key))


class GraphCapture:
    """Interposition on MPOGraph.build_MPO: records the graph object the code builds its MPO from."""

    def __enter__(self):
        from tenpy.networks import mpo
        if not hasattr(mpo.MPOGraph, 'build_MPO'):
            raise core.MachineryError('interposition point MPOGraph.build_MPO missing')
        self.mpo = mpo
        self.orig = mpo.MPOGraph.build_MPO
        self.graphs = []
        cap = self

        def build_MPO(self_, *a, **kw):
            cap.graphs.append(self_)
            return cap.orig(self_, *a, **kw)
        mpo.MPOGraph.build_MPO = build_MPO
        return self

    def __exit__(self, *exc):
        self.mpo.MPOGraph.build_MPO = self.orig


def graph_case(G, cfg, decls, explicit, ident):
    L = G.L
    cells = cfg['cells'] if cfg['mps'] == 'infinite' else 1
    edges = []
    for i in range(L):
        es = []
        for keyL, d in G.graph[i].items():
            for keyR, lst in d.items():
                for opname, strength in lst:
                    names = []
                    for nm in opname.split():
                        nm2, f = OPMAP.get(nm, (nm, 1.0))   # Sz = Sigmaz / 2 etc. (checked in the SITES stage)
                        strength = strength * f
                        if nm2 != 'Id':
                            names.append(nm2)
                    re, im, k = dyadic(strength)
                    es.append(dict(l=keystr(keyL), r=keystr(keyR), ops=names, s=[re, im, k]))
        edges.append(es)
    # scale: the largest exponent any path through the window can accumulate (longest-path DP over the bonds)
    best = {'IdL': (0, 1.0)}
    for n in range(L * cells):
        nxt = {}
        for e in edges[n % L]:
            if e['l'] in best:
                k0, m0 = best[e['l']]
                cand = (k0 + e['s'][2], m0 * max(1.0, abs(complex(e['s'][0], e['s'][1]))))
                old = nxt.get(e['r'], (0, 0.0))
                nxt[e['r']] = (max(old[0], cand[0]), max(old[1], cand[1]))
        best = nxt
    K = max(best.get('IdR', (0, 1.0))[0], 1 if explicit else 0)
    if best.get('IdR', (0, 1.0))[1] * 2 ** K >= 2 ** 28:
        return None  # would overflow TLC's 32-bit integers: not submitted
    return dict(id=ident, cfg=tlaval.to_jsonable(cfg), decls=tlaval.to_jsonable(decls), explicit=bool(explicit), K=int(K), L=int(L),
                edges=edges)


def run_trace(ctx, items, name, corrupt=False):
    """items: list of (cfg, decls, explicit, conserve).  Builds each real model, captures its MPOGraph, and lets TLC
    (spec/TraceMPOGraph.tla) enumerate all accepted paths and compare with the declarations."""
    cases = []
    meta = {}
    with GraphCapture() as cap:
        for n, item in enumerate(items):
            cfg, decls, explicit, conserve = item[:4]
            del cap.graphs[:]
            try:
                if len(item) > 4:
                    item[4]()  # predefined model: builder closure
                else:
                    hm.build_model(cfg, decls, explicit_plus_hc=explicit, conserve=conserve)
            except core.MachineryError:
                raise
            except Exception:
                if len(item) > 4:
                    raise
                continue  # reported by the REPLAY stage
            if len(cap.graphs) != 1:
                raise core.MachineryError('expected exactly one MPOGraph per model, got %d' % len(cap.graphs))
            gc = graph_case(cap.graphs[0], cfg, decls, explicit, n)
            if gc is not None and corrupt:
                e = [e_ for es in gc['edges'] for e_ in es if e_['l'] != e_['r']][0]
                e['s'][0] += 1  # canary: one strength of the real graph is changed
            if gc is not None:
                cases.append(gc)
                meta[n] = (cfg, decls, explicit, conserve if len(item) == 4 else item[5])
    if not cases:
        raise core.MachineryError('no MPO graph captured')
    d = tlc.scratch('c10trace')
    try:
        path = os.path.join(d, 'graphs.json')
        with open(path, 'w') as f:
            json.dump(cases, f)
        cfgp = tlc.write_cfg(os.path.join(d, 'TraceMPOGraph.cfg'), spec='TraceSpec', invariants=['Done'])
        res = tlc.run(os.path.join(tlc.SPEC_DIR, 'TraceMPOGraph.tla'), cfgp, workers=1, env=dict(TRACE_FILE=path), timeout=min(900, TLC_TIMEOUT))
        tlc.require_clean(res, 'TraceMPOGraph')
        verdict = printed_value(res.stdout, 'TRACE-VERDICT')
        if verdict is None or verdict[1] != len(cases) or res.violated:
            raise core.MachineryError('TraceMPOGraph gave no verdict:\n' + res.stdout[-1500:])
        ctx.add_mc(name, res)
        rejected = {r['id']: r for r in verdict[2]}
        for c in cases:
            cfg, decls, explicit, conserve = meta[c['id']]
            ctx.case(('c10trace', cfg, decls, explicit, conserve), action='C10.TraceMPOGraph')
            if c['id'] in rejected:
                ctx.violation(dict(kind='trace', spec='TraceMPOGraph', rep='MPOGraph', explicit=explicit, conserve=str(conserve),
                                   last=decl_class(decls[-1]), **cfg_class(cfg)),
                              dict(cfg=tlaval.to_jsonable(cfg), decls=tlaval.to_jsonable(decls), graph=c,
                                   npaths=rejected[c['id']]['npaths']))
        ctx.trace_ok(len(cases) - len(rejected))
        if cases:
            c = cases[min(3, len(cases) - 1)]
            ctx.sample(dict(spec='TraceMPOGraph', cfg=c['cfg'], decls=c['decls'], edges_site0=c['edges'][0][:6]))
    finally:
        shutil.rmtree(d, ignore_errors=True)


# ------------------------------------------------------------------------------------------------
# predefined models: their add_* calls are recorded by interposition and become the declarations of the spec
# ------------------------------------------------------------------------------------------------
class DeclRecorder:
    """Wraps CouplingModel.add_onsite / add_coupling / add_multi_coupling / add_exponentially_decaying_coupling /
    add_local_term (outermost calls only) and converts the arguments into declaration records of the spec."""
    NAMES = ('add_onsite', 'add_coupling', 'add_multi_coupling', 'add_exponentially_decaying_coupling', 'add_local_term',
             'add_onsite_term', 'add_coupling_term', 'add_multi_coupling_term', 'add_exponentially_decaying_centered_terms')

    def __enter__(self):
        from tenpy.models import model as tm
        self.tm = tm
        self.calls = []
        self.depth = 0
        self.orig = {}
        rec = self
        for cls in (tm.CouplingModel, tm.CouplingMPOModel):
            for name in self.NAMES:
                if name not in cls.__dict__:
                    if cls is tm.CouplingModel:
                        raise core.MachineryError('interposition point CouplingModel.%s missing' % name)
                    continue
                f = cls.__dict__[name]
                self.orig[(cls, name)] = f

                def make(f, name):
                    def wrapper(self_, *a, **kw):
                        if rec.depth == 0:
                            rec.calls.append((name, a, kw))
                        rec.depth += 1
                        try:
                            return f(self_, *a, **kw)
                        finally:
                            rec.depth -= 1
                    return wrapper
                setattr(cls, name, make(f, name))
        return self

    def __exit__(self, *exc):
        for (cls, name), f in self.orig.items():
            setattr(cls, name, f)


def _gauss(x):
    z = complex(x)
    if z.real != int(z.real) or z.imag != int(z.imag):
        raise core.MachineryError('recorded strength %r is not a Gaussian integer: choose other model parameters' % (x,))
    return [int(z.real), int(z.imag)]


def _strength_record(strength, factor, dim):
    arr = np.asarray(strength) * factor
    if arr.ndim == 0:
        return dict(shape=[1, 1], vals=[_gauss(arr)])
    if arr.ndim == 1:
        arr = arr.reshape(-1, 1)
    return dict(shape=[int(arr.shape[0]), int(arr.shape[1])], vals=[_gauss(v) for v in arr.reshape(-1)])


def _opname(op):
    return OPMAP.get(op, (op, 1.0))


def decls_from_calls(calls, dim):
    """Recorded add_* calls -> declarations (None if a call is outside the alphabet of the spec)."""
    import inspect
    from tenpy.models.model import CouplingModel
    out = []
    for name, a, kw in calls:
        sig = inspect.signature(getattr(CouplingModel, name))
        ba = sig.bind(None, *a, **kw)
        ba.apply_defaults()
        ar = ba.arguments
        if not np.any(np.asarray(ar['strength']) != 0):
            continue
        if name == 'add_onsite':
            op, f = _opname(ar['opname'])
            out.append(dict(kind='onsite', s=_strength_record(ar['strength'], f, dim), u=int(ar['u']), op=op, hc=bool(ar['plus_hc'])))
        elif name == 'add_coupling':
            o1, f1 = _opname(ar['op1'])
            o2, f2 = _opname(ar['op2'])
            dx = [int(x) for x in np.atleast_1d(ar['dx'])] + [0] * (2 - len(np.atleast_1d(ar['dx'])))
            if ar['op_string'] is not None:
                return None
            out.append(dict(kind='coupling', s=_strength_record(ar['strength'], f1 * f2, dim),
                            ops=[[o1, [0, 0], int(ar['u1'])], [o2, dx, int(ar['u2'])]], str='auto', hc=bool(ar['plus_hc'])))
        elif name == 'add_multi_coupling':
            ops, f = [], 1.0
            for opn, dx, u in ar['ops']:
                o, ff = _opname(opn)
                f *= ff
                dxl = [int(x) for x in np.atleast_1d(dx)]
                ops.append([o, dxl + [0] * (2 - len(dxl)), int(u)])
            if ar['op_string'] is not None:
                return None
            out.append(dict(kind='multi', s=_strength_record(ar['strength'], f, dim), ops=ops, str='auto', hc=bool(ar['plus_hc'])))
        else:
            return None
    return out


def predefined_items(ctx):
    """(cfg, decls, explicit, conserve, builder, label) for a grid of predefined models / parameters / options."""
    from tenpy.models.tf_ising import TFIChain, TFIModel
    from tenpy.models.xxz_chain import XXZChain2
    from tenpy.models.spins import SpinChain
    from tenpy.models.fermions_spinless import FermionChain, FermionModel
    from tenpy.models.hubbard import BoseHubbardChain
    grid = []

    def chain(L, bc_MPS, t):
        return dict(name='Chain', Lx=L, Ly=1, bcx='open' if bc_MPS == 'finite' else 'periodic', bcy='open', mps=bc_MPS, uc=[t],
                    cells=1 if bc_MPS == 'finite' else 2, shift=0)
    for bc_MPS, L in (('finite', 3), ('finite', 4), ('infinite', 2)):
        for expl in (False, True):
            for cons in (None, 'parity'):
                grid.append((TFIChain, dict(L=L, J=2., g=[1., 3.] if L % 2 == 0 else 3., bc_MPS=bc_MPS, conserve=cons,
                                            explicit_plus_hc=expl), chain(L, bc_MPS, 'spin'), cons))
            for cons in (None, 'Sz', 'parity'):
                grid.append((XXZChain2, dict(L=L, Jxx=2., Jz=8., hz=4., bc_MPS=bc_MPS, conserve=cons, explicit_plus_hc=expl),
                             chain(L, bc_MPS, 'spin'), cons))
            grid.append((SpinChain, dict(L=L, S=0.5, Jx=6., Jy=2., Jz=4., hx=2., hy=4., hz=2., bc_MPS=bc_MPS, conserve=None,
                                         explicit_plus_hc=expl), chain(L, bc_MPS, 'spin'), None))
            grid.append((SpinChain, dict(L=L, S=0.5, Jx=4., Jy=4., Jz=-8., hz=6., bc_MPS=bc_MPS, conserve='Sz',
                                         explicit_plus_hc=expl), chain(L, bc_MPS, 'spin'), 'Sz'))
            for cons in (None, 'N', 'parity'):
                grid.append((FermionChain, dict(L=L, J=1., V=2., mu=3., bc_MPS=bc_MPS, conserve=cons, explicit_plus_hc=expl),
                             chain(L, bc_MPS, 'fermion'), cons))
                grid.append((BoseHubbardChain, dict(L=L, n_max=1, t=2., U=4., V=1., mu=1., bc_MPS=bc_MPS, conserve=cons,
                                                    explicit_plus_hc=expl), chain(L, bc_MPS, 'boson1'), cons))
    for bcy in ('cylinder', 'ladder'):
        sq = dict(name='Square', Lx=2, Ly=2, bcx='open', bcy='periodic' if bcy == 'cylinder' else 'open', mps='finite', cells=1, shift=0)
        grid.append((TFIModel, dict(lattice='Square', Lx=2, Ly=2, bc_y=bcy, bc_MPS='finite', J=1., g=2., conserve=None),
                     dict(sq, uc=['spin']), None))
        grid.append((FermionModel, dict(lattice='Square', Lx=2, Ly=2, bc_y=bcy, bc_MPS='finite', J=1., V=1., mu=2., conserve='N'),
                     dict(sq, uc=['fermion']), 'N'))
    items = []
    for cls, params, cfg, cons in grid:
        with DeclRecorder() as rec:
            with warnings.catch_warnings():
                warnings.simplefilter('ignore')
                cls(dict(params))
        decls = decls_from_calls(rec.calls, hm.lat_dim(cfg))
        if decls is None or not decls:
            raise core.MachineryError('could not translate the add_* calls of %s' % cls.__name__)
        expl = bool(params.get('explicit_plus_hc', False))

        def builder(cls=cls, params=params):
            with warnings.catch_warnings():
                warnings.simplefilter('ignore')
                return cls(dict(params))
        items.append((cfg, decls, expl, cons, builder, '%s(%s)' % (cls.__name__, cons)))
    return items


# ------------------------------------------------------------------------------------------------
def run_site_tables(ctx):
    """The operator tables the specification is built on, evaluated by TLC, against the real Site classes."""
    d = tlc.scratch('c10tables')
    try:
        mod = os.path.join(d, 'C10Tables.tla')
        with open(mod, 'w') as f:
            f.write('---- MODULE C10Tables ----\nEXTENDS ModelTerms\nVARIABLE x\nInit == x = 0\nNext == x < 1 /\\ x\' = x + 1\n'
                    'Names(t) == DOMAIN LocalTable[t]\n'
                    'Meta == [t \\in DOMAIN LocalTable |-> [n \\in Names(t) |-> <<HcName(n), NeedsJW(t, n), JWDiag(t)>>]]\n'
                    'Inv == x = 1 => PrintT(<<"TABLES", LocalTable, Meta>>)\n====\n')
        cfgp = tlc.write_cfg(os.path.join(d, 'C10Tables.cfg'), invariants=['Inv'])
        res = tlc.run(mod, cfgp, workers=1, timeout=min(300, TLC_TIMEOUT))
        tlc.require_clean(res, 'C10Tables')
        val = printed_value(res.stdout, 'TABLES')
        if val is None:
            raise core.MachineryError('could not read the operator tables from TLC')
        ctx.add_mc('C10Tables', res)
        tables, meta = val[1], val[2]
        spin = hm.make_site('spin', None)
        for nm, (nm2, f) in OPMAP.items():
            ctx.case(('c10table', 'opmap', nm), action='C10.site-table')
            if not np.array_equal(spin.get_op(nm).to_ndarray(), f * spin.get_op(nm2).to_ndarray()):
                ctx.violation(dict(kind='table', spec='ModelTerms', site='spin', op=nm), dict(op=nm, expected='%s * %s' % (f, nm2)))
        for t in hm.SITE_TYPES:
            site = hm.make_site(t, None)
            for name, tab in tables[t].items():
                dim = len(tab)
                A = np.zeros((dim, dim), dtype=complex)
                for s_, (to, c) in enumerate(tab):
                    A[to, s_] += complex(c[0], c[1])
                got = site.get_op(name).to_ndarray().astype(complex)
                hc, needs, jwd = meta[t][name]
                ok = np.allclose(got, A, atol=0, rtol=0) and site.get_hc_op_name(name) == hc \
                    and (name in ('Id', 'JW') or bool(site.op_needs_JW(name)) == bool(needs)) \
                    and np.array_equal(np.diag(site.get_op('JW').to_ndarray()).real, np.array(jwd, dtype=float))
                ctx.case(('c10table', t, name), action='C10.site-table')
                if not ok:
                    ctx.violation(dict(kind='table', spec='ModelTerms', site=t, op=name),
                                  dict(site=t, op=name, spec=A.tolist().__repr__(), impl=got.tolist().__repr__(),
                                       hc=(hc, site.get_hc_op_name(name)), needs_JW=(needs, site.op_needs_JW(name))))
    finally:
        shutil.rmtree(d, ignore_errors=True)


def run_replay_mc(ctx, lattices, maxdecl, name, trace_items, stride=1, profile='mc', need_all_actions=True, trace_all=False,
                  invariants=INVARIANTS):
    res, dump, d = tlc.mc('MPOGraph', decl_cfg(lattices, maxdecl, profile, invariants=invariants), dump=True, workers=WORKERS,
                          timeout=TLC_TIMEOUT, env=JVM_ENV)
    ctx.add_mc(name, res)
    if res.violated:
        ctx.violation(dict(kind='mc', spec='ModelDecl', invariant=res.violated[0]),
                      dict(trace=tlaval.to_jsonable(res.error_trace)[-3:]))
    missing = [a for a in ('Setup', 'PropOnsite', 'PropCoupling', 'PropCouplingStr', 'PropMulti', 'PropExpDecay', 'PropExpCenter', 'PropLocal', 'Commit')
               if res.coverage.get(a, (0, 0))[0] == 0]
    if missing and need_all_actions:
        raise core.MachineryError('actions never taken in the MC run (vacuous): %r' % missing)
    n = 0
    nrep = 0
    for st in tlaval.iter_dump(dump):
        if st['hist'] and st['pend']['kind'] == 'none':
            n += 1
            if (n + ctx.seed) % stride:
                continue
            nrep += 1
            replay_hist(ctx, st['cfg'], st['hist'], ('mc', n), only_last=True)
            decls = [x['l']['d'] for x in st['hist']]
            if trace_all or _h(ctx.seed, 'tr', n) % 4 == 0:
                trace_items.append((st['cfg'], decls, bool(_h(ctx.seed, 'tre', n) % 2), None))
            if nrep in (5, 60):
                ctx.sample(dict(spec='ModelDecl', cfg=tlaval.to_jsonable(st['cfg']), decls=tlaval.to_jsonable(decls),
                                H_nonzeros=tlaval.to_jsonable(st['hist'][-1]['o']['H']['e'][:12])))
    ctx.trace_ok(nrep)
    shutil.rmtree(d, ignore_errors=True)


def run_replay_sim(ctx, lattices, maxdecl, num, trace_items):
    per_worker = max(1, num // 4)
    res, traces, d = tlc.simulate('MPOGraph', decl_cfg(lattices, maxdecl, 'sim', invariants=[]), num=per_worker,
                                  depth=2 * maxdecl + 2, seed=ctx.seed + 10, workers=4, timeout=TLC_TIMEOUT, env=JVM_ENV)
    shutil.rmtree(d, ignore_errors=True)
    n = 0
    for j, tr in enumerate(traces):
        st = tr[-1][1]
        if not st['hist']:
            continue
        n += 1
        replay_hist(ctx, st['cfg'], st['hist'], ('sim', j))
        decls = [x['l']['d'] for x in st['hist']]
        cons = conserve_options(Case(st['cfg'], decls, st['hist'][-1]['o']), False)
        trace_items.append((st['cfg'], decls, bool(j % 2), cons[j % len(cons)] if cons and j % 3 == 0 else None))
        if n == 3:
            ctx.sample(dict(spec='ModelDecl(sim)', cfg=tlaval.to_jsonable(st['cfg']), decls=tlaval.to_jsonable(decls)))
    if n == 0:
        raise core.MachineryError('simulation produced no behaviour')
    ctx.trace_ok(n)


def run_canary(ctx, trace_items):
    """The binding rejects wrong data: (a) a corrupted predicted matrix, (b) a corrupted edge of a real MPO graph."""
    cfg = dict(name='Chain', Lx=3, Ly=1, bcx='open', bcy='open', mps='finite', uc=['spin'], cells=1, shift=0)
    decls = [dict(kind='coupling', s=dict(shape=[1, 1], vals=[[1, 0]]), ops=[['Sp', [0, 0], 0], ['Sm', [1, 0], 0]], str='auto', hc=True)]
    M = hm.build_model(cfg, decls)
    good = hm.dense_from_mpo(M.H_MPO)
    bad = good.copy()
    bad[2, 4] += 1
    sub = core.Ctx('C10-canary', tier=ctx.tier, seed=ctx.seed)
    sub.known = []
    import io
    import contextlib
    with contextlib.redirect_stdout(io.StringIO()):
        case = Case(cfg, decls, dict(H=dict(n=8, e=[]), G2=dict(n=8, e=[]), cons={}, nn=False, bonds=[], herm=True, seg=dict(n=0, e=[])))
        case.H = bad
        compare(sub, case, 'H_MPO', good, case.H, dict(explicit=False, conserve=None))
        items = [(cfg, decls, False, None)]
        run_trace(sub, items, 'canary-graph', corrupt=True)
    for v in sub.violations:
        try:
            os.remove(v['path'])
        except OSError:
            pass
    kinds = sorted({v['signature']['kind'] for v in sub.violations})
    ctx.notes['canary'] = dict(rejected=kinds)
    if kinds != ['replay', 'trace']:
        raise core.MachineryError('canary: corrupted data was not rejected (%r)' % (kinds,))


def run_predefined_sanity(ctx, items):
    """MPO.test_sanity() of predefined models, including charge structures outside the tables of the spec
    (dipole conservation: charges shifted from unit cell to unit cell) with and without sort_mpo_legs."""
    from tenpy.models.spins import DipolarSpinChain
    todo = [(it[5], it[0]['mps'], False, it[4]) for it in items[::4]]
    for bc in ('finite', 'infinite'):
        for L in (2, 3):
            for sml in (False, True):
                params = dict(L=L if bc == 'infinite' else 6, S=1, J3=1., J4=.5, bc_MPS=bc, sort_charge=True, sort_mpo_legs=sml)
                todo.append(('DipolarSpinChain', bc, sml, lambda params=params: DipolarSpinChain(dict(params))))
    for label, bc, sml, builder in todo:
        ctx.case(('c10sanity', label, bc, sml), action='C10.test_sanity')
        try:
            with warnings.catch_warnings():
                warnings.simplefilter('ignore')
                M = builder()
                M.H_MPO.test_sanity()
        except Exception as e:
            ctx.violation(dict(kind='sanity', spec='ModelDecl', rep='H_MPO.test_sanity', model=label.split('(')[0], sort_mpo_legs=bool(sml),
                               mps=bc, error=type(e).__name__), dict(model=label, bc_MPS=bc, sort_mpo_legs=sml, error=repr(e)[:400]))


def run_predefined_replay(ctx, items):
    """Predefined models: the declarations recorded from their add_* calls are evaluated by TLC (spec_obs) and every
    representation of the real model instance is compared with that exact operator."""
    obs, res = spec_obs([(it[0], it[1]) for it in items])
    ctx.add_mc('C10Obs-predefined', res)
    for it, o in zip(items, obs):
        cfg, decls, explicit, conserve, builder, label = it
        case = Case(cfg, decls, o)
        if not np.any(case.expected(explicit, True)):
            continue
        M = builder()
        replay_case(ctx, case, dict(explicit=explicit, conserve=conserve, sort=False, model=label), model=M)
    ctx.trace_ok(len(items))


def run_replay_file(ctx, path):
    """./check C10 --replay FILE: re-execute the recorded case (the expected operator is recomputed by TLC)."""
    with open(path) as f:
        rec = json.load(f)
    det = rec['detail']
    if 'cfg' not in det or 'decls' not in det:
        raise core.MachineryError('replay file has no (cfg, decls)')
    det['cfg'].setdefault('shift', 0)
    obs, res = spec_obs([(det['cfg'], det['decls'])])
    ctx.add_mc('C10Obs-replay', res)
    case = Case(det['cfg'], det['decls'], obs[0])
    opts = det.get('opts') or {}
    combo = dict(explicit=bool(opts.get('explicit', False)), conserve=opts.get('conserve'), sort=bool(opts.get('sort', False)))
    M = replay_case(ctx, case, combo)
    if M is not None:
        replay_options(ctx, case, M, combo)
    ctx.trace_ok(1)
    ctx.sample(dict(replayed=path, cfg=det['cfg'], decls=det['decls'], opts=combo))
    print('replayed %s: %d comparisons' % (path, ctx.evaluations))


def check(ctx):
    _install_reaper()
    quick = ctx.tier == 'quick'
    if getattr(ctx, 'replay_file', None):
        ctx.rule = 're-execution of one recorded case'
        run_replay_file(ctx, ctx.replay_file)
        return
    ctx.rule = ('a case = one (lattice configuration, declaration list prefix, representation, option combination) whose '
                'dense projection is compared with the exact matrix computed by TLC, or one real MPO graph judged by TLC; '
                'distinct = distinct such tuples')
    ctx.assume('TLC model checker', 'projection functions in harness/models.py (kron of site operators, contraction of W tensors)',
               'specification modules Exact, Dense, ModelTerms, ModelDecl, TraceMPOGraph',
               'models whose stored terms cancel completely (H = 0) are not built (tenpy refuses to build an empty MPO)',
               'infinite systems are compared on a finite window (all translated terms that fit), as ExactDiag.from_infinite_model documents')
    only = ctx.only
    trace_items = []
    if not only or 'tables' in only:
        run_site_tables(ctx)
    if not only or 'mc' in only:
        run_replay_mc(ctx, 'LatticesMC', 1, 'ModelDecl-mc', trace_items, stride=3 if quick else 1)
        if not quick:
            run_replay_mc(ctx, 'LatticesOne', 2, 'ModelDecl-mc-depth2', trace_items, stride=3, need_all_actions=False)
    if not only or 'long' in only:
        # long multi-site couplings on infinite chains with a one/two-site unit cell (strings that start outside the
        # first unit cell and wrap around it); every one of these models also goes to the TRACE stage
        long_items = []
        run_replay_mc(ctx, 'LatticesLong1' if quick else 'LatticesLong', 1, 'ModelDecl-long', long_items, stride=1, profile='long',
                      need_all_actions=False,
                      trace_all=True, invariants=['TermViewEqualsOpView', 'StoredHalf', 'GraphSemantics'])
        if not long_items:
            raise core.MachineryError('no long multi-site coupling was generated')
        trace_items.extend(long_items)
    if not only or 'sim' in only:
        run_replay_sim(ctx, 'LatticesQuick' if quick else 'LatticesFull', 3, 70 if quick else 2400, trace_items)
    if not only or 'trace' in only:
        if not trace_items:
            raise core.MachineryError('no models for the TRACE stage')
        run_trace(ctx, trace_items, 'TraceMPOGraph')
    if not only or 'predefined' in only:
        pre = predefined_items(ctx)
        run_trace(ctx, pre, 'TraceMPOGraph-predefined')
        run_predefined_replay(ctx, pre)
        run_predefined_sanity(ctx, pre)
    if not only or 'canary' in only:
        run_canary(ctx, trace_items)
    ctx.exhaustive = False


if __name__ == '__main__':
    core.main_wrapper('C10', check)
