"""Growth beyond the listed properties: the environment bookkeeping of tenpy.networks.mps.MPSEnvironment and
tenpy.networks.mpo.MPOEnvironment (get/set/del/has LP and RP, ages, clear, init_first_LP_last_RP with start_env_sites,
get_initialization_data, full_contraction, expectation_value, the DictCache behind it) against spec/Env.tla.

TLC computes every tensor itself on small exact instances (Gaussian-integer Vidal tensors, singular values 1 / 2,
integer operator grids); the behaviours of the exhaustive runs (state cover, VIEW hides the history) and of -simulate
are stepped through the real classes, after every step: returned tensors / numbers, the set of stored parts, their
ages, their values and the keys of the cache are compared exactly.

Run: ./check X_env --tier quick|thorough.  Not registered in MANIFEST.json (the property list is fixed); DESIGN 14.7."""
import concurrent.futures as cf
import hashlib
import multiprocessing
import random
import re
import shutil
import time

from harness import core, tlc, tlaval, envs

INV = ['AgeRule', 'ValueFresh', 'ResultFresh', 'DisciplineFresh', 'FullIndependent', 'NoOverflow']
PROP = ['StoreFlag', 'BoundaryKept']
ACTION_OF = dict(get_LP='DoGetLP', get_RP='DoGetRP', set_LP='DoSetLP', set_RP='DoSetRP', del_LP='DoDelLP', del_RP='DoDelRP',
                 clear='DoClear', modify='DoModify', reinit='DoReinit', init_data='DoInitData', rebuild='DoRebuild',
                 full_contraction='DoFull', expectation_value='DoExpVal', cache_optimize='DoCacheOpt')
CACHE_MODES = ['none', 'trivial', 'none', 'trivial', 'pickle']


def mk_cfg(Ls, finites, kinds, shareds, s0s=(0,), tabs=('gen',), maxops=2, maxver=1, maxage=6, withinst=False):
    return dict(spec='Spec',
                constants=dict(Ls=set(Ls), Finites=set(finites), Kinds=set(kinds), Shareds=set(shareds), S0s=set(s0s),
                               Tabs=set(tabs), MaxOps=maxops, MaxVer=maxver, MaxAge=maxage, WithInst=withinst),
                invariants=INV, properties=PROP, view='AbsView')


_RE_HDR = re.compile(r'^State \d+:.*$', re.M)
_RE_LAST = re.compile(r'/\\ last = (.*?)(?=\n/\\ |\Z)', re.S)
_RE_OP = re.compile(r'\bop \|-> "(\w+)"')


def dump_states(path):
    """[(op of `last`, text of the hist conjunct)] for every dumped state (cheap: no full parse)"""
    with open(path) as f:
        txt = f.read()
    ms = list(_RE_HDR.finditer(txt))
    out = []
    for j, m in enumerate(ms):
        chunk = txt[m.end():ms[j + 1].start() if j + 1 < len(ms) else len(txt)]
        lm = _RE_LAST.search(chunk)
        om = _RE_OP.search(lm.group(1)) if lm else None
        if not om:
            raise core.MachineryError('cannot find `last` in a dumped state of Env')
        a = chunk.index('/\\ hist = ') + len('/\\ hist = ')
        b = chunk.find('\n/\\ ', a)
        out.append((om.group(1), chunk[a:b if b >= 0 else len(chunk)]))
    return out


_INSTS = {}   # cfg key -> Instance; filled before the worker processes are forked


def _replay_task(task):
    """runs in a worker process: (hist text or parsed hist, origin, seed of the check, scratch dir, want sample)"""
    src, origin, seed0, scratch_dir, want_sample = task
    hist = tlaval.parse_value(src) if isinstance(src, str) else src
    cfg = hist[0]['l']['cfg']
    key = envs.cfg_key(cfg)
    inst = _INSTS.get(key)
    if inst is None:
        return dict(machinery='no instance for configuration %r' % (key,))
    rnd = random.Random('%d/%s' % (seed0, origin))
    mode = rnd.choice(CACHE_MODES)
    seed = rnd.randrange(1 << 30)
    h = hashlib.blake2b(repr(key).encode(), digest_size=10)
    cases = []

    def on_step(n, l):
        h.update(repr(sorted((k, repr(v)) for k, v in l.items() if k != 'inst')).encode())
        cases.append((h.hexdigest() + mode, str(l['op'])))
    t0 = time.time()
    try:
        bad = envs.replay(hist, inst, mode, seed, scratch_dir, on_step)
    except core.MachineryError as e:
        return dict(machinery=str(e))
    out = dict(cases=cases, wall=time.time() - t0, key=key, mode=mode, nsteps=len(hist))
    if bad is None:
        if want_sample and len(hist) > 2:
            out['sample'] = dict(spec='Env', cfg=tlaval.to_jsonable(cfg), cache=mode,
                                 behaviour=[{k: tlaval.to_jsonable(v) for k, v in st['l'].items() if k not in ('inst', 'val', 'valL', 'valR')}
                                            for st in hist[1:]],
                                 last_result=tlaval.to_jsonable({k: v for k, v in hist[-1]['l'].items() if k in ('val', 'age', 'res')}))
        return out
    step, op, m = bad
    exp_l = hist[step]['l']
    why = ''
    if exp_l['res'] == 'ValueError':  # the two reasons the spec knows for a ValueError
        idx = exp_l.get('i', exp_l.get('i0', 0))
        why = 'out-of-range' if cfg['finite'] and not 0 <= idx < cfg['L'] else 'no-part'
    out['violation'] = (
        dict(kind='replay', spec='Env', op=op, clause=m.clause, expected_res=str(exp_l['res']), why=why, envkind=str(cfg['kind']),
             finite=bool(cfg['finite'])),
        dict(cfg=tlaval.to_jsonable(cfg), cache_mode=mode, form_seed=seed, origin=origin, step=step,
             behaviour=tlaval.to_jsonable([{k: v for k, v in st['l'].items() if k != 'inst'} for st in hist[:step + 1]]),
             operation=tlaval.to_jsonable({k: v for k, v in exp_l.items() if k != 'inst'}),
             got=m.got, expected=m.expected,
             how='harness.envs.replay(hist, inst, cache_mode, form_seed): tensors = Instance of spec/Env.tla for cfg'))
    return out


class Replayer:
    """replays behaviours in worker processes; all accounting happens here in the parent"""

    def __init__(self, ctx, pool, scratch_dir):
        self.ctx, self.pool, self.scratch_dir = ctx, pool, scratch_dir
        self.n = 0
        self.sampled = set()
        self.wall = 0.0

    def run_many(self, items):
        """items: [(hist text | hist, origin)]"""
        ctx = self.ctx
        tasks = [(src, origin, ctx.seed, self.scratch_dir, j < 40) for j, (src, origin) in enumerate(items)]
        for r in self.pool.map(_replay_task, tasks, chunksize=8):
            if 'machinery' in r:
                raise core.MachineryError(r['machinery'])
            self.n += 1
            self.wall += r['wall']
            for key, op in r['cases']:
                ctx.case(key, action='Env.' + op)
            if 'violation' in r:
                ctx.violation(*r['violation'])
                continue
            ctx.trace_ok(1)
            if 'sample' in r and r['key'][:3] not in self.sampled:
                self.sampled.add(r['key'][:3])
                ctx.sample(r['sample'])


def fetch_instances(ctx, Ls, maxver):
    """one TLC run that only enumerates the initial states: hist[1].l.inst = every tensor of the configuration"""
    res, dump, d = tlc.mc('Env', mk_cfg(Ls, [True, False], ['mps', 'mpo'], [True, False], [0, 1, 2], ['gen', 'z2'], maxops=0,
                                        maxver=maxver, withinst=True), dump=True, workers=2, coverage=False)
    insts = {}
    for st in tlaval.iter_dump(dump):
        l = st['hist'][0]['l']
        insts[envs.cfg_key(l['cfg'])] = l['inst']
    shutil.rmtree(d, ignore_errors=True)
    if not insts:
        raise core.MachineryError('Env: no initial states')
    return insts


def canary(ctx, insts):
    """the replay must reject a behaviour with one corrupted expected number"""
    res, traces, d = tlc.simulate('Env', mk_cfg([3], [True], ['mpo'], [False], maxops=6), num=4, depth=7, seed=ctx.seed + 3, workers=1)
    shutil.rmtree(d, ignore_errors=True)
    done = 0
    for tr in traces:
        hist = tr[-1][1]['hist']
        inst = insts[envs.cfg_key(hist[0]['l']['cfg'])]
        if envs.replay(hist, inst, 'none', 1) is not None:
            continue  # (a genuine divergence is reported by the main stages)
        # corrupt the boundary part of the initial observation and, separately, a returned value
        import copy
        h2 = copy.deepcopy(hist)
        part = envs.seq(h2[0]['o']['LP'])[0]
        part['val'][0][0][0][0] += 1
        h2[0]['o']['LP'][0] = part
        if envs.replay(h2, inst, 'none', 1) is None:
            raise core.MachineryError('Env canary: corrupted stored value accepted')
        for n, st in enumerate(hist):
            if st['l']['op'] in ('get_LP', 'get_RP') and st['l']['res'] == 'ok':
                h3 = copy.deepcopy(hist)
                h3[n]['l']['val'][0][0][0][1] += 1
                bad = envs.replay(h3, inst, 'none', 1)
                if bad is None or bad[0] != n or bad[2].clause != 'returned-value':
                    raise core.MachineryError('Env canary: corrupted returned value accepted')
                done += 1
                break
        for n, st in enumerate(hist):
            if n > 0 and envs.seq(st['o']['LP']):
                h4 = copy.deepcopy(hist)
                dl = envs.seq(h4[n]['o']['LP'])
                s = sorted(dl)[0]
                if dl[s]['has']:
                    dl[s]['age'] += 1
                    h4[n]['o']['LP'] = tlaval.Fn(dl)
                    bad = envs.replay(h4, inst, 'none', 1)
                    if bad is None or bad[0] != n or bad[2].clause != 'age':
                        raise core.MachineryError('Env canary: corrupted age accepted')
                    done += 1
                    break
    ctx.notes['canary_rejections'] = done
    return done


def check(ctx):
    quick = ctx.tier == 'quick'
    ctx.rule = ('behaviours of spec/Env.tla (state cover of the exhaustive runs + -simulate) replayed on the real '
                'MPSEnvironment / MPOEnvironment; case = (configuration, operation sequence up to the step, cache kind)')
    ctx.assume('TLC', 'tensors of the instance are taken from the spec (Instance); projection: npc Array -> dense integer array',
               'float arithmetic on integers below 2^31 and singular values 1, 2 is exact')
    ctx.exhaustive = False
    insts = fetch_instances(ctx, [2, 3, 4], 1)
    _INSTS.update(insts)
    scratch = tlc.scratch('Env-cache')
    import tenpy.networks.mpo  # noqa: F401  (imported before the fork: the workers inherit it)
    pool = cf.ProcessPoolExecutor(max_workers=4, mp_context=multiprocessing.get_context('fork'))
    list(pool.map(int, range(8)))  # all workers are forked now, before any thread exists
    rep = Replayer(ctx, pool, scratch)
    rnd = random.Random(ctx.seed)
    allcfg = dict(finites=[True, False], kinds=['mps', 'mpo'], shareds=[True, False])
    try:
        ncanary = canary(ctx, insts)
        if quick:
            mc_jobs = [
                ('L2-ops2', mk_cfg([2], s0s=[0, 2], tabs=['gen'], maxops=2, **allcfg), 400),
                ('L3-ops2', mk_cfg([3], s0s=[1], tabs=['gen'], maxops=2, **allcfg), 350),
                ('L2-finite-ops3', mk_cfg([2], [True], [rnd.choice(['mps', 'mpo'])], [rnd.choice([True, False])], maxops=3), 150),
                ('L2-infinite-ops3', mk_cfg([2], [False], ['mps'], [rnd.choice([True, False])], s0s=[rnd.choice([0, 1])], maxops=3), 200),
                ('L2-z2-ops2', mk_cfg([2], [True, False], ['mps', 'mpo'], [False], tabs=['z2'], maxops=2), 150),
                ('L4-finite-ops2', mk_cfg([4], [True], ['mpo'], [True, False], maxops=2), 100),
            ]
            sims = [('sim-L23', mk_cfg([2, 3], s0s=[0, 1, 2], tabs=['gen', 'z2'], maxops=12, **allcfg), 90, 13),
                    ('sim-L4', mk_cfg([4], s0s=[0, 1], tabs=['gen'], maxops=10, **allcfg), 25, 11)]
            par, workers = 2, 4
        else:
            mc_jobs = [
                ('L2-ops3', mk_cfg([2], s0s=[1], tabs=['gen'], maxops=3, **allcfg), 3500),
                ('L2-z2-ops3', mk_cfg([2], [True, False], ['mps', 'mpo'], [False], tabs=['z2'], maxops=3), 1500),
                ('L3-ops2', mk_cfg([3], s0s=[0, 1, 2], tabs=['gen', 'z2'], maxops=2, **allcfg), 2000),
                ('L3-finite-ops3', mk_cfg([3], [True], ['mps', 'mpo'], [True, False], tabs=['gen'], maxops=3), 2000),
                ('L3-infinite-mpo-ops3', mk_cfg([3], [False], ['mpo'], [False], s0s=[1], tabs=['gen'], maxops=3), 2000),
                ('L4-ops2', mk_cfg([4], s0s=[1], tabs=['gen'], maxops=2, **allcfg), 1500),
                ('L2-finite-ops4', mk_cfg([2], [True], ['mpo'], [False], maxops=4), 1500),
            ]
            sims = [('sim-L23', mk_cfg([2, 3], s0s=[0, 1, 2], tabs=['gen', 'z2'], maxops=14, **allcfg), 500, 15),
                    ('sim-L4', mk_cfg([4], s0s=[0, 1], tabs=['gen', 'z2'], maxops=12, **allcfg), 150, 13)]
            par, workers = 2, 4
        with cf.ThreadPoolExecutor(max_workers=par) as ex:
            futs = [(name, ex.submit(tlc.mc, 'Env', cfg, dump=True, workers=workers, coverage=False, timeout=3000), nrep)
                    for name, cfg, nrep in mc_jobs]
            sfuts = [(name, ex.submit(tlc.simulate, 'Env', cfg, num=num, depth=depth, seed=ctx.seed + 11, workers=workers, timeout=3000))
                     for name, cfg, num, depth in sims]
            for name, fut, nrep in futs:
                res, dump, d = fut.result()
                finish_mc(ctx, rep, name, res, dump, d, nrep)
            nsim = 0
            for name, fut in sfuts:
                res, traces, d = fut.result()
                shutil.rmtree(d, ignore_errors=True)
                rep.run_many([(tr[-1][1]['hist'], '%s/%d' % (name, j)) for j, tr in enumerate(traces)])
                nsim += len(traces)
        if ncanary == 0 and not ctx.violations and not ctx.known_hits:
            raise core.MachineryError('Env canary: no conforming behaviour available to corrupt')
        never = sorted(a for a in ACTION_OF.values() if ctx.coverage_actions.get(a, (0, 0))[0] == 0)
        if never:
            raise core.MachineryError('Env: actions never taken in the exhaustive runs: %s' % never)
        unreplayed = sorted(o for o in ACTION_OF if ctx.replay_actions.get('Env.' + o, 0) == 0)
        if unreplayed and not ctx.violations:
            raise core.MachineryError('Env: operations never replayed: %s' % unreplayed)
        ctx.notes['behaviours_replayed'] = rep.n
        ctx.notes['simulated_behaviours'] = nsim
        ctx.notes['replay_wall_s'] = round(rep.wall, 1)
        ctx.notes['configurations'] = len(insts)
    finally:
        pool.shutdown(wait=True, cancel_futures=True)
        shutil.rmtree(scratch, ignore_errors=True)


def finish_mc(ctx, rep, name, res, dump, d, nrep):
    try:
        states = dump_states(dump)
    finally:
        shutil.rmtree(d, ignore_errors=True)
    by_op = {}
    for j, (op, _) in enumerate(states):
        by_op.setdefault(op, []).append(j)
    res.coverage = {ACTION_OF[o]: (len(v), len(v)) for o, v in by_op.items() if o in ACTION_OF}
    ctx.add_mc(name, res)
    if res.violated:
        ctx.violation(dict(kind='mc', spec='Env', invariant=res.violated[0]),
                      dict(run=name, trace=tlaval.to_jsonable([(a, {k: v for k, v in s.items() if k != 'hist'}) for a, s in res.error_trace])))
    rnd = random.Random('%d/%s' % (ctx.seed, name))
    ops = sorted(o for o in by_op if o != 'init')
    chosen = []
    for o in ops:
        idx = by_op[o]
        k = len(idx) if nrep is None else max(3, nrep // max(1, len(ops)))
        chosen += idx if k >= len(idx) else rnd.sample(idx, k)
    rep.run_many([(states[j][1], '%s/%d' % (name, j)) for j in sorted(chosen)])


if __name__ == '__main__':
    core.main_wrapper('X_env', check)
