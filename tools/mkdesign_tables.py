#!/venv/bin/python
"""Regenerate the generated tables of DESIGN.md (§14.4 findings, §14.5 seeded changes) between the markers."""
import glob
import json
import os
import re

V = os.path.dirname(os.path.dirname(os.path.abspath(__file__)))


def findings():
    rows = []
    for f in [os.path.join(V, 'known_findings.json')] + sorted(glob.glob(os.path.join(V, 'known_findings.d', '*.json'))):
        rows += json.load(open(f))['findings']
    rows.sort(key=lambda x: (x['property'], x['status'], x['id']))
    out = ['| property | finding id | status | commit | what |', '|---|---|---|---|---|']
    for x in rows:
        what = re.sub(r'^fixed: property=\S+ \S+ ', '', x['what']).replace('|', '/').replace('\n', ' ')
        if len(what) > 230:
            what = what[:227] + '...'
        out.append('| %s | %s | %s | %s | %s |' % (x['property'], x['id'], x['status'], x.get('commit', ''), what))
    nf = sum(1 for x in rows if x['status'] == 'fixed')
    return '%d findings: %d repaired by `fix:` commits, %d recorded as known.\n\n' % (len(rows), nf, len(rows) - nf) + '\n'.join(out)


def seeds():
    out = ['| seeded change | breaks | what | needs | caught by (quick tier) |', '|---|---|---|---|---|']
    n = c = 0
    for d in sorted(glob.glob(os.path.join(V, 'seeded', '*'))):
        mp = os.path.join(d, 'meta.json')
        if not os.path.exists(mp):
            continue
        m = json.load(open(mp))
        sid = os.path.basename(d)
        n += 1
        cb = m.get('caught_by') or []
        if cb:
            c += 1
        caught = '; '.join('%s: %s' % (x['check'], x['clause']) for x in cb) or '**not caught**'

        def cut(s, k):
            s = str(s).replace('|', '/').replace('\n', ' ')
            return s if len(s) <= k else s[:k - 3] + '...'
        out.append('| %s | %s | %s | %s | %s |' % (sid, m.get('property', sid[:3]), cut(m.get('summary', ''), 170), cut(m.get('needs', ''), 150), cut(caught, 200)))
    return '%d confirmed seeded changes, %d caught by a quick tier.\n\n' % (n, c) + '\n'.join(out)


def main():
    p = os.path.join(V, 'DESIGN.md')
    s = open(p).read()
    for name, fn in (('FINDINGS', findings), ('SEEDS', seeds)):
        a, b = '<!-- BEGIN %s -->' % name, '<!-- END %s -->' % name
        if a in s:
            s = s[:s.index(a) + len(a)] + '\n' + fn() + '\n' + s[s.index(b):]
    open(p, 'w').write(s)
    print('DESIGN tables regenerated')


if __name__ == '__main__':
    main()
