"""C02: see DESIGN.md §6.C02. Spec: spec/Npc.tla + spec/NpcProgram.tla; replay: harness/npc_check.py."""
from harness import core, npc_check


def check(ctx):
    if ctx.replay_file:
        return npc_check.replay_file(ctx, 'C02')
    npc_check.run_property(ctx, 'C02', seed_offset=2)


if __name__ == '__main__':
    core.main_wrapper('C02', check)
