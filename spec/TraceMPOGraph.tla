--------------------------- MODULE TraceMPOGraph ----------------------------
(* TRACE stage of C10: TLC judges the artefact the code built.
   The harness dumps the real tenpy.networks.mpo.MPOGraph of a model (captured when the code calls
   MPOGraph.build_MPO) as JSON.  An MPO graph is a finite automaton: states = keys on the MPO bonds, an edge
   on site i from keyL to keyR labelled (operator name, strength).  Its meaning is the sum over all accepted
   paths  IdL -> ... -> IdR  of  (product of the strengths) x (tensor product of the edge operators).
   TLC enumerates ALL accepted paths of the concrete automaton and compares that sum with the meaning of the
   declarations (module ModelTerms) the model was built from.

   JSON file (env var TRACE_FILE):  [case, ...]  with
     case = { id, cfg, decls, explicit, K, L,
              edges: [ per site of the unit cell: [ {l: keyL, r: keyR, ops: [base operator names], s: [re, im, k]} ] ] }
   strength = (re + i im) / 2^k;  K = largest k of a path product the harness expects (integers stay < 2^31). *)
EXTENDS ModelTerms, Sequences, Json, IOUtils

VARIABLES idx, rejected
vars == <<idx, rejected>>

Cases == JsonDeserialize(IOEnv.TRACE_FILE)

\* all accepted paths through the window [site i .. NWc) starting in state `key`;
\* acc = [num |-> Gaussian integer, k |-> exponent of 1/2, ops |-> << <<name, site>>, ... >>]
RECURSIVE Concat(_, _)
Concat(ss, n) == IF n = 0 THEN <<>> ELSE Concat(ss, n - 1) \o ss[n]

Extend(acc, e, i) ==
    [num |-> GMul(acc.num, <<e.s[1], e.s[2]>>), k |-> acc.k + e.s[3],
     ops |-> acc.ops \o [m \in 1..Len(e.ops) |-> <<e.ops[m], i>>]]

RECURSIVE PathsFrom(_, _, _, _)
PathsFrom(cs, i, key, acc) ==
    IF i = NW(cs.cfg) THEN (IF key = "IdR" THEN <<acc>> ELSE <<>>)
    ELSE LET es == cs.edges[(i % cs.L) + 1]
             out == SelectSeq(es, LAMBDA e : e.l = key)
         IN Concat([n \in 1..Len(out) |-> PathsFrom(cs, i + 1, out[n].r, Extend(acc, out[n], i))], Len(out))

AcceptedPaths(cs) == PathsFrom(cs, 0, "IdL", [num |-> GOne, k |-> 0, ops |-> <<>>])

\* 2^K x (sum over the accepted paths): plain tensor products, composite names are products on one site
PathSum(cs) ==
    LET ps == AcceptedPaths(cs)
    IN DenseOfTerms(TypesOf(cs.cfg),
          [n \in 1..Len(ps) |-> [c |-> GScale(Pow(2, cs.K - ps[n].k), ps[n].num), ops |-> ps[n].ops, raw |-> TRUE]])

\* 2^K x (what the model stores according to its declarations)
RECURSIVE StoredSum(_, _, _)
StoredSum(cs, n, expl) ==
    IF n = 0 THEN MZero(Size(DimsOf(TypesOf(cs.cfg))), Size(DimsOf(TypesOf(cs.cfg))))
    ELSE EvalMat(MAdd(StoredSum(cs, n - 1, expl),
                      IF expl THEN DeclStored2(cs.cfg, cs.decls[n]) ELSE DeclOp(cs.cfg, cs.decls[n])))
Expected(cs) ==
    IF cs.explicit THEN MScale(<<Pow(2, cs.K - 1), 0>>, StoredSum(cs, Len(cs.decls), TRUE))
    ELSE MScale(<<Pow(2, cs.K), 0>>, StoredSum(cs, Len(cs.decls), FALSE))

PathsWithinScale(cs) == \A n \in 1..Len(AcceptedPaths(cs)) : AcceptedPaths(cs)[n].k <= cs.K
Accepts(cs) == PathsWithinScale(cs) /\ EvalMat(PathSum(cs)) = EvalMat(Expected(cs))

Init == idx = 0 /\ rejected = <<>>
Next == /\ idx < Len(Cases)
        /\ idx' = idx + 1
        /\ LET cs == Cases[idx + 1]
           IN rejected' = IF Accepts(cs) THEN rejected
                          ELSE Append(rejected, [id |-> cs.id, npaths |-> Len(AcceptedPaths(cs))])
TraceSpec == Init /\ [][Next]_vars

\* evaluated at the end of the run: prints the verdict for the harness
Done == idx = Len(Cases) => PrintT(<<"TRACE-VERDICT", Len(Cases), rejected>>)
AllAccepted == rejected = <<>>
=============================================================================
