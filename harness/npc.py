"""Shared machinery for C01-C04: catalogue generation for spec/NpcProgram.tla, construction of real
np_conserved Arrays from spec tensors, projection of Arrays back to spec tensors, execution of a
spec step on the real objects."""
import json
import os
import random

import numpy as np

from . import tlc, tlaval

# ------------------------------------------------------------------------------------------------
# catalogue -> generated MC module
# ------------------------------------------------------------------------------------------------
MOD_CHOICES = [(), (1,), (1,), (2,), (3,), (1, 2), (1, 1), (2, 3), (1, 3, 2)]


def rand_leg(rng, mods, max_blocks=3, max_size=2, min_blocks=1):
    nb = rng.randint(min_blocks, max_blocks)
    sizes = [rng.randint(1, max_size) for _ in range(nb)]
    charges = []
    for _ in range(nb):
        q = []
        for m in mods:
            q.append(rng.randint(-1, 1) if m == 1 else rng.randrange(m))
        charges.append(q)
    style = rng.random()
    if style < 0.35 and mods:
        # sorted + bunched (the common case in tests)
        order = sorted(range(nb), key=lambda i: charges[i][::-1])
        charges = [charges[i] for i in order]
        keep = [0] + [i for i in range(1, nb) if charges[i] != charges[i - 1]]
        charges = [charges[i] for i in keep]
        sizes = sizes[:len(charges)]
    return dict(sizes=sizes, charges=charges, qconj=rng.choice([1, -1]))


def conj_leg(leg):
    return dict(sizes=list(leg['sizes']), charges=[list(c) for c in leg['charges']], qconj=-leg['qconj'])


def ind_len(leg):
    return sum(leg['sizes'])


def qindex(leg, i):
    s = 0
    for b, sz in enumerate(leg['sizes']):
        if s <= i < s + sz:
            return b
        s += sz
    raise IndexError


def make_valid(q, mods):
    return [x if m == 1 else x % m for x, m in zip(q, mods)]


def index_charge(legs, idx, mods):
    q = [0] * len(mods)
    for leg, i in zip(legs, idx):
        c = leg['charges'][qindex(leg, i)]
        q = [a + leg['qconj'] * b for a, b in zip(q, c)]
    return make_valid(q, mods)


def rand_tensor(rng, mods, legs, labels, cplx):
    shape = [ind_len(l) for l in legs]
    # qtotal = charge of a random index tuple -> at least one allowed block
    idx = [rng.randrange(n) for n in shape]
    qtotal = index_charge(legs, idx, mods)
    # blocks allowed
    import itertools
    blocks = [b for b in itertools.product(*[range(len(l['sizes'])) for l in legs])
              if make_valid([sum(l['qconj'] * l['charges'][bi][k] for l, bi in zip(legs, b)) for k in range(len(mods))], mods) == qtotal]
    missing = [b for b in blocks if rng.random() < 0.25]
    if len(missing) == len(blocks) and rng.random() < 0.8:
        missing = missing[1:]
    return dict(legs=legs, qtotal=qtotal, labels=labels, cplx=cplx, missing=missing, shape=shape)


def rand_config(rng, max_size=40, kind_hint=None):
    """Two initial tensors that can interact: T2 shares/conjugates legs of T1."""
    for _ in range(200):
        mods = rng.choice(MOD_CHOICES)
        if kind_hint is not None and kind_hint % 6 == 2:
            mods = rng.choice([(1, 3), (3, 2), (1, 2)])  # profile 2: a Z_3 charge and a conjugate partner
        if kind_hint is not None and kind_hint % 6 == 1 and not mods:
            mods = (1,)
        if kind_hint is not None and kind_hint % 6 == 4:
            mods = ()  # profile 4: no charges -> single-block tensors (fast paths), with a pipe partner
        r1 = rng.choice([2, 3, 3])
        if kind_hint is not None and kind_hint % 6 == 3:
            r1 = 3  # profile 3: the transposed partner differs by a cyclic (not self-inverse) permutation of three legs
        single = kind_hint is not None and kind_hint % 6 == 4
        disjoint = kind_hint is not None and kind_hint % 6 == 1
        legs1 = [rand_leg(rng, mods, max_blocks=1 if single else 3, max_size=3 if single else 2, min_blocks=2 if disjoint else 1) for _ in range(r1)]
        if rng.random() < 0.3:
            # make a traceable pair
            legs1[-1] = conj_leg(legs1[0])
        names = ['a', 'b', 'c', 'd']
        labels1 = [[names[i]] if rng.random() < 0.8 else [] for i in range(r1)]
        kind = rng.random() if kind_hint is None else (0.2, 0.6, 0.9, 0.2, 0.6, 0.9)[kind_hint % 6]
        if kind < 0.4:
            # same legs (add / inner with do_conj / concatenate)
            legs2 = [dict(l) for l in legs1]
            labels2 = [list(l) for l in labels1]
        elif kind < 0.8:
            # contractible partner on one or two legs + a fresh leg
            k = rng.randint(1, min(2, r1))
            sel = rng.sample(range(r1), k)
            legs2 = [conj_leg(legs1[i]) for i in sel] + [rand_leg(rng, mods)]
            labels2 = [(labels1[i] + ['*']) if labels1[i] else [] for i in sel] + [['e']]
            reversed2 = rng.random() < 0.5
            if reversed2:
                legs2.reverse()
                labels2.reverse()
        else:
            legs2 = [conj_leg(l) for l in legs1]
            labels2 = [(l + ['*']) if l else [] for l in labels1]
        size1 = int(np.prod([ind_len(l) for l in legs1]))
        size2 = int(np.prod([ind_len(l) for l in legs2]))
        if size1 > max_size or size2 > max_size:
            continue
        transposed_partner = kind_hint is not None and kind_hint % 6 == 3 and r1 >= 2
        if transposed_partner:
            labels1 = [[names[i]] for i in range(r1)]
            labels2 = [list(l) for l in labels1]
        cplx = rng.random() < 0.4
        t1 = rand_tensor(rng, mods, legs1, labels1, cplx)
        t2 = rand_tensor(rng, mods, legs2, labels2, rng.random() < 0.4)
        if kind < 0.4:
            # same legs and total charge: T1 and T2 store different, overlapping sets of blocks
            t2['qtotal'] = list(t1['qtotal'])
            import itertools
            blocks = [b for b in itertools.product(*[range(len(l['sizes'])) for l in legs1])
                      if make_valid([sum(l['qconj'] * l['charges'][bi][k] for l, bi in zip(legs1, b)) for k in range(len(mods))], mods) == t1['qtotal']]
            if len(blocks) < 3 and kind_hint is not None:
                continue  # the "same legs" kind is there to exercise block merging: need several allowed blocks
            if len(blocks) >= 2:
                rng.shuffle(blocks)
                t1['missing'] = [blocks[0]] + [b for b in blocks[2:] if rng.random() < 0.2]
                t2['missing'] = [blocks[1]] + [b for b in blocks[2:] if rng.random() < 0.2]
            else:
                t2['missing'] = []
        if transposed_partner:
            perm = list(range(1, r1 + 1))
            while perm == list(range(1, r1 + 1)):
                perm = [x + 1 for x in rng.sample(range(r1), r1)]
            if kind_hint is not None and r1 == 3:
                perm = rng.choice([[2, 3, 1], [3, 1, 2]])
            t2['transpose_perm'] = perm
        import itertools

        def _allowed(t, legs):
            return [b for b in itertools.product(*[range(len(l['sizes'])) for l in legs])
                    if make_valid([sum(l['qconj'] * l['charges'][bi][k] for l, bi in zip(legs, b)) for k in range(len(mods))], mods) == t['qtotal']]
        if 0.4 <= kind < 0.8 and kind_hint is not None and kind_hint % 6 == 1:
            # contractible partner whose stored blocks never meet those of T1 on the first contracted leg:
            # tensordot then yields a tensor without any stored block (dtype / empty-result paths)
            j1 = sel[0]
            j2 = (len(legs2) - 1) if reversed2 else 0
            nbl = len(legs1[j1]['sizes'])
            ok = False
            if nbl >= 2:
                S = set(rng.sample(range(nbl), nbl // 2))
                a1, a2 = _allowed(t1, legs1), _allowed(t2, legs2)
                m1 = [b for b in a1 if b[j1] not in S]
                m2 = [b for b in a2 if b[j2] in S]
                if 0 < len(m1) < len(a1) and 0 < len(m2) < len(a2):
                    t1['missing'] = m1
                    t2['missing'] = m2
                    ok = True
            if not ok:
                continue  # try other legs / total charges
        if kind >= 0.8 and kind_hint is not None and kind_hint % 6 == 2 and all(x == 0 for x in t1['qtotal']):
            continue  # want a non-zero total charge here
        if kind >= 0.8:
            # conjugate partner: opposite total charge, so inner(a, b) / full tensordot are non-trivial
            t2['qtotal'] = make_valid([-x for x in t1['qtotal']], mods)
            t2['missing'] = [b for b in t1['missing'] if rng.random() < 0.5]
        # a third, small tensor (vector or thin matrix) contractible with a leg of T1: matvec-like products and
        # outer products stay small
        j = rng.randrange(r1)
        legs3 = [conj_leg(legs1[j])]
        labels3 = [(labels1[j] + ['*']) if labels1[j] else []]
        if kind_hint is not None and kind_hint % 6 == 2:
            # a length-1 leg with a non-zero charge in every component (squeeze / take_slice must treat the charges
            # component-wise)
            legs3.append(dict(sizes=[1], charges=[[rng.choice([1, -1]) if m == 1 else rng.randrange(1, m) for m in mods]],
                              qconj=rng.choice([1, -1])))
            labels3.append(['f'])
        elif rng.random() < 0.5:
            legs3.append(rand_leg(rng, mods, max_blocks=2, max_size=1))
            labels3.append(['f'])
        t3 = rand_tensor(rng, mods, legs3, labels3, rng.random() < 0.3)
        t3['missing'] = []
        if r1 >= 2 and ((kind_hint is None and kind >= 0.4 and rng.random() < 0.4) or (kind_hint is not None and kind_hint % 6 in (4, 5))):
            # the partner is T1 with two legs already combined into a pipe (so split_legs is enabled at once)
            g = rng.sample(range(r1), 2)
            t2 = dict(combine_of=0, group=[x + 1 for x in g], qconj=rng.choice([1, -1]))
        tensors = [t1, t2, t3]
        if kind_hint is not None and kind_hint % 6 == 1:
            # a shallow copy of T1 from the start (T1 has unoccupied charge blocks here): re-indexing in-place methods on one
            # of the two must leave the other intact
            tensors.append(dict(shallow_of=0))
        return dict(mods=list(mods), tensors=tensors)
    raise RuntimeError('no config')


def _leg_tla(leg):
    return 'PlainLeg(%s, %s, %d)' % (tlc.tla_lit(leg['sizes']), tlc.tla_lit([list(c) for c in leg['charges']]), leg['qconj'])


def _neg(v):
    return v


def mc_module(name, cfg):
    """TLA+ text of the generated model module for one catalogue configuration."""
    lines = ['---- MODULE %s ----' % name, 'EXTENDS NpcProgram', 'MCMods == %s' % tlc.tla_lit(cfg['mods'])]
    tnames = []
    for ti, t in enumerate(cfg['tensors']):
        if 'combine_of' in t:
            lines.append('T%d == OpCombine(T%d, %s, %d, TRUE, TRUE)' % (ti + 1, t['combine_of'] + 1, tlc.tla_lit(t['group']), t['qconj']))
            tnames.append('T%d' % (ti + 1))
            continue
        if 'shallow_of' in t:
            lines.append('T%d == T%d' % (ti + 1, t['shallow_of'] + 1))
            tnames.append('T%d' % (ti + 1))
            continue
        lnames = []
        for li, leg in enumerate(t['legs']):
            ln = 'L%d_%d' % (ti + 1, li + 1)
            lines.append('%s == %s' % (ln, _leg_tla(leg)))
            lnames.append(ln)
        shape = tlc.tla_lit(t['shape'])
        if t['cplx']:
            f = 'LAMBDA idx : <<1 + Flat(idx, %s), (Flat(idx, %s) %% 3) - 1>>' % (shape, shape)
        else:
            f = 'LAMBDA idx : <<1 + ((Flat(idx, %s) * 5) %% 11), 0>>' % shape
        missing = '{' + ', '.join(tlc.tla_lit([b + 1 for b in blk]) for blk in t['missing']) + '}'
        expr = 'MkTensorM(<<%s>>, %s, %s, %s, %s)' % (', '.join(lnames), tlc.tla_lit(t['qtotal']), tlc.tla_lit([list(l) for l in t['labels']]), f, missing)
        if t.get('transpose_perm'):
            expr = 'OpTranspose(%s, %s)' % (expr, tlc.tla_lit(t['transpose_perm']))
        lines.append('T%d == %s' % (ti + 1, expr))
        tnames.append('T%d' % (ti + 1))
    lines.append('MCInit == <<%s>>' % ', '.join(tnames))
    lines.append('MCShared == {%s}' % ', '.join('{%d, %d}' % (ti + 1, t['shallow_of'] + 1)
                                               for ti, t in enumerate(cfg['tensors']) if 'shallow_of' in t))
    lines.append('====')
    return '\n'.join(lines) + '\n'


def mc_cfg(max_ops, nslots=4, max_rank=4, max_size=100, max_abs=20000, invariants=True):
    return dict(spec='Spec',
                constants=dict(Mods='<-MCMods', InitTensors='<-MCInit', InitShared='<-MCShared', NSlots=nslots, MaxOps=max_ops, MaxRank=max_rank,
                               MaxSize=max_size, MaxAbs=max_abs),
                invariants=['PoolChargeRule', 'PoolWellFormed'] if invariants else [],
                properties=['OnlyOutChanges'] if invariants else [], view='AbsView')


# ------------------------------------------------------------------------------------------------
# spec tensor <-> real Array
# ------------------------------------------------------------------------------------------------
def render_label(tokens):
    return None if not tokens else ''.join(tokens)


def gauss(z):
    return complex(z[0], z[1]) if z[1] else float(z[0])


def dense_of(t):
    shape = list(t['val']['shape'])
    vals = t['val']['val']
    arr = np.array([complex(v[0], v[1]) for v in vals], dtype=np.complex128).reshape(shape) if vals else np.zeros(shape, np.complex128)
    return arr


def build_leg(chinfo, leg):
    from tenpy.linalg import charges as ch
    if leg.get('pipe'):
        sub = [build_leg(chinfo, l) for l in leg['pipe']]
        return ch.LegPipe(sub, qconj=leg['qconj'], sort=leg.get('psort', True), bunch=True)
    slices = np.concatenate([[0], np.cumsum(leg['sizes'])]).astype(np.intp) if leg['sizes'] else np.array([0], np.intp)
    charges = np.array(leg['charges'], dtype=np.int64).reshape(len(leg['sizes']), chinfo.qnumber)
    return ch.LegCharge.from_qind(chinfo, slices, charges, leg['qconj'])


def storage_variant(a, variant):
    """The same tensor in a different (valid) internal storage state, reached through public operations only:
    variant 1: blocks stored in a non-lexsorted order (transpose there and back);
    variant 2: additionally a stored block that is entirely zero (element assignment of 0. inserts a block);
    variant 3: blocks in Fortran order (not C-contiguous), as from_ndarray produces them from a Fortran-ordered array."""
    if variant == 0 or a.rank < 2:
        return a
    if variant == 3:
        # blocks that are not C-contiguous (last axis strided): from_ndarray of a Fortran-ordered dense array keeps the layout
        import tenpy.linalg.np_conserved as npc
        b = npc.Array.from_ndarray(np.asfortranarray(a.to_ndarray()), a.legs, dtype=a.dtype, qtotal=a.qtotal, labels=a.get_leg_labels())
        b.ipurge_zeros(0.)
        return b
    perm = list(range(a.rank))[::-1]
    b = a.transpose(perm).transpose(perm)
    if variant == 2:
        # find an allowed but not stored block and touch it
        import itertools
        stored = {tuple(r) for r in b._qdata.tolist()}
        for qi in itertools.product(*[range(l.block_number) for l in b.legs]):
            if qi in stored:
                continue
            q = b.chinfo.make_valid(sum(l.get_charge(i) for l, i in zip(b.legs, qi)))
            if all(q == b.qtotal):
                idx = tuple(int(l.slices[i]) for l, i in zip(b.legs, qi))
                b[idx] = 0.
                break
    return b


DTYPE_VARIANTS = {0: (np.float64, np.complex128), 1: (np.float32, np.complex64), 2: (np.int64, np.complex128)}


def build_array(chinfo, t, dtype=None, dtype_variant=0):
    import tenpy.linalg.np_conserved as npc
    legs = [build_leg(chinfo, l) for l in t['legs']]
    dense = dense_of(t)
    if dtype is None:
        real_t, cplx_t = DTYPE_VARIANTS[dtype_variant]
        dtype = cplx_t if np.any(dense.imag != 0) else real_t
    if np.dtype(dtype).kind != 'c':
        dense = dense.real.astype(dtype)
    else:
        dense = dense.astype(dtype)
    labels = [render_label(l) for l in t['labels']]
    a = npc.Array.from_ndarray(dense, legs, dtype=dtype, qtotal=np.array(t['qtotal'], dtype=np.int64), labels=labels)
    # from_ndarray stores every allowed block; blocks that are entirely zero in the spec tensor are "missing":
    a.ipurge_zeros(0.)
    return a


def project_leg(leg):
    from tenpy.linalg import charges as ch
    out = dict(sizes=[int(x) for x in np.diff(leg.slices)], charges=[[int(x) for x in c] for c in leg.charges],
               qconj=int(leg.qconj))
    if isinstance(leg, ch.LegPipe):
        out['pipe'] = [project_leg(l) for l in leg.legs]
    else:
        out['pipe'] = []
    return out


def project_array(a):
    """Public observers only: to_ndarray, labels, qtotal, per-leg block structure."""
    d = a.to_ndarray()
    return dict(shape=[int(x) for x in d.shape], val=np.asarray(d, dtype=np.complex128).reshape(-1).copy(),
                labels=list(a.get_leg_labels()), qtotal=[int(x) for x in a.qtotal], legs=[project_leg(l) for l in a.legs],
                dtype=str(a.dtype))


def spec_leg_norm(leg):
    return dict(sizes=list(leg['sizes']), charges=[list(c) for c in leg['charges']], qconj=leg['qconj'],
                pipe=[spec_leg_norm(l) for l in leg.get('pipe', [])])


def compare_leg(impl, spec, mods, strict_blocks=True):
    """None if the legs agree, else a clause name.  Flat charges and direction must always agree; block
    structure is compared too (it is documented for every operation modelled)."""
    if impl['qconj'] != spec['qconj']:
        return 'qconj'
    fi = [c for s, c in zip(impl['sizes'], impl['charges']) for _ in range(s)]
    fs = [list(c) for s, c in zip(spec['sizes'], spec['charges']) for _ in range(s)]
    if fi != fs:
        return 'qflat'
    if strict_blocks and impl['sizes'] != list(spec['sizes']):
        return 'blocks'
    if bool(impl['pipe']) != bool(spec.get('pipe')):
        return 'pipe-presence'
    if impl['pipe']:
        if len(impl['pipe']) != len(spec['pipe']):
            return 'pipe-arity'
        for a, b in zip(impl['pipe'], spec['pipe']):
            r = compare_leg(a, b, mods)
            if r:
                return 'pipe-' + r
    return None


def compare_tensor(proj, t, mods):
    """Compare the projection of a real Array with a spec tensor. Returns None or a clause name."""
    if proj['shape'] != list(t['val']['shape']):
        return 'shape'
    sv = np.array([complex(v[0], v[1]) for v in t['val']['val']], dtype=np.complex128)
    if sv.shape != proj['val'].shape or not np.array_equal(sv, proj['val']):
        return 'dense'
    if proj['labels'] != [render_label(l) for l in t['labels']]:
        return 'labels'
    if proj['qtotal'] != list(t['qtotal']):
        return 'qtotal'
    for i, (a, b) in enumerate(zip(proj['legs'], t['legs'])):
        r = compare_leg(a, b, mods)
        if r:
            return 'leg%d-%s' % (i, r)
    return None


# ------------------------------------------------------------------------------------------------
# one spec step on the real objects
# ------------------------------------------------------------------------------------------------
def ax0(seq):
    return [int(x) - 1 for x in seq]


def _index_tuple(spec):
    """index spec of the specification -> Python index tuple; selections that are arithmetic progressions are
    passed as slice objects, ascending ones alternately as bool masks, the others as integer arrays"""
    out = []
    for sp in spec:
        if sp['k'] == 'all':
            out.append(slice(None))
        elif sp['k'] == 'int':
            out.append(int(sp['i']))
        else:
            sel = [int(x) for x in sp['sel']]
            if len(sel) >= 2 and len({b - a for a, b in zip(sel, sel[1:])}) == 1:
                step = sel[1] - sel[0]
                stop = sel[-1] + step
                out.append(slice(sel[0], stop if stop >= 0 else None, step))
            else:
                out.append(np.array(sel, dtype=np.intp))
    return tuple(out)


def apply_step(pool, l, chinfo):
    """Execute the operation described by record `l` on pool (dict slot -> Array).
    Returns (kind, value): ('store', Array) | ('inplace', Array) | ('scalar', complex)."""
    import tenpy.linalg.np_conserved as npc
    op = l['op']
    a = pool.get(l.get('a'))
    if op == 'conj':
        return 'store', a.conj()
    if op == 'iconj':
        r = a.iconj()
        return 'inplace', a
    if op == 'complex_conj':
        return 'store', a.complex_conj()
    if op == 'conj_nocc':
        return 'store', a.conj(complex_conj=False)
    if op == 'transpose':
        return 'store', a.transpose(ax0(l['perm']))
    if op == 'itranspose':
        a.itranspose(ax0(l['perm']))
        return 'inplace', a
    if op == 'tensordot':
        b = pool[l['b']]
        axa, axb = ax0(l['axa']), ax0(l['axb'])
        if len(axa) == 0:
            return 'store', (npc.outer(a, b) if l.get('use_outer', True) else npc.tensordot(a, b, axes=0))
        return 'store', npc.tensordot(a, b, axes=(axa, axb))
    if op == 'inner':
        b = pool[l['b']]
        return 'scalar', npc.inner(a, b, axes='range', do_conj=l['do_conj'])
    if op == 'trace':
        return 'store', npc.trace(a, l['x'] - 1, l['y'] - 1)
    if op == 'copy':
        return 'store', a.copy(deep=True)
    if op == 'shallow_copy':
        return 'store', a.copy(deep=False)
    if op == 'add_scaled':
        b = pool[l['b']]
        z = gauss(l['z'])
        if z == 1:
            return 'store', a + b
        if z == -1:
            return 'store', a - b
        return 'store', a + z * b
    if op in ('add_by_labels', 'iadd_by_labels'):
        b = pool[l['b']]
        z = gauss(l['z'])
        if op == 'add_by_labels':
            return 'store', (a + b if z == 1 else a - b if z == -1 else a + z * b)
        if (isinstance(z, complex) or b.dtype.kind == 'c') and a.dtype.kind != 'c':
            a2 = a.astype(np.complex128)
            pool[l['a']] = a2
            a = a2
        a.iadd_prefactor_other(z, b)
        return 'inplace', a
    if op == 'iadd_prefactor_other':
        b = pool[l['b']]
        z = gauss(l['z'])
        if isinstance(z, complex) and a.dtype.kind != 'c':
            # in-place update cannot change the dtype: documented numpy casting rule; upcast first like `a = a + z*b`
            a2 = a.astype(np.complex128)
            pool[l['a']] = a2
            a = a2
        a.iadd_prefactor_other(z, b)
        return 'inplace', a
    if op == 'scale':
        z = gauss(l['z'])
        return 'store', (a * z if l['z'][1] else z * a)
    if op == 'iscale_prefactor':
        z = gauss(l['z'])
        if isinstance(z, complex) and a.dtype.kind != 'c':
            a2 = a.astype(np.complex128)
            pool[l['a']] = a2
            a = a2
        a.iscale_prefactor(z)
        return 'inplace', a
    if op == 'combine_legs':
        g = ax0(l['group'])
        return 'store', a.combine_legs(g, qconj=l['qconj'])
    if op == 'combine_legs_at':
        g = ax0(l['group'])
        new_rank = a.rank - len(g) + 1
        na = l['na'] - 1
        if l['neg']:
            return 'store', a.combine_legs([g], new_axes=(na - new_rank,), qconj=[l['qconj']])  # a tuple, negative entry
        arg = [na]
        res = a.combine_legs([g], new_axes=arg, qconj=[l['qconj']])
        if arg != [na]:
            raise ValueError('combine_legs modified its new_axes argument')
        return 'store', res
    if op == 'split_legs':
        return 'store', a.split_legs([l['x'] - 1])
    if op == 'take_slice':
        return 'store', a.take_slice(l['i'], l['x'] - 1)
    if op == 'iproject':
        mask = np.zeros(a.shape[l['x'] - 1], dtype=bool)
        mask[list(l['keep'])] = True
        a.iproject(mask, l['x'] - 1)
        return 'inplace', a
    if op == 'permute':
        return 'store', a.permute(list(l['perm']), l['x'] - 1)
    if op == 'sort_legcharge':
        sort = [False] * a.rank
        bunch = [False] * a.rank
        sort[l['x'] - 1] = l['sort']
        bunch[l['x'] - 1] = l['bunch']
        perms, res = a.sort_legcharge(sort, bunch)
        res._verif_perm = [int(x) for x in perms[l['x'] - 1]]
        return 'store', res
    if op == 'scale_axis':
        s = np.array([gauss(z) for z in l['s']])
        return 'store', a.scale_axis(s, l['x'] - 1)
    if op == 'concatenate':
        b = pool[l['b']]
        return 'store', npc.concatenate([a, b], axis=l['x'] - 1)
    if op == 'add_trivial_leg':
        return 'store', a.add_trivial_leg(l['x'] - 1, label=render_label(l['label']), qconj=l['qconj'])
    if op == 'squeeze':
        return 'store', a.squeeze(l['x'] - 1)
    if op == 'gauge_total_charge':
        return 'store', a.gauge_total_charge(l['x'] - 1, newqtotal=list(l['newq']), new_qconj=l['newqconj'])
    if op == 'setitem':
        z = gauss(l['z'])
        if isinstance(z, complex) and a.dtype.kind != 'c':
            a2 = a.astype(np.complex128)
            pool[l['a']] = a2
            a = a2
        a[tuple(int(i) for i in l['idx'])] = z
        return 'inplace', a
    if op == 'combine_legs2':
        return 'store', a.combine_legs([ax0(g) for g in l['groups']], qconj=[int(q) for q in l['qconj']])
    if op == 'getitem':
        return 'store', a[_index_tuple(l['spec'])]
    if op == 'setitem_scaled':
        z = gauss(l['z'])
        if isinstance(z, complex) and a.dtype.kind != 'c':
            a2 = a.astype(np.complex128)
            pool[l['a']] = a2
            a = a2
        idx = _index_tuple(l['spec'])
        part = a[idx]
        a[idx] = part * z
        return 'inplace', a
    if op == 'setitem_from':
        b = pool[l['b']]
        if b.dtype.kind == 'c' and a.dtype.kind != 'c':
            a2 = a.astype(np.complex128)
            pool[l['a']] = a2
            a = a2
        idx = _index_tuple(l['spec'])
        a[idx] = b[idx]
        return 'inplace', a
    if op == 'iswapaxes':
        a.iswapaxes(l['x'] - 1, l['y'] - 1)
        return 'inplace', a
    if op == 'isort_qdata':
        a.isort_qdata()
        return 'inplace', a
    if op == 'ipurge_zeros':
        a.ipurge_zeros()
        return 'inplace', a
    if op == 'extend':
        return 'store', a.extend(l['x'] - 1, build_leg(chinfo, l['extra']))
    if op == 'add_leg':
        leg = pool[l['b']].legs[l['y'] - 1]
        return 'store', a.add_leg(leg, l['i'], axis=l['x'] - 1, label=render_label(l['label']))
    if op == 'norm2':
        n = npc.norm(a)
        return 'scalar', complex(float(n) ** 2)
    raise KeyError('unknown op %r' % op)


# ------------------------------------------------------------------------------------------------
# structural sanity (C02) and fingerprints (C03)
# ------------------------------------------------------------------------------------------------
def sanity_clauses(a):
    """Evaluate the storage invariants of the specification on the projected implementation state.
    Returns a list of violated clause names (empty = consistent)."""
    from tenpy.tools import optimization
    from tenpy.linalg import charges as ch
    bad = []
    try:
        with optimization.temporary_level(0):
            a.test_sanity()
    except Exception as e:  # noqa
        bad.append('test_sanity:%s' % type(e).__name__)
    q = np.asarray(a._qdata)
    if q.ndim != 2 or q.shape != (len(a._data), a.rank):
        bad.append('qdata-shape')
        return bad
    if len(q) and len({tuple(r) for r in q.tolist()}) != len(q):
        bad.append('duplicate-blocks')
    if a._qdata_sorted and len(q) > 1 and a.rank > 0:
        order = np.lexsort(q.T)
        if not np.array_equal(order, np.arange(len(q))):
            bad.append('qdata_sorted-flag-untrue')
    for row, blk in zip(q, a._data):
        shape = tuple(int(l.slices[i + 1] - l.slices[i]) for l, i in zip(a.legs, row))
        if blk.shape != shape:
            bad.append('block-shape')
            break
        if blk.dtype != a.dtype:
            bad.append('block-dtype')
            break
        qsum = np.zeros(a.chinfo.qnumber, dtype=np.int64)
        for l, i in zip(a.legs, row):
            qsum += l.qconj * l.charges[i]
        if not np.array_equal(a.chinfo.make_valid(qsum), a.chinfo.make_valid(a.qtotal)):
            bad.append('charge-rule')
            break
    for l in a.legs:
        bad += ['leg-' + c for c in leg_flag_clauses(l)]
    return bad


def leg_flag_clauses(l):
    from tenpy.linalg import charges as ch
    bad = []
    chg = np.asarray(l.charges)
    if l.sorted and chg.shape[1] > 0 and len(chg) > 1:
        if not np.array_equal(np.lexsort(chg.T), np.arange(len(chg))):
            bad.append('sorted-flag-untrue')
    if l.bunched and len(chg) > 1:
        if np.any(np.all(chg[1:] == chg[:-1], axis=1)):
            bad.append('bunched-flag-untrue')
    if isinstance(l, ch.LegPipe):
        for sub in l.legs:
            bad += ['pipe-' + c for c in leg_flag_clauses(sub)]
    return bad


def fingerprint_leg(l):
    from tenpy.linalg import charges as ch
    fp = (np.asarray(l.slices).tobytes(), np.asarray(l.charges).tobytes(), int(l.qconj), int(l.ind_len))
    if isinstance(l, ch.LegPipe):
        fp = fp + (tuple(fingerprint_leg(s) for s in l.legs), np.asarray(l.q_map).tobytes())
    return fp


def fingerprint_array(a):
    d = a.to_ndarray()
    return (d.shape, np.asarray(d, dtype=np.complex128).tobytes(), tuple(a.get_leg_labels()), tuple(int(x) for x in a.qtotal),
            tuple(fingerprint_leg(l) for l in a.legs))


# ------------------------------------------------------------------------------------------------
# GEN: behaviours from TLC
# ------------------------------------------------------------------------------------------------
def _run_one(args):
    """Worker: one catalogue configuration -> behaviours (MC depth-1 dump + simulation)."""
    import shutil
    (idx, cfg, seed, mc_ops, sim_num, sim_ops, workers, timeout) = args
    name = 'NpcMC'
    d = tlc.scratch('npc%d' % idx)
    out = dict(idx=idx, cfg=cfg, behaviours=[], mc=None, sim=None, error=None)
    shared0 = [[ti + 1, t['shallow_of'] + 1] for ti, t in enumerate(cfg['tensors']) if 'shallow_of' in t]
    try:
        spec = os.path.join(d, name + '.tla')
        with open(spec, 'w') as f:
            f.write(mc_module(name, cfg))
        if mc_ops:
            cfgp = tlc.write_cfg(os.path.join(d, 'mc.cfg'), **mc_cfg(mc_ops, nslots=len(cfg['tensors']) + 1))
            dump = os.path.join(d, 'states')
            res = tlc.run(spec, cfgp, workers=workers, timeout=timeout, dump=dump, coverage=False)
            if tlc.machinery_failed(res):
                out['error'] = 'MC: exit %s\n%s' % (res.exit, res.stdout[-3000:])
                return out
            out['mc'] = dict(summary=res.summary(), coverage=res.coverage, violated=res.violated,
                             trace=tlaval.to_jsonable(res.error_trace) if res.violated else None)
            init = None
            hs = []
            for st in tlaval.iter_dump(dump + '.dump'):
                if st['pending'].get('op') != 'nil' or st['cls'] != 'none':
                    continue
                if not st['hist']:
                    init = st['pool']
                else:
                    hs.append(st['hist'])
            for h in hs:
                out['behaviours'].append(dict(mods=cfg['mods'], init=init, steps=h, origin='mc%d' % idx, shared0=shared0))
        if sim_num:
            cfgp = tlc.write_cfg(os.path.join(d, 'sim.cfg'), **mc_cfg(sim_ops, nslots=len(cfg['tensors']) + 1))
            os.makedirs(os.path.join(d, 'tr'))
            prefix = os.path.join(d, 'tr', 't')
            res = tlc.run(spec, cfgp, workers=workers, timeout=timeout, simulate=dict(num=sim_num, file=prefix),
                          depth=3 * sim_ops + 1, seed=seed, coverage=False)
            if tlc.machinery_failed(res):
                out['error'] = 'SIM: exit %s\n%s' % (res.exit, res.stdout[-3000:])
                return out
            out['sim'] = dict(summary=res.summary(), violated=res.violated,
                              trace=tlaval.to_jsonable(res.error_trace) if res.violated else None)
            for tr in tlc.read_sim_traces(prefix):
                if len(tr) < 2:
                    continue
                init = tr[0][1]['pool']
                last = tr[-1][1]
                if last['hist']:
                    out['behaviours'].append(dict(mods=cfg['mods'], init=init, steps=last['hist'], origin='sim%d' % idx, shared0=shared0))
        return out
    finally:
        shutil.rmtree(d, ignore_errors=True)


def generate(seed, n_configs, mc_ops=1, sim_num=8, sim_ops=6, procs=4, workers=4, timeout=900, max_size=40):
    """Run TLC on n_configs random catalogue configurations (in parallel); return list of result dicts."""
    from concurrent.futures import ThreadPoolExecutor
    rng = random.Random(seed)
    jobs = []
    for i in range(n_configs):
        cfg = rand_config(rng, max_size=max_size, kind_hint=i)
        jobs.append((i, cfg, seed * 1000 + i + 1, mc_ops, sim_num, sim_ops, workers, timeout))
    with ThreadPoolExecutor(max_workers=procs) as ex:
        return list(ex.map(_run_one, jobs))
