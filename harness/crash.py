"""C18 helpers: the child process that runs a real tenpy Simulation (fresh run or resume from a
checkpoint file), the strace wrapper that records / kills it, the parser of the system-call log
and the projection of the files that survive.

Nothing here edits tenpy: the child uses public options only (`connect_measurements`,
`connect_algorithm_checkpoint`, `algorithm_class`) to place *marker* writes (to a marker file that
strace follows with -P) between the system calls of the save protocol, so the recorded trace is
totally ordered: alg steps, measurements, checkpoints and every system call on the two result files.

Child entry:  python -m harness.crash '<json job>'
"""
import json
import os
import re
import subprocess
import sys

# --------------------------------------------------------------------------------------------
# child side
# --------------------------------------------------------------------------------------------
_MARK_FD = None
TSTEP = 0.25     # time evolved by one engine.run() of the time-evolution workloads (dt * N_steps)
_COUNTER_ALG = None


def mark(text):
    """One write() system call on the marker file (followed by strace) -- an ordered trace event."""
    if _MARK_FD is not None:
        os.write(_MARK_FD, (text + '\n').encode())


def _engine_k(sim):
    """Progress counter of the engine (the `k` of the spec's algorithm state)."""
    eng = sim.engine
    if hasattr(eng, 'verif_k'):
        return int(eng.verif_k)
    if hasattr(eng, 'evolved_time'):
        return int(round(float(abs(eng.evolved_time)) / TSTEP))
    return int(eng.sweeps)


def m_verif(results, psi, model, simulation):
    """Measurement function (connected through the public option `connect_measurements`)."""
    k = _engine_k(simulation)
    results['verif_k'] = k
    mark('meas %d' % k)


def ckpt_marker(algorithm):
    """Checkpoint listener with the highest priority: marks the begin of a checkpoint."""
    k = getattr(algorithm, 'verif_k', None)
    if k is None and hasattr(algorithm, 'evolved_time'):
        k = int(round(float(abs(algorithm.evolved_time)) / TSTEP))
    if k is None:
        k = int(algorithm.sweeps)
    mark('ckpt %d' % k)


def _define_counter_algorithm():
    from tenpy.algorithms.algorithm import Algorithm

    class VerifCounterAlgorithm(Algorithm):
        """Smallest resumable algorithm: N_steps steps, a checkpoint after each of them.

        Follows the documented contract of `Algorithm`: `get_resume_data` returns what
        `__init__(resume_data=...)` + `resume_run()` need to continue where the run was."""

        def __init__(self, psi, model, options, *, resume_data=None, cache=None):
            super().__init__(psi, model, options, resume_data=resume_data, cache=cache)
            self.verif_k = 0
            self.energy = 0.0
            if self.resume_data and 'verif_k' in self.resume_data:
                self.verif_k = self.resume_data['verif_k']
                self.energy = self.resume_data['energy']

        def run(self):
            N_steps = self.options.get('N_steps', 3)
            while self.verif_k < N_steps:
                self.verif_k += 1
                self.energy = self.energy * 0.5 - 1.0   # deterministic "state"
                mark('alg %d' % self.verif_k)
                self.checkpoint.emit(self)
            return self.energy, self.psi

        def get_resume_data(self, sequential_simulations=False):
            data = super().get_resume_data(sequential_simulations)
            data['verif_k'] = self.verif_k
            data['energy'] = self.energy
            return data

    return VerifCounterAlgorithm


def m_energy(results, psi, model, simulation):
    results['verif_energy'] = getattr(simulation.engine, 'energy', 0.0)


def workload_params(name, nsteps):
    """Simulation parameters of the named workload (all through public options)."""
    common = dict(
        save_every_x_seconds=0.,
        use_default_measurements=True,
        connect_measurements=[['harness.crash', 'm_verif']],
        connect_algorithm_checkpoint=[['harness.crash', 'ckpt_marker', {}, 100]],
    )
    prod = dict(method='lat_product_state', product_state=[['up'], ['down']])
    if name in ('dummy', 'dummy_meas'):
        p = dict(simulation_class='Simulation', model_class='XXZChain',
                 model_params=dict(L=4, bc_MPS='finite'), initial_state_params=prod,
                 algorithm_class='VerifCounterAlgorithm', algorithm_params=dict(N_steps=nsteps),
                 measure_at_algorithm_checkpoints=(name == 'dummy_meas'))
        p.update(common)
        p['connect_measurements'] = common['connect_measurements'] + [['harness.crash', 'm_energy']]
        return p
    if name.startswith('dmrg'):
        # dmrg2 / dmrg1 : two-site / single-site engine; suffix '_min1' keeps the default min_sweeps
        eng = 'SingleSiteDMRGEngine' if name.startswith('dmrg1') else 'TwoSiteDMRGEngine'
        ap = dict(trunc_params=dict(chi_max=8, svd_min=1.e-12), mixer=name.startswith('dmrg1m'),
                  max_sweeps=nsteps - 1, min_sweeps=nsteps - 1, max_E_err=0.)
        if name.endswith('_min1'):
            ap['min_sweeps'] = 1
        p = dict(simulation_class='GroundStateSearch', model_class='XXZChain',
                 model_params=dict(L=4, bc_MPS='finite', Jz=1.5, hz=0.125), initial_state_params=prod,
                 algorithm_class=eng, algorithm_params=ap, measure_at_algorithm_checkpoints=True)
        p.update(common)
        if ap['mixer']:
            p['canonicalize_before_measurement'] = True
        return p
    if name.startswith('tebd') or name.startswith('tdvp') or name.startswith('expmpo'):
        # suffix '_trunc': chi_max so small that every step truncates (non-zero trunc_err)
        chi = 2 if name.endswith('_trunc') else 16
        eng = dict(tebd='TEBDEngine', tdvp='TwoSiteTDVPEngine', tdvp1='SingleSiteTDVPEngine',
                   expmpo='ExpMPOEvolution')[name.split('_')[0]]
        ap = dict(trunc_params=dict(chi_max=chi, svd_min=1.e-12), dt=0.125, N_steps=2, max_trunc_err=None)
        if eng == 'TEBDEngine':
            ap['order'] = 2
        if eng == 'ExpMPOEvolution':
            ap.update(compression_method='SVD', approximation='II')
        p = dict(simulation_class='RealTimeEvolution', model_class='XXZChain',
                 model_params=dict(L=4, bc_MPS='finite', Jz=1.5, hz=0.125), initial_state_params=prod,
                 algorithm_class=eng, algorithm_params=ap, final_time=TSTEP * nsteps)
        p.update(common)
        return p
    raise ValueError('unknown workload %r' % name)


def summarize(results):
    """JSON-able projection of a results dictionary (what C18 compares)."""
    import numpy as np
    out = dict(finished=bool(results.get('finished_run', False)))
    meas = results.get('measurements', {})
    out['measurements'] = {}
    for key in sorted(meas):
        v = meas[key]
        try:
            arr = np.asarray(v, dtype=float)
            out['measurements'][key] = arr.tolist()
        except Exception:
            out['measurements'][key] = repr(v)
    if 'energy' in results:
        out['energy'] = float(results['energy'])
    psi = results.get('psi', None)
    if psi is not None and hasattr(psi, 'get_theta'):
        try:
            th = psi.get_theta(0, psi.L).to_ndarray().reshape(-1)
            out['psi'] = [[float(x.real), float(x.imag)] for x in th * psi.norm]
        except Exception as e:   # pragma: no cover
            out['psi_error'] = repr(e)
    rd = results.get('resume_data', None)
    if isinstance(rd, dict):
        for key in ('verif_k', 'sweeps', 'evolved_time', 'energy'):
            if key in rd:
                out['resume_' + key] = float(abs(rd[key]))
    return out


def child_main(job):
    global _MARK_FD
    import signal
    import warnings
    warnings.simplefilter('ignore')
    # do not inherit an ignored SIGINT from whoever launched the check (nohup, background job)
    signal.signal(signal.SIGINT, signal.default_int_handler)
    import tenpy
    import tenpy.tools.misc
    tenpy.tools.misc.skip_logging_setup = True
    global _COUNTER_ALG
    _COUNTER_ALG = _define_counter_algorithm()   # keep a reference: subclasses are found through weak refs
    from tenpy.simulations.simulation import run_simulation, resume_from_checkpoint
    os.chdir(job['dir'])
    _MARK_FD = os.open(job['marker'], os.O_WRONLY | os.O_APPEND)
    status = 'ok'
    res = None
    try:
        if job['mode'] == 'run':
            p = workload_params(job['workload'], job['nsteps'])
            p['output_filename'] = job['out']
            p.update(job.get('extra', {}))
            mark('start run')
            res = run_simulation(**p)
        else:
            # resume_from_checkpoint(filename=...) == load + resume_from_checkpoint(checkpoint_results=...);
            # done in two steps here so that a marker separates the system calls of the load
            mark('start resume %s' % job['resume_file'])
            from tenpy.tools import hdf5_io
            checkpoint_results = hdf5_io.load(job['resume_file'])
            mark('loaded')
            res = resume_from_checkpoint(checkpoint_results=checkpoint_results, update_sim_params=job.get('extra', None))
        mark('done')
    except KeyboardInterrupt:
        # graceful abort after SIGINT (Simulation.handle_abort_signal / save_at_checkpoint): the process ends here
        status = 'interrupted'
        mark('interrupted')
    except Exception as e:
        import traceback
        status = 'exception:%s' % type(e).__name__
        mark('exception %s' % type(e).__name__)
        with open(job['summary'] + '.err', 'w') as f:
            f.write(traceback.format_exc())
    out = dict(status=status)
    if res is not None:
        out.update(summarize(res))
    with open(job['summary'], 'w') as f:
        json.dump(out, f)


if __name__ == '__main__':
    # make sure classes / functions live in module `harness.crash`, not `__main__`
    from harness import crash as _self
    _self.child_main(json.loads(sys.argv[1]))


# --------------------------------------------------------------------------------------------
# parent side: strace wrapper, log parser, projection of surviving files
# --------------------------------------------------------------------------------------------
TRACE_SET = ('openat,creat,rename,renameat,renameat2,unlink,unlinkat,write,pwrite64,pwritev,writev,'
             'ftruncate,fallocate,close,newfstatat,stat,lstat,fsync,fdatasync')
PYTHON = '/venv/bin/python'
VERIF = os.path.dirname(os.path.dirname(os.path.abspath(__file__)))


class CrashMachineryError(Exception):
    pass


def file_names(fmt, shifted=False):
    """(output file, backup file).  shifted: the directory already holds the results `r.<fmt>` of an earlier,
    different simulation, so that fix_output_filenames moves this simulation to `r_1.<fmt>`."""
    if shifted:
        return 'r_1.' + fmt, 'r_1.backup.' + fmt
    return 'r.' + fmt, 'r.backup.' + fmt


def foreign_names(fmt, shifted=False):
    """files in the directory that belong to somebody else (the simulation must not modify them)"""
    return ['r.' + fmt, 'r.backup.' + fmt] if shifted else []


def run_child(cwd, job, kill=None, timeout=300):
    """Run the child under strace in directory `cwd`.  kill = (syscall kind, n[, signal]): the signal (default
    KILL) is delivered on entry of the n-th traced call of that kind; with KILL the call does not take effect.
    Only calls on the two result files and the marker file are traced (and counted).
    Returns (strace exit code, raw strace log text, stdout of the child)."""
    out, bak = file_names(job['fmt'], job.get('shifted'))
    job = dict(job, dir='.', marker='marker', out='r.' + job['fmt'])     # the option output_filename never changes
    log = os.path.join(cwd, 'strace.%s.log' % job['tag'])
    if not os.path.exists(os.path.join(cwd, 'marker')):
        open(os.path.join(cwd, 'marker'), 'w').close()
    cmd = ['strace', '-f', '-o', log, '-s', '48', '-e', 'trace=' + TRACE_SET]
    if kill is not None:
        cmd += ['-e', 'inject=%s:signal=%s:when=%d' % (kill[0], kill[2] if len(kill) > 2 else 'KILL', kill[1])]
    for name in [out, bak, 'marker'] + foreign_names(job['fmt'], job.get('shifted')):
        cmd += ['-P', name, '-P', os.path.join(os.path.abspath(cwd), name)]
    cmd += [PYTHON, '-W', 'ignore', '-m', 'harness.crash', json.dumps(job)]
    env = dict(os.environ)
    repo = os.environ.get('VERIF_REPO', '/repo')
    pp = [repo, VERIF]
    if env.get('VERIF_SO'):      # ./check: compiled kernels rebuilt from the tree, selected by harness/site
        pp.insert(0, os.path.join(VERIF, 'harness', 'site'))
    env.update(PYTHONPATH=':'.join(pp), PYTHONDONTWRITEBYTECODE='1', PYTHONHASHSEED='0',
               OMP_NUM_THREADS='1', MKL_NUM_THREADS='1', OPENBLAS_NUM_THREADS='1')
    try:
        p = subprocess.run(cmd, cwd=cwd, env=env, stdout=subprocess.PIPE, stderr=subprocess.STDOUT, timeout=timeout)
    except subprocess.TimeoutExpired:
        raise CrashMachineryError('child timed out: %r' % (job,))
    if not os.path.exists(log):
        raise CrashMachineryError('strace wrote no log (ptrace not permitted?): cwd=%s exists=%s kill=%r job=%r\n%s'
                                  % (cwd, os.path.isdir(cwd), kill, job, p.stdout.decode()[-500:]))
    with open(log, errors='replace') as f:
        txt = f.read()
    return p.returncode, txt, p.stdout.decode(errors='replace')


_RE_LINE = re.compile(r'^(\d+)\s+(\w+)\((.*)\)\s+= (-?\d+|\?)(.*)$')
_RE_UNFIN = re.compile(r'^(\d+)\s+(\w+)\((.*) <unfinished \.\.\.>$')
_RE_RESUMED = re.compile(r'^(\d+)\s+<\.\.\. (\w+) resumed>(.*)\)\s+= (-?\d+|\?)(.*)$')


def parse_strace(txt, fmt, shifted=False):
    """-> list of raw entries dict(kind, occ, ev) in execution order; `occ` counts the traced calls of that
    kind (what strace's when=N counts), `ev` is the normalised event or None for calls without effect
    on the abstract state (fstat on an fd, failed open without O_CREAT, flock, read-only opens ...)."""
    out, bak = file_names(fmt, shifted)
    names = {out: 'out', bak: 'bak', 'marker': 'marker'}
    for name in foreign_names(fmt, shifted):
        names[name] = 'other'      # reads are ignored, every modification becomes an event (which no spec action matches)
    fds = {}     # (pid-independent) fd -> (file, mode)
    occ = {}
    raw = []
    pending = {}
    main_pid = None
    for line in txt.split('\n'):
        if not line or '+++' in line or '--- SIG' in line:
            continue
        m = _RE_UNFIN.match(line)
        if m:
            pending[(m.group(1), m.group(2))] = m.group(3)
            continue
        m = _RE_RESUMED.match(line)
        if m:
            args = pending.pop((m.group(1), m.group(2)), '') + m.group(3)
            pid, kind, ret, rest = m.group(1), m.group(2), m.group(4), m.group(5)
        else:
            m = _RE_LINE.match(line)
            if not m:
                raise CrashMachineryError('cannot parse strace line %r' % line)
            pid, kind, args, ret, rest = m.groups()
        if main_pid is None:
            main_pid = pid
        occ[kind] = occ.get(kind, 0) + 1
        ent = dict(kind=kind, occ=occ[kind], ev=None, line=line[:160])
        raw.append(ent)
        killed = (ret == '?')
        ok = (not killed) and int(ret) >= 0

        def fname(s):
            mm = re.search(r'"([^"]*)"', s)
            if not mm:
                return None
            return names.get(os.path.basename(mm.group(1)))
        if killed:
            ent['killed'] = True
            continue
        if kind in ('newfstatat', 'stat', 'lstat'):
            if kind == 'newfstatat' and not args.startswith('AT_FDCWD'):
                continue     # fstat on a descriptor
            f = fname(args)
            if f in ('out', 'bak'):
                if any(v == (f, 'w') for v in fds.values()):
                    continue   # issued by the I/O library while it has the file open for writing (HDF5)
                ent['ev'] = dict(op='stat', f=f, r=ok)
        elif kind in ('openat', 'creat'):
            f = fname(args)
            if f is None:
                continue
            if ok:
                wr = ('O_WRONLY' in args or 'O_RDWR' in args or kind == 'creat')
                fds[int(ret)] = (f, 'w' if wr else 'r')
                if f in ('out', 'bak', 'other') and wr:
                    ent['ev'] = dict(op='open', f=f, trunc=('O_TRUNC' in args or kind == 'creat'))
        elif kind in ('write', 'pwrite64', 'pwritev', 'writev', 'ftruncate', 'fallocate'):
            fd = int(args.split(',')[0])
            f, mode = fds.get(fd, (None, None))
            if f == 'marker' and kind == 'write':
                mm = re.search(r'"([^"]*)"', args)
                text = mm.group(1).replace('\\n', '').strip()
                ent['ev'] = dict(op='marker', text=text)
            elif f in ('out', 'bak', 'other'):
                ent['ev'] = dict(op='write', f=f, n=1)
        elif kind == 'close':
            fd = int(args.split(',')[0].strip() or -1)
            f, mode = fds.pop(fd, (None, None))
            if f in ('out', 'bak', 'other') and mode == 'w':
                ent['ev'] = dict(op='close', f=f)
        elif kind in ('rename', 'renameat', 'renameat2'):
            fs = [names.get(os.path.basename(x)) for x in re.findall(r'"([^"]*)"', args)]
            if ok:
                ent['ev'] = dict(op='rename', f=fs[0], t=fs[1])
        elif kind in ('unlink', 'unlinkat'):
            f = fname(args)
            if ok and f in ('out', 'bak', 'other'):
                ent['ev'] = dict(op='unlink', f=f)
        # fsync / fdatasync: no abstract effect (durability across power loss is not modelled)
    return raw


def marker_event(text):
    """marker text -> spec-level event (or None for bookkeeping markers)."""
    w = text.split()
    if w[0] in ('meas', 'alg', 'ckpt'):
        return dict(op=w[0], k=int(w[1]))
    if w[0] == 'exception':
        return dict(op='exc', what=w[1])
    if w[0] == 'done':
        return dict(op='done')
    return None       # 'start ...'


def events_of(raw):
    """raw entries -> list of (raw index, event) with marker lines translated and consecutive writes
    on the same file merged into one event carrying the count n and the raw indices of each write."""
    evs = []
    loading = False
    for i, ent in enumerate(raw):
        ev = ent['ev']
        if ev is None:
            continue
        if ev['op'] == 'marker':
            if ev['text'].startswith('start resume'):
                loading = True       # until 'loaded': calls of hdf5_io.load on the checkpoint file (reads)
            elif ev['text'] == 'loaded':
                loading = False
            ev = marker_event(ev['text'])
            if ev is None:
                continue
        elif loading:
            if ev['op'] != 'stat':
                raise CrashMachineryError('loading a checkpoint modified a file: %r' % (ev,))
            continue
        if ev['op'] == 'write' and evs and evs[-1][1]['op'] == 'write' and evs[-1][1]['f'] == ev['f']:
            evs[-1][1]['n'] += 1
            evs[-1][1]['raws'].append(i)
            continue
        ev = dict(ev)
        if ev['op'] == 'write':
            ev['raws'] = [i]
        if ev['op'] == 'close' and evs and evs[-1][1]['op'] == 'open' and evs[-1][1]['f'] == ev['f'] \
                and not evs[-1][1]['trunc']:
            evs.pop()       # opened without truncation and closed again without a write (HDF5 probing an
            continue        # existing file before it re-opens it with O_TRUNC): no effect on the file
        evs.append((i, ev))
    if evs and evs[-1][1]['op'] == 'open' and not evs[-1][1]['trunc']:
        evs.pop()           # the same probing open, the process was killed before it closed the descriptor again:
                            # nothing was written through it, the file is unchanged (the projection confirms that)
    return evs


def project_file(path):
    """Abstraction function for one results file: what would a user find there?"""
    if not os.path.exists(path):
        return dict(st='absent')
    size = os.path.getsize(path)
    if size == 0:
        return dict(st='empty')
    from tenpy.tools import hdf5_io
    import warnings
    try:
        with warnings.catch_warnings():
            warnings.simplefilter('ignore')
            res = hdf5_io.load(path)
        if not isinstance(res, dict) or 'finished_run' not in res:
            raise ValueError('not a results dictionary')
    except BaseException as e:    # noqa  (any failure to load == not a complete file)
        if isinstance(e, (KeyboardInterrupt, SystemExit)):
            raise
        with open(path, 'rb') as f:
            head = f.read(32)
        if head.startswith(b'simulation initialized'[:len(head)]) and len(head) > 0:
            return dict(st='text', size=size)
        return dict(st='junk', size=size, err=type(e).__name__)
    s = summarize(res)
    ks = [int(x) for x in s['measurements'].get('verif_k', [])]
    k = None
    rd = res.get('resume_data', {})
    if 'verif_k' in rd:
        k = int(rd['verif_k'])
    elif 'evolved_time' in rd:
        k = int(round(float(abs(rd['evolved_time'])) / TSTEP))
    elif 'sweeps' in rd:
        k = int(rd['sweeps'])
    return dict(st='complete', k=k, ks=ks, fin=bool(res['finished_run']), size=size, summary=s)


# --------------------------------------------------------------------------------------------
# one incarnation of the process = one task of the pool
# --------------------------------------------------------------------------------------------
def _copy_state(src, dst, fmt, shifted=False):
    import shutil
    os.makedirs(dst, exist_ok=True)
    if src is None:
        return
    for name in list(file_names(fmt, shifted)) + foreign_names(fmt, shifted):
        p = os.path.join(src, name)
        if os.path.exists(p):
            shutil.copy2(p, os.path.join(dst, name))


def run_incarnation(task):
    """task: dict(dir, base (dir to copy the two files from, or None), workload, fmt, nsteps, tag,
                  mode 'run'|'resume'|'restart', resume_file 'out'|'bak' (mode resume),
                  kill (kind, occ) or None, extra (options))
    -> dict(killed, raw (list of parsed entries), events, proj {out, bak} (if killed), summary (if finished),
            status, wall)"""
    import time
    t0 = time.time()
    fmt = task['fmt']
    shifted = bool(task.get('shifted'))
    _copy_state(task.get('base'), task['dir'], fmt, shifted)
    out, bak = file_names(fmt, shifted)
    job = dict(workload=task['workload'], nsteps=task['nsteps'], fmt=fmt, tag=task['tag'], shifted=shifted,
               summary='summary.%s.json' % task['tag'])
    if task['mode'] == 'resume':
        job['mode'] = 'resume'
        job['resume_file'] = out if task['resume_file'] == 'out' else bak
        if task.get('extra'):
            job['extra'] = task['extra']
    else:
        job['mode'] = 'run'
        job['extra'] = dict(task.get('extra') or {})
        if task['mode'] == 'restart':
            job['extra']['overwrite_output'] = True
    kill = tuple(task['kill']) if task.get('kill') else None
    code, txt, stdout = run_child(task['dir'], job, kill=kill)
    raw = parse_strace(txt, fmt, shifted)
    killed = any(e.get('killed') for e in raw) or code == 137
    res = dict(killed=killed, raw=[dict(kind=e['kind'], occ=e['occ'], ev=e['ev']) for e in raw],
               exit=code, tag=task['tag'], dir=task['dir'])
    sp = os.path.join(task['dir'], job['summary'])
    if os.path.exists(sp):
        with open(sp) as f:
            res['summary'] = json.load(f)
        if os.path.exists(sp + '.err'):
            with open(sp + '.err') as f:
                res['traceback'] = f.read()[-3000:]
    elif not killed:
        raise CrashMachineryError('child neither killed nor finished: exit %s\n%s' % (code, stdout[-2000:]))
    if res.get('summary', {}).get('status') == 'interrupted':
        killed = res['killed'] = True      # the process is gone, its memory lost: for the files this is a crash
        res['interrupted'] = True
    res['proj'] = dict(out=project_file(os.path.join(task['dir'], out)),
                       bak=project_file(os.path.join(task['dir'], bak)))
    res['wall'] = time.time() - t0
    return res


def truncation_probe(path, offsets):
    """Load byte prefixes of a complete results file: -> list of (offset, projected state)."""
    import shutil
    import tempfile
    out = []
    with open(path, 'rb') as f:
        data = f.read()
    d = tempfile.mkdtemp(prefix='trunc-', dir=os.path.dirname(path))
    try:
        for off in offsets:
            p = os.path.join(d, 'p' + os.path.splitext(path)[1])
            with open(p, 'wb') as f:
                f.write(data[:off])
            pr = project_file(p)
            out.append((off, pr['st']))
    finally:
        shutil.rmtree(d, ignore_errors=True)
    return len(data), out


# --------------------------------------------------------------------------------------------
# plans: a chain of incarnations with crash points, executed sequentially by one pool worker
# --------------------------------------------------------------------------------------------
def clean_events(raw):
    return [dict((k, v) for k, v in e.items() if k != 'raws') for _, e in events_of(raw)]


def align(spec_ops, ref_raw, maxwrites, rnd):
    """Map a crash position given as the spec's operation records of one incarnation (everything the
    process did before it crashed; silent steps removed, write calls merged to (f, count)) onto the
    reference execution of that incarnation.  -> raw index of the call to kill *before*, or None if the
    recorded execution does not start with these operations (spec and code disagree: the trace
    validation of the reference run reports that) or the run would be over."""
    evs = events_of(ref_raw)
    if len(spec_ops) > len(evs):
        return None
    last_raw = -1
    for n, sop in enumerate(spec_ops):
        i, ev = evs[n]
        if sop['op'] != ev['op']:
            return None
        for key in ('f', 't', 'k', 'r'):
            if key in sop and sop[key] != ev.get(key):
                return None
        if sop['op'] == 'write':
            nw = ev['n']
            if n == len(spec_ops) - 1:
                if sop.get('last'):
                    r = nw              # the data are complete, the file is not closed
                elif nw == 1:
                    return None         # a single write call: there is no state "some, not all, data written"
                else:
                    r = 1 + rnd.randrange(nw - 1)     # some, not all, write calls done
                last_raw = ev['raws'][r - 1]
            else:
                last_raw = ev['raws'][-1]
        else:
            last_raw = i
    idx = last_raw + 1
    if idx >= len(ref_raw):
        return None
    return idx


def crash_class(events):
    """Where in the protocol did the incarnation die?  (normalised, for signatures)"""
    n_stat_init = 0
    phase = 'init'
    for e in events:
        op = e['op']
        if phase == 'init':
            if op == 'stat' and n_stat_init < 2:
                n_stat_init += 1
                continue
            if op in ('open', 'write') and e.get('f') == 'bak':
                continue
            if op == 'close' and e.get('f') == 'bak':
                phase = 'idle'
                continue
            phase = 'idle'
        if op in ('meas', 'alg', 'ckpt', 'exc', 'done'):
            phase = 'idle'
        elif op == 'stat':
            if phase in ('idle',):
                phase = 'save-begin'
            elif phase == 'closed':
                phase = 'closed' if e['r'] else 'idle'
        elif op == 'unlink':
            phase = 'idle' if phase == 'closed' else ('unlinked-bak' if e['f'] == 'bak' else 'unlinked-out')
        elif op == 'rename':
            phase = 'idle' if e.get('t') == 'out' else 'renamed'    # os.replace(bak, out) completes a save
        elif op in ('open', 'write'):
            phase = 'write'
        elif op == 'close':
            phase = 'closed'
    return phase


def execute_plan(plan):
    """Run one plan (see checks/c18.py) with real child processes.  Returns everything the parent needs:
    the combined trace, the incarnations, the final summary / projection."""
    import random
    import shutil
    import time
    t0 = time.time()
    rnd = random.Random(plan['seed'])
    root = plan['dir']
    os.makedirs(root, exist_ok=True)
    base = None
    trace = []
    incs = []
    classes = []
    nruns = 0
    mode, rf = 'run', None
    ref_raw = plan['ref0']
    shifted = bool(plan.get('shifted'))
    foreign = {}
    if shifted:
        # an earlier, different (shorter) simulation finished in this directory with the same output_filename
        pre = run_incarnation(dict(workload=plan['workload'], fmt=plan['fmt'], nsteps=1, mode='run', resume_file=None,
                                   base=None, dir=os.path.join(root, 'pre'), tag='pre'))
        nruns += 1
        if pre['killed'] or pre.get('summary', {}).get('status') != 'ok':
            raise CrashMachineryError('prelude simulation failed')
        base = pre['dir']
        foreign = _digests(base, foreign_names(plan['fmt'], True))
    n = 0
    final = None
    steps = list(plan['incs'])
    while True:
        spec_inc = steps[n] if n < len(steps) else None
        common = dict(workload=plan['workload'], fmt=plan['fmt'], nsteps=plan['nsteps'], mode=mode, resume_file=rf,
                      base=base, extra=plan.get('extra'), shifted=shifted)
        kill_idx = None
        if spec_inc is not None and (spec_inc.get('ops') is not None or spec_inc.get('raw_idx') is not None
                                     or spec_inc.get('after_save') is not None):
            if ref_raw is None:
                # reference execution of this incarnation: run it to the end on a copy
                r = run_incarnation(dict(common, dir=os.path.join(root, 'ref%d' % n), tag='ref%d' % n))
                nruns += 1
                ref_raw = r['raw']
            if spec_inc.get('after_save') is not None:
                done = [i + 1 for i, e in enumerate(ref_raw) if e['ev'] and e['ev'].get('op') == 'rename'
                        and e['ev'].get('t') == 'out']
                kill_idx = done[spec_inc['after_save'] - 1] if len(done) >= spec_inc['after_save'] else None
            elif spec_inc.get('raw_idx') is not None:
                kill_idx = spec_inc['raw_idx'] if spec_inc['raw_idx'] < len(ref_raw) else None
            else:
                kill_idx = align(spec_inc['ops'], ref_raw, plan['maxwrites'], rnd)
            if kill_idx is None:
                if n == 0:
                    if not plan.get('keep'):
                        shutil.rmtree(root, ignore_errors=True)
                    return dict(id=plan['id'], unaligned=True, nruns=nruns, incs=incs, wall=time.time() - t0)
                # a later incarnation does not do what the spec says it does before the planned crash: let it run
                # to the end, the trace validation will say where it deviates
                incs.append(dict(n=n, mode=mode, f=rf, unaligned=True))
        kill = None
        if kill_idx is not None:
            kill = (ref_raw[kill_idx]['kind'], ref_raw[kill_idx]['occ'])
            if spec_inc.get('sig'):
                kill = kill + (spec_inc['sig'],)
        r = run_incarnation(dict(common, dir=os.path.join(root, 'inc%d' % n), tag='inc%d' % n, kill=kill))
        nruns += 1
        evs = clean_events(r['raw'])
        if mode == 'resume':
            trace.append(dict(op='resume', f=rf))
        elif mode == 'restart':
            trace.append(dict(op='restart'))
        trace.extend(evs)
        info = dict(n=n, mode=mode, f=rf, kill=kill, kill_idx=kill_idx, killed=r['killed'], nevents=len(evs),
                    proj=dict((k, dict((a, b) for a, b in v.items() if a != 'summary')) for k, v in r['proj'].items()),
                    status=r.get('summary', {}).get('status'), interrupted=bool(r.get('interrupted')))
        incs.append(info)
        if not r['killed']:
            if kill is not None:
                info['kill_missed'] = True
            final = dict(summary=r.get('summary'), proj=r['proj'], traceback=r.get('traceback'))
            break
        cls = crash_class(evs)
        classes.append(cls)
        info['crash_class'] = cls
        pr = r['proj']
        trace.append(dict(op='crash', out=_proj_for_tlc(pr['out']), bak=_proj_for_tlc(pr['bak'])))
        # what next?
        base = r['dir']
        ref_raw = None
        n += 1
        loadable = [f for f in ('out', 'bak') if pr[f]['st'] == 'complete']
        if any(pr[f]['st'] == 'complete' and pr[f]['fin'] for f in ('out', 'bak')):
            fin_f = [f for f in ('out', 'bak') if pr[f]['st'] == 'complete' and pr[f]['fin']][0]
            final = dict(summary=dict(pr[fin_f]['summary'], status='ok'), proj=pr, finished_on_disk=fin_f)
            break
        want = None
        if n < len(steps):
            want = steps[n].get('f')
        else:
            want = plan.get('final_pref', 'out')
        if loadable:
            rf = want if want in loadable else loadable[0]
            if n < len(steps) and steps[n].get('mode') == 'resume' and want not in loadable:
                info['plan_resume_unavailable'] = want
            mode = 'resume'
        else:
            mode, rf = 'restart', None
        if n > 6:
            raise CrashMachineryError('plan does not terminate: %r' % (plan['id'],))
    foreign_changed = []
    if shifted and incs:
        last_dir = os.path.join(root, 'inc%d' % incs[-1]['n'])
        now = _digests(last_dir, foreign_names(plan['fmt'], True))
        foreign_changed = sorted(k for k in set(foreign) | set(now) if foreign.get(k) != now.get(k))
    if not plan.get('keep'):
        shutil.rmtree(root, ignore_errors=True)
    return dict(id=plan['id'], trace=trace, incs=incs, classes=classes, final=final, nruns=nruns,
                foreign_changed=foreign_changed, wall=time.time() - t0)


def _digests(d, names):
    import hashlib
    out = {}
    for name in names:
        p = os.path.join(d, name)
        if os.path.exists(p):
            with open(p, 'rb') as f:
                out[name] = hashlib.sha256(f.read()).hexdigest()
    return out


def _proj_for_tlc(p):
    if p['st'] == 'complete':
        return dict(st='complete', k=p['k'], fin=p['fin'], ks=p['ks'])
    return dict(st=p['st'])
