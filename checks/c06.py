"""C06: leg fusion is a lossless, consistently ordered bijection.

Stages
  MC      TLC on spec/Charges.tla (one leg, all LegCharge operations, flags, charge preservation) and on
          spec/Pipe.tla (declarative LegPipe: bijection, fusion rule, sorted/bunched, q_map order, conj,
          outer_conj, split after combine, nested pipes) over all small legs / a seeded sample of the
          full bound; the enumeration is driven through Next so all TLC workers share it.
  REPLAY  every dumped state is a self-contained behaviour (hist); it is re-executed on the real
          tenpy.linalg.charges / np_conserved objects and the last step is compared completely with what
          the spec predicts: leg data, to_qflat, flags (as implications), returned permutations/masks,
          map_incoming_flat on every index tuple, q_map, conj/outer_conj/to_LegCharge, and on tensors
          (entries 1 + C-order index) combine_legs / split_legs / sort_legcharge / as_completely_blocked /
          make_pipe.  A share of the work runs in interpreters with TENPY_NO_CYTHON=1 (pure Python kernels).
  SIM     4-leg and nested pipes over the full bound by `tlc -simulate`, replayed the same way.
"""
import hashlib
import itertools
import json
import multiprocessing
import os
import re
import shutil
import time

from harness import core, tlc, tlaval

NWORK = int(os.environ.get('VERIF_WORKERS', '16'))

# ------------------------------------------------------------------------------------------------
# collecting results inside worker processes
# ------------------------------------------------------------------------------------------------


class Col:
    """what a replay produces; merged into the Ctx by the parent process"""

    def __init__(self):
        self.cases = []      # (key, action)
        self.viol = []       # (signature, detail)
        self.samples = []
        self.notes = {}
        self.behaviours = 0

    def case(self, key, action):
        self.cases.append((key, action))

    def violation(self, sig, detail):
        self.viol.append((sig, detail))

    def note(self, k, n=1):
        self.notes[k] = self.notes.get(k, 0) + n


def _key(st):
    h = hashlib.blake2b(digest_size=10)
    h.update(repr(st['mods']).encode())
    for e in st['hist']:
        h.update(repr(sorted(e['l'].items())).encode())
    return h.hexdigest()


class Stop(Exception):
    """internal: the replay of this state ends (violation recorded or prefix diverged)"""


# ------------------------------------------------------------------------------------------------
# REPLAY: Charges (one leg)
# ------------------------------------------------------------------------------------------------
def _flag_clause(leg, a):
    """flags as implications: a cached flag may only be set when the spec says the property holds"""
    if leg.sorted and not a['is_sorted']:
        return 'flag-sorted'
    if leg.bunched and not a['is_bunched']:
        return 'flag-bunched'
    return None


def _cheap_leg(leg, a):
    from harness import legs as HL
    p = HL.proj_leg(leg)
    r = HL.plain(a)
    if p['qconj'] != r['qconj']:
        return 'qconj', p
    if p['sizes'] != r['sizes']:
        return 'block-sizes', p
    if p['charges'] != r['charges']:
        return 'charges', p
    return _flag_clause(leg, a), p


def replay_leg(st, col, corrupt=None):
    """st: a state of Charges.tla (phase 'leg' or 'done').  Re-executes st.hist on real LegCharge objects."""
    import numpy as np
    import warnings
    from harness import legs as HL
    hist = st['hist']
    mods = st['mods']
    key = _key(st)

    def fail(op, clause, n, got=None, exp=None, stop=True, **extra):
        sig = dict(kind='replay', spec='Charges', op=op, clause=clause)
        sig.update(extra)
        col.violation(sig, dict(kind='leg', step=n, state=tlaval.to_jsonable(st), got=got, expected=exp))
        if stop:
            raise Stop()

    ci = None
    L = None
    try:
        for n, h in enumerate(hist):
            l, a = h['l'], h['a']
            op = l['op']
            final = (n == len(hist) - 1)
            if corrupt and final:
                l = corrupt(l)
            res = None
            try:
                with warnings.catch_warnings():
                    warnings.simplefilter('ignore')
                    if op == 'chinfo':
                        ci = HL.chinfo(l['mod'])
                        if final:
                            _chinfo_probe(ci, l, n, fail)
                            col.case(key, 'Charges.chinfo')
                        continue
                    elif op in ('init', 'from_qind', 'from_qflat'):
                        L = HL.build_leg(ci, l, op)
                    elif op == 'sort':
                        perm, L = L.sort(bunch=l['bunch'])
                        res = ('perm', [int(x) for x in perm], list(l['perm']))
                    elif op == 'bunch':
                        idx, L = L.bunch()
                        res = ('idx', [int(x) for x in idx], list(l['idx']))
                    elif op == 'project':
                        mq, bm, L = L.project(np.array(l['mask'], dtype=bool))
                        res = ('map_qind/block_masks', ([int(x) for x in mq], [[bool(y) for y in m] for m in bm]),
                               (list(l['map_qind']), [list(m) for m in l['block_masks']]))
                    elif op == 'extend':
                        if l['int'] >= 0:
                            L = L.extend(int(l['int']))
                        else:
                            L = L.extend(HL.build_leg(ci, l, 'init'))
                    elif op == 'conj':
                        L = L.conj()
                    elif op == 'flip_charges_qconj':
                        L = L.flip_charges_qconj()
                    elif op in ('get_qindex', 'perm', 'tests', 'project_none'):
                        pass
                    else:
                        raise core.MachineryError('unknown Charges op %r' % op)
            except core.MachineryError:
                raise
            except Exception as e:  # an exception of the code under test
                if not final:
                    col.note('leg_prefix_diverged')
                    raise Stop()
                fail(op, 'exception', n, got='%s: %s' % (type(e).__name__, e), exc=type(e).__name__)
            if op in ('get_qindex', 'perm', 'tests', 'project_none'):
                if not final:
                    raise core.MachineryError('query in the middle of a behaviour')
                _leg_query(L, l, n, fail)
            clause, p = _cheap_leg(L, a)
            if clause:
                if not final:
                    col.note('leg_prefix_diverged')
                    raise Stop()
                fail(op, clause, n, got=p, exp=tlaval.to_jsonable(a))
            if final:
                if res is not None and res[1] != res[2]:
                    fail(op, res[0], n, got=res[1], exp=res[2])
                # the full observation of the leg the behaviour ends in
                o = st['obs']
                if not HL.same_data(p, st['leg']):
                    fail(op, 'leg-data', n, got=p, exp=tlaval.to_jsonable(st['leg']))
                if int(L.ind_len) != o['ind_len'] or int(L.block_number) != len(st['leg']['sizes']):
                    fail(op, 'ind_len/block_number', n, got=[int(L.ind_len), int(L.block_number)], exp=o['ind_len'])
                if [int(x) for x in L.slices] != list(o['slices']):
                    fail(op, 'slices', n, got=[int(x) for x in L.slices], exp=list(o['slices']))
                qf = [[int(c) for c in row] for row in L.to_qflat()]
                if qf != [list(c) for c in o['qflat']]:
                    fail(op, 'to_qflat', n, got=qf, exp=tlaval.to_jsonable(o['qflat']))
                got = [bool(L.is_sorted()), bool(L.is_bunched()), bool(L.is_blocked())]
                exp = [o['is_sorted'], o['is_bunched'], o['is_blocked']]
                if got != exp:
                    fail(op, 'is_sorted/is_bunched/is_blocked', n, got=got, exp=exp)
                try:
                    L.test_sanity()
                except Exception as e:
                    fail(op, 'test_sanity', n, got='%s: %s' % (type(e).__name__, e))
                col.case(key, 'Charges.' + op)
        col.behaviours += 1
    except Stop:
        pass


def _chinfo_probe(ci, l, n, fail):
    import numpy as np
    q = len(l['mod'])
    if int(ci.qnumber) != q or [int(m) for m in ci.mod] != list(l['mod']):
        fail('chinfo', 'qnumber/mod', n, got=[int(m) for m in ci.mod], exp=list(l['mod']))
    for v, w, ok in zip(l['probes'], l['make_valid'], l['check_valid']):
        arr = np.array(list(v), dtype=np.int64).reshape((q,))
        got = [int(x) for x in ci.make_valid(arr.copy())]
        if got != list(w):
            fail('chinfo', 'make_valid', n, got=dict(v=list(v), res=got), exp=list(w))
        g2 = [[int(x) for x in row] for row in ci.make_valid(np.array([list(v), list(v)], dtype=np.int64).reshape((2, q)))]
        if g2 != [list(w), list(w)]:
            fail('chinfo', 'make_valid(2D)', n, got=g2, exp=list(w))
        if bool(ci.check_valid(arr.reshape((1, q)))) != ok:
            fail('chinfo', 'check_valid', n, got=dict(v=list(v), res=not ok), exp=ok)
    z = ci.make_valid()
    if [int(x) for x in z] != [0] * q:
        fail('chinfo', 'make_valid(None)', n, got=[int(x) for x in z])


def _leg_query(L, l, n, fail):
    op = l['op']
    if op == 'get_qindex':
        first = l['first']
        for j, exp in enumerate(l['table']):
            fi = first + j
            try:
                qi, w = L.get_qindex(fi)
                got = [int(qi), int(w)]
            except IndexError:
                got = [-1, -1]
            if got != list(exp):
                at = 'ind_len' if fi == int(L.ind_len) else ('valid' if exp != [-1, -1] else 'outside')
                # (the entry for flat_index == ind_len does not end the comparison of the table)
                fail(op, 'result' if exp != [-1, -1] else 'no-IndexError', n, got=dict(flat_index=fi, res=got), exp=list(exp), at=at,
                     stop=(at != 'ind_len'))
    elif op == 'perm':
        import numpy as np
        pf = [int(x) for x in L.perm_flat_from_perm_qind(np.array(l['perm_qind'], dtype=np.intp))]
        if pf != list(l['perm_flat']):
            fail(op, 'perm_flat_from_perm_qind', n, got=pf, exp=list(l['perm_flat']))
        ones = all(int(s) == 1 for s in L.get_block_sizes())
        for name, arg, sols in (('perm_qind_from_perm_flat', l['perm_flat'], l['back']),
                                ('perm_qind_from_perm_flat(reversal)', l['reversal'], l['back_reversal'])):
            sols = [list(s) for s in sols]
            try:
                got = [int(x) for x in L.perm_qind_from_perm_flat(np.array(arg, dtype=np.intp))]
            except ValueError:
                got = 'ValueError'
            except Exception as e:
                got = type(e).__name__
            ok = (got == 'ValueError') if not sols else (got in sols)
            if not ok:
                fail(op, name, n, got=got, exp=sols if sols else 'ValueError', sizes_all_one=ones, stop=ones)
    elif op == 'project_none':
        import numpy as np
        from harness import legs as HL
        try:
            mq, bm, L0 = L.project(np.array(l['mask'], dtype=bool))
            got = ([int(x) for x in mq], len(bm), HL.proj_leg(L0))
        except Exception as e:
            fail(op, 'zero-block:project', n, got='%s: %s' % (type(e).__name__, e), exc=type(e).__name__)
        if got[0] != list(l['map_qind']) or got[1] != 0 or not HL.same_data(got[2], l) or int(L0.ind_len) != 0:
            fail(op, 'zero-block:project', n, got=got, exp=tlaval.to_jsonable(l))
        try:
            pf = [int(x) for x in L0.perm_flat_from_perm_qind(np.zeros(0, dtype=np.intp))]
        except Exception as e:
            pf = type(e).__name__
        if pf != list(l['perm_flat']):
            fail(op, 'zero-block:perm_flat_from_perm_qind', n, got=pf, exp=list(l['perm_flat']), stop=False)
        try:
            perm, Ls = L0.sort(bunch=True)
            got = ([int(x) for x in perm], [int(x) for x in Ls.get_block_sizes()])
        except Exception as e:
            got = type(e).__name__
        if got != (list(l['sort_perm']), list(l['sorted_sizes'])):
            fail(op, 'zero-block:sort', n, got=got, exp=[list(l['sort_perm']), list(l['sorted_sizes'])], stop=False)
    elif op == 'tests':
        def raises(f, *a):
            try:
                f(*a)
                return True
            except ValueError:
                return False
        got = dict(contractible_conj=raises(L.test_contractible, L.conj()),
                   equal_flip=raises(L.test_equal, L.flip_charges_qconj()),
                   contractible_self=raises(L.test_contractible, L),
                   equal_conj=raises(L.test_equal, L.conj()),
                   contractible_flip=raises(L.test_contractible, L.flip_charges_qconj()))
        exp = {k: l[k] for k in got}
        if got != exp:
            bad = sorted(k for k in got if got[k] != exp[k])
            fail(op, 'test_contractible/test_equal', n, got=got, exp=exp, which=bad[0])


# ------------------------------------------------------------------------------------------------
# REPLAY: Pipe
# ------------------------------------------------------------------------------------------------
def _cheap_pipe(cur, a):
    clause, p = _cheap_leg(cur, a)
    return ('out-' + clause if clause and not clause.startswith('flag') else clause), p


def replay_pipe(st, col, corrupt=None):
    """st: a state of Pipe.tla in phase 'pipe'."""
    import numpy as np
    import warnings
    from harness import legs as HL
    from tenpy.linalg.charges import LegPipe, LegCharge
    hist = st['hist']
    mods = st['mods']
    key = _key(st)
    P = st['pipe']
    if corrupt:
        P = corrupt(P)
    nested = bool(st['inner']['legs'])
    lastl = hist[-1]['l']
    fuse = [h['l'] for h in hist if h['l']['op'] == 'fuse'][-1]

    def fail(clause, got=None, exp=None, stop=True, **extra):
        sig = dict(kind='replay', spec='Pipe', op=lastl['op'], clause=clause, nested=nested)
        sig.update(extra)
        col.violation(sig, dict(kind='pipe', state=tlaval.to_jsonable(st), got=got, expected=exp))
        if stop:
            raise Stop()

    ci = None
    legs = []
    cur = None
    qc_before = None
    try:
        for n, h in enumerate(hist):
            l, a = h['l'], h['a']
            op = l['op']
            final = (n == len(hist) - 1)
            try:
                with warnings.catch_warnings():
                    warnings.simplefilter('ignore')
                    if op == 'chinfo':
                        ci = HL.chinfo(l['mod'])
                    elif op == 'addleg':
                        leg = HL.build_leg(ci, l)
                        if l['front']:
                            legs.insert(0, leg)
                        else:
                            legs.append(leg)
                    elif op == 'fuse':
                        cur = LegPipe(legs, qconj=l['qconj'], sort=l['sort'], bunch=l['bunch'])
                    elif op == 'conj':
                        cur = cur.conj()
                    elif op == 'outer_conj':
                        qc_before = int(cur.qconj)
                        cur = cur.outer_conj()
                    elif op == 'flip_charges_qconj':
                        cur = cur.flip_charges_qconj()
                    elif op == 'copy':
                        cur = cur.copy()
                    elif op in CONV_OPS:
                        if not final:
                            raise core.MachineryError('conversion of a pipe in the middle of a behaviour')
                        _pipe_conversion(st, cur, l, a, fail)
                        col.case(key, 'Pipe.' + op + ('(nested)' if nested else ''))
                        col.behaviours += 1
                        return
                    elif op == 'nest':
                        legs = [cur]
                        cur = None
                    else:
                        raise core.MachineryError('unknown Pipe op %r' % op)
            except (core.MachineryError, Stop):
                raise
            except Exception as e:
                if not final:
                    col.note('pipe_prefix_diverged')
                    raise Stop()
                fail('exception', got='%s: %s' % (type(e).__name__, e), exc=type(e).__name__)
            if op in ('fuse', 'conj', 'outer_conj', 'flip_charges_qconj', 'copy'):
                clause, p = _cheap_pipe(cur, a)
                if not clause and [int(x.qconj) for x in cur.legs] != list(h['inq']):
                    clause, p = 'incoming-legs', [int(x.qconj) for x in cur.legs]
                if clause:
                    if not final:
                        col.note('pipe_prefix_diverged')
                        raise Stop()
                    extra = dict(qconj_before=qc_before) if op == 'outer_conj' else {}
                    fail(clause, got=p, exp=tlaval.to_jsonable(a), **extra)
        if cur is None:
            raise core.MachineryError('state in phase pipe without a pipe')
        _full_pipe(st, P, cur, ci, fuse, lastl, fail, col)
        col.case(key, 'Pipe.' + lastl['op'] + ('(nested)' if nested else ''))
        col.behaviours += 1
    except Stop:
        pass


CONV_OPS = ('to_LegCharge', 'pipe_sort', 'pipe_bunch', 'pipe_project')


def _pipe_conversion(st, cur, l, a, fail):
    """to_LegCharge / sort / bunch / project of a pipe: a plain LegCharge comes back, the pipe is untouched"""
    import numpy as np
    from harness import legs as HL
    from tenpy.linalg.charges import LegPipe, LegCharge
    op = l['op']
    before = HL.proj_leg(cur)
    legs_before = [HL.proj_leg(x) for x in cur.legs]
    res = None
    if op == 'to_LegCharge':
        R = cur.to_LegCharge()
    elif op == 'pipe_sort':
        perm, R = cur.sort(bunch=l['bunch'])
        res = ('perm', [int(x) for x in perm], list(l['perm']))
    elif op == 'pipe_bunch':
        idx, R = cur.bunch()
        res = ('idx', [int(x) for x in idx], list(l['idx']))
    else:
        mq, bm, R = cur.project(np.array(l['mask'], dtype=bool))
        res = ('map_qind/block_masks', ([int(x) for x in mq], [[bool(y) for y in m] for m in bm]),
               (list(l['map_qind']), [list(m) for m in l['block_masks']]))
    if type(R) is not LegCharge:
        fail('result-type', got=type(R).__name__, exp='LegCharge')
    clause, p = _cheap_leg(R, a)
    if clause:
        fail(clause, got=p, exp=tlaval.to_jsonable(a))
    if res is not None and res[1] != res[2]:
        fail(res[0], got=res[1], exp=res[2])
    o = st['obs']
    if not HL.same_data(p, st['leg']) or int(R.ind_len) != o['ind_len'] or [int(x) for x in R.slices] != list(o['slices']):
        fail('leg-data', got=p, exp=tlaval.to_jsonable(st['leg']))
    qf = [[int(c) for c in row] for row in R.to_qflat()]
    if qf != [list(c) for c in o['qflat']]:
        fail('to_qflat', got=qf, exp=tlaval.to_jsonable(o['qflat']))
    got = [bool(R.is_sorted()), bool(R.is_bunched()), bool(R.is_blocked())]
    if got != [o['is_sorted'], o['is_bunched'], o['is_blocked']]:
        fail('is_sorted/is_bunched/is_blocked', got=got, exp=[o['is_sorted'], o['is_bunched'], o['is_blocked']])
    try:
        R.test_sanity()
    except Exception as e:
        fail('test_sanity', got='%s: %s' % (type(e).__name__, e))
    if not isinstance(cur, LegPipe) or HL.proj_leg(cur) != before or [HL.proj_leg(x) for x in cur.legs] != legs_before:
        fail('pipe-changed', got=HL.proj_leg(cur), exp=before)


def _full_pipe(st, P, cur, ci, fuse, lastl, fail, col):
    import numpy as np
    import warnings
    from harness import legs as HL
    from tenpy.linalg.charges import LegPipe, LegCharge
    from tenpy.linalg import np_conserved as npc
    mods = st['mods']
    I, F = st['inner'], st['full']
    nested = bool(I['legs'])
    n = len(P['legs'])
    if not isinstance(cur, LegPipe):
        fail('not-a-LegPipe', got=type(cur).__name__)
    # a. incoming legs
    if cur.nlegs != n or len(cur.legs) != n:
        fail('nlegs', got=cur.nlegs, exp=n)
    for k in range(n):
        p = HL.proj_leg(cur.legs[k])
        if not HL.same_data(p, P['legs'][k]):
            fail('incoming-legs', got=p, exp=tlaval.to_jsonable(P['legs'][k]), leg=k)
    lens = [sum(r['sizes']) for r in P['legs']]
    N = int(np.prod(lens)) if lens else 1
    if tuple(cur.subshape) != tuple(lens) or tuple(cur.subqshape) != tuple(len(r['sizes']) for r in P['legs']):
        fail('subshape/subqshape', got=[list(cur.subshape), list(cur.subqshape)], exp=lens)
    # b. outgoing leg
    pout = HL.proj_leg(cur)
    if not HL.same_data(pout, P['out']):
        fail('out-data', got=pout, exp=tlaval.to_jsonable(P['out']))
    if int(cur.ind_len) != len(P['map']) or int(cur.ind_len) != N:
        fail('ind_len', got=int(cur.ind_len), exp=len(P['map']))
    if [int(x) for x in cur.slices] != HL.slices_of(P['out']['sizes']) or int(cur.block_number) != len(P['out']['sizes']):
        fail('slices', got=[int(x) for x in cur.slices], exp=HL.slices_of(P['out']['sizes']))
    qf = [[int(c) for c in row] for row in cur.to_qflat()]
    if qf != HL.qflat_of(P['out'], len(mods)):
        fail('to_qflat', got=qf, exp=HL.qflat_of(P['out'], len(mods)))
    # c. truth of the properties the flags talk about
    t = P['truth']
    got = [bool(cur.is_sorted()), bool(cur.is_bunched()), bool(cur.is_blocked())]
    if got != [t['sorted'], t['bunched'], t['blocked']]:
        fail('is_sorted/is_bunched/is_blocked', got=got, exp=[t['sorted'], t['bunched'], t['blocked']])
    if lastl['op'] == 'fuse':
        if fuse['sort'] and not cur.is_sorted():
            fail('sort-requested-not-sorted')
        if fuse['bunch'] and not cur.is_bunched():
            fail('bunch-requested-not-bunched')
    # d. the index map on every incoming index tuple
    pm = P['map']
    for f, idx in enumerate(itertools.product(*[range(x) for x in lens])):
        try:
            g = int(cur.map_incoming_flat(list(idx)))
        except Exception as e:
            fail('map_incoming_flat', got='%s: %s' % (type(e).__name__, e), exp=pm[f], exc=type(e).__name__)
        if g != pm[f]:
            fail('map_incoming_flat', got=dict(incoming=list(idx), out=g), exp=pm[f])
    # e. q_map / q_map_slices as documented in the class doc-string
    qm = [[int(x) for x in row] for row in np.asarray(cur.q_map)]
    if qm != [list(r) for r in P['qmap']]:
        fail('q_map', got=qm, exp=tlaval.to_jsonable(P['qmap']))
    if [int(x) for x in cur.q_map_slices] != list(P['qslices']):
        fail('q_map_slices', got=[int(x) for x in cur.q_map_slices], exp=list(P['qslices']))
    # f. to_LegCharge
    tl = cur.to_LegCharge()
    if type(tl) is not LegCharge or not HL.same_data(HL.proj_leg(tl), P['out']) or _flag_clause(tl, dict(is_sorted=t['sorted'], is_bunched=t['bunched'])):
        fail('to_LegCharge', got=HL.proj_leg(tl), exp=tlaval.to_jsonable(P['out']))
    try:
        cur.test_sanity()
    except Exception as e:
        fail('test_sanity', got='%s: %s' % (type(e).__name__, e))
    # conj() must give a leg this one can be contracted with, outer_conj() an equal one (implementation's own test)
    with warnings.catch_warnings():
        warnings.simplefilter('ignore')
        try:
            cur.test_contractible(cur.conj())
        except ValueError as e:
            fail('test_contractible(conj)', got=str(e)[:200])
    # i. tensors
    _tensor_pipe(st, P, cur, ci, fuse, lastl, fail, col)


def _tensor_pipe(st, P, cur, ci, fuse, lastl, fail, col):
    import numpy as np
    from harness import legs as HL
    from tenpy.linalg.charges import LegPipe, LegCharge
    from tenpy.linalg import np_conserved as npc
    mods = st['mods']
    I, F = st['inner'], st['full']
    nested = bool(I['legs'])
    frecs = F['legs'] if nested else P['legs']
    fmap = F['map'] if nested else P['map']
    n = len(frecs)
    lens = [sum(r['sizes']) for r in frecs]
    N = int(np.prod(lens))
    if N == 0:
        col.note('tensor_skipped_empty')
        return
    if N != len(fmap):
        raise core.MachineryError('composed map has wrong length')
    effs = HL.eff_flat(P['out'], mods)            # effective charge of every outgoing index (spec data)
    U = sorted(set(effs))
    uidx = {u: j for j, u in enumerate(U)}
    E = LegCharge.from_qflat(ci, np.array(U, dtype=np.int64).reshape(len(U), len(mods)), qconj=-1)
    fl = [HL.build_leg(ci, r) for r in frecs]
    data = np.zeros((N, len(U)), dtype=np.int64)
    exp = np.zeros((N, len(U)), dtype=np.int64)
    for f in range(N):
        j = uidx[effs[fmap[f]]]
        data[f, j] = 1 + f                        # val[i_1..i_n] = 1 + C-order flat index
        exp[fmap[f], j] = 1 + f                   # where the spec's map places it
    data = data.reshape(lens + [len(U)])
    try:
        A = npc.Array.from_ndarray(data, fl + [E], dtype=np.int64)
    except ValueError as e:
        fail('tensor-charge-rule', got=str(e)[:300])
    op = lastl['op']

    def dense(X, what):
        try:
            X.test_sanity()
        except Exception as e:
            extra = dict(qconj_before=-int(P['out']['qconj'])) if op == 'outer_conj' else {}
            fail(what + ':test_sanity', got='%s: %s' % (type(e).__name__, str(e)[:200]), **extra)
        return X.to_ndarray()

    try:
        if not nested:
            B = A.combine_legs(list(range(n)), pipes=[cur])
            kin = None
        else:
            ni, no = len(I['legs']), len(P['legs'])
            off = 0 if I['pos'] == 1 else no - 1
            kin = 0 if I['pos'] == 1 else no - 1
            inner_obj = cur.legs[kin]
            if not isinstance(inner_obj, LegPipe):
                fail('nested-leg-not-a-pipe', got=type(inner_obj).__name__)
            A1 = A.combine_legs(list(range(off, off + ni)), pipes=[inner_obj])
            B = A1.combine_legs(list(range(no)), pipes=[cur])
    except Stop:
        raise
    except Exception as e:
        fail('combine_legs', got='%s: %s' % (type(e).__name__, str(e)[:300]), exc=type(e).__name__)
    Bd = dense(B, 'combine_legs')
    if Bd.shape != exp.shape or not np.array_equal(Bd, exp):
        fail('combine_legs', got=Bd.tolist(), exp=exp.tolist())
    if B.legs[0] is not cur and not (isinstance(B.legs[0], LegPipe) and HL.same_data(HL.proj_leg(B.legs[0]), P['out'])):
        fail('combine_legs:leg', got=HL.proj_leg(B.legs[0]))
    try:
        S = B.split_legs(0)
        if nested:
            S = S.split_legs(kin)
    except Exception as e:
        fail('split_legs', got='%s: %s' % (type(e).__name__, str(e)[:300]), exc=type(e).__name__)
    Sd = dense(S, 'split_legs')
    if Sd.shape != data.shape or not np.array_equal(Sd, data):
        fail('split_legs', got=Sd.tolist(), exp=data.tolist())
    for k in range(n):
        if not HL.same_data(HL.proj_leg(S.legs[k]), frecs[k]):
            fail('split_legs:legs', got=HL.proj_leg(S.legs[k]), exp=tlaval.to_jsonable(frecs[k]), leg=k)
    if op != 'fuse':
        return
    # make_pipe, and combine_legs building its own pipe (default sort=True, bunch=True)
    src = A1 if nested else A
    k = len(P['legs'])
    try:
        P2 = src.make_pipe(list(range(k)), qconj=fuse['qconj'], sort=fuse['sort'], bunch=fuse['bunch'])
    except Exception as e:
        fail('make_pipe', got='%s: %s' % (type(e).__name__, str(e)[:300]))
    if not HL.same_data(HL.proj_leg(P2), P['out']) or [[int(x) for x in r] for r in np.asarray(P2.q_map)] != [list(r) for r in P['qmap']]:
        fail('make_pipe', got=HL.proj_leg(P2), exp=tlaval.to_jsonable(P['out']))
    if fuse['sort'] and fuse['bunch']:
        B2 = src.combine_legs(list(range(k)), qconj=fuse['qconj'])
        B2d = dense(B2, 'combine_legs(default pipe)')
        if not np.array_equal(B2d, exp) or not HL.same_data(HL.proj_leg(B2.legs[0]), P['out']):
            fail('combine_legs(default pipe)', got=B2d.tolist(), exp=exp.tolist())
    if not nested:
        # a given pipe is conjugated by combine_legs when the legs of the tensor point the other way
        try:
            Bc = A.conj().combine_legs(list(range(n)), pipes=[cur])
        except Exception as e:
            fail('combine_legs(conj tensor)', got='%s: %s' % (type(e).__name__, str(e)[:300]), exc=type(e).__name__)
        Bcd = dense(Bc, 'combine_legs(conj tensor)')
        pc = HL.proj_leg(Bc.legs[0])
        want = HL.plain(P['out'])
        if not np.array_equal(Bcd, exp) or pc['qconj'] != -want['qconj'] or pc['charges'] != want['charges'] \
                or pc['sizes'] != want['sizes'] or not isinstance(Bc.legs[0], LegPipe) \
                or [int(l.qconj) for l in Bc.legs[0].legs] != [-int(r['qconj']) for r in P['legs']]:
            fail('combine_legs(conj tensor)', got=dict(leg=pc, data=Bcd.tolist()), exp=dict(leg=want, data=exp.tolist()))
    if not nested:
        _operator_pipe(mods, P, cur, ci, fl, effs, fmap, fail, col)
        _flipped_leg_pipe(P, cur, A, fl, E, exp, fail, dense)
    if nested or n != 1 or fuse['qconj'] != P['legs'][0]['qconj']:
        return
    # one leg, same direction: sort_legcharge / as_completely_blocked are this pipe in disguise
    so, bu = fuse['sort'], fuse['bunch']
    if not so and not bu:
        # nothing requested: identity permutations, the same tensor
        try:
            perms, cp = A.sort_legcharge(sort=False, bunch=False)
            ok = [[int(x) for x in q] for q in perms] == [list(range(N)), list(range(len(U)))] and np.array_equal(cp.to_ndarray(), A.to_ndarray())
            got = [[int(x) for x in q] for q in perms]
        except Exception as e:
            ok, got = False, '%s: %s' % (type(e).__name__, str(e)[:200])
        if not ok:
            fail('sort_legcharge(False,False)', got=got, stop=False)
    if so and not bu:
        # the documented "perm" form: sort = [perm, False] applies the given permutation to that leg;
        # with the inverse of the spec's map as perm the result is the tensor the spec places (exp)
        inv = [0] * N
        for f in range(N):
            inv[fmap[f]] = f
        try:
            perms, cp = A.sort_legcharge(sort=[np.array(inv, dtype=np.intp), False], bunch=False)
            ok = [int(x) for x in perms[0]] == inv and np.array_equal(cp.to_ndarray(), exp)
            got = cp.to_ndarray().tolist()
        except Exception as e:
            ok, got = False, '%s: %s' % (type(e).__name__, str(e)[:200])
        if not ok:
            fail('sort_legcharge(perm)', got=got, exp=exp.tolist(), stop=False)
    if so or bu:
        try:
            perms, cp = A.sort_legcharge(sort=[so, False], bunch=[bu, False])
        except Exception as e:
            fail('sort_legcharge', got='%s: %s' % (type(e).__name__, str(e)[:300]))
        cpd = dense(cp, 'sort_legcharge')
        p0 = [int(x) for x in perms[0]]
        # relation with the spec's map: result[map[f]] = original[f]  <=>  perm[map[f]] = f
        if len(p0) != N or any(p0[fmap[f]] != f for f in range(N)) or [int(x) for x in perms[1]] != list(range(len(U))):
            fail('sort_legcharge:perm', got=p0, exp=dict(map=list(fmap)))
        if not np.array_equal(cpd, exp) or not np.array_equal(cpd, A.to_ndarray()[np.ix_(*perms)]):
            fail('sort_legcharge:data', got=cpd.tolist(), exp=exp.tolist())
        if type(cp.legs[0]) is not LegCharge or not HL.same_data(HL.proj_leg(cp.legs[0]), P['out']) \
                or _flag_clause(cp.legs[0], dict(is_sorted=P['truth']['sorted'], is_bunched=P['truth']['bunched'])):
            fail('sort_legcharge:leg', got=HL.proj_leg(cp.legs[0]), exp=tlaval.to_jsonable(P['out']))
    if so and bu:
        rows = [tuple(c) for c in P['legs'][0]['charges']]
        blocked = len(set(rows)) == len(rows)
        try:
            enc, Bc = A.as_completely_blocked()
        except Exception as e:
            fail('as_completely_blocked', got='%s: %s' % (type(e).__name__, str(e)[:300]))
        if blocked:
            if list(enc) != [] or Bc is not A:
                fail('as_completely_blocked', got=list(enc), exp=[])
        else:
            Bcd = dense(Bc, 'as_completely_blocked')
            if list(enc) != [0] or not np.array_equal(Bcd, exp) or not HL.same_data(HL.proj_leg(Bc.legs[0]), P['out']):
                fail('as_completely_blocked', got=dict(enc=list(enc), data=Bcd.tolist()), exp=exp.tolist())
            back = Bc.split_legs(list(enc))
            if not np.array_equal(back.to_ndarray(), A.to_ndarray()):
                fail('as_completely_blocked:split', got=back.to_ndarray().tolist())


OP_MAXN, OP_MAXROWS = 16, 9


def _operator_pipe(mods, P, cur, ci, fl, effs, fmap, fail, col):
    """two pipes in one tensor (spec: OpTensor / SplitManyOK): O over ket legs and conjugated bra legs with the
    non-positive entries OpVal; combine both sides, then split_legs with the axes in every order, by index and
    by label, and with a cutoff below the smallest non-zero |entry|: always the original tensor."""
    import numpy as np
    from harness import legs as HL
    from tenpy.linalg import np_conserved as npc
    n = len(fl)
    N = len(fmap)
    if N == 0 or N > OP_MAXN or len(P['qmap']) > OP_MAXROWS:
        col.note('operator_test_skipped_large')
        return
    lens = [int(l.ind_len) for l in fl]
    O = np.zeros((N, N), dtype=np.int64)
    for f in range(N):
        for g in range(N):
            if effs[fmap[f]] == effs[fmap[g]] and (f + g + 2) % 3 != 0:      # spec OpVal with 1-based f, g
                O[f, g] = -(f * N + g + 1)
    M = np.zeros((N, N), dtype=np.int64)
    for f in range(N):
        for g in range(N):
            M[fmap[f], fmap[g]] = O[f, g]
    ket = ['p%d' % k for k in range(n)]
    bra = [x + '*' for x in ket]
    try:
        T = npc.Array.from_ndarray(O.reshape(lens + lens), fl + [l.conj() for l in fl], dtype=np.int64, labels=ket + bra)
        C = T.combine_legs([ket, bra], pipes=[cur, cur.conj()])
        C.test_sanity()
    except Exception as e:
        fail('two-pipes:combine_legs', got='%s: %s' % (type(e).__name__, str(e)[:300]), exc=type(e).__name__)
    if not np.array_equal(C.to_ndarray(), M):
        fail('two-pipes:combine_legs', got=C.to_ndarray().tolist(), exp=M.tolist())
    lk, lb = C.get_leg_labels()
    dense0 = O.reshape(lens + lens)
    for what, axes, kw in (('index order [0,1]', [0, 1], {}), ('index order [1,0]', [1, 0], {}),
                           ('label order ket,bra', [lk, lb], {}), ('label order bra,ket', [lb, lk], {}),
                           ('all pipes, cutoff', None, dict(cutoff=0.5)), ('label order bra,ket, cutoff', [lb, lk], dict(cutoff=0.5))):
        cut = 'cutoff' in kw
        try:
            S = C.split_legs(axes, **kw)
            S.test_sanity()
            Sd = S.to_ndarray()
        except Exception as e:
            fail('two-pipes:split_legs', got='%s: %s' % (type(e).__name__, str(e)[:300]), exc=type(e).__name__, how=what, cutoff=cut)
        if Sd.shape != dense0.shape or not np.array_equal(Sd, dense0):
            fail('two-pipes:split_legs', got=dict(axes=str(axes), data=Sd.reshape(N, N).tolist()), exp=O.tolist(), how=what, cutoff=cut)
        if S.get_leg_labels() != ket + bra:
            fail('two-pipes:split_legs:labels', got=S.get_leg_labels(), exp=ket + bra, how=what)
        for k in range(2 * n):
            try:
                S.legs[k].test_equal(T.legs[k])
            except ValueError:
                fail('two-pipes:split_legs:legs', got=HL.proj_leg(S.legs[k]), exp=HL.proj_leg(T.legs[k]), how=what)
    # the same for the tensor without any stored block: legs, shape and labels come back in the original order
    try:
        Z = npc.zeros(list(T.legs), dtype=np.int64, labels=ket + bra)
        Zc = Z.combine_legs([ket, bra], pipes=[cur, cur.conj()])
    except Exception as e:
        fail('two-pipes:zero tensor:combine_legs', got='%s: %s' % (type(e).__name__, str(e)[:300]), exc=type(e).__name__)
    if Zc.shape != (N, N) or Zc.stored_blocks != 0:
        fail('two-pipes:zero tensor:combine_legs', got=[list(Zc.shape), int(Zc.stored_blocks)], exp=[N, N])
    for what, axes in (('index order [0,1]', [0, 1]), ('index order [1,0]', [1, 0]), ('label order bra,ket', [lb, lk]), ('all pipes', None)):
        try:
            S = Zc.split_legs(axes)
            S.test_sanity()
            Sd = S.to_ndarray()
        except Exception as e:
            fail('two-pipes:zero tensor:split_legs', got='%s: %s' % (type(e).__name__, str(e)[:300]), exc=type(e).__name__, how=what)
        if tuple(S.shape) != tuple(lens + lens) or Sd.shape != dense0.shape or Sd.any():
            fail('two-pipes:zero tensor:split_legs', got=dict(axes=str(axes), shape=list(S.shape)), exp=lens + lens, how=what)
        if S.get_leg_labels() != ket + bra or len(S.legs) != 2 * n:
            fail('two-pipes:zero tensor:split_legs:labels', got=S.get_leg_labels(), exp=ket + bra, how=what)
        for k in range(2 * n):
            try:
                S.legs[k].test_equal(T.legs[k])
            except ValueError:
                fail('two-pipes:zero tensor:split_legs:legs', got=HL.proj_leg(S.legs[k]), exp=HL.proj_leg(T.legs[k]), how=what, leg=k)
    # new_axes counted from the end, given as a tuple (as tenpy.algorithms.network_contractor does)
    try:
        C2 = T.combine_legs([ket, bra], new_axes=(-2, -1), pipes=[cur, cur.conj()])
        ok = np.array_equal(C2.to_ndarray(), M) and C2.get_leg_labels() == [lk, lb]
        got = C2.get_leg_labels()
    except Exception as e:
        ok, got = False, '%s: %s' % (type(e).__name__, str(e)[:200])
    if not ok:
        fail('combine_legs(new_axes tuple)', got=got, stop=False)
    col.note('operator_tests')


def _flipped_leg_pipe(P, cur, A, fl, E, exp, fail, dense):
    """a given pipe is compatible with every tensor whose legs are test_equal to the pipe's legs -- also when the
    first leg is written the other way round (flip_charges_qconj: same charges, opposite qconj and signs)"""
    import numpy as np
    from tenpy.linalg import np_conserved as npc
    n = len(fl)
    legs2 = [fl[0].flip_charges_qconj()] + fl[1:] + [E]
    try:
        A2 = npc.Array.from_ndarray(A.to_ndarray(), legs2, dtype=np.int64)
        B2 = A2.combine_legs(list(range(n)), pipes=[cur])
    except Exception as e:
        fail('combine_legs(flipped first leg)', got='%s: %s' % (type(e).__name__, str(e)[:200]), exc=type(e).__name__, stop=False)
        return
    B2d = dense(B2, 'combine_legs(flipped first leg)')
    if not np.array_equal(B2d, exp):
        fail('combine_legs(flipped first leg)', got=B2d.tolist(), exp=exp.tolist())


# ------------------------------------------------------------------------------------------------
# parallel replay of a state dump
# ------------------------------------------------------------------------------------------------
_HDR = re.compile(rb'^State \d+:.*$', re.M)


def chunks_of(path, nchunks):
    size = os.path.getsize(path)
    if size == 0:
        return []
    step = max(size // nchunks, 1 << 16)
    cuts = [0]
    with open(path, 'rb') as f:
        pos = step
        while pos < size:
            f.seek(pos)
            buf = f.read(1 << 16)
            m = _HDR.search(buf)
            while m is None and f.tell() < size:
                more = f.read(1 << 16)
                if not more:
                    break
                buf += more
                m = _HDR.search(buf)
            if m is None:
                break
            cuts.append(pos + m.start())
            pos = pos + m.start() + step
    cuts.append(size)
    return [(cuts[i], cuts[i + 1]) for i in range(len(cuts) - 1) if cuts[i + 1] > cuts[i]]


def _init_worker(no_cython):
    if no_cython:
        os.environ['TENPY_NO_CYTHON'] = '1'
    import tenpy.linalg.np_conserved  # noqa: F401  (import once per process)


def _work(args):
    path, beg, end, kind, sample_mod, sample_off = args
    col = Col()
    with open(path, 'rb') as f:
        f.seek(beg)
        txt = f.read(end - beg).decode()
    ms = list(tlaval._STATE_HDR.finditer(txt))
    for j, m in enumerate(ms):
        e = ms[j + 1].start() if j + 1 < len(ms) else len(txt)
        body = txt[m.end():e]
        pm = re.search(r'/\\ phase = "(\w+)"', body)
        phase = pm.group(1) if pm else None
        if kind == 'pipe' and phase not in ('pipe', 'done'):
            continue
        if kind == 'leg' and phase not in ('new', 'leg', 'done'):
            continue
        if sample_mod > 1 and (beg + m.start() + sample_off) % sample_mod != 0:
            col.note('states_not_sampled')
            continue
        st = tlaval.parse_state(body.strip())
        if kind == 'pipe':
            replay_pipe(st, col)
        else:
            replay_leg(st, col)
        if len(col.samples) < 1 and len(st['hist']) >= 3:
            col.samples.append(dict(spec='Pipe' if kind == 'pipe' else 'Charges',
                                    behaviour=tlaval.to_jsonable([h['l'] for h in st['hist']])))
    import tenpy.linalg.charges as tc
    col.notes_kernel = 'python' if os.environ.get('TENPY_NO_CYTHON') else 'compiled'
    col.kernel_check = getattr(tc.LegPipe._init_from_legs, '__module__', '?')
    return col


class Pools:
    """two process pools: compiled kernels and TENPY_NO_CYTHON=1 (the parent never imports tenpy)"""

    def __init__(self, nproc):
        mp = multiprocessing.get_context('fork')
        npy = max(1, nproc // 4)
        self.nc = max(1, nproc - npy)
        self.npy = npy
        self.pc = mp.Pool(self.nc, initializer=_init_worker, initargs=(False,))
        self.pp = mp.Pool(self.npy, initializer=_init_worker, initargs=(True,))

    def close(self):
        for p in (self.pc, self.pp):
            p.terminate()
            p.join()

    def replay_dump(self, ctx, path, kind, sample_mod=1):
        chunks = chunks_of(path, 6 * (self.nc + self.npy))
        jobs = []
        for i, (b, e) in enumerate(chunks):
            args = (path, b, e, kind, sample_mod, ctx.seed)
            # every 5th chunk goes to the pure-Python interpreters
            pool = self.pp if i % 5 == 4 else self.pc
            jobs.append((pool.apply_async(_work, (args,)), pool is self.pp))
        tot = dict(compiled=0, python=0)
        for j, is_py in jobs:
            try:
                col = j.get(timeout=3000)
            except multiprocessing.TimeoutError:
                raise core.MachineryError('replay worker did not finish (crashed interpreter?)')
            merge(ctx, col)
            tot['python' if is_py else 'compiled'] += col.behaviours
            if (col.notes_kernel == 'python') != (is_py or bool(os.environ.get('TENPY_NO_CYTHON'))):
                raise core.MachineryError('worker ran with the wrong kernel configuration')
        return tot


def merge(ctx, col):
    for key, action in col.cases:
        ctx.case(key + action, action=action)
    for sig, detail in col.viol:
        ctx.violation(sig, detail)
    for s in col.samples:
        ctx.sample(s)
    for k, v in col.notes.items():
        ctx.notes[k] = ctx.notes.get(k, 0) + v
    ctx.trace_ok(col.behaviours)


# ------------------------------------------------------------------------------------------------
# configurations
# ------------------------------------------------------------------------------------------------
CH_INV = ['ChargeInfoLaws', 'ChargePreserved', 'FlagsTruthful', 'LegValid', 'ConjContractible', 'OpPost']
CH_PROP = ['ShortCutSound']
P_INV = ['PipeBijection', 'FusionRule', 'OutValid', 'SortedOut', 'BunchedOut', 'BlockedOut', 'OutFlagsTruthful',
         'QMapOrdered', 'MapIsKeyRank', 'ConjKeepsContractible', 'OuterConjKeepsEffectiveCharge', 'SplitAfterCombine',
         'NestedOK', 'SplitManyOK', 'ConvPost', 'ChargePreserved', 'FlagsTruthful', 'LegValid']
P_PROP = ['PostKeeps', 'ConvKeepsPipe']

CH_DEFAULT = dict(U1Win='<-WinSym', Seed=0, ModsSet='<-ModsQ0', CBlk=1, CSizes={1}, CRate=1, XBlk=1, XSizes={1}, XRate=1,
                  XInts={1}, MaskRate=1, QRate=1, MaxOps=0)


def charges_cfg(seed, **kw):
    c = dict(CH_DEFAULT)
    c.update(Seed=seed)
    c.update(kw)
    return dict(init='CInit', next='CNext', constants=c, invariants=CH_INV, properties=CH_PROP, view='CView')


def pipe_cfg(seed, profiles, maxpost=1, postrate=1, maxnest=0, nestrate=1, declmax=36, win='WinSym', nestmax=12, nestn=2, nestlegrate=20,
             convrate=1, opmax=6):
    c = dict(CH_DEFAULT)
    c.update(Seed=seed, U1Win='<-' + win, Profiles='<-' + profiles, MaxPost=maxpost, PostRate=postrate, MaxNest=maxnest,
             NestRate=nestrate, DeclMax=declmax, NestMax=nestmax, NestN=nestn, NestLegRate=nestlegrate, ConvRate=convrate, OpMax=opmax)
    return dict(init='PInit', next='PNext', constants=c, invariants=P_INV, properties=P_PROP, view='PView')


def mc_stage(ctx, pools, name, spec, cfg, kind, sample_mod=1, timeout=1800):
    t0 = time.time()
    res, dump, d = tlc.mc(spec, cfg, dump=True, workers=NWORK, timeout=timeout)
    try:
        ctx.add_mc(name, res)
        if res.violated:
            ctx.violation(dict(kind='mc', spec=spec, invariant=res.violated[0], run=name),
                          dict(trace=tlaval.to_jsonable(res.error_trace)))
        t1 = time.time()
        tot = pools.replay_dump(ctx, dump, kind, sample_mod=sample_mod)
        ctx.notes.setdefault('stages', []).append(dict(name=name, states=res.distinct, tlc_s=round(t1 - t0, 1),
                                                       replay_s=round(time.time() - t1, 1), replayed=tot))
    finally:
        shutil.rmtree(d, ignore_errors=True)
    return res


def sim_stage(ctx, name, cfg, num, depth, seed):
    """-simulate: every pipe state of every random behaviour is replayed (in this process)."""
    t0 = time.time()
    res, traces, d = tlc.simulate('Pipe', cfg, num=num, depth=depth, seed=seed, workers=min(NWORK, 4))
    try:
        col = Col()
        for tr in traces:
            for act, st in tr:
                if st.get('phase') in ('pipe', 'done'):
                    replay_pipe(st, col)
        merge(ctx, col)
        ctx.notes.setdefault('stages', []).append(dict(name=name, traces=len(traces), wall_s=round(time.time() - t0, 1),
                                                       replayed=col.behaviours))
    finally:
        shutil.rmtree(d, ignore_errors=True)


def canary_corrupt(ctx):
    """corrupt one predicted value of a behaviour: the replay has to reject it (binding self-test)."""
    res, dump, d = tlc.mc('Pipe', pipe_cfg(ctx.seed, 'CanaryProfiles', maxpost=0), dump=True, workers=2, coverage=False)
    try:
        sts = [s for s in tlaval.iter_dump(dump) if s['phase'] == 'pipe' and len(s['pipe']['map']) >= 4]
    finally:
        shutil.rmtree(d, ignore_errors=True)
    if not sts:
        raise core.MachineryError('canary: no pipe state')
    st = sts[len(sts) // 2]
    good = Col()
    replay_pipe(st, good)

    def swap(P):
        P = dict(P)
        m = list(P['map'])
        i = m.index(0)
        j = m.index(1)
        m[i], m[j] = m[j], m[i]
        P['map'] = m
        return P
    bad = Col()
    replay_pipe(st, bad, corrupt=swap)
    hit = lambda c: [v for v in c.viol if v[0]['clause'] == 'map_incoming_flat']
    if hit(good) or not hit(bad):
        raise core.MachineryError('canary: corrupted expectation not rejected (good=%d bad=%d)' % (len(hit(good)), len(hit(bad))))
    ctx.notes['canary_corrupted_map_rejected'] = hit(bad)[0][0]['clause']


_PRELOADED = {}


def _preload_replay(argv):
    """core.Ctx removes the replay files of earlier runs of the property when it is created -- also the one
    named by --replay when it lives in evidence/replays.  Read it before the context exists."""
    for i, a in enumerate(argv):
        path = None
        if a == '--replay' and i + 1 < len(argv):
            path = argv[i + 1]
        elif a.startswith('--replay='):
            path = a.split('=', 1)[1]
        if path and os.path.exists(path):
            with open(path) as f:
                _PRELOADED[path] = json.load(f)


def do_replay_file(ctx):
    if ctx.replay_file in _PRELOADED:
        rec = _PRELOADED[ctx.replay_file]
    else:
        with open(ctx.replay_file) as f:
            rec = json.load(f)
    det = rec['detail']
    col = Col()
    if det.get('kind') == 'pipe':
        replay_pipe(det['state'], col)
    elif det.get('kind') == 'leg':
        replay_leg(det['state'], col)
    else:
        raise core.MachineryError('replay file without a behaviour (MC counterexample?)')
    merge(ctx, col)
    print('replayed %s: %d violation(s)' % (ctx.replay_file, len(col.viol)))
    for sig, detail in col.viol:
        print('  ', json.dumps(sig), 'got=', json.dumps(detail.get('got'), default=str)[:300])


# ------------------------------------------------------------------------------------------------
def check(ctx):
    ctx.rule = ('a behaviour = a dumped TLC state with its operation history (ChargeInfo, legs from the catalogue, '
                'operations / fuse, conj, outer_conj, nest); a case = one behaviour whose last step was compared completely '
                '(every index tuple of a pipe, tensor round trip); distinct = distinct (ChargeInfo, operation history)')
    ctx.assume('TLC', 'the specification modules Charges and Pipe',
               'projection functions harness/legs.py and checks/c06.py (public attributes / observers of LegCharge, LegPipe, Array)',
               'the catalogue bound: <= 3 blocks, block sizes 0..2, charges in a window of width 3, mod in {1,2,3}, qnumber <= 2; '
               'where a profile gives a rate > 1 a seeded 1/rate sample of the bound is enumerated')
    if ctx.replay_file:
        ctx.rule = 're-execution of one recorded behaviour'
        return do_replay_file(ctx)
    quick = ctx.tier == 'quick'
    only = ctx.only
    seed = ctx.seed
    pools = Pools(NWORK)
    try:
        if not only or 'canary' in only:
            canary_corrupt(ctx)
        if not only or 'charges' in only:
            if quick:
                runs = [('Charges/q<=1', dict(ModsSet='<-ModsQ01', CBlk=3, CSizes={0, 1, 2}, CRate=60, XBlk=1, XSizes={0, 2}, XRate=4,
                                              XInts={0, 2}, MaskRate=16, QRate=6, MaxOps=2)),
                        ('Charges/q=2', dict(ModsSet='<-ModsQ2Few', CBlk=2, CSizes={1, 2}, CRate=60, XBlk=1, XSizes={1}, XRate=6,
                                             XInts={1}, MaskRate=16, QRate=6, MaxOps=2))]
            else:
                runs = [('Charges/q<=1', dict(ModsSet='<-ModsQ01', CBlk=3, CSizes={0, 1, 2}, CRate=30, XBlk=2, XSizes={0, 1, 2}, XRate=60,
                                              XInts={0, 1, 2}, MaskRate=16, QRate=6, MaxOps=2)),
                        ('Charges/q=2', dict(ModsSet='<-ModsQ2', CBlk=2, CSizes={0, 1, 2}, CRate=80, XBlk=1, XSizes={1, 2}, XRate=6,
                                             XInts={1}, MaskRate=8, QRate=4, MaxOps=2)),
                        ('Charges/depth3', dict(ModsSet='<-ModsQ1', CBlk=3, CSizes={0, 1, 2}, CRate=300, XBlk=1, XSizes={2}, XRate=8,
                                                XInts={1}, MaskRate=16, QRate=8, MaxOps=3))]
            for name, kw in runs:
                mc_stage(ctx, pools, name, 'Charges', charges_cfg(seed, **kw), 'leg')
        if not only or 'pipe' in only:
            if quick:
                mc_stage(ctx, pools, 'Pipe/quick', 'Pipe', pipe_cfg(seed, 'QuickProfiles', maxpost=1, postrate=10, maxnest=1, nestrate=250, convrate=20, nestlegrate=30), 'pipe')
            else:
                mc_stage(ctx, pools, 'Pipe/thorough', 'Pipe',
                         pipe_cfg(seed, 'ThoroughProfiles', maxpost=2, postrate=12, maxnest=1, nestrate=300, convrate=25), 'pipe', timeout=3600)
                mc_stage(ctx, pools, 'Pipe/window 0..2', 'Pipe',
                         pipe_cfg(seed + 1, 'QuickProfiles', maxpost=1, postrate=10, maxnest=1, nestrate=200, convrate=20, win='WinPos'), 'pipe')
        if not only or 'sim' in only:
            sim_stage(ctx, 'Pipe/simulate 4 legs + nested', pipe_cfg(seed, 'SimProfiles', maxpost=2, maxnest=1, declmax=0, nestmax=36, nestn=3, nestlegrate=1, convrate=2),
                      num=8 if quick else 150, depth=16, seed=seed + 3)
    finally:
        pools.close()
    ctx.exhaustive = False
    ctx.notes['exhaustive_note'] = ('profiles with rate 1 are enumerated completely (see QuickProfiles / ThoroughProfiles in spec/Pipe.tla); '
                                    'the others are seeded samples of the stated bound')
    ctx.notes['kernels'] = 'compiled _npc_helper and TENPY_NO_CYTHON=1 (every 5th chunk of every dump)'


if __name__ == '__main__':
    import sys
    _preload_replay(sys.argv[1:])
    core.main_wrapper('C06', check)
