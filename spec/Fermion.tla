------------------------------- MODULE Fermion -------------------------------
(* Many-body fermions and tenpy's Jordan-Wigner machinery (property C12, second sentence).

   Layer 1 (the physics, definitions one can read and believe): a Fock space over bit strings with
   M = K*L modes (K = 1: FermionSite, one mode per site; K = 2: SpinHalfFermionSite, modes
   (site, up) < (site, down) < (site+1, up) ...), the genuine operators
        c_m |b> = (-1)^(number of occupied modes before m) |b with m emptied>      (b[m] = 1, else 0)
   and products of them in arbitrary order.  Theorem CAR, checked by TLC.

   Layer 2 (written like the implementation): what tenpy does with a term given as an
   arbitrary-order list of (opname, site):
        order_combine_term            (bubble sort by site, sign for every swap of two fermionic ops)
        coupling_term_handle_JW / multi_coupling_term_handle_JW   ('JW' appended to the operator
                                       left of a string segment, op_string 'JW'/'Id' per segment)
        MPS._term_to_ops_list         ('JW' appended on all sites left of each fermionic operator,
                                       has_extra_JW for an odd number, then charge_to_JW_signs)
        MPS.correlation_function      (opstr = 'JW', str_on_first, both orders of i and j)
        GroupedSite                   (JW of the left members folded into the grouped operators)
   together with the documented on-site matrices (C, Cd, N, JW; Cu, Cdu, Cd = JWu.Cd_bare, ...).
   The meaning of each route is a signed partial permutation of the basis states; the theorems say
   that it is the one of the genuine fermionic product.

   A many-body operator that maps every basis state to zero or to +- a basis state is written as a
   sequence `mat` of 2^M integers: mat[x+1] = 0 if T|x> = 0, and s*(y+1) if T|x> = s|y>; x, y are the
   basis indices with mode 0 as the most significant bit (the order of np.kron over the sites).

   A state of the model is a term (built operator by operator: the term *is* the history of the
   behaviour) plus the record `last` describing everything the implementation must produce for it. *)
EXTENDS Integers, Sequences, FiniteSets, TLC

CONSTANTS L,        \* number of sites (<= 6)
          K,        \* modes per site: 1 = FermionSite, 2 = SpinHalfFermionSite
          Names,    \* operator names offered: K=1: subset of {"C","Cd","N"}; K=2: {"Cu","Cdu","Cd","Cdd","Nu","Nd"}
          MaxLen,   \* maximal number of operators in a term
          SpinAt    \* K = 1: sites that are SpinHalfSites (heterogeneous chain); they carry one bit (1 = up) but no
                    \* fermionic mode: their 'JW' is the identity, the only operator offered on them is "Sigmaz"

ASSUME K \in {1, 2} /\ L \in 1..6 /\ K * L <= 6 /\ MaxLen \in 1..4 /\ SpinAt \subseteq 0..(L - 1) /\ (K = 2 => SpinAt = {})

M == K * L
Sites == 0..(L - 1)

VARIABLES term,     \* Seq(<<name, site>>): the product O_1 O_2 ... O_n (O_n acts first on a ket)
          last      \* what the implementation has to produce for `term`
vars == <<term, last>>

------------------------------------------------------------------------------
\* operator names
IsAnn(nm) == IF K = 1 THEN nm = "C" ELSE nm \in {"Cu", "Cd"}
IsCre(nm) == IF K = 1 THEN nm = "Cd" ELSE nm \in {"Cdu", "Cdd"}
IsNum(nm) == nm \in {"N", "Nu", "Nd"}
IsSpinOp(nm) == nm = "Sigmaz"                                      \* bosonic operator of the spin sites: +1 (up), -1 (down)
Spin(nm) == IF nm \in {"Cu", "Cdu", "Nu"} THEN 0 ELSE 1           \* K = 2 only
ModeOf(nm, i) == IF K = 1 THEN i ELSE 2 * i + Spin(nm)            \* 0-based mode index
\* Site.need_JW_string
NeedsJW(nm) == IsAnn(nm) \/ IsCre(nm) \/ nm \in {"JW", "JWu", "JWd"}
\* Site.op_needs_JW of a product of names
NeedsJWSeq(nms) == Cardinality({k \in 1..Len(nms) : NeedsJW(nms[k])}) % 2 = 1
\* the hermitian conjugate name (hc_ops)
HcName(nm) == CASE nm = "C" -> "Cd"  [] nm = "Cd" /\ K = 1 -> "C"
                [] nm = "Cu" -> "Cdu" [] nm = "Cdu" -> "Cu" [] nm = "Cd" /\ K = 2 -> "Cdd" [] nm = "Cdd" -> "Cd"
                [] OTHER -> nm

------------------------------------------------------------------------------
\* Layer 1: genuine fermions on bit strings.  b is a sequence of M bits, mode m is b[m+1].
Zero == [s |-> 0, b |-> <<>>]
Sgn(n) == IF n % 2 = 0 THEN 1 ELSE -1
\* number of fermions in the modes lo..hi (the bit of a spin site is not a fermion)
Occ(b, lo, hi) == Cardinality({k \in lo..hi : b[k] = 1 /\ ((k - 1) \div K) \notin SpinAt})

Fock(o, v) ==       \* o = <<name, site>>
    IF v.s = 0 THEN Zero ELSE
    LET m == ModeOf(o[1], o[2]) + 1 IN
    IF IsAnn(o[1]) THEN (IF v.b[m] = 1 THEN [s |-> v.s * Sgn(Occ(v.b, 1, m - 1)), b |-> [v.b EXCEPT ![m] = 0]] ELSE Zero)
    ELSE IF IsCre(o[1]) THEN (IF v.b[m] = 0 THEN [s |-> v.s * Sgn(Occ(v.b, 1, m - 1)), b |-> [v.b EXCEPT ![m] = 1]] ELSE Zero)
    ELSE IF IsSpinOp(o[1]) THEN [v EXCEPT !.s = IF v.b[m] = 1 THEN v.s ELSE -v.s]
    ELSE (IF v.b[m] = 1 THEN v ELSE Zero)       \* number operator

RECURSIVE FockTerm(_, _)
FockTerm(t, v) == IF t = <<>> THEN v ELSE Fock(Head(t), FockTerm(Tail(t), v))

\* basis states <-> integers
RECURSIVE Pow2(_)
Pow2(n) == IF n = 0 THEN 1 ELSE 2 * Pow2(n - 1)
NB == Pow2(M)
Bits(x) == [k \in 1..M |-> (x \div Pow2(M - k)) % 2]
RECURSIVE IdxR(_, _)
IdxR(b, k) == IF k = 0 THEN 0 ELSE 2 * IdxR(b, k - 1) + b[k]
Idx(b) == IdxR(b, M)
RECURSIVE KetsR(_)
KetsR(x) == IF x = NB THEN <<>> ELSE <<Bits(x)>> \o KetsR(x + 1)
KETS == KetsR(0)                                         \* all basis states, computed once
Ket(x) == [s |-> 1, b |-> KETS[x + 1]]
Enc(v) == IF v.s = 0 THEN 0 ELSE v.s * (Idx(v.b) + 1)
BasisIdx == 1..NB

------------------------------------------------------------------------------
\* Layer 2a: the documented on-site matrices, acting on the bits of site i only (no string).
\* K=2: Cd, Cdd "include JWu such that they anticommute on-site with Cu, Cdu".
Local(nm, i, v) ==
    IF v.s = 0 THEN Zero
    ELSE IF nm = "JW" THEN [v EXCEPT !.s = v.s * Sgn(Occ(v.b, K * i + 1, K * i + K))]
    ELSE LET m == ModeOf(nm, i) + 1
             pre == Sgn(Occ(v.b, K * i + 1, m - 1))          \* on-site JWu for the spin-down operators
         IN IF IsAnn(nm) THEN (IF v.b[m] = 1 THEN [s |-> v.s * pre, b |-> [v.b EXCEPT ![m] = 0]] ELSE Zero)
            ELSE IF IsCre(nm) THEN (IF v.b[m] = 0 THEN [s |-> v.s * pre, b |-> [v.b EXCEPT ![m] = 1]] ELSE Zero)
            ELSE IF IsSpinOp(nm) THEN [v EXCEPT !.s = IF v.b[m] = 1 THEN v.s ELSE -v.s]
            ELSE (IF v.b[m] = 1 THEN v ELSE Zero)

------------------------------------------------------------------------------
\* Operators as `mat` sequences.  The matrices of the single operators are tabulated once (TLC
\* evaluates these constant definitions a single time); products are compositions of tables.
OpNames == IF K = 1 THEN <<"C", "Cd", "N", "Sigmaz", "JW">> ELSE <<"Cu", "Cdu", "Cd", "Cdd", "Nu", "Nd", "JW">>
NameIdx(nm) == CHOOSE k \in 1..Len(OpNames) : OpNames[k] = nm

RECURSIVE ColsR(_, _, _, _)
ColsR(genuine, nm, i, x) ==
    IF x = NB THEN <<>>
    ELSE <<Enc(IF genuine THEN Fock(<<nm, i>>, Ket(x)) ELSE Local(nm, i, Ket(x)))>> \o ColsR(genuine, nm, i, x + 1)
RECURSIVE BySiteR(_, _, _)
BySiteR(genuine, nm, i) == IF i = L THEN <<>> ELSE <<ColsR(genuine, nm, i, 0)>> \o BySiteR(genuine, nm, i + 1)
RECURSIVE ByNameR(_, _)
ByNameR(genuine, k) ==
    IF k > Len(OpNames) THEN <<>>
    ELSE <<(IF genuine /\ OpNames[k] = "JW" THEN <<>> ELSE BySiteR(genuine, OpNames[k], 0))>> \o ByNameR(genuine, k + 1)
FTAB == ByNameR(TRUE, 1)        \* genuine fermionic operators
LTAB == ByNameR(FALSE, 1)       \* on-site matrices embedded as  Id x ... x op x ... x Id
FMat(o) == FTAB[NameIdx(o[1])][o[2] + 1]
LMat(nm, i) == LTAB[NameIdx(nm)][i + 1]

IDM == [x \in BasisIdx |-> x]
\* (A.B)|x> = A(B|x>)
Mul(A, B) == [x \in BasisIdx |-> LET y == B[x] IN IF y = 0 THEN 0 ELSE IF y > 0 THEN A[y] ELSE -A[-y]]
ScaleM(sg, A) == [x \in BasisIdx |-> sg * A[x]]

RECURSIVE FockMat(_)
FockMat(t) == IF t = <<>> THEN IDM ELSE Mul(FMat(Head(t)), FockMat(Tail(t)))

\* get_op('A B C') on site i = A.B.C : the right-most acts first
RECURSIVE SeqMat(_, _)
SeqMat(nms, i) == IF nms = <<>> THEN IDM ELSE Mul(LMat(Head(nms), i), SeqMat(Tail(nms), i))
\* tensor product over the chain of one operator product per site (per : Sites -> Seq(name))
RECURSIVE TensorR(_, _)
TensorR(per, i) == IF i = L THEN IDM ELSE Mul(SeqMat(per[i], i), TensorR(per, i + 1))
Tensor(per) == TensorR(per, 0)

NoOps == [i \in Sites |-> <<>>]

------------------------------------------------------------------------------
\* Layer 2b: order_combine_term.  n = number of original sites per (grouped) site; n = 1: plain chain.
\* bubble sort exactly as implemented
RECURSIVE Pass(_, _, _, _)
Pass(st, s, smax, n) ==
    IF s > smax THEN st ELSE
    LET a == st.t[s]
        b == st.t[s + 1]
    IN IF (a[2] \div n) > (b[2] \div n)
       THEN Pass([t |-> [st.t EXCEPT ![s] = b, ![s + 1] = a],
                  sg |-> IF NeedsJW(a[1]) /\ NeedsJW(b[1]) THEN -st.sg ELSE st.sg], s + 1, smax, n)
       ELSE Pass(st, s + 1, smax, n)
RECURSIVE Bubble(_, _, _)
Bubble(st, smax, n) == IF smax < 1 THEN st ELSE Bubble(Pass(st, 1, smax, n), smax - 1, n)
OrderCombine(t, n) == Bubble([t |-> t, sg |-> 1], Len(t) - 1, n)

\* what it must be: the stable sort by site, sign = parity of the fermionic inversions
Inversions(t, n) == {p \in (1..Len(t)) \X (1..Len(t)) :
                        p[1] < p[2] /\ (t[p[1]][2] \div n) > (t[p[2]][2] \div n)
                        /\ NeedsJW(t[p[1]][1]) /\ NeedsJW(t[p[2]][1])}
RECURSIVE InsertStable(_, _, _)
InsertStable(s, x, n) == IF s = <<>> THEN <<x>>
                         ELSE IF (Head(s)[2] \div n) <= (x[2] \div n) THEN <<Head(s)>> \o InsertStable(Tail(s), x, n)
                         ELSE <<x>> \o s
RECURSIVE SortStable(_, _)
SortStable(t, n) == IF t = <<>> THEN <<>> ELSE InsertStable(SortStable(SubSeq(t, 1, Len(t) - 1), n), t[Len(t)], n)

\* operators on the same (grouped) site are combined: Seq([g, ops]) with ops : Seq(<<name, site>>)
RECURSIVE GroupR(_, _)
GroupR(t, n) ==
    IF t = <<>> THEN <<>> ELSE
    LET g == t[1][2] \div n
        c == CHOOSE c \in 1..Len(t) : (\A k \in 1..c : t[k][2] \div n = g) /\ (c = Len(t) \/ t[c + 1][2] \div n # g)
    IN <<[g |-> g, ops |-> SubSeq(t, 1, c)]>> \o GroupR(SubSeq(t, c + 1, Len(t)), n)

NamesOf(ops) == [k \in 1..Len(ops) |-> ops[k][1]]

------------------------------------------------------------------------------
\* Layer 2c: (multi_)coupling_term_handle_JW on the combined term gr (Len >= 2)
JWR(gr, x) == Cardinality({y \in 1..x : NeedsJWSeq(NamesOf(gr[y].ops))}) % 2 = 1
JWALL == <<"JW", -1>>        \* the 'JW' of a whole (grouped) site
HandleJW(gr) ==
    [err |-> JWR(gr, Len(gr)),       \* "odd number of Jordan Wigner strings" / "Only one of the operators needs ..."
     ops |-> [x \in 1..Len(gr) |-> [g |-> gr[x].g,
                                     ops |-> IF JWR(gr, x) /\ x < Len(gr) THEN Append(gr[x].ops, JWALL) ELSE gr[x].ops]],
     str |-> [x \in 1..(Len(gr) - 1) |-> IF JWR(gr, x) THEN "JW" ELSE "Id"]]

\* meaning of a product of (grouped-site) operators on group g: per-member operator products.
\* GroupedSite: the operator of member i carries the JW of the members left of it inside the group.
Members(g, n) == {i \in Sites : i \div n = g}
RECURSIVE PerOfOps(_, _, _, _)
PerOfOps(ops, g, n, per) ==
    IF ops = <<>> THEN per ELSE
    LET o == Head(ops)
        p1 == IF o = JWALL THEN [i \in Sites |-> IF i \in Members(g, n) THEN Append(per[i], "JW") ELSE per[i]]
              ELSE [i \in Sites |-> IF i = o[2] THEN Append(per[i], o[1])
                                    ELSE IF i \in Members(g, n) /\ i < o[2] /\ NeedsJW(o[1]) THEN Append(per[i], "JW")
                                    ELSE per[i]]
    IN PerOfOps(Tail(ops), g, n, p1)

RECURSIVE PerOfRouteR(_, _, _, _)
PerOfRouteR(h, x, n, per) ==
    IF x > Len(h.ops) THEN per ELSE
    LET p1 == PerOfOps(h.ops[x].ops, h.ops[x].g, n, per)
        p2 == IF x < Len(h.ops) /\ h.str[x] = "JW"
              THEN [i \in Sites |-> IF (i \div n) > h.ops[x].g /\ (i \div n) < h.ops[x + 1].g THEN Append(p1[i], "JW") ELSE p1[i]]
              ELSE p1
    IN PerOfRouteR(h, x + 1, n, p2)

\* the whole route  term -> order_combine_term -> handle_JW -> (MPO graph: tensor product of the named operators)
Route(t, n) ==
    LET oc == OrderCombine(t, n)
        gr == GroupR(oc.t, n)
    IN IF Len(gr) = 1 THEN [err |-> FALSE, sg |-> oc.sg, per |-> PerOfOps(gr[1].ops, gr[1].g, n, NoOps)]
       ELSE LET h == HandleJW(gr) IN [err |-> h.err, sg |-> oc.sg, per |-> PerOfRouteR(h, 1, n, NoOps)]
RouteMat(r) == ScaleM(r.sg, Tensor(r.per))          \* r = Route(t, n)

------------------------------------------------------------------------------
\* Layer 2d: MPS._term_to_ops_list (expectation_value_term, apply_local_term)
IMin(t) == CHOOSE i \in Sites : (\E k \in 1..Len(t) : t[k][2] = i) /\ (\A k \in 1..Len(t) : t[k][2] >= i)
IMax(t) == CHOOSE i \in Sites : (\E k \in 1..Len(t) : t[k][2] = i) /\ (\A k \in 1..Len(t) : t[k][2] <= i)
RECURSIVE TermOpsR(_, _, _)
TermOpsR(t, imin, per) ==
    IF t = <<>> THEN per ELSE
    LET o == Head(t)
        p1 == [per EXCEPT ![o[2]] = Append(@, o[1])]
        p2 == IF NeedsJW(o[1]) THEN [i \in Sites |-> IF i >= imin /\ i < o[2] THEN Append(p1[i], "JW") ELSE p1[i]] ELSE p1
    IN TermOpsR(Tail(t), imin, p2)
OddJW(t) == Cardinality({k \in 1..Len(t) : NeedsJW(t[k][1])}) % 2 = 1
TermOps(t) == [per |-> TermOpsR(t, IMin(t), NoOps), imin |-> IMin(t), imax |-> IMax(t), extra |-> OddJW(t)]
\* apply_local_term: for has_extra_JW the string left of i_min is applied through charge_to_JW_signs
\* on the virtual leg = the fermion parity of all sites left of i_min
TermOpsFull(t) ==
    LET r == TermOps(t) IN
    IF r.extra THEN [i \in Sites |-> IF i < r.imin THEN <<"JW">> ELSE r.per[i]] ELSE r.per

\* Relative indices: apply_local_term(term, i_offset = o), term_correlation_function_right(term_L, term_R, i_L, j_R)
\* address site i + o with the entry (op, i); *everything* (which Site object names the operator, whether it
\* needs a string, where the strings run) is decided at the absolute site.  So for every offset o
\*      TermOps'(Shift(t, -o), o) = TermOps(t)      with  TermOps'(r, o) == TermOps(Shift(r, o))
Shift(t, o) == [k \in 1..Len(t) |-> <<t[k][1], t[k][2] + o>>]
\* term_correlation_function_right: T = T_L . T_R with all sites of T_L left of all sites of T_R (split after position h)
SplitOK(t, h) == \A a \in 1..h, b \in (h + 1)..Len(t) : t[a][2] < t[b][2]

\* The correlation-function family  term_correlation_function_right / _left (fixed T_R resp. T_L, the other one moved
\* over a list of offsets) and term_list_correlation_function_right (sums  sum_k a_k T_L,k  and  sum_l b_l T_R,l):
\* every returned number is  <bra| T_L T_R |ket>  of the product term at those offsets, resp. the bilinear sum
\*      sum_{k,l} a_k b_l <bra| T_L,k T_R,l |ket>;
\* the product terms are themselves states of this model, so their matrices are `last.mat` of those states.

\* An *explicit* op_string given to multi_coupling_term_handle_JW is inserted on every segment between the operators
\* (the operators themselves are unchanged) -- also when no operator is fermionic.
ExplicitPer(gr, opstr) ==
    [i \in Sites |-> IF \E x \in 1..Len(gr) : gr[x].g = i THEN NamesOf(gr[CHOOSE x \in 1..Len(gr) : gr[x].g = i].ops)
                      ELSE IF gr[1].g < i /\ i < gr[Len(gr)].g THEN <<opstr>> ELSE <<>>]

\* Layer 2e: MPS.correlation_function(ops1, ops2, [i], [j]) with autoJW  (term = <<A_i, B_j>>)
CorrPer(t) ==
    LET a == t[1][1]  i == t[1][2]  b == t[2][1]  j == t[2][2]  jw == NeedsJW(a) IN
    IF i < j THEN [k \in Sites |-> IF k = i THEN (IF jw THEN <<a, "JW">> ELSE <<a>>)
                                   ELSE IF k = j THEN <<b>> ELSE IF i < k /\ k < j /\ jw THEN <<"JW">> ELSE <<>>]
    ELSE IF i > j THEN [k \in Sites |-> IF k = j THEN (IF jw THEN <<"JW", b>> ELSE <<b>>)
                                        ELSE IF k = i THEN <<a>> ELSE IF j < k /\ k < i /\ jw THEN <<"JW">> ELSE <<>>]
    ELSE [k \in Sites |-> IF k = i THEN <<a, b>> ELSE <<>>]
CorrErr(t) == NeedsJW(t[1][1]) # NeedsJW(t[2][1])      \* "Some, but not any operators need 'JW' string!"

------------------------------------------------------------------------------
\* the record the replay harness compares the implementation with
Describe(t, mat) ==
    LET oc == OrderCombine(t, 1)
        gr == GroupR(oc.t, 1)
    IN [len   |-> Len(t),
        odd   |-> OddJW(t),
        mat   |-> mat,
        oc    |-> [t |-> oc.t, sg |-> oc.sg],
        nsite |-> Len(gr),
        hj    |-> IF Len(gr) >= 2 THEN
                      LET h == HandleJW(gr) IN
                      [err |-> h.err, i |-> [x \in 1..Len(gr) |-> h.ops[x].g],
                       ops |-> [x \in 1..Len(gr) |-> NamesOf(h.ops[x].ops)], str |-> h.str]
                  ELSE [err |-> FALSE, i |-> <<gr[1].g>>, ops |-> <<NamesOf(gr[1].ops)>>, str |-> <<>>],
        tol   |-> LET r == TermOps(t) IN [imin |-> r.imin, extra |-> r.extra,
                                          ops |-> [k \in 1..(r.imax - r.imin + 1) |-> r.per[r.imin + k - 1]]],
        splits |-> {h \in 1..(Len(t) - 1) : SplitOK(t, h)},
        xjw   |-> IF Len(gr) >= 3 /\ \A k \in 1..Len(t) : ~NeedsJW(t[k][1])
                  THEN [x \in BasisIdx |-> ScaleM(oc.sg, Tensor(ExplicitPer(gr, "JW")))[x]] ELSE <<>>,
        hc    |-> [k \in 1..Len(t) |-> <<HcName(t[Len(t) + 1 - k][1]), t[Len(t) + 1 - k][2]>>]]

Init == term = <<>> /\ last = [len |-> 0, mat |-> IDM]

\* one named action per kind of operator appended on the right of the term:  T' = T.O, so
\* mat' = mat . FMat(O)
FSites == Sites \ SpinAt
AppendAnn == \E nm \in {x \in Names : IsAnn(x)}, i \in FSites :
                /\ Len(term) < MaxLen
                /\ term' = Append(term, <<nm, i>>)
                /\ last' = Describe(term', Mul(last.mat, FMat(<<nm, i>>)))
AppendCre == \E nm \in {x \in Names : IsCre(x)}, i \in FSites :
                /\ Len(term) < MaxLen
                /\ term' = Append(term, <<nm, i>>)
                /\ last' = Describe(term', Mul(last.mat, FMat(<<nm, i>>)))
AppendNum == \E nm \in {x \in Names : IsNum(x)}, i \in FSites :
                /\ Len(term) < MaxLen
                /\ term' = Append(term, <<nm, i>>)
                /\ last' = Describe(term', Mul(last.mat, FMat(<<nm, i>>)))
AppendSpin == \E nm \in {x \in Names : IsSpinOp(x)}, i \in SpinAt :
                /\ Len(term) < MaxLen
                /\ term' = Append(term, <<nm, i>>)
                /\ last' = Describe(term', Mul(last.mat, FMat(<<nm, i>>)))

Next == AppendAnn \/ AppendCre \/ AppendNum \/ AppendSpin
Spec == Init /\ [][Next]_vars

------------------------------------------------------------------------------
\* Theorems (invariants over all terms)

\* the tabulated matrix of the term is the genuine product applied basis state by basis state
\* (ties the table layer to the definitions; the induction step is  T.O|x> = T(O|x>))
MatIsFock ==
    Len(term) <= 3 => \A x1 \in BasisIdx : last.mat[x1] = Enc(FockTerm(term, Ket(x1 - 1)))
\* ... and so are the on-site tables
LocalTablesRight ==
    Len(term) = 1 =>
        LET nm == term[1][1]  i == term[1][2] IN
        /\ \A x1 \in BasisIdx : LMat(nm, i)[x1] = Enc(Local(nm, i, Ket(x1 - 1)))
        /\ \A x1 \in BasisIdx : LMat("JW", i)[x1] = Enc(Local("JW", i, Ket(x1 - 1)))

\* u + w = c for vectors that are zero or a signed basis state
SameTarget(u, w) == u.s = 0 \/ w.s = 0 \/ u.b = w.b
VecSum(u, w, c) == SameTarget(u, w) /\ SameTarget(u, c) /\ SameTarget(w, c) /\ u.s + w.s = c.s
Conjugates(a, b) == ModeOf(a[1], a[2]) = ModeOf(b[1], b[2]) /\ ((IsAnn(a[1]) /\ IsCre(b[1])) \/ (IsCre(a[1]) /\ IsAnn(b[1])))

\* canonical anticommutation relations as dense many-body operators:
\* {c_i, c+_j} = delta_ij, {c_i, c_j} = 0, {c+_i, c+_j} = 0  (terms of length 2 of fermionic operators)
CAR ==
    (Len(term) = 2 /\ NeedsJW(term[1][1]) /\ NeedsJW(term[2][1])) =>
        \A x1 \in BasisIdx :
            LET v == Ket(x1 - 1) IN
            VecSum(FockTerm(term, v), FockTerm(<<term[2], term[1]>>, v), IF Conjugates(term[1], term[2]) THEN v ELSE Zero)

\* CAR inside products: exchanging two neighbouring fermionic operators of a term flips the sign,
\* up to the contraction when they are conjugates on the same mode
SwapAt(t, p) == [t EXCEPT ![p] = t[p + 1], ![p + 1] = t[p]]
Without(t, p) == SubSeq(t, 1, p - 1) \o SubSeq(t, p + 2, Len(t))
CARInProducts ==
    Len(term) <= 3 => \A p \in 1..(Len(term) - 1) :
        (NeedsJW(term[p][1]) /\ NeedsJW(term[p + 1][1])) =>
            \A x1 \in BasisIdx :
                LET v == Ket(x1 - 1) IN
                VecSum(FockTerm(term, v), FockTerm(SwapAt(term, p), v),
                       IF Conjugates(term[p], term[p + 1]) THEN FockTerm(Without(term, p), v) ELSE Zero)

\* number operators are c+ c
NumberIsCdC ==
    \A k \in 1..Len(term) : IsNum(term[k][1]) =>
        LET nm == term[k][1]
            cre == IF K = 1 THEN "Cd" ELSE IF nm = "Nu" THEN "Cdu" ELSE "Cdd"
            ann == IF K = 1 THEN "C" ELSE IF nm = "Nu" THEN "Cu" ELSE "Cd"
            t2 == SubSeq(term, 1, k - 1) \o <<<<cre, term[k][2]>>, <<ann, term[k][2]>>>> \o SubSeq(term, k + 1, Len(term))
        IN FockMat(t2) = last.mat

\* the bubble sort is the stable sort with the sign of the fermionic inversions
OrderCombineCorrect ==
    \A n \in {1, 2, 3} : Len(term) >= 1 =>
        LET oc == OrderCombine(term, n) IN
        /\ oc.t = SortStable(term, n)
        /\ oc.sg = Sgn(Cardinality(Inversions(term, n)))

\* documented contract of order_combine_term: product(term) * sign = product(combined term)
OrderCombineContract ==
    Len(term) >= 1 => ScaleM(last.oc.sg, last.mat) = FockMat(last.oc.t)

\* TermList histories: order_combine is idempotent (a second call on the sorted list leaves terms and prefactor alone)
\* and commutes with TermList.shift; so a list, its shifted copies and lists built from the same prefactor array must
\* each carry  strength * sign  exactly once (which requires that no two of them share the array: the constructor copies)
OrderCombineIdempotent ==
    Len(term) >= 1 => OrderCombine(last.oc.t, 1) = [t |-> last.oc.t, sg |-> 1]
OrderCombineShift ==
    (Len(term) >= 1 /\ L > 1) =>
        LET k == L - 1 - IMax(term)  oc == OrderCombine(Shift(term, k), 1) IN oc.t = Shift(last.oc.t, k) /\ oc.sg = last.oc.sg
\* products of terms: T = T_L . T_R for every split (what the correlation-function family evaluates piecewise)
SplitProduct ==
    \A h \in 1..(Len(term) - 1) : Mul(FockMat(SubSeq(term, 1, h)), FockMat(SubSeq(term, h + 1, Len(term)))) = last.mat

\* the JW route (plain chain and chains of GroupedSites of 2 and 3 sites) is the genuine fermionic product
JWRouteCorrect ==
    (Len(term) >= 1 /\ ~last.odd) =>
        \A n \in {1, 2, 3} :
            LET r == Route(term, n) IN ~r.err /\ RouteMat(r) = last.mat
\* an odd number of fermionic operators on >= 2 sites is rejected
JWRouteOddRejected ==
    (Len(term) >= 1 /\ last.odd /\ last.nsite >= 2) => last.hj.err

\* _term_to_ops_list (+ charge_to_JW_signs for the open string) is the genuine fermionic product
TermOpsCorrect ==
    Len(term) >= 1 => Tensor(TermOpsFull(term)) = last.mat

\* correlation_function with the automatic JW string
CorrCorrect ==
    (Len(term) = 2 /\ ~CorrErr(term)) => Tensor(CorrPer(term)) = last.mat

\* hermitian conjugate of a term: reversed order of conjugated operators (plus_hc of add_local_term etc.)
HcCorrect ==
    Len(term) >= 1 =>
        LET h == FockMat(last.hc) IN
        \A x1 \in BasisIdx :
            LET y == last.mat[x1] IN
            y # 0 => (IF y > 0 THEN h[y] = x1 ELSE h[-y] = -x1)
=============================================================================
