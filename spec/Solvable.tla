------------------------------- MODULE Solvable -------------------------------
(* Certified exactly solvable spin-1/2 Hamiltonians for the ground-state search engines (C13, layer 2).

   Every instance is a list of local terms on a chain of L sites, a charge sector (number of up spins nup,
   i.e. 2*Sz_total = 2*nup - L) and -- computed and *certified by TLC over the integers* --
       E0x4   four times the exact ground-state energy of that sector,
       v      an exact (integer, unnormalised) ground-state vector on the sector basis,
       nondeg whether the ground state of the sector is certified to be unique,
       conn   whether H is irreducible on the sector (the graph of its off-diagonal elements is connected).
   Basis states are bit strings s \in 0..2^L-1, bit i = 1 means site i is "up".  All matrix elements are
   those of 4H, which is an integer matrix for every term kind below, applied sparsely to bit strings.

   term kinds  [k, i, j, m, c]   (c an integer, H-contribution on the right)
     "zz"  c * Sz_i Sz_j                          "z"  c * Sz_i                  "id"  c * 1
     "pt"  c * (S_i.S_j + 3/4)  = c * P_triplet(i,j)               (c > 0: scaled projector)
     "ps"  c * (1/4 - S_i.S_j)  = c * P_singlet(i,j)               (c > 0: scaled projector)
     "p32" c * (S_i.S_j + S_j.S_m + S_i.S_m + 3/4) = (3c/2) * P_{S=3/2}(i,j,m)   (c > 0)

   Certificates (invariants below):
     classical (only zz, z, id):  H is diagonal; E0x4 is the enumerated minimum over the sector, v the
         indicator of a minimiser, nondeg iff the minimiser is unique.
     frustration-free (pt / ps / p32 terms + multiples of the identity and of Sz_total):
         every projector term T satisfies (4T)(4T) = lambda*(4T) with lambda > 0 on the sector (so T >= 0) and
         T v = 0, hence (4H) v = E0x4 * v with E0x4 = shift and E0x4 is the minimum of the sector;
         nondeg is certified by rank_p(4H - E0x4) = dim - 1 over the prime field F_p (rank over Q is at least
         the rank mod p, so the kernel over Q is exactly span(v)).

   The replay harness (checks/c13.py) builds the same Hamiltonian in tenpy from the term list and runs the
   real engines; the postconditions it evaluates on their floating-point output with the exact data of
   this module are listed at the end. *)
EXTENDS Dense, TLC

CONSTANTS Fams,      \* subset of {"classical", "dimer", "mg", "ferro", "chain2", "effH"}
          Ls,        \* chain lengths
          NVar,      \* number of coupling variants per (family, L, sector)
          Twists     \* subset of 0..2: gauge twists making the Hamiltonian complex (0: none), see TwistSeq

VARIABLES stage,     \* 0: choose parameters, 1: build + certify, 2: done
          par,       \* <<family, L, nup, variant, twist>>
          inst       \* the certified instance

vars == <<stage, par, inst>>

P == 32003           \* prime, P*P < 2^31

-----------------------------------------------------------------------------
\* bit strings
RECURSIVE Pow2(_)
Pow2(n) == IF n = 0 THEN 1 ELSE 2 * Pow2(n - 1)
Bit(s, i) == (s \div Pow2(i)) % 2
Sg(s, i) == 2 * Bit(s, i) - 1
RECURSIVE PopCount(_, _)
PopCount(s, n) == IF n = 0 THEN 0 ELSE Bit(s, n - 1) + PopCount(s, n - 1)
Basis(n, up) == {s \in 0..(Pow2(n) - 1) : PopCount(s, n) = up}
SwapBits(s, i, j) == s + (Bit(s, j) - Bit(s, i)) * Pow2(i) + (Bit(s, i) - Bit(s, j)) * Pow2(j)

\* sorted sequence of a finite set of integers
RECURSIVE SortSet(_)
SortSet(S) == IF S = {} THEN <<>> ELSE LET m == CHOOSE x \in S : \A y \in S : x <= y IN <<m>> \o SortSet(S \ {m})

-----------------------------------------------------------------------------
\* sparse action of 4 * (term) on a basis state: sequence of <<target state, integer coefficient>>
Term(kk, i, j, m, c) == [k |-> kk, i |-> i, j |-> j, m |-> m, c |-> c]
Heis4(c, s, i, j) ==   \* 4c S_i.S_j
    IF Bit(s, i) = Bit(s, j) THEN << <<s, c>> >> ELSE << <<s, -c>>, <<SwapBits(s, i, j), 2 * c>> >>
Apply4(t, s) ==
    CASE t.k = "zz" -> << <<s, t.c * Sg(s, t.i) * Sg(s, t.j)>> >>
      [] t.k = "z" -> << <<s, 2 * t.c * Sg(s, t.i)>> >>
      [] t.k = "id" -> << <<s, 4 * t.c>> >>
      [] t.k = "pt" -> Heis4(t.c, s, t.i, t.j) \o << <<s, 3 * t.c>> >>
      [] t.k = "ps" -> Heis4(-t.c, s, t.i, t.j) \o << <<s, t.c>> >>
      [] t.k = "p32" -> Heis4(t.c, s, t.i, t.j) \o Heis4(t.c, s, t.j, t.m) \o Heis4(t.c, s, t.i, t.m) \o << <<s, 3 * t.c>> >>

\* (4T w)[s] for a vector w given as a function on the sector basis (4T is symmetric)
TermVec(t, w, s) == LET a == Apply4(t, s) IN ISumSeq([n \in 1..Len(a) |-> a[n][2] * w[a[n][1]]])
RECURSIVE HVec(_, _, _)
HVec(terms, w, s) == IF terms = <<>> THEN 0 ELSE TermVec(Head(terms), w, s) + HVec(Tail(terms), w, s)
Diag4(terms, s) == HVec(terms, [x \in {s} |-> 1], s)         \* only meaningful for diagonal terms

\* H connects basis state s with x iff the net off-diagonal matrix element is non-zero
NetCoef(terms, s, x) ==
    ISumSeq([tt \in 1..Len(terms) |->
        LET a == Apply4(terms[tt], s) IN ISumSeq([q \in 1..Len(a) |-> IF a[q][1] = x THEN a[q][2] ELSE 0])])
Neigh(terms, s) ==
    LET cand == UNION {{Apply4(terms[tt], s)[q][1] : q \in 1..Len(Apply4(terms[tt], s))} : tt \in 1..Len(terms)}
    IN {x \in cand : x # s /\ NetCoef(terms, s, x) # 0}
RECURSIVE Reach(_, _, _)
Reach(terms, frontier, seen) ==
    IF frontier = {} THEN seen
    ELSE LET nxt == (UNION {Neigh(terms, s) : s \in frontier}) \ seen IN Reach(terms, nxt, seen \cup nxt)
\* the sector is irreducible for H: no further conserved quantity separates a product state from the ground state
Connected(terms, B) == B # {} /\ LET s0 == CHOOSE s \in B : TRUE IN Reach(terms, {s0}, {s0}) = B

IsProj(t) == t.k \in {"pt", "ps", "p32"}
IsDiag(t) == t.k \in {"zz", "z", "id"}
Lambda(t) == IF t.k = "p32" THEN 6 * t.c ELSE 4 * t.c

-----------------------------------------------------------------------------
\* rank over F_P of the symmetric integer matrix 4H - e0 on the sector
RECURSIVE PowMod(_, _)
PowMod(a, n) == IF n = 0 THEN 1 ELSE LET h == PowMod(a, n \div 2) IN
                IF n % 2 = 0 THEN (h * h) % P ELSE (((h * h) % P) * a) % P
InvMod(a) == PowMod(a % P, P - 2)

MatrixOf(terms, bs, e0) ==     \* bs: sorted basis sequence
    LET n == Len(bs)
        RowOf(r) == LET s == bs[r]
                        contrib == [tt \in 1..Len(terms) |-> Apply4(terms[tt], s)]
                    IN [q \in 1..n |->
                          (ISumSeq([tt \in 1..Len(terms) |->
                              ISumSeq([x \in 1..Len(contrib[tt]) |->
                                  IF contrib[tt][x][1] = bs[q] THEN contrib[tt][x][2] ELSE 0])])
                           - (IF q = r THEN e0 ELSE 0)) % P]
    IN TLCEval([r \in 1..n |-> TLCEval(RowOf(r))])

RECURSIVE Elim(_, _, _, _)
Elim(M, r, c, n) ==
    IF c > n \/ r > n THEN r - 1
    ELSE LET piv == {i \in r..n : M[i][c] # 0} IN
         IF piv = {} THEN Elim(M, r, c + 1, n)
         ELSE LET i0 == CHOOSE i \in piv : \A x \in piv : i <= x
                  rowr == M[i0]
                  inv == InvMod(rowr[c])
                  M2 == TLCEval([i \in 1..n |->
                            IF i < r THEN M[i]
                            ELSE IF i = r THEN rowr
                            ELSE LET old == IF i = i0 THEN M[r] ELSE M[i]
                                     f == (old[c] * inv) % P
                                 IN IF f = 0 THEN old
                                    ELSE TLCEval([q \in 1..n |-> (old[q] - ((f * rowr[q]) % P)) % P])])
              IN Elim(M2, r + 1, c + 1, n)
RankModP(terms, bs, e0) == Elim(MatrixOf(terms, bs, e0), 1, 1, Len(bs))

-----------------------------------------------------------------------------
\* instance catalogue
Coup(a, b, x) == 1 + ((a * x + b) % 3)                 \* couplings in {1, 2, 3}
SCoup(a, b, x) == ((a * x + b) % 5) - 2                \* signed couplings in -2..2
Shift(var) == (var % 3) - 1                            \* multiple of the identity: -1, 0, 1
Field(var) == ((var \div 3) % 2) * ((var % 2) * 2 - 1) \* uniform field along z: 0, -1 or 1

Common(n, var) ==
    (IF Shift(var) # 0 THEN <<Term("id", 0, 0, 0, Shift(var))>> ELSE <<>>) \o
    (IF Field(var) # 0 THEN [i \in 1..n |-> Term("z", i - 1, 0, 0, Field(var))] ELSE <<>>)

\* "chain2": the terms of one unit cell of the infinite chain H = sum_m T_m (site indices >= 2 reach into the next
\* cells).  Every term of the finite open chain TermsOf("chain2", n, var) is a translate of one of these, so the
\* certificate of the finite chain (each term is a positive multiple of a projector annihilating the product of
\* singlets on (2m, 2m+1)) certifies that the infinite chain is frustration free with the same ground state:
\* its exact energy per unit cell is Shift(var), i.e. E0cellx4 / 8 per site, and E >= that for every state.
C2a(var) == 1 + (var % 3)
C2b(var) == 1 + ((var \div 2) % 2)
C2c(var) == 1 + ((var \div 3) % 3)
CellOf(fam, var) ==
    IF fam # "chain2" THEN <<>>
    ELSE <<Term("pt", 0, 1, 0, C2a(var)), Term("p32", 0, 1, 2, C2b(var))>> \o
         (IF var % 2 = 1 THEN <<Term("p32", 1, 2, 3, C2c(var))>> ELSE <<>>) \o
         (IF Shift(var) # 0 THEN <<Term("id", 0, 0, 0, Shift(var))>> ELSE <<>>)

TermsOf(fam, n, var) ==
    CASE fam = "classical" ->
            [i \in 1..(n - 1) |-> Term("zz", i - 1, i, 0, SCoup(var + 2, var, i))] \o
            [i \in 1..n |-> Term("z", i - 1, 0, 0, SCoup(2 * var + 1, var + 3, i))] \o
            (IF var % 2 = 1 THEN [i \in 1..(n - 2) |-> Term("zz", i - 1, i + 1, 0, SCoup(var, 1, i))] ELSE <<>>) \o
            (IF Shift(var) # 0 THEN <<Term("id", 0, 0, 0, Shift(var))>> ELSE <<>>)
      [] fam = "dimer" ->       \* isolated dimers, optionally glued by 3-site projectors (still frustration free)
            [d \in 1..(n \div 2) |-> Term("pt", 2 * d - 2, 2 * d - 1, 0, Coup(var + 1, var, d))] \o
            (IF var % 2 = 1 THEN [d \in 1..(n \div 2 - 1) |-> Term("p32", 2 * d - 2, 2 * d - 1, 2 * d, Coup(var, 1, d))]
             ELSE <<>>) \o Common(n, var)
      [] fam = "mg" ->          \* Majumdar-Ghosh chain: 3-site projectors on all triples + a dimer term at the left edge
            [i \in 1..(n - 2) |-> Term("p32", i - 1, i, i + 1, Coup(var, var + 1, i))] \o
            <<Term("pt", 0, 1, 0, 1 + (var % 2))>> \o Common(n, var)
      [] fam = "chain2" ->      \* translation invariant (unit cell of 2 sites) frustration-free chain, see CellOf
            [d \in 1..(n \div 2) |-> Term("pt", 2 * d - 2, 2 * d - 1, 0, C2a(var))] \o
            [d \in 1..(n \div 2 - 1) |-> Term("p32", 2 * d - 2, 2 * d - 1, 2 * d, C2b(var))] \o
            (IF var % 2 = 1 THEN [d \in 1..(n \div 2 - 1) |-> Term("p32", 2 * d - 1, 2 * d, 2 * d + 1, C2c(var))] ELSE <<>>) \o
            (IF Shift(var) # 0 THEN [d \in 1..(n \div 2) |-> Term("id", 2 * d - 2, 0, 0, Shift(var))] ELSE <<>>)
      [] fam = "ferro" ->       \* ferromagnetic Heisenberg couplings: ground state = Dicke state of the sector
            [i \in 1..(n - 1) |-> Term("ps", i - 1, i, 0, Coup(var + 1, var, i))] \o
            (IF var % 2 = 1 THEN [i \in 1..(n - 2) |-> Term("ps", i - 1, i + 1, 0, Coup(var, 2, i))] ELSE <<>>) \o
            Common(n, var)

DimerAmp(s, n) ==      \* product of singlets on (0,1), (2,3), ...: amplitude of bit string s
    LET RECURSIVE A(_)
        A(d) == IF d > n \div 2 THEN 1
                ELSE LET a == Bit(s, 2 * d - 2)
                         b == Bit(s, 2 * d - 1)
                     IN IF a = b THEN 0 ELSE (IF a = 1 THEN 1 ELSE -1) * A(d + 1)
    IN A(1)

ValidPar(fam, n, up) ==
    CASE fam = "classical" -> up \in 0..n
      [] fam = "dimer" -> n % 2 = 0 /\ up = n \div 2
      [] fam = "mg" -> n % 2 = 0 /\ n >= 4 /\ up = n \div 2
      [] fam = "chain2" -> n % 2 = 0 /\ n >= 4 /\ up = n \div 2
      [] fam = "ferro" -> up \in 1..(n - 1)
      [] fam = "effH" -> n = 3 /\ up = 0

Make(p) ==
    LET fam == p[1]
        n == p[2]
        up == p[3]
        var == p[4]
        terms == TermsOf(fam, n, var)
        B == Basis(n, up)
        bs == SortSet(B)
        dim == Len(bs)
    IN IF fam = "classical" THEN
           LET en == [s \in B |-> Diag4(terms, s)]
               e0 == CHOOSE e \in {en[s] : s \in B} : \A s \in B : en[s] >= e
               gs == {s \in B : en[s] = e0}
               s0 == CHOOSE s \in gs : \A x \in gs : s <= x
           IN [fam |-> fam, L |-> n, nup |-> up, var |-> var, terms |-> terms, basis |-> bs,
               E0x4 |-> e0, v |-> [q \in 1..dim |-> IF bs[q] = s0 THEN 1 ELSE 0],
               nondeg |-> Cardinality(gs) = 1, ground |-> SortSet(gs), rank |-> dim - Cardinality(gs),
               conn |-> Connected(terms, B), cell |-> <<>>, E0cellx4 |-> 0]
       ELSE
           LET e0 == IF fam = "chain2" THEN 4 * Shift(var) * (n \div 2)
                     ELSE 4 * Shift(var) + 2 * Field(var) * (2 * up - n)
               vf == [s \in B |-> IF fam = "ferro" THEN 1 ELSE DimerAmp(s, n)]
               rk == RankModP(terms, bs, e0)
           IN [fam |-> fam, L |-> n, nup |-> up, var |-> var, terms |-> terms, basis |-> bs,
               E0x4 |-> e0, v |-> [q \in 1..dim |-> vf[bs[q]]],
               nondeg |-> rk = dim - 1, ground |-> <<>>, rank |-> rk, conn |-> Connected(terms, B),
               cell |-> CellOf(fam, var), E0cellx4 |-> 4 * Shift(var)]

-----------------------------------------------------------------------------
(* Layer 3: effective Hamiltonians over the Gaussian integers (family "effH").
   An MPS of n sites with integer tensors B[i] (shape chi[i] x 2 x chi[i+1], labels vL p vR, all bond values 1) and an
   MPO with integer tensors W[i] (shape D[i] x D[i+1] x 2 x 2, labels wL wR p p-star) determine, by sums anybody can read,
       LP[i+1][b', w2, b] = sum  conj(B[i][a', s', b']) W[i][w, w2, s', s] LP[i][a', w, a] B[i][a, s, b]     (labels vR-star wR vR)
       RP[i-1][a, w, a']  = sum  B[i][a, s, c] W[i][w, w2, s', s] RP[i][c, w2, c'] conj(B[i][a', s', c'])      (labels vL wL vL-star)
       H1[i0][(a',s',c'), (a,s,c)]        = sum  LP[i0][a', w, a] W[i0][w, w2, s', s] RP[i0][c, w2, c']
       H2[i0][(a',s',t',c'), (a,s,t,c)]   = sum  LP[i0][a', w, a] W[i0][w, x, s', s] W[i0+1][x, w2, t', t] RP[i0+1][c, w2, c']
   and H1[i0] theta, H2[i0] theta for the one-/two-site wave function theta of the MPS itself.  All contractions of
   tenpy on this data are exact in float64, so MPOEnvironment.get_LP/get_RP, OneSiteH/TwoSiteH.matvec and to_matrix
   (combine on/off, both directions) must return *equal* numbers. *)
EChi(var) == IF var % 2 = 0 THEN <<1, 2, 2, 1>> ELSE <<1, 2, 1, 1>>
ED(var) == IF var % 3 = 0 THEN <<1, 2, 2, 1>> ELSE IF var % 3 = 1 THEN <<1, 3, 2, 1>> ELSE <<1, 1, 2, 1>>
EGen(var, site, n) == <<((7 * n + 3 * site + 5 * var + n * n) % 5) - 2,
                        IF var % 2 = 1 THEN ((3 * n + site + var) % 3) - 1 ELSE 0>>
EB(var, i) == LET sh == <<EChi(var)[i + 1], 2, EChi(var)[i + 2]>> IN
              [shape |-> sh, val |-> [q \in 1..Size(sh) |-> EGen(var, i, q)]]
EW(var, i) == LET sh == <<ED(var)[i + 1], ED(var)[i + 2], 2, 2>> IN
              [shape |-> sh, val |-> [q \in 1..Size(sh) |-> EGen(var + 1, i + 3, 2 * q + 1)]]
\* sum of f over all index tuples of `shape`
SumOver(shape, f(_)) == GSumSeq([q \in 1..Size(shape) |-> f(Unflat(q - 1, shape))])

ELPnext(lp, b, w) ==      \* absorb site tensors b, w into the left part lp
    LET chiL == b.shape[1]
        chiR == b.shape[3]
        dl == w.shape[1]
    IN Mk(<<chiR, w.shape[2], chiR>>, LAMBDA o :
          SumOver(<<chiL, chiL, dl, 2, 2>>, LAMBDA x :   \* x = <<a', a, w, s', s>>
              GMul(GMul(GConj(At(b, <<x[1], x[4], o[1]>>)), At(w, <<x[3], o[2], x[4], x[5]>>)),
                   GMul(At(lp, <<x[1], x[3], x[2]>>), At(b, <<x[2], x[5], o[3]>>)))))
ERPprev(rp, b, w) ==      \* absorb site tensors b, w into the right part rp
    LET chiL == b.shape[1]
        chiR == b.shape[3]
        dr == w.shape[2]
    IN Mk(<<chiL, w.shape[1], chiL>>, LAMBDA o :
          SumOver(<<chiR, chiR, dr, 2, 2>>, LAMBDA x :   \* x = <<c, c', w2, s', s>>
              GMul(GMul(At(b, <<o[1], x[5], x[1]>>), At(w, <<o[2], x[3], x[4], x[5]>>)),
                   GMul(At(rp, <<x[1], x[3], x[2]>>), GConj(At(b, <<o[3], x[4], x[2]>>))))))
Unit3 == [shape |-> <<1, 1, 1>>, val |-> <<GOne>>]
RECURSIVE ELP(_, _)
ELP(var, i) == IF i = 0 THEN Unit3 ELSE TLCEval(ELPnext(ELP(var, i - 1), EB(var, i - 1), EW(var, i - 1)))
RECURSIVE ERP(_, _)
ERP(var, i) == IF i = 2 THEN Unit3 ELSE TLCEval(ERPprev(ERP(var, i + 1), EB(var, i + 1), EW(var, i + 1)))

EH1(var, i0) ==           \* rank-6 tensor [a', s', c', a, s, c]
    LET lp == ELP(var, i0)
        rp == ERP(var, i0)
        w == EW(var, i0)
        cl == lp.shape[1]
        cr == rp.shape[1]
    IN Mk(<<cl, 2, cr, cl, 2, cr>>, LAMBDA o :
          SumOver(<<w.shape[1], w.shape[2]>>, LAMBDA x :
              GMul(GMul(At(lp, <<o[1], x[1], o[4]>>), At(w, <<x[1], x[2], o[2], o[5]>>)), At(rp, <<o[6], x[2], o[3]>>))))
EH2(var, i0) ==           \* rank-8 tensor [a', s', t', c', a, s, t, c]
    LET lp == ELP(var, i0)
        rp == ERP(var, i0 + 1)
        w0 == EW(var, i0)
        w1 == EW(var, i0 + 1)
        cl == lp.shape[1]
        cr == rp.shape[1]
    IN Mk(<<cl, 2, 2, cr, cl, 2, 2, cr>>, LAMBDA o :
          SumOver(<<w0.shape[1], w0.shape[2], w1.shape[2]>>, LAMBDA x :
              GMul(GMul(At(lp, <<o[1], x[1], o[5]>>), At(w0, <<x[1], x[2], o[2], o[6]>>)),
                   GMul(At(w1, <<x[2], x[3], o[3], o[7]>>), At(rp, <<o[8], x[3], o[4]>>)))))
ETheta2(var, i0) ==       \* two-site wave function [a, s, t, c] of the MPS
    LET b0 == EB(var, i0)
        b1 == EB(var, i0 + 1)
    IN Mk(<<b0.shape[1], 2, 2, b1.shape[3]>>, LAMBDA o :
          SumOver(<<b0.shape[3]>>, LAMBDA x : GMul(At(b0, <<o[1], o[2], x[1]>>), At(b1, <<x[1], o[3], o[4]>>))))
EApply1(h, th) == Mk(th.shape, LAMBDA o : SumOver(th.shape, LAMBDA x : GMul(At(h, o \o x), At(th, x))))

MakeEffH(var) ==
    [fam |-> "effH", var |-> var, L |-> 3, nup |-> 0,
     B |-> [i \in 1..3 |-> EB(var, i - 1)], W |-> [i \in 1..3 |-> EW(var, i - 1)],
     LP |-> [i \in 1..3 |-> ELP(var, i - 1)], RP |-> [i \in 1..3 |-> ERP(var, i - 1)],
     H1 |-> [i \in 1..3 |-> TLCEval(EH1(var, i - 1))],
     H1theta |-> [i \in 1..3 |-> EApply1(EH1(var, i - 1), EB(var, i - 1))],
     H2 |-> [i \in 1..2 |-> TLCEval(EH2(var, i - 1))],
     theta2 |-> [i \in 1..2 |-> ETheta2(var, i - 1)],
     H2theta |-> [i \in 1..2 |-> EApply1(EH2(var, i - 1), ETheta2(var, i - 1))],
     full |-> TInner(EB(var, 2), EApply1(EH1(var, 2), EB(var, 2)), TRUE)]      \* <psi|H|psi>, cut at the last site

-----------------------------------------------------------------------------
(* Complex Hamiltonians.  With the diagonal unitary U = prod_j exp(i phi_j Sz_j), phi_j = tw[j] * pi/2, every S+_i S-_j
   becomes i^(tw[i]-tw[j]) S+_i S-_j (twk = 1: a uniform twist of pi/2 per bond turns S_i.S_j into
   Sz_i Sz_j -+ (Sx_i Sy_j - Sy_i Sx_j), a Dzyaloshinskii-Moriya coupling): H' = U H U^dagger is a complex Hermitian,
   still Sz conserving Hamiltonian whose matrix elements are Gaussian integers (of 4H'),
       <s|4H'|t> = u_s <s|4H|t> conj(u_t),   u_s = i^(sum_j tw[j] bit_j(s)),
   with the spectrum of H and the ground vector v'_s = u_s v_s.  TwistCert checks the eigen-equation of the
   complex matrix directly over the Gaussian integers and |u_s| = 1 (so H' is unitarily equivalent to the certified
   real H: E0, nondeg and conn carry over). *)
TwistSeq(twk, n) == [j \in 1..n |-> IF twk = 0 THEN 0 ELSE IF twk = 1 THEN (j - 1) % 4 ELSE ((j - 1) * (j - 1) + 1) % 4]
Phase(s, tw) == ISumSeq([j \in 1..Len(tw) |-> tw[j] * Bit(s, j - 1)]) % 4
TwistVec(bs, v, tw) == [q \in 1..Len(bs) |-> GMul(GIPow(Phase(bs[q], tw)), GInt(v[q]))]
WithTwist(I, twk) ==
    [fam |-> I.fam, L |-> I.L, nup |-> I.nup, var |-> I.var, terms |-> I.terms, basis |-> I.basis, E0x4 |-> I.E0x4,
     v |-> I.v, nondeg |-> I.nondeg, ground |-> I.ground, rank |-> I.rank, conn |-> I.conn, cell |-> I.cell,
     E0cellx4 |-> I.E0cellx4, twk |-> twk, tw |-> TwistSeq(twk, I.L), vc |-> TwistVec(I.basis, I.v, TwistSeq(twk, I.L))]

NoInst == [fam |-> "none"]

Init == stage = 0 /\ par = <<"none", 0, 0, 0, 0>> /\ inst = NoInst

Choose ==
    /\ stage = 0
    /\ \E fam \in Fams, n \in Ls, up \in 0..8, var \in 0..(NVar - 1), twk \in Twists :
          /\ up <= n /\ ValidPar(fam, n, up)
          /\ (fam \in {"classical", "effH"} => twk = 0)
          /\ par' = <<fam, n, up, var, twk>>
    /\ stage' = 1 /\ UNCHANGED inst

Build ==
    /\ stage = 1
    /\ inst' = IF par[1] = "effH" THEN MakeEffH(par[4]) ELSE WithTwist(Make(par), par[5])
    /\ stage' = 2 /\ UNCHANGED par

Next == Choose \/ Build
Spec == Init /\ [][Next]_vars

-----------------------------------------------------------------------------
\* Certificates (checked by TLC on every built instance)
VecOf(I) == [s \in {I.basis[q] : q \in 1..Len(I.basis)} |-> I.v[CHOOSE q \in 1..Len(I.basis) : I.basis[q] = s]]
BSet(I) == {I.basis[q] : q \in 1..Len(I.basis)}
TermSet(I) == {I.terms[q] : q \in 1..Len(I.terms)}

\* (4H) v = E0x4 v, v # 0, v lives in the sector
EigenCert == (stage = 2 /\ inst.fam # "effH") =>
    LET w == VecOf(inst) IN
    /\ \E s \in BSet(inst) : w[s] # 0
    /\ BSet(inst) = Basis(inst.L, inst.nup)
    /\ \A s \in BSet(inst) : HVec(inst.terms, w, s) = inst.E0x4 * w[s]

\* classical instances: diagonal, and E0x4 really is the minimum of the sector
ClassicalCert == (stage = 2 /\ inst.fam = "classical") =>
    /\ \A t \in TermSet(inst) : IsDiag(t)
    /\ \A s \in BSet(inst) : Diag4(inst.terms, s) >= inst.E0x4
    /\ inst.nondeg = (Cardinality({s \in BSet(inst) : Diag4(inst.terms, s) = inst.E0x4}) = 1)

\* frustration-free instances: each projector term is a positive multiple of a projector on the sector and
\* annihilates v; everything else is a multiple of the identity on the sector  =>  E0x4 is the minimum
FrustrationFreeCert == (stage = 2 /\ inst.fam \notin {"classical", "effH"}) =>
    LET w == VecOf(inst)
        B == BSet(inst)
        rest == SelectSeq(inst.terms, LAMBDA t : ~IsProj(t))
    IN /\ \A t \in TermSet(inst) : IsProj(t) =>
            /\ t.c > 0
            /\ \A s \in B : TermVec(t, w, s) = 0
            /\ \A s \in B :                       \* (4T)(4T) e_s = lambda (4T) e_s
                 LET u == [x \in B |-> TermVec(t, [y \in B |-> IF y = s THEN 1 ELSE 0], x)]
                 IN \A x \in B : TermVec(t, u, x) = Lambda(t) * u[x]
       /\ \A t \in TermSet(inst) : ~IsProj(t) => IsDiag(t)
       /\ \A s \in B : HVec(rest, [x \in B |-> IF x = s THEN 1 ELSE 0], s) = inst.E0x4
       /\ inst.nondeg => inst.rank = Len(inst.basis) - 1

\* complex (twisted) instances: (4H') v' = E0x4 v' over the Gaussian integers, |u_s| = 1
TwistCert == (stage = 2 /\ inst.fam # "effH") =>
    LET pos == [s \in BSet(inst) |-> CHOOSE q \in 1..Len(inst.basis) : inst.basis[q] = s]
        Row(s) == GSumSeq([tt \in 1..Len(inst.terms) |->
                     LET a == Apply4(inst.terms[tt], s) IN
                     GSumSeq([x \in 1..Len(a) |->
                         GScale(a[x][2], GMul(GIPow((Phase(s, inst.tw) - Phase(a[x][1], inst.tw)) % 4), inst.vc[pos[a[x][1]]]))])])
    IN /\ Len(inst.tw) = inst.L
       /\ \A s \in BSet(inst) : GAbs2(GIPow(Phase(s, inst.tw))) = 1
       /\ \A s \in BSet(inst) : Row(s) = GScale(inst.E0x4, inst.vc[pos[s]])
       /\ (inst.twk = 0) => \A q \in 1..Len(inst.basis) : inst.vc[q] = GInt(inst.v[q])

\* effH: the full contraction <psi|H|psi> does not depend on the bond at which the chain is cut, the two-site
\* effective Hamiltonian applied to theta2 reproduces it, and H1/H2 are Hermitian whenever all W are
EffHCert == (stage = 2 /\ inst.fam = "effH") =>
    LET Full1(i) == TInner(inst.B[i], inst.H1theta[i], TRUE)
        Full2(i) == TInner(inst.theta2[i], inst.H2theta[i], TRUE)
    IN /\ \A i \in 1..3 : Full1(i) = Full1(1)
       /\ \A i \in 1..2 : Full2(i) = Full1(1)
       /\ inst.full = Full1(1)

\* "chain2": every term of the finite chain is a translate (by whole unit cells) of a term of the cell, with the
\* same coefficient, and every cell term occurs -- so the finite certificate speaks about the infinite chain
CellCert == (stage = 2 /\ inst.fam = "chain2") =>
    LET Tr(t, d) == [k |-> t.k, i |-> t.i + 2 * d, j |-> IF t.k = "id" THEN 0 ELSE t.j + 2 * d,
                     m |-> IF t.k = "p32" THEN t.m + 2 * d ELSE 0, c |-> t.c]
        cellset == {inst.cell[q] : q \in 1..Len(inst.cell)}
    IN /\ \A t \in TermSet(inst) : \E u \in cellset, d \in 0..inst.L : Tr(u, d) = t
       /\ \A u \in cellset : \E t \in TermSet(inst) : Tr(u, 0) = t
       /\ inst.E0x4 = inst.E0cellx4 * (inst.L \div 2)

\* the catalogue is not vacuous: the intended unique ground states are certified unique, and the glued
\* dimers, the Majumdar-Ghosh and the ferromagnetic chains are irreducible on their sectors
Expected == /\ (stage = 2 /\ inst.fam \in {"dimer", "ferro", "mg", "chain2"}) => inst.nondeg
            /\ (stage = 2 /\ (inst.fam \in {"ferro", "mg", "chain2"} \/ (inst.fam = "dimer" /\ inst.var % 2 = 1))) => inst.conn
            /\ (stage = 2 /\ inst.fam = "classical" /\ Len(inst.basis) > 1) => ~inst.conn

(* Postconditions of a ground-state search `E, psi = Engine(psi0, H, options).run()` started from a product
   state psi0 of the sector, evaluated by the harness on the floats (tolerance 1e-8 * scale), with
   E0 = E0x4 / 4, q = 2 nup - L:
     P1  max |psi.norm_test()| ~ 0 and psi.norm = 1                      (normalised, canonical form)
     P2  psi.get_total_charge() = q                                      (exact; not for diag_method ED_all)
     P3  <psi|H|psi> = E + E_trunc(last update), and <psi|H|psi> = E if the last sweep reports no truncation error
         (reported energy vs. expectation value; independent of lanczos_params['E_shift'];
         not claimed for a run that stops while a mixer is still enabled: its last environments were built from
         perturbed, non-canonical tensors, so E and E_trunc are not expectation values then; P4 is then claimed for
         <psi|H|psi> only)
     P4  E >= E0 - tol  and  <psi|H|psi> >= E0 - tol                     (variational bound in the sector)
     infinite chains ("chain2", engines VUMPS / iDMRG; e0 = E0cellx4 / 8 the exact energy per site):
     V1  max |psi.norm_test()| ~ 0          V2  E_reported = H_MPO.expectation_value(psi) (energy per site)
     V3  E_reported >= e0 - tol             V4  (converged runs) E_reported = e0
     (twisted instances: H is the complex H' built with the phases i^(tw[i]-tw[j]); v is the complex vector vc)
     P6  the run performs at most max_sweeps + N_sweeps_check sweeps (stopping_criterion: `sweeps > max_sweeps`)
     P5  two-site engine (evaluated for the single-site engine with a mixer as well), mixer on, bond dimension not truncated, enough sweeps, conn (otherwise H has further
         conserved quantities and a product state need not be connected to the ground state at all), and the
         start state is not orthogonal to v (v[s0] # 0; a Krylov eigensolver started in another symmetry sector of H,
         e.g. of a site permutation commuting with H, can never leave it) unless the local eigensolver is ED_block:
         <psi|H|psi> = E0  and, if nondeg,  |<v|psi>|^2 = <v|v>          (exact ground state reached)      *)
=============================================================================
