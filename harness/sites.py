"""Projection helpers for local Hilbert spaces / many-body operators (used by C12; reusable by C08/C10).

Nothing here computes an expectation: these functions only turn tenpy objects (sites, MPOs, MPS) into
plain arrays / numbers in a basis addressed by *state labels*, so they can be compared with the
values a TLA+ specification computed.
"""
import itertools

import numpy as np


def mpo_dense(H):
    """Dense matrix of a finite MPO (rows/cols in np.kron order of the sites' local bases)."""
    L = H.L
    v = None
    for i in range(L):
        W = H.get_W(i).transpose(['wL', 'wR', 'p', 'p*']).to_ndarray()
        if v is None:
            v = W[H.get_IdL(0)].transpose(1, 2, 0)  # p, p*, wR
        else:
            v = np.tensordot(v, W, axes=[2, 0])  # P P* wR p p*
            d1, d2 = v.shape[0], v.shape[3]
            e1, e2 = v.shape[1], v.shape[4]
            v = v.transpose(0, 3, 1, 4, 2).reshape(d1 * d2, e1 * e2, -1)
    return v[:, :, H.get_IdR(L - 1)]


def kron_named(sites, per):
    """Dense tensor product of named on-site operators: per[i] = operator name understood by sites[i].get_op."""
    out = np.ones((1, 1))
    for s, nm in zip(sites, per):
        out = np.kron(out, s.get_op(nm).to_ndarray())
    return out


def product_basis_index(sites, labels):
    """Index (np.kron order) of the product basis state given one state label per site."""
    idx = 0
    for s, lab in zip(sites, labels):
        idx = idx * s.dim + int(s.state_labels[lab])
    return idx


def product_state_coeff(psi, labels):
    """<labels|psi> for an MPS of bond dimension 1 (product of the addressed tensor entries, times norm)."""
    c = psi.norm
    for i, lab in enumerate(labels):
        B = psi.get_B(i, form=None).to_ndarray()
        if B.shape[0] != 1 or B.shape[2] != 1:
            raise ValueError('not a bond-dimension-1 MPS')
        c = c * B[0, int(psi.sites[i].state_labels[lab]), 0]
    return c


def occupations_to_labels(bits, K):
    """bits: occupation of the K*L modes (site-major, up before down) -> one state label per site."""
    L = len(bits) // K
    if K == 1:
        return ['full' if bits[i] else 'empty' for i in range(L)]
    names = {(0, 0): 'empty', (1, 0): 'up', (0, 1): 'down', (1, 1): 'full'}
    return [names[(bits[2 * i], bits[2 * i + 1])] for i in range(L)]


def bits_of(x, M):
    return [(x >> (M - 1 - k)) & 1 for k in range(M)]


def all_label_tuples(sites, primary_labels):
    """itertools.product over the primary labels of each site."""
    return itertools.product(*[primary_labels(s) for s in sites])
