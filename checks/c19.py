"""C19: lattice geometry -- index maps are bijections, couplings are enumerated exactly.

MC: TLC enumerates lattice class x size x variant x boundary conditions x bc_MPS x ordering and, per case,
the queries (index maps, couplings for every (u1, u2, dx), multi-couplings, neighbour classes, reshaping)
with the answers that spec/Lattice.tla defines; the theorems of the spec are checked on every case.
REPLAY: every dumped state is a self-contained case (constructor input + query + expected answer); the
real tenpy lattice is built and asked the same question.
"""
import collections
import concurrent.futures
import shutil
import sys
import time
import traceback

import numpy as np

from harness import core, tlc
from harness import lattice as hl

INVS = ['OrderIsBijection', 'RoundTrip', 'HelixFormula', 'StdOrderMeaning', 'EachPairExactlyOnce',
        'InfiniteBoundaryPairInOneCell', 'FlipSymmetry', 'AnchorsArePlacements', 'StrengthIndex', 'CountNeighbors']
ACTIONS = ['ChooseClass', 'ChooseSize', 'ChooseVariant', 'ChooseBC', 'Build', 'EnlargeMPSUnitCell', 'GroupSites', 'QIndex',
           'QCouplings', 'QMulti', 'QNeighbors', 'QValues']
WORKERS = 8
COVERAGE_RUNS = ('orders-1d', 'neighbors', 'couplings-1d', 'helical', 'derive')  # together they take every action

BASE = dict(Classes=set(), MaxL=3, MaxLx=2, MaxLy=2, NLegs={3}, MaxN=12, MaxShift=1, BcMode='all',
            BcMpsSet={'finite', 'infinite'}, OrderMode='basic', PermMults={7}, Queries=set(), DxCap=4, MultiMod=7,
            MultiRes=0, BFMaxN=16, MaxRemove=1, MaxAdd=1, IrrMod=1, IrrRes=0, NLegSpacing='squeezed',
            DxExtra=0, EnlargeSet=set(), EnlargeVia={'copy'}, GroupSet=set())
ALLQ = {'index', 'couplings', 'multi', 'neighbors', 'values'}
REG1D = {'Chain', 'Ladder', 'NLegLadder'}
FMT = {'finite', 'infinite', 'segment'}


def nleg_spacing():
    """Which of the two NLegLadder geometries of the spec the implementation has (projection of
    unit_cell_positions): legs at y = u/(N-1) ('squeezed') or at y = u ('unit')."""
    from tenpy.models.lattice import NLegLadder
    y = float(NLegLadder(2, 3, hl.the_site()).unit_cell_positions[1][1])
    if abs(y - 1.) < 1e-12:
        return 'unit'
    if abs(y - 0.5) < 1e-12:
        return 'squeezed'
    raise core.MachineryError('NLegLadder geometry is neither of the two variants of the spec: y_1 = %r' % y)


def groups(tier, seed):
    """The TLC runs of a tier: (name, constants).  Every run is exhaustive over its constants; the seed only
    selects the pseudo-random permutations and which residue classes of the sampled catalogues are taken."""
    pm = {5 + 2 * (seed % 50)}  # multiplier of the pseudo-random custom permutation
    pm2 = {5 + 2 * (seed % 50), 8 + 3 * (seed % 40), 101 + (seed % 60)}
    g = []

    def add(name, **kw):
        c = dict(BASE)
        c.update(PermMults=pm, NLegSpacing=nleg_spacing())
        c.update(kw)
        c['MultiRes'] = seed % c['MultiMod']
        c['IrrRes'] = seed % c['IrrMod']
        g.append((name, c))
    if tier == 'quick':
        # every ordering (named, all ('standard', snake, priority), grouped, permutations): index maps, reshaping
        add('orders-1d', Classes=REG1D, MaxL=4, MaxN=12, BcMode='periodic', OrderMode='all', PermMults=pm2,
            Queries={'index', 'values'}, BcMpsSet=FMT)
        add('orders-2d', Classes={'Square', 'Honeycomb', 'Kagome', 'General', 'Cubic', 'Multi'}, MaxLx=3, MaxLy=3, MaxN=12,
            BcMode='periodic', OrderMode='all', PermMults=pm2, Queries={'index', 'values'})
        # neighbour classes of every class
        add('neighbors', Classes=REG1D | {'Square', 'Triangular', 'Honeycomb', 'Kagome', 'Multi'}, MaxL=2, MaxLx=2, MaxLy=1,
            MaxN=12, MaxShift=0, BcMpsSet={'finite'}, PermMults=set(), Queries={'neighbors', 'index'})
        # every boundary condition x bc_MPS x (u1, u2, dx): couplings
        add('couplings-1d', Classes=REG1D, MaxL=4, MaxN=12, Queries=ALLQ, BcMpsSet=FMT, DxExtra=1, DxCap=5)
        add('couplings-square', Classes={'Square'}, MaxLx=3, MaxLy=3, MaxN=9, Queries=ALLQ, MultiMod=47)
        add('couplings-cell', Classes={'Honeycomb', 'Kagome', 'General'}, MaxLx=2, MaxLy=2, MaxN=6, Queries=ALLQ, MultiMod=151,
            PermMults=set())
        add('couplings-cubic', Classes={'Cubic'}, MaxN=2, MaxShift=0, Queries=ALLQ, MultiMod=401, PermMults=set())
        add('multispecies', Classes={'Multi'}, MaxL=3, MaxN=6, Queries=ALLQ - {'multi'}, DxCap=1, PermMults=set())
        add('irregular', Classes={'Irregular'}, MaxL=3, MaxN=6, Queries=ALLQ, DxCap=2, MultiMod=61, IrrMod=211, PermMults=set())
        add('helical', Classes={'Helical'}, MaxN=12, Queries=ALLQ, MultiMod=61)
        # enlarge_mps_unit_cell / with_grouped_sites applied to built lattices of every class, all queries again
        add('derive', Classes={'Chain', 'Ladder', 'Square', 'Honeycomb', 'Multi', 'Irregular', 'Helical'}, MaxL=3, MaxN=6,
            BcMode='periodic', Queries=ALLQ - {'neighbors'}, DxCap=1, MultiMod=401, IrrMod=101, PermMults=set(),
            EnlargeSet={2}, EnlargeVia={'copy', 'segment'}, GroupSet={2, 3})
    else:
        add('orders-1d', Classes=REG1D, MaxL=6, NLegs={3, 4}, MaxN=24, BcMode='periodic', OrderMode='all', PermMults=pm2,
            Queries={'index', 'values'}, BcMpsSet=FMT)
        add('orders-2d', Classes={'Square', 'Triangular', 'Honeycomb', 'Kagome', 'General', 'Cubic', 'Multi'}, MaxLx=4, MaxLy=4,
            MaxN=48, BcMode='periodic', OrderMode='all', PermMults=pm2, Queries={'index', 'values'}, BFMaxN=0)
        add('neighbors', Classes=REG1D | {'Square', 'Triangular', 'Honeycomb', 'Kagome', 'Multi'}, MaxL=2, MaxLx=2, MaxLy=2,
            NLegs={3, 4}, MaxN=12, MaxShift=0, BcMpsSet={'finite'}, PermMults=set(), Queries={'neighbors', 'index'})
        add('couplings-1d', Classes=REG1D, MaxL=6, NLegs={3, 4}, MaxN=24, Queries=ALLQ, BcMpsSet=FMT, DxCap=7, DxExtra=1, BFMaxN=24)
        add('couplings-square', Classes={'Square', 'Triangular'}, MaxLx=4, MaxLy=4, MaxN=16, Queries=ALLQ, MaxShift=2, MultiMod=23,
            BcMpsSet=FMT, BFMaxN=12)
        add('couplings-cell', Classes={'Honeycomb', 'Kagome', 'General'}, MaxLx=3, MaxLy=3, MaxN=18, Queries=ALLQ, MultiMod=61,
            BFMaxN=18)
        add('couplings-4x4', Classes={'Honeycomb', 'Kagome'}, MaxLx=4, MaxLy=4, MaxN=48, Queries={'couplings'}, BcMode='periodic',
            PermMults=set(), BFMaxN=0)
        add('couplings-cubic', Classes={'Cubic'}, MaxN=8, Queries=ALLQ, MultiMod=101, PermMults=set())
        add('multispecies', Classes={'Multi'}, MaxL=4, MaxN=16, Queries=ALLQ, DxCap=2, MultiMod=211)
        add('irregular', Classes={'Irregular'}, MaxL=4, MaxN=8, Queries=ALLQ, DxCap=2, MultiMod=61, IrrMod=83, MaxRemove=2, MaxAdd=2)
        add('helical', Classes={'Helical'}, MaxLx=3, MaxLy=3, MaxN=27, Queries=ALLQ, MultiMod=61, BFMaxN=12)
        add('derive', Classes={'Chain', 'Ladder', 'NLegLadder', 'Square', 'Honeycomb', 'Kagome', 'Multi', 'Irregular', 'Helical'},
            MaxL=3, MaxLx=2, MaxLy=2, MaxN=8, BcMode='periodic', BcMpsSet=FMT, Queries=ALLQ - {'neighbors'}, DxCap=1, MultiMod=401,
            IrrMod=101, PermMults=set(), EnlargeSet={2, 3}, EnlargeVia={'inplace', 'copy', 'segment'}, GroupSet={2, 3}, BFMaxN=12)
    return g


# ------------------------------------------------------------------------------------------------
# replay of one state
# ------------------------------------------------------------------------------------------------
class Replayer:
    def __init__(self, ctx, group):
        self.ctx = ctx
        self.group = group
        self.lats = {}
        self.models = {}
        self.nstates = 0
        self.t_build = 0.0
        self.term_stride = 1

    # -- helpers
    def sig(self, st, op, clause, **extra):
        cfg = st['cfg']
        s = dict(kind='replay', spec='Lattice', op=op, clause=clause, cls=cfg['cls'], base=cfg['base'],
                 extended=cfg['bcmps'] != 'finite', shifted=any(x != 0 for x in cfg['shift']),
                 open_x=bool(cfg['bc']) and cfg['bc'][0] == 'open', dim=len(cfg['Ls']), ordkind=cfg['ord']['kind'],
                 enlarged=cfg.get('enl', 1) > 1, parent_cls=(cfg.get('parent') or {}).get('cls', ''))
        s.update(extra)
        return s

    def fail(self, st, op, clause, got, expected, **extra):
        detail = dict(group=self.group, cfg=st['cfg'], order=st['order'], query=st['last'], got=got, expected=expected)
        self.ctx.violation(self.sig(st, op, clause, **extra), detail)

    def lattice(self, st):
        key = hl.cfg_key(st['cfg'])
        lat = self.lats.get(key)
        if lat is None:
            t0 = time.time()
            lat = hl.build_lattice(st['cfg'], st['order'])
            self.t_build += time.time() - t0
            if len(self.lats) > 4000:
                self.lats.clear()
                self.models.clear()
            self.lats[key] = lat
        return lat, key

    def model(self, lat, key):
        m = self.models.get(key)
        if m is None:
            from tenpy.models.model import CouplingModel
            m = self.models[key] = CouplingModel(lat)
        return m

    # -- one state
    def replay(self, st):
        op = st['last']['op']
        stage = st['stage']
        if stage not in ('built', 'done'):
            return
        self.nstates += 1
        fn = getattr(self, 'op_' + op)
        ck = (self.group, hl.cfg_key(st['cfg']), op, repr({k: v for k, v in st['last'].items() if k in ('u1', 'u2', 'dx', 'ops')}))
        # trivial: a displacement that admits no coupling at all (the code must still say so)
        self.ctx.case(ck, nontrivial=not (op in ('couplings', 'multi') and not st['last']['rows']), action='Lattice.' + op)
        if op in ('couplings', 'multi') and len(st['last']['rows']) > 2 and len(self.ctx.samples) < self.ctx.max_samples \
                and self.nstates % 1013 == 7:
            self.ctx.sample(dict(cfg=st['cfg'], order=st['order'], query=st['last']))
        try:
            lat, key = self.lattice(st)
        except Exception as e:
            self.fail(st, 'build', 'constructor-exception', repr(e), 'lattice', exc=type(e).__name__)
            return
        try:
            fn(st, lat, key)
        except core.MachineryError:
            raise
        except Exception as e:  # an exception of the code under test is an observable result
            self.fail(st, op, 'exception', traceback.format_exc(limit=6), 'answer', exc=type(e).__name__)
        self.ctx.trace_ok(1)

    # -- build: the order
    def op_build(self, st, lat, key):
        cfg = st['cfg']
        exp = np.array(st['order'], dtype=np.intp).reshape(len(st['order']), len(cfg['Ls']) + 1)
        flags = getattr(lat, '_verif_flags', {})
        if 'multi_ignores_simple_order' in flags:
            # reported, then the replay goes on with the intended order (set by harness/lattice.py)
            self.fail(st, 'build', 'multi-ignores-simple-order', flags['multi_ignores_simple_order'], exp.tolist())
        # deriving a lattice (enlarged copy, segment, grouped sites) leaves the original and the lattices it is built on
        # unchanged: same observable state as before, and still the order of the parent case of the spec
        if 'original_changed' in flags:
            self.fail(st, 'build', 'original-changed', flags['original_changed'], 'unchanged', what=flags['original_changed']['what'],
                      via=cfg.get('via', 'none'))
        elif 'porder' in st['last'] and 'original_order' in flags and flags['original_order'] != [list(x) for x in st['last']['porder']]:
            self.fail(st, 'build', 'original-order', flags['original_order'], st['last']['porder'], via=cfg.get('via', 'none'))
        if 'disorder_exception' in flags:
            self.fail(st, 'build', 'enlarge-position-disorder', flags['disorder_exception'], 'position_disorder repeated with the unit cell')
        elif 'disorder' in flags:
            pd = getattr(lat, 'position_disorder', None)
            want = [flags['disorder'][tuple(src)].tolist() for src in st['last']['dsrc']]
            try:
                gotpd = [np.asarray(pd)[tuple(l)].tolist() for l in st['order']]
            except Exception as e:
                gotpd = repr(e)
            if gotpd != want:
                self.fail(st, 'build', 'enlarge-position-disorder', gotpd, want)
        if lat.bc_MPS != cfg['bcmps']:
            return self.fail(st, 'build', 'bc_MPS', lat.bc_MPS, cfg['bcmps'])
        if lat.N_sites != len(exp):
            return self.fail(st, 'build', 'N_sites', int(lat.N_sites), len(exp))
        if cfg['ord']['kind'] != 'perm':
            got = np.asarray(lat.order)
            if got.shape != exp.shape or not np.array_equal(got, exp):
                return self.fail(st, 'build', 'order', got.tolist(), exp.tolist(), ordname=cfg['ord'].get('name', ''))
        nu = max(int(x[-1]) for x in st['full']) + 1
        if cfg['cls'] != 'Helical' and (tuple(lat.Ls) != tuple(cfg['Ls']) or len(lat.unit_cell) < nu):
            return self.fail(st, 'build', 'shape', [list(lat.Ls), len(lat.unit_cell)], [cfg['Ls'], nu])
        if cfg['cls'] == 'Helical' and tuple(lat.regular_lattice.Ls) != tuple(cfg['Ls']):
            return self.fail(st, 'build', 'shape', list(lat.regular_lattice.Ls), cfg['Ls'])
        # ordering(order) of the (possibly enlarged) lattice: the named order of its present shape
        reorder = st['last'].get('reorder', st['order'])
        if cfg['ord']['kind'] != 'perm' and cfg['cls'] != 'Grouped' and len(reorder) > 0:
            # asking for an order must not change the lattice: lat2mps_idx of every lattice index before / after
            box = np.indices(lat.shape).reshape(len(lat.shape), -1).T

            def probe():
                try:
                    return np.asarray(lat.lat2mps_idx(box)).tolist()
                except Exception as e:
                    return [repr(e)]
            before = probe()
            exc = None
            try:
                got = np.asarray(lat.ordering(hl.order_arg(cfg['ord'])))
            except Exception as e:
                exc = e
            after = probe()
            if after != before:
                self.fail(st, 'build', 'ordering-side-effect', after, before)
                lat.order = lat.order  # the setter recomputes the index maps; go on with the other comparisons
            if exc is not None:
                return self.fail(st, 'build', 'ordering-exception', repr(exc), 'order', exc=type(exc).__name__)
            want = np.array(reorder, dtype=np.intp)
            if got.shape != want.shape or not np.array_equal(got, want):
                return self.fail(st, 'build', 'ordering', got.tolist(), want.tolist(), ordname=cfg['ord'].get('name', ''))
        if self.nstates % 97 == 3 and len(self.ctx.samples) < 2:
            self.ctx.sample(dict(cfg=cfg, order=st['order']))

    # -- index maps
    def op_index(self, st, lat, key):
        l = st['last']
        lo = l['lo']
        m2l = np.array(l['m2l'], dtype=np.intp)
        idx = np.arange(lo, lo + len(m2l))
        got = lat.mps2lat_idx(idx)
        if not np.array_equal(got, m2l):
            bad = int(np.nonzero(np.any(got != m2l, axis=1))[0][0])
            return self.fail(st, 'index', 'mps2lat_idx', dict(i=int(idx[bad]), lat=got[bad].tolist()), m2l[bad].tolist())
        back = lat.lat2mps_idx(m2l)
        if not np.array_equal(back, idx):
            bad = int(np.nonzero(back != idx)[0][0])
            return self.fail(st, 'index', 'lat2mps_idx', dict(lat=m2l[bad].tolist(), i=int(back[bad])), int(idx[bad]))
        for k in range(0, len(idx), 3):  # scalar calls
            g = lat.mps2lat_idx(int(idx[k]))
            if not np.array_equal(g, m2l[k]):
                return self.fail(st, 'index', 'mps2lat_idx-scalar', dict(i=int(idx[k]), lat=np.asarray(g).tolist()), m2l[k].tolist())
            b = lat.lat2mps_idx(m2l[k])
            if int(b) != int(idx[k]):
                return self.fail(st, 'index', 'lat2mps_idx-scalar', dict(lat=m2l[k].tolist(), i=int(b)), int(idx[k]))
        N = lat.N_sites
        for u, exp in enumerate(l['fixu']):
            g = np.asarray(lat.mps_idx_fix_u(u))
            if g.tolist() != list(exp):
                return self.fail(st, 'index', 'mps_idx_fix_u', dict(u=u, idx=g.tolist()), list(exp))
            gi, gl = lat.mps_lat_idx_fix_u(u)
            explat = [m2l[i - lo][:-1].tolist() for i in exp]
            if np.asarray(gi).tolist() != list(exp) or np.asarray(gl).tolist() != explat:
                return self.fail(st, 'index', 'mps_lat_idx_fix_u', dict(u=u, idx=np.asarray(gi).tolist(), lat=np.asarray(gl).tolist()),
                                 dict(idx=list(exp), lat=explat))
        sites = lat.mps_sites()
        if len(sites) != N or any(sites[i] is not lat.unit_cell[m2l[i - lo][-1]] for i in range(N)):
            return self.fail(st, 'index', 'mps_sites', len(sites), N)
        g = np.asarray(lat.mps_idx_fix_u(None)).tolist()
        if sorted(g) != list(range(N)):
            return self.fail(st, 'index', 'mps_idx_fix_u-all', g, list(range(N)))
        if g != list(range(N)):  # documented: "Ordered ascending"
            return self.fail(st, 'index', 'mps_idx_fix_u-all-order', g, list(range(N)))

    # -- couplings
    def op_couplings(self, st, lat, key):
        l = st['last']
        cfg = st['cfg']
        u1, u2, dx = l['u1'], l['u2'], np.array(l['dx'], dtype=np.intp)
        rows = l['rows']
        helical = cfg['cls'] == 'Helical'
        twisted_open = cfg['bc'][0] == 'open' and any(x != 0 for x in cfg['shift'])
        extra = dict(dxneg=bool(np.any(dx < 0)), same_u=u1 == u2)
        i, j, latidx, shape = lat.possible_couplings(u1, u2, dx)
        i, j = np.asarray(i, dtype=np.intp), np.asarray(j, dtype=np.intp)
        latidx = np.asarray(latidx, dtype=np.intp).reshape(len(i), len(dx))
        if tuple(int(x) for x in shape) != tuple(l['shape']):
            return self.fail(st, 'couplings', 'coupling_shape', list(shape), l['shape'], **extra)
        cs, csdx = lat.coupling_shape(dx)
        if tuple(cs) != tuple(l['shape']) or np.asarray(csdx).tolist() != [min(0, int(x)) for x in dx]:
            return self.fail(st, 'couplings', 'coupling_shape-method', [list(cs), np.asarray(csdx).tolist()], l['shape'], **extra)
        got = collections.Counter(zip(i.tolist(), j.tolist()))
        exp = collections.Counter((r[0], r[1]) for r in rows)
        if got != exp:
            return self.fail(st, 'couplings', 'pairs', sorted(got.elements()), sorted(exp.elements()), **extra)
        if helical:
            # strength entries are only defined up to translation along the helix: uniform strength
            gi, gj, gs = lat.possible_couplings(u1, u2, dx, strength=2.)
            got = collections.Counter(zip(np.asarray(gi).tolist(), np.asarray(gj).tolist(), np.asarray(gs).tolist()))
            exps = collections.Counter((r[0], r[1], 2.) for r in rows)
            if got != exps:
                return self.fail(st, 'couplings', 'strength-uniform', sorted(got.elements()), sorted(exps.elements()), **extra)
            return
        got = collections.Counter(zip(i.tolist(), j.tolist(), map(tuple, latidx.tolist())))
        exp = collections.Counter((r[0], r[1], tuple(r[2])) for r in rows)
        if got != exp:
            return self.fail(st, 'couplings', 'lat_indices', sorted(got.elements()), sorted(exp.elements()), twisted_open=twisted_open,
                             **extra)
        if min(l['shape']) <= 0:
            return
        # strength selection with an injective strength array
        S = (1 + np.arange(int(np.prod(l['shape'])))).reshape(l['shape']).astype(np.float64)
        gi, gj, gs = lat.possible_couplings(u1, u2, dx, strength=S)
        got = collections.Counter(zip(np.asarray(gi).tolist(), np.asarray(gj).tolist(), [int(x) for x in np.asarray(gs)]))
        exp = collections.Counter((r[0], r[1], r[3][4]) for r in rows)
        if got != exp:
            return self.fail(st, 'couplings', 'strength', sorted(got.elements()), sorted(exp.elements()), twisted_open=twisted_open,
                             **extra)
        # resulting terms of CouplingModel.add_coupling
        if any(r[0] == r[1] for r in rows) or (u1 == u2 and not np.any(dx)):
            return
        if (self.nstates % self.term_stride) != 0:
            return
        m = self.model(lat, key)
        m.coupling_terms.clear()
        m.add_coupling(S, u1, 'Sp', u2, 'Sm', dx)
        got = collections.Counter()
        for cat, ct in m.coupling_terms.items():
            tl_ = ct.to_TermList()
            for term, strength in zip(tl_.terms, tl_.strength):
                if len(term) != 2:
                    return self.fail(st, 'couplings', 'terms', repr(term), 'two-site term', **extra)
                (o1, a), (o2, b) = term
                got[(int(a), o1, int(b), o2)] += int(round(float(np.real(strength))))
        exp = collections.Counter()
        for r in rows:
            t = r[3]
            exp[(t[0], t[1], t[2], t[3])] += t[4]
        m.coupling_terms.clear()
        if got != exp:
            return self.fail(st, 'couplings', 'terms', sorted(got.items()), sorted(exp.items()), **extra)

    # -- multi couplings
    def op_multi(self, st, lat, key):
        l = st['last']
        cfg = st['cfg']
        ops = [('X', list(o[0]), o[1]) for o in l['ops']]
        rows = l['rows']
        helical = cfg['cls'] == 'Helical'
        twisted_open = cfg['bc'][0] == 'open' and any(x != 0 for x in cfg['shift'])
        extra = dict(nops=len(ops), twisted_open=twisted_open, negshape=min(l['shape']) < 0)
        try:
            ijkl, latidx, shape = lat.possible_multi_couplings(ops)
        except Exception as e:
            return self.fail(st, 'multi', 'exception', traceback.format_exc(limit=3), 'rows', exc=type(e).__name__, **extra)
        if tuple(int(x) for x in shape) != tuple(l['shape']):
            return self.fail(st, 'multi', 'coupling_shape', list(shape), l['shape'], **extra)
        cs, csmin = lat.multi_coupling_shape(np.array([o[1] for o in ops], dtype=np.intp).reshape(len(ops), len(cfg['Ls'])))
        if tuple(int(x) for x in cs) != tuple(l['shape']) or [int(x) for x in csmin] != list(l['mins']):
            return self.fail(st, 'multi', 'multi_coupling_shape', [list(map(int, cs)), list(map(int, csmin))], [l['shape'], l['mins']], **extra)
        ijkl = np.asarray(ijkl, dtype=np.intp).reshape(-1, len(ops))
        latidx = np.asarray(latidx, dtype=np.intp).reshape(len(ijkl), len(cfg['Ls']))
        got = collections.Counter(map(tuple, ijkl.tolist()))
        exp = collections.Counter(tuple(r[0]) for r in rows)
        if got != exp:
            return self.fail(st, 'multi', 'rows', sorted(got.elements()), sorted(exp.elements()), **extra)
        if helical:
            return
        got = collections.Counter(zip(map(tuple, ijkl.tolist()), map(tuple, latidx.tolist())))
        exp = collections.Counter((tuple(r[0]), tuple(r[1])) for r in rows)
        if got != exp:
            return self.fail(st, 'multi', 'lat_indices', sorted(got.elements()), sorted(exp.elements()), **extra)
        if min(l['shape']) <= 0:
            return
        S = (1 + np.arange(int(np.prod(l['shape'])))).reshape(l['shape']).astype(np.float64)
        gi, gs = lat.possible_multi_couplings(ops, strength=S)
        gi = np.asarray(gi, dtype=np.intp).reshape(-1, len(ops))
        got = collections.Counter(zip(map(tuple, gi.tolist()), [int(x) for x in np.asarray(gs)]))
        strides = [int(np.prod(l['shape'][a + 1:])) for a in range(len(l['shape']))]
        exp = collections.Counter((tuple(r[0]), 1 + sum(x * s for x, s in zip(r[1], strides))) for r in rows)
        if got != exp:
            return self.fail(st, 'multi', 'strength', sorted(got.elements()), sorted(exp.elements()), **extra)

    # -- neighbour classes
    def op_neighbors(self, st, lat, key):
        l = st['last']
        cfg = st['cfg']
        scale = float(l['gs'] * l['den'] ** 2)
        suffix = '_all-all' if cfg['cls'] == 'Multi' else ''
        # the integer quadratic form of the spec describes the real geometry
        for u1, u2, dx, q in l['probe']:
            d = float(lat.distance(u1, u2, np.array(dx)))
            if abs(d * d * scale - q) > 1e-9 * max(1., q):
                return self.fail(st, 'neighbors', 'distance', dict(u1=u1, u2=u2, dx=dx, d2=d * d), q / scale)
            p = lat.position(np.array(list(dx) + [u2])) - lat.position(np.array([0] * len(dx) + [u1]))
            if abs(float(np.dot(p, p)) * scale - q) > 1e-9 * max(1., q):
                return self.fail(st, 'neighbors', 'position', dict(u1=u1, u2=u2, dx=dx, d2=float(np.dot(p, p))), q / scale)
        for k, name in enumerate(l['names']):
            pairs = lat.pairs[name + suffix]
            got = [hl.canon_pair(a, b, c) for a, b, c in pairs]
            exp = sorted(tuple([t[0], t[1]] + list(t[2])) for t in l['classes'][k])
            if len(set(got)) != len(got):
                return self.fail(st, 'neighbors', 'pair-twice', sorted(got), exp, name=name)
            if sorted(got) != exp:
                return self.fail(st, 'neighbors', 'class', sorted(got), exp, name=name)
            for u, c in enumerate(l['counts'][k]):
                g = lat.count_neighbors(u, name + suffix)
                if g != c:
                    return self.fail(st, 'neighbors', 'count_neighbors', dict(u=u, count=g), c, name=name)
        # the library's own search by distance
        if cfg['cls'] != 'Multi':
            found = lat.find_coupling_pairs(max_dx=3 if len(cfg['Ls']) > 1 else 4)
            keys = sorted(found.keys())
            for k in range(len(l['names'])):
                if k >= len(keys) or abs(keys[k] ** 2 * scale - l['dist2'][k]) > 1e-6 * l['dist2'][k]:
                    return self.fail(st, 'neighbors', 'find_coupling_pairs-distance', [float(x) for x in keys[:6]],
                                     [x / scale for x in l['dist2']], k=k)
                got = sorted(hl.canon_pair(a, b, c) for a, b, c in found[keys[k]])
                exp = sorted(tuple([t[0], t[1]] + list(t[2])) for t in l['classes'][k])
                if got != exp:
                    return self.fail(st, 'neighbors', 'find_coupling_pairs', got, exp, k=k)

    # -- reshaping per-site data
    def op_values(self, st, lat, key):
        l = st['last']
        cfg = st['cfg']
        N = lat.N_sites
        nu = len(lat.unit_cell)
        simple = cfg['cls'] in hl.SIMPLE
        extra = dict(x0mono=bool(l['x0mono']))
        if cfg['cls'] not in ('Irregular', 'Helical'):
            A = 100 + np.arange(N)
            R = lat.mps2lat_values(A)
            expshape = tuple(cfg['Ls']) if simple else tuple(cfg['Ls']) + (nu,)
            if R.shape != expshape:
                return self.fail(st, 'values', 'values-shape', list(R.shape), list(expshape), **extra)
            for lt, i in l['all']:
                idx = tuple(lt[:-1]) if simple else tuple(lt)
                if R[idx] != A[i]:
                    return self.fail(st, 'values', 'values', dict(lat=lt, val=int(R[idx])), int(A[i]), **extra)
            for u in range(nu):
                sel = [i for lt, i in l['all'] if lt[-1] == u]
                Ru = lat.mps2lat_values(A[sel], u=u)
                if Ru.shape != tuple(cfg['Ls']):
                    return self.fail(st, 'values', 'values-u-shape', list(Ru.shape), list(cfg['Ls']), **extra)
                for lt, i in l['all']:
                    if lt[-1] == u and Ru[tuple(lt[:-1])] != A[i]:
                        return self.fail(st, 'values', 'values-u', dict(lat=lt, val=int(Ru[tuple(lt[:-1])])), int(A[i]), **extra)
            if N <= 12:
                C = 1000 * np.arange(N)[:, None] + np.arange(N)[None, :]
                RC = lat.mps2lat_values(C, axes=[0, 1])
                for lt, i in l['all'][::2]:
                    for lt2, i2 in l['all'][::3]:
                        idx = (tuple(lt[:-1]) if simple else tuple(lt)) + (tuple(lt2[:-1]) if simple else tuple(lt2))
                        if RC[idx] != C[i, i2]:
                            return self.fail(st, 'values', 'values-2axes', dict(idx=list(idx), val=int(RC[idx])), int(C[i, i2]), **extra)
        elif cfg['cls'] == 'Irregular':
            # no lattice-shaped array exists; the method must not pretend otherwise
            try:
                lat.mps2lat_values(np.arange(N))
                res = 'returned'
            except (NotImplementedError, AssertionError, ValueError):
                res = 'refused'
            except Exception as e:
                res = type(e).__name__
            if res not in ('refused',):
                self.fail(st, 'values', 'values-irregular', res, 'NotImplementedError or a valid answer', exc=res)
        for nm_i, nm_m in (('inds', 'masked'), ('inds2', 'masked2'), ('inds3', 'masked3')):
            inds = np.array(l[nm_i], dtype=np.intp)
            if len(inds) == 0:
                continue
            beyond = bool(inds.min() < 0 or inds.max() >= N)
            A = 100 + np.arange(len(inds))
            try:
                R = lat.mps2lat_values_masked(A, mps_inds=inds)
            except Exception as e:
                self.fail(st, 'values', 'masked-exception', traceback.format_exc(limit=3), 'masked array', exc=type(e).__name__,
                          beyond=beyond, **extra)
                continue
            if int(np.sum(~np.ma.getmaskarray(R))) != len(inds):
                self.fail(st, 'values', 'masked-count', int(np.sum(~np.ma.getmaskarray(R))), len(inds), beyond=beyond, **extra)
                continue
            for k, (lt, i) in enumerate(l[nm_m]):
                idx = tuple(lt[:-1]) if nu == 1 else tuple(lt)
                try:
                    v = R[idx]
                except IndexError:
                    v = np.ma.masked
                if v is np.ma.masked or int(v) != int(A[k]):
                    self.fail(st, 'values', 'masked', dict(lat=lt, val=repr(v)), int(A[k]), beyond=beyond, **extra)
                    break


# ------------------------------------------------------------------------------------------------
def run_tlc(name, consts):
    """MC stage of one run (executed in a helper thread, so that TLC of the next run overlaps the replay)."""
    t0 = time.time()
    # TLC's -coverage doubles the run time: switched on for the runs that together take every action; for the
    # others the number of states per action is counted from the dump (every state is the result of one action)
    cov = name in COVERAGE_RUNS
    res, dump, d = tlc.mc('Lattice', dict(spec='Spec', constants=consts, invariants=INVS), dump=True, workers=WORKERS,
                          coverage=cov, timeout=6000)
    return res, dump, d, time.time() - t0


def replay_group(ctx, name, res, dump, d, t_tlc):
    try:
        ctx.add_mc('Lattice/' + name, res)
        if res.violated or res.deadlock:
            # the invariants are theorems about the definitions of the spec itself
            raise core.MachineryError('SPEC: theorem %s of spec/Lattice.tla fails in run %s:\n%s' % (
                res.violated, name, repr(res.error_trace[-1:])[:3000]))
        t1 = time.time()
        rp = Replayer(ctx, name)
        if ctx.tier == 'quick':
            rp.term_stride = 3
        n = 0
        for st in hl.iter_dump(dump):
            n += 1
            rp.replay(st)
    finally:
        shutil.rmtree(d, ignore_errors=True)
    if n != res.distinct:
        raise core.MachineryError('dump of run %s has %d states, TLC reports %d' % (name, n, res.distinct))
    ctx.notes.setdefault('runs', []).append(dict(name=name, states=res.distinct, tlc_s=round(t_tlc, 1),
                                                 parse_replay_s=round(time.time() - t1, 1), replayed=rp.nstates))
    print('  run %-18s states=%-7d tlc=%.1fs parse+replay=%.1fs' % (name, res.distinct, t_tlc, time.time() - t1))
    sys.stdout.flush()
    return rp.nstates


def check(ctx):
    ctx.rule = ('a case is one TLC state of spec/Lattice.tla: (lattice class, size, variant, boundary conditions, bc_MPS, ordering) '
                'plus one query (build / index maps / couplings(u1,u2,dx) / multi-couplings / neighbour classes / reshaping) with the '
                'answer defined by the spec; the real lattice is built and asked the same; distinct = distinct (case, query)')
    ctx.assume('TLC model checker', 'spec/Lattice.tla (declarative reading of the docstrings of tenpy.models.lattice)',
               'harness/lattice.py: construction of the tenpy lattice from the case record; multiset projections in checks/c19.py')
    ctx.exhaustive = True
    only = getattr(ctx, 'only', None)
    if getattr(ctx, 'replay_file', None):
        # re-execute exactly the case of a violation file
        import json
        with open(ctx.replay_file) as f:
            det = json.load(f)['detail']
        st = dict(stage='done' if det['query']['op'] != 'build' else 'built', cfg=det['cfg'], order=det['order'], full=det['order'],
                  last=det['query'])
        Replayer(ctx, det.get('group', 'replay')).replay(st)
        return
    gs = [(name, consts) for name, consts in groups(ctx.tier, ctx.seed) if not only or name in only]
    if not gs:
        raise core.MachineryError('no run selected')
    fut = None
    with concurrent.futures.ThreadPoolExecutor(1) as ex:
        try:
            fut = ex.submit(run_tlc, *gs[0])
            for k, (name, consts) in enumerate(gs):
                res, dump, d, t_tlc = fut.result()
                fut = ex.submit(run_tlc, *gs[k + 1]) if k + 1 < len(gs) else None
                replay_group(ctx, name, res, dump, d, t_tlc)
        finally:
            if fut is not None:  # an error during the replay: remove the scratch directory of the run in flight
                try:
                    shutil.rmtree(fut.result()[2], ignore_errors=True)
                except Exception:
                    pass
    missing = [a for a in ACTIONS if ctx.coverage_actions.get(a, (0, 0))[0] == 0]
    if missing and not only:
        raise core.MachineryError('spec actions never taken in MC: %s' % missing)
    notrep = [a for a in ('build', 'index', 'couplings', 'multi', 'neighbors', 'values') if not ctx.replay_actions.get('Lattice.' + a)]
    if notrep and not only:
        raise core.MachineryError('queries never replayed: %s' % notrep)


if __name__ == '__main__':
    core.main_wrapper('C19', check)
