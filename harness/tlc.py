"""Runner for TLC (model checking, simulation, trace validation) and parser of its output."""
import os
import re
import shutil
import subprocess
import tempfile
import time

from . import tlaval

VERIF = os.path.dirname(os.path.dirname(os.path.abspath(__file__)))
SPEC_DIR = os.path.join(VERIF, 'spec')
BUILD = os.path.join(VERIF, 'build')
JAR = '/opt/veriftools/tla/tla2tools.jar'
DEPS = '/opt/veriftools/tla/CommunityModules-deps.jar'


class TLCMachineryError(Exception):
    pass


class TLCResult:
    def __init__(self):
        self.stdout = ''
        self.exit = None
        self.generated = 0
        self.distinct = 0
        self.depth = 0
        self.violated = []  # names of violated invariants / properties
        self.deadlock = False
        self.error_trace = []  # list of (header, state)
        self.coverage = {}  # action name -> (distinct, total)
        self.wall = 0.0
        self.ok = False
        self.postcondition_failed = False
        self.printed = []  # values PrintT'ed (raw lines)

    def summary(self):
        return dict(states=self.distinct, transitions=self.generated, depth=self.depth, wall_s=round(self.wall, 2),
                    violated=self.violated, deadlock=self.deadlock)


def scratch(prefix='run'):
    os.makedirs(BUILD, exist_ok=True)
    return tempfile.mkdtemp(prefix=prefix + '-', dir=BUILD)


def write_cfg(path, *, spec=None, init='Init', next='Next', constants=None, invariants=(), properties=(),
              constraints=(), action_constraints=(), view=None, postcondition=None, check_deadlock=False,
              symmetry=None, alias=None):
    lines = []
    if spec:
        lines.append('SPECIFICATION %s' % spec)
    else:
        lines.append('INIT %s' % init)
        lines.append('NEXT %s' % next)
    if constants:
        lines.append('CONSTANTS')
        for k, v in constants.items():
            if isinstance(v, str) and v.startswith('<-'):
                lines.append('  %s %s' % (k, v))
            else:
                lines.append('  %s = %s' % (k, tla_lit(v)))
    for inv in invariants:
        lines.append('INVARIANT %s' % inv)
    for p in properties:
        lines.append('PROPERTY %s' % p)
    for c in constraints:
        lines.append('CONSTRAINT %s' % c)
    for c in action_constraints:
        lines.append('ACTION_CONSTRAINT %s' % c)
    if view:
        lines.append('VIEW %s' % view)
    if symmetry:
        lines.append('SYMMETRY %s' % symmetry)
    if alias:
        lines.append('ALIAS %s' % alias)
    if postcondition:
        lines.append('POSTCONDITION %s' % postcondition)
    lines.append('CHECK_DEADLOCK %s' % ('TRUE' if check_deadlock else 'FALSE'))
    with open(path, 'w') as f:
        f.write('\n'.join(lines) + '\n')
    return path


def tla_lit(v):
    """Python value -> TLA+ literal usable in a cfg file or a generated module."""
    if isinstance(v, bool):
        return 'TRUE' if v else 'FALSE'
    if isinstance(v, int):
        return str(v)
    if isinstance(v, tlaval.MV):
        return str(v)
    if isinstance(v, str):
        return '"%s"' % v.replace('\\', '\\\\').replace('"', '\\"')
    if isinstance(v, (set, frozenset, tlaval.Set)):
        return '{' + ', '.join(tla_lit(x) for x in (sorted(v, key=repr) if not isinstance(v, list) else v)) + '}'
    if isinstance(v, (list, tuple)):
        return '<<' + ', '.join(tla_lit(x) for x in v) + '>>'
    if isinstance(v, tlaval.Fn):
        if not v:
            return '<<>>'
        return '(' + ' @@ '.join('%s :> %s' % (tla_lit(list(k) if isinstance(k, tuple) else k), tla_lit(x))
                                  for k, x in v.items()) + ')'
    if isinstance(v, dict):
        if not v:
            return '<<>>'
        return '[' + ', '.join('%s |-> %s' % (k, tla_lit(x)) for k, x in v.items()) + ']'
    if v is None:
        return '"None"'
    raise TypeError('no TLA literal for %r' % (v,))


_RE_STATS = re.compile(r'(\d+) states generated, (\d+) distinct states found')
_RE_DEPTH = re.compile(r'The depth of the complete state graph search is (\d+)')
_RE_INV = re.compile(r'Error: Invariant (\S+) is violated')
_RE_PROP = re.compile(r'Error: (?:Action|Temporal) propert(?:y|ies) (\S*) ?(?:is|were) violated')
_RE_ACTPROP = re.compile(r'Error: Action property (\S+) is violated')
_RE_COV = re.compile(r'^<(\w+) line \d+, col \d+ to line \d+, col \d+ of module (\w+)>: (\d+):(\d+)', re.M)
_RE_TRACE_STATE = re.compile(r'^State (\d+): (<.*?>)\s*$', re.M)


def run(spec, cfg, *, workers=16, timeout=1800, dump=None, simulate=None, depth=None, seed=None, coverage=False,
        env=None, extra=(), keep_meta=False, dfs_queue=False, max_heap='8g', cwd=None, aril=None):
    """Run TLC on `spec` (path to .tla) with config `cfg`. Returns TLCResult.

    simulate: dict(num=..., file=...) or True.
    """
    spec = os.path.abspath(spec)
    meta = scratch('meta')
    java_opts = ['-XX:+UseParallelGC', '-Xss64m', '-Xmx' + max_heap, '-DTLA-Library=' + SPEC_DIR]
    if dfs_queue:
        java_opts.append('-Dtlc2.tool.queue.IStateQueue=StateDeque')
    cmd = ['java'] + java_opts + ['-cp', JAR + ':' + DEPS, 'tlc2.TLC', '-workers', str(workers), '-metadir', meta,
                                  '-noGenerateSpecTE', '-config', os.path.abspath(cfg)]
    if dump:
        cmd += ['-dump', dump]
    if simulate:
        s = 'num=%d' % simulate.get('num', 100)
        if simulate.get('file'):
            s = 'file=%s,' % simulate['file'] + s
        cmd += ['-simulate', s]
    if depth is not None:
        cmd += ['-depth', str(depth)]
    if seed is not None:
        cmd += ['-seed', str(seed)]
    if aril is not None:
        cmd += ['-aril', str(aril)]
    if coverage:
        cmd += ['-coverage', '1']
    cmd += list(extra)
    cmd.append(spec)
    e = dict(os.environ)
    if env:
        e.update({k: str(v) for k, v in env.items()})
    t0 = time.time()
    res = TLCResult()
    try:
        p = subprocess.run(cmd, stdout=subprocess.PIPE, stderr=subprocess.STDOUT, text=True, timeout=timeout,
                           env=e, cwd=cwd or os.path.dirname(spec))
        res.stdout = p.stdout
        res.exit = p.returncode
    except subprocess.TimeoutExpired as ex:
        out = ex.stdout
        res.stdout = (out.decode() if isinstance(out, bytes) else (out or '')) + '\n[TIMEOUT]'
        res.exit = -9
    finally:
        if not keep_meta:
            shutil.rmtree(meta, ignore_errors=True)
    res.wall = time.time() - t0
    out = res.stdout
    ms = _RE_STATS.findall(out)
    if ms:
        res.generated, res.distinct = int(ms[-1][0]), int(ms[-1][1])
    m = _RE_DEPTH.search(out)
    if m:
        res.depth = int(m.group(1))
    res.violated = _RE_INV.findall(out) + _RE_ACTPROP.findall(out)
    if 'Temporal properties were violated' in out:
        res.violated.append('<temporal>')
    res.deadlock = 'Error: Deadlock reached' in out
    res.postcondition_failed = 'POSTCONDITION' in out and 'violated' in out.split('POSTCONDITION')[-1][:200].lower() \
        or 'Error: Evaluating assumption' in out or bool(re.search(r'Error: The post-?condition', out, re.I))
    for m in _RE_COV.finditer(out):
        name = m.group(1)
        d, t = int(m.group(3)), int(m.group(4))
        od, ot = res.coverage.get(name, (0, 0))
        res.coverage[name] = (od + d, ot + t)
    if res.violated or res.deadlock:
        res.error_trace = parse_error_trace(out)
    res.ok = (res.exit == 0)
    return res


def parse_error_trace(out):
    ms = list(_RE_TRACE_STATE.finditer(out))
    trace = []
    for j, m in enumerate(ms):
        end = ms[j + 1].start() if j + 1 < len(ms) else len(out)
        body = out[m.end():end]
        # cut at first blank line after the conjunct list
        lines = []
        for ln in body.strip('\n').split('\n'):
            if ln.strip() == '' or ln.startswith('Error:') or re.match(r'^\d+ states generated', ln) \
                    or ln.startswith('Finished') or ln.startswith('The ') or ln.startswith('Back to state'):
                break
            lines.append(ln)
        hdr = m.group(2)
        am = re.match(r'<(\w+)', hdr)
        try:
            st = tlaval.parse_state('\n'.join(lines))
        except Exception:  # pragma: no cover
            st = {'_raw': '\n'.join(lines)}
        trace.append((am.group(1) if am and am.group(1) != 'Initial' else 'Init', st))
    return trace


def machinery_failed(res):
    """True when TLC did not complete a run at all (parse errors, crashes, timeouts)."""
    if res.exit in (0, 10, 11, 12, 13):
        return False
    return True


def require_clean(res, what):
    """Raise TLCMachineryError unless TLC ran to completion (possibly reporting violations)."""
    if machinery_failed(res):
        tail = '\n'.join(res.stdout.strip().split('\n')[-40:])
        raise TLCMachineryError('%s: TLC exit %s\n%s' % (what, res.exit, tail))
    return res


def sany(spec):
    p = subprocess.run(['java', '-cp', JAR + ':' + DEPS, 'tla2sany.SANY', os.path.abspath(spec)],
                       stdout=subprocess.PIPE, stderr=subprocess.STDOUT, text=True, cwd=os.path.dirname(os.path.abspath(spec)))
    return p.returncode, p.stdout


def read_sim_traces(prefix):
    """Files written by -simulate file=prefix: prefix_<worker>_<n>; returns list of traces."""
    d = os.path.dirname(prefix)
    base = os.path.basename(prefix)
    out = []
    for fn in sorted(os.listdir(d)):
        if fn.startswith(base):
            out.append(tlaval.parse_sim_trace(os.path.join(d, fn)))
    return out


def name_coverage(res, spec):
    """Map coverage entries of wrapper operators `Op line .. (l1 c1 l2 c2)` to the definition at line l1."""
    lines = open(spec).read().split('\n')
    out = {}
    for m in re.finditer(r'^<(\w+) line \d+, col \d+ to line \d+, col \d+ of module (\w+)(?: \((\d+) \d+ \d+ \d+\))?>: (\d+):(\d+)',
                         res.stdout, re.M):
        name = m.group(1)
        if m.group(3):
            ln = int(m.group(3))
            # walk upwards to the enclosing definition
            for j in range(ln - 1, max(ln - 40, -1), -1):
                dm = re.match(r'^(\w+)(?:\(.*?\))?\s*==', lines[j]) if j < len(lines) else None
                if dm:
                    name = dm.group(1)
                    break
        d, t = int(m.group(4)), int(m.group(5))
        od, ot = out.get(name, (0, 0))
        out[name] = (od + d, ot + t)
    res.coverage = out
    return out


def mc(spec_name, cfg, *, dump=False, workers=16, timeout=1800, coverage=True, **kw):
    """Model-check spec/<spec_name>.tla with cfg (dict for write_cfg). Returns (res, dump_path or None, scratch dir).
    Caller removes the scratch dir (shutil.rmtree) when done with the dump."""
    spec = os.path.join(SPEC_DIR, spec_name + '.tla')
    d = scratch(spec_name)
    cfgp = write_cfg(os.path.join(d, spec_name + '.cfg'), **cfg)
    dump_path = os.path.join(d, 'states') if dump else None
    res = run(spec, cfgp, workers=workers, timeout=timeout, dump=dump_path, coverage=coverage, **kw)
    require_clean(res, spec_name)
    if coverage:
        name_coverage(res, spec)
    if dump:
        dump_path = dump_path + '.dump'
    return res, dump_path, d


def simulate(spec_name, cfg, *, num, depth, seed, workers=1, timeout=1800, **kw):
    """tlc -simulate writing one trace file per behaviour; returns (res, list of traces, scratch dir)."""
    spec = os.path.join(SPEC_DIR, spec_name + '.tla')
    d = scratch(spec_name + '-sim')
    cfgp = write_cfg(os.path.join(d, spec_name + '.cfg'), **cfg)
    os.makedirs(os.path.join(d, 'tr'))
    prefix = os.path.join(d, 'tr', 't')
    res = run(spec, cfgp, workers=workers, timeout=timeout, simulate=dict(num=num, file=prefix), depth=depth, seed=seed,
              coverage=False, **kw)
    require_clean(res, spec_name + ' (simulate)')
    return res, read_sim_traces(prefix), d
