"""Check context: accumulates coverage, matches violations against known findings, writes evidence."""
import hashlib
import json
import os
import sys
import time
import traceback

VERIF = os.path.dirname(os.path.dirname(os.path.abspath(__file__)))
REPO = os.environ.get('VERIF_REPO', '/repo')
EVIDENCE = os.environ.get('VERIF_EVIDENCE_DIR') or os.path.join(VERIF, 'evidence')
REPLAYS = os.path.join(EVIDENCE, 'replays')
KNOWN = os.path.join(VERIF, 'known_findings.json')


class MachineryError(Exception):
    pass


def load_known():
    out = []
    if os.path.exists(KNOWN):
        with open(KNOWN) as f:
            out += json.load(f).get('findings', [])
    d = os.path.join(VERIF, 'known_findings.d')
    if os.path.isdir(d):
        for fn in sorted(os.listdir(d)):
            if fn.endswith('.json'):
                with open(os.path.join(d, fn)) as f:
                    out += json.load(f).get('findings', [])
    return out


def _match(sig, pattern):
    """pattern (dict) matches signature (dict) if every key of pattern equals sig's value
    (lists compare equal elementwise; a pattern value {"any_of": [...]} matches membership)."""
    for k, v in pattern.items():
        if k not in sig:
            return False
        s = sig[k]
        if isinstance(v, dict) and 'any_of' in v:
            if s not in v['any_of']:
                return False
        elif s != v:
            return False
    return True


class Ctx:
    def __init__(self, prop, tier='quick', seed=0, level='model_checking'):
        self.prop = prop
        self.tier = tier
        self.seed = int(seed)
        self.level = level
        self.t0 = time.time()
        self.states = 0
        self.transitions = 0
        self.traces_validated = 0
        self.evaluations = 0
        self.distinct = set()
        self.samples = []
        self.max_samples = 4
        self.violations = []  # unlisted
        self.known_hits = {}  # finding id -> count
        self.mc_runs = []
        self.coverage_actions = {}
        self.replay_actions = {}
        self.assumptions = []
        self.rule = ''
        self.exhaustive = None
        self.notes = {}
        self.known = [f for f in load_known() if f.get('property') == prop]
        self.vcount = 0
        self.replay_file = None

    # ---- accounting -------------------------------------------------------------------------
    def add_mc(self, name, res):
        self.states += res.distinct
        self.transitions += res.generated
        self.mc_runs.append(dict(name=name, **res.summary()))
        for a, (d, t) in res.coverage.items():
            od, ot = self.coverage_actions.get(a, (0, 0))
            self.coverage_actions[a] = (od + d, ot + t)

    def case(self, key, nontrivial=True, action=None):
        """One evaluated case (a replayed step / validated trace / enumerated input)."""
        self.evaluations += 1
        if nontrivial:
            if not isinstance(key, (str, bytes)):
                key = json.dumps(key, sort_keys=True, default=str)
            if isinstance(key, str):
                key = key.encode()
            self.distinct.add(hashlib.blake2b(key, digest_size=10).digest())
        if action:
            self.replay_actions[action] = self.replay_actions.get(action, 0) + 1

    def trace_ok(self, n=1):
        self.traces_validated += n

    def sample(self, obj):
        if len(self.samples) < self.max_samples:
            self.samples.append(obj)

    def assume(self, *texts):
        for t in texts:
            if t not in self.assumptions:
                self.assumptions.append(t)

    # ---- violations -------------------------------------------------------------------------
    def clear_stale_replays(self):
        """replay files of earlier runs of this property are stale (not called in --replay mode)"""
        if os.path.isdir(REPLAYS):
            for fn in os.listdir(REPLAYS):
                if fn.startswith(self.prop + '-'):
                    try:
                        os.remove(os.path.join(REPLAYS, fn))
                    except OSError:
                        pass

    def violation(self, signature, detail):
        """Report a divergence between code and spec. `signature` is the normalised identity used
        for matching known findings; `detail` is what goes into the replay file."""
        for f in self.known:
            if f.get('status') == 'known' and _match(signature, f.get('match', {})):
                if f['id'] not in self.known_hits:
                    print('KNOWN-FINDING: property=%s %s [%s]' % (self.prop, f['what'], f['id']))
                self.known_hits[f['id']] = self.known_hits.get(f['id'], 0) + 1
                return False
        self.vcount += 1
        os.makedirs(REPLAYS, exist_ok=True)
        h = hashlib.blake2b(json.dumps(signature, sort_keys=True, default=str).encode(), digest_size=6).hexdigest()
        path = os.path.join(REPLAYS, '%s-%s.json' % (self.prop, h))
        already = any(v['path'] == path for v in self.violations)
        if not already:
            with open(path, 'w') as f:
                json.dump(dict(property=self.prop, signature=signature, detail=detail, seed=self.seed, tier=self.tier),
                          f, indent=1, default=str)
            self.violations.append(dict(signature=signature, path=path))
            print('VIOLATION property=%s replay=%s' % (self.prop, path))
            print('  signature: %s' % json.dumps(signature, default=str)[:600])
            sys.stdout.flush()
        return True

    # ---- evidence ---------------------------------------------------------------------------
    def finish(self):
        os.makedirs(EVIDENCE, exist_ok=True)
        cov = dict(
            states=self.states, transitions=self.transitions, traces_validated_against_impl=self.traces_validated,
            samples=self.samples or [{'note': 'no sample recorded'}],
            evaluations=self.evaluations, distinct_nontrivial=len(self.distinct),
            rule=self.rule, mc_runs=self.mc_runs,
            spec_action_coverage={k: list(v) for k, v in sorted(self.coverage_actions.items())},
            replayed_per_action=dict(sorted(self.replay_actions.items())),
            known_findings_hit=self.known_hits,
        )
        if self.exhaustive is not None:
            cov['exhaustive'] = bool(self.exhaustive)
        cov.update(self.notes)
        ev = dict(property_id=self.prop, tier=self.tier, seed=self.seed, level=self.level, coverage=cov,
                  assumptions=self.assumptions, wall_s=round(time.time() - self.t0, 2),
                  violations=len(self.violations))
        path = os.path.join(EVIDENCE, '%s.json' % self.prop)
        tmp = path + '.tmp'
        with open(tmp, 'w') as f:
            json.dump(ev, f, indent=1, default=str)
        os.replace(tmp, path)
        return 1 if self.violations else 0


def main_wrapper(prop, fn, argv=None):
    """Common CLI for checks: --tier, --replay, seeds from VERIF_SEED. Exit 0/1, 2 = machinery."""
    import argparse
    ap = argparse.ArgumentParser()
    ap.add_argument('--tier', default=os.environ.get('VERIF_TIER', 'quick'), choices=['quick', 'thorough'])
    ap.add_argument('--replay', default=None)
    ap.add_argument('--only', default=None, help='comma separated sub-stages (debugging)')
    args = ap.parse_args(argv)
    seed = int(os.environ.get('VERIF_SEED', '0') or 0)
    ctx = Ctx(prop, tier=args.tier, seed=seed)
    ctx.only = set(args.only.split(',')) if args.only else None
    ctx.replay_file = args.replay
    if not args.replay:
        ctx.clear_stale_replays()
    try:
        fn(ctx)
    except MachineryError as e:
        print('MACHINERY: %s' % e)
        sys.exit(2)
    except Exception:
        traceback.print_exc()
        print('MACHINERY: unexpected exception in check %s' % prop)
        sys.exit(2)
    code = ctx.finish()
    print('%s %s: evaluations=%d distinct=%d states=%d traces=%d violations=%d known=%s wall=%.1fs' % (
        prop, args.tier, ctx.evaluations, len(ctx.distinct), ctx.states, ctx.traces_validated, len(ctx.violations),
        dict(ctx.known_hits), time.time() - ctx.t0))
    sys.exit(code)
