#!/bin/sh
# offline setup: create scratch dir, byte-compile nothing, verify tools are present
set -e
cd "$(dirname "$0")"
mkdir -p build evidence
command -v java >/dev/null
test -f /opt/veriftools/tla/tla2tools.jar
/venv/bin/python -c "import numpy, scipy, h5py, jsonschema"
echo setup ok
