---------------------------- MODULE TraceSweep ----------------------------
(* Trace validation for Sweep.tla: decides whether executions recorded from the real engines
   (harness/sweeps.py: TwoSiteDMRGEngine / SingleSiteDMRGEngine runs under run-time interposition) are
   behaviours of the specification.  Every recorded event must be matched by the corresponding action of
   Sweep (same call, same arguments) *and* the state the action produces must equal what was observed on
   the implementation after the call (stored parts with age / number of contracted sites / versions of the
   contracted tensors, tensor versions, what get_LP/get_RP returned, what the effective Hamiltonian holds).
   All invariants of Sweep are evaluated by TLC on every state of the validated trace.
   A trace that cannot be continued is a deadlock (reported with the line number l). *)
EXTENDS Sweep, Json, IOUtils

T == ndJsonDeserialize(IOEnv.TRACE_FILE)

VARIABLE l          \* next line of the trace file
tvars == <<cfg, ver, LP, RP, retL, retR, eff, pc, todo, cur, k, sw, sweeps, opt, hs, ext, ok, nrec, last, l>>

SameSlots(obs, f) == /\ DOMAIN f = 0..(Len(obs) - 1)
                     /\ \A s \in 0..(Len(obs) - 1) : obs[s + 1] = f[s]
RetOK(obs, e) == e.has /\ obs.cnt = e.cnt /\ obs.deps = e.deps

TraceInit == Init /\ l = 1

TrBegin(e) ==
    /\ pc = "config"
    /\ ConfigureAny([L |-> e.L, finite |-> e.finite, n |-> e.n, combine |-> e.combine, a0L |-> e.a0L, a0R |-> e.a0R])
    /\ SameSlots(e.lp, LP') /\ SameSlots(e.rp, RP') /\ SameSlots(e.ver, ver')

TrEnd(e) ==
    /\ (pc = "idle" \/ (pc = "cleanup" /\ last.op = "run_cleanup")) /\ todo = <<>>
    /\ pc' = "config" /\ last' = [op |-> "end"]
    /\ UNCHANGED <<cfg, ver, LP, RP, retL, retR, eff, todo, cur, k, sw, sweeps, opt, hs, ext, ok, nrec>>

TrStep(e) ==
    /\ StepBegin
    /\ cur' = [i0 |-> e.i0, mr |-> e.mr, uL |-> e.uL, uR |-> e.uR, age |-> -1]
    /\ SameSlots(e.lp, LP') /\ SameSlots(e.rp, RP') /\ SameSlots(e.ver, ver')

TrCall(e) ==
    /\ todo # <<>>
    /\ Head(todo).op = e.op /\ Head(todo).i = e.i
    /\ (e.op \in {"get_LP", "get_RP"} => Head(todo).store = e.store)
    /\ (e.op = "effH" => Head(todo).len = e.len)
    /\ Call
    /\ CASE e.op = "get_LP" -> RetOK(e.ret, retL') /\ SameSlots(e.lp, LP')
         [] e.op = "get_RP" -> RetOK(e.ret, retR') /\ SameSlots(e.rp, RP')
         [] e.op = "del_LP" -> SameSlots(e.lp, LP')
         [] e.op = "del_RP" -> SameSlots(e.rp, RP')
         [] e.op = "heff_LP" -> e.eq /\ SameSlots(e.lp, LP')
         [] e.op = "heff_RP" -> e.eq /\ SameSlots(e.rp, RP')
         [] e.op = "set_B" -> SameSlots(e.ver, ver')
         [] e.op = "effH" -> RetOK(e.LP, eff'.LP) /\ RetOK(e.RP, eff'.RP)
         [] e.op = "full" -> RetOK(e.L, retL') /\ RetOK(e.R, retR')
         [] OTHER -> FALSE

TrExt(e) ==
    /\ ExtGet(e.side, e.i, e.store)
    /\ IF e.side = "L" THEN RetOK(e.ret, retL') /\ SameSlots(e.lp, LP')
                       ELSE RetOK(e.ret, retR') /\ SameSlots(e.rp, RP')

TraceNext ==
    /\ l <= Len(T)
    /\ l' = l + 1
    /\ LET e == T[l] IN
       CASE e.ev = "begin" -> TrBegin(e)
         [] e.ev = "end" -> TrEnd(e)
         [] e.ev = "sweep_begin" -> SweepBegin(e.optimize, e.meas, e.mix)
         [] e.ev = "step" -> TrStep(e)
         [] e.ev = "make_eff_H" -> MakeEffH
         [] e.ev = "update_local" -> UpdateLocal
         [] e.ev = "update_env" -> UpdateEnv /\ e.age = cur.age
         [] e.ev = "post_update_local" -> PostUpdate
         [] e.ev = "free" -> Free
         [] e.ev = "sweep_end" -> SweepEnd /\ SameSlots(e.lp, LP') /\ SameSlots(e.rp, RP') /\ SameSlots(e.ver, ver')
         [] e.ev = "call" -> TrCall(e)
         [] e.ev = "ext" -> TrExt(e)
         [] e.ev = "run_cleanup" -> RunCleanup
         [] e.ev = "canon" -> CanonBegin(e.err, e.iter)
         [] e.ev = "canon_env" -> CanonEnv(e.err)
         [] e.ev = "canon_form" -> CanonForm
         [] e.ev = "run_end" -> RunEnd(e.err)
         [] OTHER -> FALSE
    /\ ok'          \* the implementation did not raise, so the specification must not either

Finished == l > Len(T) /\ UNCHANGED tvars

TraceSpec == TraceInit /\ [][TraceNext \/ Finished]_tvars

\* the whole file was consumed (checked by the harness through the number of states as well)
AllRead == l <= Len(T) + 1

-----------------------------------------------------------------------------
(* Second reading of the same files, at the level of the environment only ("EnvTraceSpec"): every recorded call
   is matched against the primitive it names (get_LP/get_RP/del_*/set_B/effH/...; same comparison of the
   resulting state with the observation), but *no* order of calls is prescribed -- the sweep program of
   Sweep (todo, pc) is not used.  What judges the execution here are the invariants: FreshEnvs, FreshWindow,
   AgeRule, BoundaryKept, SweepCoversAllBonds evaluated on every state.  This is also how executions of engines
   whose program is not modelled in Sweep (TDVP) are validated. *)
ObsOK(e) ==
    CASE e.op = "get_LP" -> RetOK(e.ret, retL') /\ SameSlots(e.lp, LP')
      [] e.op = "get_RP" -> RetOK(e.ret, retR') /\ SameSlots(e.rp, RP')
      [] e.op = "del_LP" -> SameSlots(e.lp, LP')
      [] e.op = "del_RP" -> SameSlots(e.rp, RP')
      [] e.op = "heff_LP" -> e.eq /\ SameSlots(e.lp, LP')
      [] e.op = "heff_RP" -> e.eq /\ SameSlots(e.rp, RP')
      [] e.op = "set_B" -> SameSlots(e.ver, ver')
      [] e.op = "effH" -> RetOK(e.LP, eff'.LP) /\ RetOK(e.RP, eff'.RP)
      [] e.op = "full" -> RetOK(e.L, retL') /\ RetOK(e.R, retR')
      [] OTHER -> FALSE

EnvCall(e) ==
    /\ Exec([op |-> e.op, i |-> e.i, store |-> IF e.op \in {"get_LP", "get_RP"} THEN e.store ELSE TRUE,
              len |-> IF e.op = "effH" THEN e.len ELSE 0])
    /\ ObsOK(e)
    /\ ext' = IF e.ev = "ext" THEN ext + 1 ELSE ext
    /\ UNCHANGED <<cfg, pc, todo, cur, k, sw, sweeps, opt>>

EnvMarker(e) ==      \* phase markers only maintain the history variables the invariants refer to
    /\ CASE e.ev = "sweep_begin" ->
              /\ sweeps' = sweeps + 1 /\ k' = 0 /\ opt' = [i \in Sites |-> 0]
              /\ sw' = [optimize |-> e.optimize, meas |-> e.meas, mix |-> e.mix]
              /\ hs' = [mr |-> TRUE, steps |-> 0, touched |-> {}]
              /\ UNCHANGED <<cur, eff, nrec>>
         [] e.ev = "step" ->
              /\ k' = k + 1
              /\ cur' = [i0 |-> e.i0, mr |-> e.mr, uL |-> e.uL, uR |-> e.uR, age |-> -1]
              /\ hs' = IF e.mr = hs.mr THEN hs ELSE [mr |-> e.mr, steps |-> 0, touched |-> {}]
              /\ SameSlots(e.lp, LP) /\ SameSlots(e.rp, RP) /\ SameSlots(e.ver, ver)
              /\ UNCHANGED <<sweeps, opt, sw, eff, nrec>>
         [] e.ev = "make_eff_H" -> nrec' = 0 /\ UNCHANGED <<sweeps, k, opt, sw, hs, cur, eff>>
         [] e.ev = "update_local" ->
              /\ opt' = [opt EXCEPT ![Slot(cur.i0)] = @ + 1]
              /\ UNCHANGED <<sweeps, k, sw, hs, cur, eff, nrec>>
         [] e.ev = "free" ->
              /\ hs' = [hs EXCEPT !.steps = @ + 1] /\ eff' = NoEff
              /\ UNCHANGED <<sweeps, k, opt, sw, cur, nrec>>
         [] e.ev \in {"update_env", "post_update_local", "sweep_end"} -> UNCHANGED <<sweeps, k, opt, sw, hs, cur, eff, nrec>>
    /\ last' = [op |-> e.ev]
    /\ UNCHANGED <<cfg, ver, LP, RP, retL, retR, pc, todo, ext, ok>>

EnvTraceNext ==
    /\ l <= Len(T)
    /\ l' = l + 1
    /\ LET e == T[l] IN
       CASE e.ev = "begin" -> TrBegin(e)
         [] e.ev = "end" -> TrEnd(e)
         [] e.ev = "call" -> EnvCall(e)
         [] e.ev = "ext" -> EnvCall(e)
         [] e.ev \in {"sweep_begin", "step", "make_eff_H", "update_local", "update_env", "post_update_local", "free",
                      "sweep_end"} -> EnvMarker(e)
         [] e.ev = "run_cleanup" -> RunCleanup
         [] e.ev = "canon" -> CanonBegin(e.err, e.iter)
         [] e.ev = "canon_env" -> CanonEnv(e.err)
         [] e.ev = "canon_form" -> CanonForm
         [] e.ev = "run_end" -> RunEnd(e.err)
         [] OTHER -> FALSE
    /\ ok'

EnvTraceSpec == TraceInit /\ [][EnvTraceNext \/ Finished]_tvars

\* TypeOK without the step counter of the DMRG schedule (other engines have other schedules)
EnvTypeOK == \A s \in Sites : EnvOK(LP[s]) /\ EnvOK(RP[s])
=============================================================================
