"""C04: compiled and pure-Python tensor kernels are observationally equivalent.

The same TLC-generated behaviours of spec/NpcProgram.tla are replayed in two interpreter processes:
 (A) TENPY_NO_CYTHON=1 (pure Python kernels of the working tree),
 (B) the extension REBUILT from the working tree's current _npc_helper.pyx (harness/buildext.py).
Both must refine the specification step by step (same oracle as C01-C03), and their canonical
serialisations (block structure, legs, labels, qtotal, dtype, values, error class) must agree.
"""
import json
import os
import shutil
import subprocess
import sys

from harness import core, npc, npc_check, npc_ctor, tlc, tlaval

TIERS = {
    'quick': dict(n_configs=6, mc_ops=1, sim_num=12, sim_ops=6, procs=4, workers=4, timeout=600),
    'thorough': dict(n_configs=40, mc_ops=1, sim_num=40, sim_ops=8, procs=4, workers=4, timeout=1500),
}


def run_config(behs_path, out_path, pure):
    env = dict(os.environ)
    if pure:
        env['TENPY_NO_CYTHON'] = '1'
    else:
        env.pop('TENPY_NO_CYTHON', None)
    p = subprocess.run([sys.executable, '-W', 'ignore', '-m', 'harness.npc_check', '--inp', behs_path, '--out', out_path],
                       env=env, stdout=subprocess.PIPE, stderr=subprocess.STDOUT, text=True, cwd=core.VERIF, timeout=3000)
    if p.returncode != 0 or not os.path.exists(out_path):
        raise core.MachineryError('replay subprocess (pure=%s) failed:\n%s' % (pure, p.stdout[-2000:]))
    with open(out_path) as f:
        return json.load(f)


def canon_equal(ra, rb):
    """Compare two per-step canonical records. Returns None or clause."""
    if ('error' in ra) != ('error' in rb):
        return 'error-presence'
    if 'error' in ra:
        return None if ra['error'] == rb['error'] else 'error-class'
    if ('scalar' in ra) != ('scalar' in rb):
        return 'kind'
    if 'scalar' in ra:
        return None if ra['scalar'] == rb['scalar'] else 'scalar'
    for k in ('shape', 'labels', 'qtotal', 'legs', 'dtype'):
        if ra[k] != rb[k]:
            return k
    if ra['val'] != rb['val']:
        return 'values'
    # same set of stored blocks up to blocks that are entirely zero
    def nz(blocks):
        return [b for b in blocks if any(z[0] != 0 or z[1] != 0 for z in b[1])]
    if nz(ra['blocks']) != nz(rb['blocks']):
        return 'block-structure'
    return None


def check(ctx):
    p = dict(TIERS[ctx.tier])
    seed = ctx.seed * 7919 + 4
    results = npc.generate(seed=seed, **p)
    behs = []
    for r in results:
        if r['error']:
            raise core.MachineryError('TLC failed on catalogue config %d: %s' % (r['idx'], r['error'][-1500:]))
        for stage in ('mc', 'sim'):
            if r[stage]:
                ctx.states += r[stage]['summary']['states']
                ctx.transitions += r[stage]['summary']['transitions']
                ctx.mc_runs.append(dict(name='NpcProgram[%s cfg%d]' % (stage, r['idx']), **r[stage]['summary']))
        for b in r['behaviours']:
            b['variant'] = (len(behs) + ctx.seed) % 4
            # dtype of the initial tensors: float64/complex128, float32/complex64 or int64 (values are small integers, so
            # every dtype represents them exactly and both configurations must agree bit for bit, including the dtype)
            b['dtype_variant'] = ((len(behs) + ctx.seed) // 3) % 3
            behs.append(b)
    d = tlc.scratch('c04')
    try:
        inp = os.path.join(d, 'behaviours.json')
        npc_check.behaviours_to_json(behs, inp)
        ra = run_config(inp, os.path.join(d, 'pure.json'), pure=True)
        rb = run_config(inp, os.path.join(d, 'compiled.json'), pure=False)
    finally:
        shutil.rmtree(d, ignore_errors=True)
    # the binding of configuration B to the rebuilt extension is itself checked
    so = os.environ.get('VERIF_SO')
    if ra['info']['have_cython']:
        raise core.MachineryError('configuration A did not disable the compiled kernels')
    if not rb['info']['have_cython'] or rb['info']['helper_file'] != so:
        raise core.MachineryError('configuration B does not run the extension rebuilt from the tree: %r' % (rb['info'],))
    ctx.notes['configurations'] = dict(A=ra['info'], B=rb['info'])
    ctx.rule = ('cases = steps of TLC-generated NpcProgram behaviours executed in two interpreter configurations; each step is '
                'compared with the specification in both and the two canonical serialisations with each other')
    ctx.assume('TLC 1.8', 'spec/Npc.tla', 'harness/buildext.py rebuilds _npc_helper from the tree (content-hash cache)',
               'values are Gaussian integers, so both kernels must agree exactly')
    for bi, beh in enumerate(behs):
        a, b = ra['results'][bi], rb['results'][bi]
        ctx.trace_ok(1)
        bj = tlaval.to_jsonable(beh)
        for n, st in enumerate(beh['steps']):
            if st['l']['op'] != 'skipped':
                ctx.case((seed, beh['origin'], bi, n), action='Npc.' + st['l']['op'])
        if bi == 0:
            ctx.sample(dict(mods=beh['mods'], ops=[s['l'] for s in bj['steps']][:6]))
        # each configuration against the spec: a divergence that both configurations show in the same way is the
        # business of C01-C03 (and may be a known finding there); C04 reports it only when the configurations differ
        fa = sorted((f['prop'], f['clause'], f['step'], f['op']) for f in a['findings'])
        fb = sorted((f['prop'], f['clause'], f['step'], f['op']) for f in b['findings'])
        if fa != fb:
            only = [('pure',) + x for x in fa if x not in fb] + [('compiled',) + x for x in fb if x not in fa]
            ctx.violation(dict(kind='config-diff', spec='NpcProgram', op=only[0][4], clause='spec-divergence-in-one-config:' + only[0][2],
                               config=only[0][0]),
                          dict(pure=a['findings'], compiled=b['findings'], behaviour=bj))
        # the two configurations against each other
        for xa, xb in zip(a['records'], b['records']):
            clause = canon_equal(xa, xb)
            if clause:
                op = beh['steps'][xa['step']]['l']['op']
                ctx.violation(dict(kind='config-diff', spec='NpcProgram', op=op, clause=clause),
                              dict(step=xa['step'], pure=xa, compiled=xb, behaviour=bj))
                break
        if len(a['records']) != len(b['records']):
            ctx.violation(dict(kind='config-diff', spec='NpcProgram', op='*', clause='length'), dict(behaviour=bj))
    # second specification: constructors, charge-changing methods, grids, labels, element-wise operations (spec/NpcCtor.tla)
    npc_ctor.run_phase(ctx, 'C04')
    ctx.exhaustive = False


if __name__ == '__main__':
    core.main_wrapper('C04', check)
