-------------------------------- MODULE Hdf5 --------------------------------
(* tenpy.tools.hdf5_io: Hdf5Saver.save / Hdf5Loader.load as a step machine over *object graphs*.

   An object graph g is a sequence of nodes (node id = position, numbered in DFS preorder from the
   root 1 -- so every rooted ordered graph has exactly one representation and the enumeration,
   which is driven through Next by the actions NewRoot/AddNew/AddRef/Close, produces every graph
   once).  A node is [k: kind, v: value, ch: ordered children (node ids), ks: keys].

   kinds   leaves      "none" None           singleton object (identity = value)
                       "int"  small int      singleton per value v
                       "dtype" numpy dtype   singleton (stored as a group whose interior is not modelled)
                       "glob" global function singleton
                       "box"  float/str/complex/bytes/np scalar/big int: identity independent of value, hashable
                       "arr"  numpy.ndarray : identity independent of value, mutable, unhashable
           containers  "list" "tuple" "set"  ch = elements (set: in iteration order at save time)
                       "sdict"  dict with simple (str) keys   ks[j] = index of the key of ch[j] in KeyName
                       "inst"   Hdf5Exportable instance storing __dict__ (same layout as sdict)
                       "gdict"  dict with general keys: ch = keys followed by values (Len even)
                       "range"  ch = <<start, stop, step>> (int nodes)
                       "reduce" object saved through the __reduce__ fallback; v = variant (see below);
                                ch = <<func, args>> \o (state if any) \o items

   Save  = DFS with memo_save  (python id -> h5 object; second visit => hard link)
   Load  = DFS with memo_load  (h5 object id -> python object; memorize_load *before* the children
           for list/set/dict/instance, *after* them for tuple (a temporary list is memorized
           meanwhile), range and reduce)
   Every call of save()/load() of the implementation is one action here.

   Not modelled here: which attributes the save_hdf5 / from_hdf5 pair of each tenpy class stores (the class
   layer of C17 is checked observationally by checks/c17.py::class_layer; an exportable class enters this
   model as kind "inst" -- memorized before its attributes are loaded, like Hdf5Exportable.from_hdf5 and the
   from_hdf5 of ChargeInfo, LegCharge, Array, MPS, MPO, Lattice do); masked arrays; the `exclude` option.

   Theorems (INVARIANTs): the file mirrors the graph (one h5 object per python object, hard links
   exactly for shared references); Load(Save(g)) is isomorphic to g as rooted ordered graph
   (hence sharing and cycles survive) unless a hard link to a tuple *that is still being loaded*
   was followed -- the documented exception -- and in exactly that case it is not isomorphic;
   save and load terminate within a bound linear in the size of g. *)
EXTENDS Naturals, Sequences, FiniteSets, TLC

CONSTANTS MaxNodes,    \* bound on the number of nodes of a graph
          MaxEdges,    \* bound on the number of references (edges) of a graph
          MaxDeg,      \* bound on the number of elements of list / tuple / set
          MaxPairs,    \* bound on the number of items of a dict with general keys
          NKeys,       \* number of different simple keys ("a", "b", ..) for sdict / inst
          Kinds,       \* the node kinds enumerated
          RootKinds,   \* kinds of the root object
          IntVals,     \* values of "int" leaves
          GlobVals,    \* values of "glob" leaves (0: the class used by reduce nodes, 1: a function)
          RVariants,   \* variants of "reduce" nodes enumerated
          ReduceFixed, \* TRUE: save_reduce as implemented (since fix a37a275); FALSE: the old defective protocol,
                       \* kept only as a witness run that must violate RoundTripPlain (non-vacuity)
          SetterFixed, \* FALSE: load_reduce returns the return value of state_setter(obj, state) (finding
                       \* C17-reduce-state-setter); TRUE: the repaired loader ignores it, like pickle does
          Emit         \* TRUE: print one record per finished graph (for the replay harness)

VARIABLES phase,   \* "init" "build" "save" "load" "judge" "done" "invalid"
          g,       \* the object graph                                  (python objects before saving)
          stack,   \* build: open containers
          fo,      \* file: sequence of h5 objects [t: type attribute, n: node saved there (0: auxiliary), ln: 'len' attribute]
          lk,      \* file: links  <<parent h5 object (0: the caller's handle), name, child h5 object>>
          ms,      \* Hdf5Saver.memo_save : node -> h5 object (0: absent)
          sst,     \* call stack of save()
          h,       \* loaded graph (python objects created by the loader, garbage included)
          ml,      \* Hdf5Loader.memo_load : h5 object -> loaded node (0: absent)
          lst,     \* call stack of load()
          hroot,   \* the object returned by load_from_hdf5
          err,     \* the loader raised (TypeError: unhashable)
          tback,   \* history: a hard link to a tuple under construction was followed
          ok,      \* verdict: loaded graph isomorphic to g
          last, hist

vars == <<phase, g, stack, fo, lk, ms, sst, h, ml, lst, hroot, err, tback, ok, last, hist>>

KeyName == <<"a", "b", "c", "d">>
LeafKinds == {"none", "int", "box", "arr", "dtype", "glob"}
SingleKinds == {"none", "int", "dtype", "glob"}      \* identity determined by (k, v)
SeqKinds == {"list", "tuple", "set"}
KeyedKinds == {"sdict", "inst"}
HashLeaf == {"none", "int", "box", "dtype", "glob", "inst", "range", "keystr"}   \* hashable without looking at children

NEdges(gg) == LET RECURSIVE Sum(_) Sum(j) == IF j = 0 THEN 0 ELSE Len(gg[j].ch) + Sum(j - 1) IN Sum(Len(gg))
Node(k, v) == [k |-> k, v |-> v, ch |-> <<>>, ks |-> <<>>, src |-> 0]
\* a loaded object remembers (for the harness only) which node's h5 object it was read from
LNode(k, v, f) == [k |-> k, v |-> v, ch |-> <<>>, ks |-> <<>>, src |-> f]
Top(s) == s[Len(s)]
Pop(s) == SubSeq(s, 1, Len(s) - 1)
SetTop(s, x) == [s EXCEPT ![Len(s)] = x]
Range(s) == {s[j] : j \in 1..Len(s)}

(* reduce variants: what obj.__reduce__() returns besides (func, args)
     1: state                    (plain object: copyreg._reconstructor, (cls, object, None), __dict__)
     2: listitems  (no state)    list subclass
     3: state + listitems
     4: dictitems  (no state)    dict subclass; items are key nodes followed by value nodes
     5: state + state_setter     the setter is a global function ("glob" node with value 2)
   ch = <<func, args>> \o state? \o setter? \o items ; func is a "glob" node, args a "tuple" node *)
RHasState(v) == v \in {1, 3, 5}
RHasList(v) == v \in {2, 3}
RHasDict(v) == v = 4
RHasSetter(v) == v = 5        \* 5: state + state_setter (a global function, "glob" value 2); ch = <<func, args, state, setter>>
RFirstItem(v) == 3 + (IF RHasState(v) THEN 1 ELSE 0) + (IF RHasSetter(v) THEN 1 ELSE 0)

-----------------------------------------------------------------------------
(* ---------- enumeration of graphs (DFS construction) ---------- *)

Room(nd) == CASE nd.k \in SeqKinds -> Len(nd.ch) < MaxDeg
              [] nd.k \in KeyedKinds -> Len(nd.ch) < NKeys
              [] nd.k = "gdict" -> Len(nd.ch) < 2 * MaxPairs
              [] nd.k = "range" -> Len(nd.ch) < 3
              [] nd.k = "reduce" -> Len(nd.ch) < RFirstItem(nd.v) - 1 + (IF RHasList(nd.v) THEN MaxDeg ELSE IF RHasDict(nd.v) THEN 2 * MaxPairs ELSE 0)
              [] OTHER -> FALSE
CanClose(nd) == CASE nd.k = "gdict" -> Len(nd.ch) % 2 = 0 /\ Len(nd.ch) > 0     \* {} is saved as a "simple" dict
                  [] nd.k = "range" -> Len(nd.ch) = 3
                  [] nd.k = "reduce" -> /\ Len(nd.ch) >= RFirstItem(nd.v) - 1
                                        /\ RHasDict(nd.v) => (Len(nd.ch) - 2) % 2 = 0
                  [] OTHER -> TRUE
\* may a node of kind k, value v become the next child of nd ?
ChildOK(nd, k, v) == CASE nd.k = "range" -> k = "int" /\ (Len(nd.ch) = 2 => v # 0)
                       [] nd.k = "reduce" -> CASE Len(nd.ch) = 0 -> k = "glob" /\ v = 0
                                               [] Len(nd.ch) = 1 -> k = "tuple"
                                               [] Len(nd.ch) = 2 /\ RHasState(nd.v) -> k \in {"sdict"}
                                               [] Len(nd.ch) = 3 /\ RHasSetter(nd.v) -> k = "glob" /\ v = 2
                                               [] OTHER -> TRUE
                       [] OTHER -> TRUE
Vals(k) == CASE k = "int" -> IntVals [] k = "reduce" -> RVariants [] k = "glob" -> GlobVals [] OTHER -> {0}
KeysFor(nd) == IF nd.k \in KeyedKinds THEN (1..NKeys) \ Range(nd.ks) ELSE {0}
AddChild(nd, c, key) == [nd EXCEPT !.ch = Append(@, c), !.ks = IF key = 0 THEN @ ELSE Append(@, key)]

NewRoot(k, v) ==
    /\ phase = "init"
    /\ g' = <<Node(k, v)>>
    /\ stack' = IF k \in LeafKinds THEN <<>> ELSE <<1>>
    /\ phase' = "build"
    /\ last' = [op |-> "NewRoot", k |-> k]
    /\ UNCHANGED <<fo, lk, ms, sst, h, ml, lst, hroot, err, tback, ok, hist>>

AddNew(k, v, key) ==
    /\ phase = "build" /\ stack # <<>> /\ Len(g) < MaxNodes /\ NEdges(g) < MaxEdges
    /\ LET t == Top(stack) IN
       /\ Room(g[t]) /\ ChildOK(g[t], k, v) /\ key \in KeysFor(g[t])
       /\ k \in SingleKinds => \A j \in 1..Len(g) : ~(g[j].k = k /\ g[j].v = v)
       /\ g' = Append([g EXCEPT ![t] = AddChild(@, Len(g) + 1, key)], Node(k, v))
       /\ stack' = IF k \in LeafKinds THEN stack ELSE Append(stack, Len(g) + 1)
    /\ last' = [op |-> "AddNew", k |-> k]
    /\ UNCHANGED <<phase, fo, lk, ms, sst, h, ml, lst, hroot, err, tback, ok, hist>>

AddRef(j, key) ==
    /\ phase = "build" /\ stack # <<>> /\ j \in 1..Len(g) /\ NEdges(g) < MaxEdges
    /\ LET t == Top(stack) IN
       /\ Room(g[t]) /\ ChildOK(g[t], g[j].k, g[j].v) /\ key \in KeysFor(g[t])
       /\ g' = [g EXCEPT ![t] = AddChild(@, j, key)]
    /\ last' = [op |-> "AddRef", k |-> g[j].k]
    /\ UNCHANGED <<phase, stack, fo, lk, ms, sst, h, ml, lst, hroot, err, tback, ok, hist>>

Close ==
    /\ phase = "build" /\ stack # <<>> /\ CanClose(g[Top(stack)])
    /\ stack' = Pop(stack)
    /\ last' = [op |-> "Close", k |-> g[Top(stack)].k]
    /\ UNCHANGED <<phase, g, fo, lk, ms, sst, h, ml, lst, hroot, err, tback, ok, hist>>

(* which graphs can exist in Python *)
Tuples(gg) == {j \in 1..Len(gg) : gg[j].k = "tuple"}
\* immutable containers must exist after their children: no cycle through tuples / reduce-args only.
\* (a reduce object is created by func(args..) before state/items are applied: its func/args edges are
\*  "immutable" edges, its state/items edges are "mutable" ones)
ImmEdges(gg) == {<<a, b>> \in (1..Len(gg)) \X (1..Len(gg)) :
                    \/ gg[a].k \in {"tuple", "range"} /\ b \in Range(gg[a].ch)
                    \/ gg[a].k = "reduce" /\ Len(gg[a].ch) >= 2 /\ b \in {gg[a].ch[1], gg[a].ch[2]}}
RECURSIVE ReachFrom(_, _, _)
ReachFrom(E, S, seen) == LET nxt == {e[2] : e \in {x \in E : x[1] \in S}} \ seen
                         IN IF nxt = {} THEN seen ELSE ReachFrom(E, nxt, seen \cup nxt)
NoImmutableCycle(gg) == LET E == ImmEdges(gg) IN \A a \in 1..Len(gg) : a \notin ReachFrom(E, {a}, {})

RECURSIVE Hashable(_, _)
Hashable(gg, n) == \/ gg[n].k \in HashLeaf
                   \/ gg[n].k = "reduce"            \* harness classes hash by identity
                   \/ gg[n].k = "tuple" /\ \A j \in 1..Len(gg[n].ch) : Hashable(gg, gg[n].ch[j])
\* Python equality of two hashable nodes (would be merged inside a set / as dict keys)
RECURSIVE Eqv(_, _, _)
Eqv(gg, a, b) == \/ a = b
                 \/ /\ gg[a].k = gg[b].k /\ gg[a].k \in {"tuple", "range"} /\ Len(gg[a].ch) = Len(gg[b].ch)
                    /\ \A j \in 1..Len(gg[a].ch) : Eqv(gg, gg[a].ch[j], gg[b].ch[j])
DistinctHashable(gg, s) == /\ \A j \in 1..Len(s) : Hashable(gg, s[j])
                           /\ \A i, j \in 1..Len(s) : i # j => ~Eqv(gg, s[i], s[j])
NKeyOf(nd) == Len(nd.ch) \div 2
EdgeOcc(gg) == UNION {{<<a, j, gg[a].ch[j]>> : j \in 1..Len(gg[a].ch)} : a \in 1..Len(gg)}
RItems(nd) == SubSeq(nd.ch, RFirstItem(nd.v), Len(nd.ch))
Valid(gg) ==
    /\ NoImmutableCycle(gg)
    /\ Cardinality({j \in Tuples(gg) : gg[j].ch = <<>>}) <= 1             \* () is a singleton
    /\ \A n \in 1..Len(gg) :
          /\ gg[n].k = "set" => DistinctHashable(gg, gg[n].ch)
          /\ gg[n].k = "gdict" => DistinctHashable(gg, SubSeq(gg[n].ch, 1, NKeyOf(gg[n])))
          /\ gg[n].k = "reduce" /\ RHasDict(gg[n].v) =>
                 DistinctHashable(gg, SubSeq(RItems(gg[n]), 1, Len(RItems(gg[n])) \div 2))
          \* a reduce object's args is () (harness class takes no arguments); its state is a fresh non-empty
          \* dict referenced by nobody else; the dictitems variant has no model in the patched protocol
          /\ gg[n].k = "reduce" =>
                 /\ gg[gg[n].ch[2]].ch = <<>>
                 /\ RHasState(gg[n].v) => /\ gg[gg[n].ch[3]].ch # <<>>
                                          /\ Cardinality({e \in EdgeOcc(gg) : e[3] = gg[n].ch[3]}) = 1
                 /\ ~ReduceFixed => ~RHasSetter(gg[n].v)

Frame0 == [f |-> 0, items |-> <<<<"/", 1, <<>>>>>>, i |-> 1, pend |-> <<>>, hp |-> FALSE, pn |-> "", p |-> <<>>]

BuildDone ==
    /\ phase = "build" /\ stack = <<>> /\ Valid(g)
    /\ phase' = "save"
    /\ fo' = <<>> /\ lk' = {} /\ ms' = [j \in 0..Len(g) |-> 0]
    /\ sst' = <<Frame0>>
    /\ last' = [op |-> "BuildDone", k |-> ""]
    /\ hist' = <<>>
    /\ UNCHANGED <<g, stack, h, ml, lst, hroot, err, tback, ok>>

\* a container that cannot be completed within the bounds (range without its three ints, dict with a key
\* but no value): the partial graph is dropped (one sink state)
Abandon ==
    /\ phase = "build" /\ stack # <<>> /\ ~CanClose(g[Top(stack)])
    /\ phase' = "invalid" /\ g' = <<>> /\ stack' = <<>>
    /\ last' = [op |-> "Abandon", k |-> ""]
    /\ UNCHANGED <<fo, lk, ms, sst, h, ml, lst, hroot, err, tback, ok, hist>>

Discard ==
    /\ phase = "build" /\ stack = <<>> /\ ~Valid(g)
    /\ phase' = "invalid"
    /\ last' = [op |-> "Discard", k |-> ""]
    /\ UNCHANGED <<g, stack, fo, lk, ms, sst, h, ml, lst, hroot, err, tback, ok, hist>>

-----------------------------------------------------------------------------
(* ---------- Hdf5Saver.save ---------- *)

TypeRepr(k) == CASE k = "sdict" -> "simple_dict" [] k = "gdict" -> "dict" [] k = "inst" -> "instance"
                 [] OTHER -> k
\* an item to save: <<name, node, aux>>; aux = <<>> for a node of the graph, or <<k, v>> for a fresh
\* (key, value) tuple that exists only during the save (the elements of list(dictitems))
IdxItems(s, off) == [j \in 1..Len(s) |-> <<ToString(j - 1 + off), s[j], <<>>>>]
PairItems(ks, vs) == [j \in 1..Len(ks) |-> <<ToString(j - 1), 0, <<ks[j], vs[j]>>>>]
\* the (name, child) pairs a container writes, in the order of the save_* method
Items(nd) == CASE nd.k \in SeqKinds -> IdxItems(nd.ch, 0)
               [] nd.k \in KeyedKinds -> [j \in 1..Len(nd.ch) |-> <<KeyName[nd.ks[j]], nd.ch[j], <<>>>>]
               [] nd.k = "range" -> <<<<"start", nd.ch[1], <<>>>>, <<"stop", nd.ch[2], <<>>>>, <<"step", nd.ch[3], <<>>>>>>
               [] OTHER -> <<>>
Log(op, p) == /\ last' = [op |-> op, p |-> p]
              /\ hist' = Append(hist, [op |-> op, p |-> p])
SFr == Top(sst)
SAny == phase = "save" /\ SFr.i <= Len(SFr.items)
SBusy == SAny /\ SFr.items[SFr.i][3] = <<>>        \* the next thing to save is an object of the graph
SName == SFr.items[SFr.i][1]
SNode == SFr.items[SFr.i][2]
SPath == IF SFr.f = 0 THEN <<>> ELSE Append(SFr.p, SName)
SAdvance == SetTop(sst, [SFr EXCEPT !.i = @ + 1])
GFrame(f, items, p) == [f |-> f, items |-> items, i |-> 1, pend |-> <<>>, hp |-> FALSE, pn |-> "", p |-> p]
KindOf(n) == IF n = 0 THEN "none" ELSE g[n].k      \* node 0: the None object when the graph has no "none" node

\* in_memo is not None: create a hard link
SaveLink ==
    /\ SBusy /\ ms[SNode] # 0
    /\ lk' = lk \cup {<<SFr.f, SName, ms[SNode]>>}
    /\ sst' = SAdvance
    /\ Log("link", SPath)
    /\ UNCHANGED <<phase, g, stack, fo, ms, h, ml, lst, hroot, err, tback, ok>>

\* save_none / save_dataset / save_global / save_dtype: one new h5 object, memorized, no further save() calls modelled
SaveData ==
    /\ SBusy /\ ms[SNode] = 0 /\ KindOf(SNode) \in LeafKinds
    /\ fo' = Append(fo, [t |-> KindOf(SNode), n |-> SNode, ln |-> 0])
    /\ ms' = [ms EXCEPT ![SNode] = Len(fo) + 1]
    /\ lk' = lk \cup {<<SFr.f, SName, Len(fo) + 1>>}
    /\ sst' = SAdvance
    /\ Log("data", SPath)
    /\ UNCHANGED <<phase, g, stack, h, ml, lst, hroot, err, tback, ok>>

\* save_iterable / save_dict (simple keys) / Hdf5Exportable.save_hdf5 / save_range:
\* create_group_for_obj memorizes the group *before* the content is saved
SaveGroup ==
    /\ SBusy /\ ms[SNode] = 0 /\ KindOf(SNode) \in SeqKinds \cup KeyedKinds \cup {"range"}
    /\ fo' = Append(fo, [t |-> TypeRepr(g[SNode].k), n |-> SNode,
                         ln |-> IF g[SNode].k \in SeqKinds THEN Len(g[SNode].ch) ELSE 0])
    /\ ms' = [ms EXCEPT ![SNode] = Len(fo) + 1]
    /\ lk' = lk \cup {<<SFr.f, SName, Len(fo) + 1>>}
    /\ sst' = Append(SAdvance, GFrame(Len(fo) + 1, Items(g[SNode]), SPath))
    /\ Log("group", SPath)
    /\ UNCHANGED <<phase, g, stack, h, ml, lst, hroot, err, tback, ok>>

\* save_dict with general keys: group, then save_iterable(keys, "keys") ... (values follow in SaveValues)
SaveGDict ==
    /\ SBusy /\ ms[SNode] = 0 /\ KindOf(SNode) = "gdict"
    /\ LET nd == g[SNode]  m == NKeyOf(nd)  fd == Len(fo) + 1  fk == Len(fo) + 2 IN
       /\ fo' = fo \o <<[t |-> "dict", n |-> SNode, ln |-> 0], [t |-> "list", n |-> 0, ln |-> m]>>
       /\ ms' = [ms EXCEPT ![SNode] = fd]
       /\ lk' = lk \cup {<<SFr.f, SName, fd>>, <<fd, "keys", fk>>}
       /\ sst' = SAdvance \o <<[f |-> fd, items |-> <<>>, i |-> 1, pend |-> IdxItems(SubSeq(nd.ch, m + 1, 2 * m), 0),
                                hp |-> TRUE, pn |-> "values", p |-> SPath],
                               GFrame(fk, IdxItems(SubSeq(nd.ch, 1, m), 0), Append(SPath, "keys"))>>
    /\ Log("group", SPath)
    /\ UNCHANGED <<phase, g, stack, h, ml, lst, hroot, err, tback, ok>>

\* ... save_iterable(values, "values")
SaveValues ==
    /\ phase = "save" /\ SFr.i > Len(SFr.items) /\ SFr.hp
    /\ LET fv == Len(fo) + 1 IN
       /\ fo' = Append(fo, [t |-> "list", n |-> 0, ln |-> Len(SFr.pend)])
       /\ lk' = lk \cup {<<SFr.f, SFr.pn, fv>>}
       /\ sst' = Append(SetTop(sst, [SFr EXCEPT !.hp = FALSE, !.pend = <<>>]),
                        GFrame(fv, SFr.pend, Append(SFr.p, SFr.pn)))
    /\ Log(IF SFr.pn = "values" THEN "aux" ELSE "group", Append(SFr.p, SFr.pn))
    /\ UNCHANGED <<phase, g, stack, ms, h, ml, lst, hroot, err, tback, ok>>

\* node 0 as the thing to save: the None passed by the buggy save_reduce when there is no state.
\* None is saved as a dataset; it is the same object as a "none" node of the graph (memo by id).
NoneNode == IF \E j \in 1..Len(g) : g[j].k = "none" THEN CHOOSE j \in 1..Len(g) : g[j].k = "none" ELSE 0

\* an element of list(dictitems): a fresh tuple (key, value) -- saved like any tuple, memorized under an id
\* nothing else in the graph has
SaveAuxTuple ==
    /\ SAny /\ SFr.items[SFr.i][3] # <<>>
    /\ LET f == Len(fo) + 1  nm == SFr.items[SFr.i][1]  path == Append(SFr.p, nm) IN
       /\ fo' = Append(fo, [t |-> "tuple", n |-> 0, ln |-> 2])
       /\ lk' = lk \cup {<<SFr.f, nm, f>>}
       /\ sst' = Append(SetTop(sst, [SFr EXCEPT !.i = @ + 1]), GFrame(f, IdxItems(SFr.items[SFr.i][3], 0), path))
       /\ Log("group", path)
    /\ UNCHANGED <<phase, g, stack, ms, h, ml, lst, hroot, err, tback, ok>>

(* save_reduce(func, args, state, listitems, dictitems, state_setter, obj, path): group memorized first; then
   func, args, state are saved, then list(listitems) under "listitems", list(dictitems) -- a list of fresh
   (key, value) tuples -- under "dictitems", the state_setter (a global function) under "state_setter".
   The auxiliary list / tuples are h5 objects without a node (n = 0).
   ~ReduceFixed: the protocol before fix a37a275, which saved `state` again under those names. *)
SaveReduce ==
    /\ SBusy /\ ms[SNode] = 0 /\ KindOf(SNode) = "reduce"
    /\ LET nd == g[SNode]  f == Len(fo) + 1
           base == <<<<"func", nd.ch[1], <<>>>>, <<"args", nd.ch[2], <<>>>>>> \o
                   (IF RHasState(nd.v) THEN <<<<"state", nd.ch[3], <<>>>>>> ELSE <<>>)
           setter == IF RHasSetter(nd.v) THEN <<<<"state_setter", nd.ch[4], <<>>>>>> ELSE <<>>
           its == RItems(nd)
           m == Len(its) \div 2
           \* as implemented: save(state, subpath + 'listitems'); state is None when absent
           buggy == IF RHasList(nd.v) THEN <<<<"listitems", IF RHasState(nd.v) THEN nd.ch[3] ELSE NoneNode, <<>>>>>>
                    ELSE IF RHasDict(nd.v) THEN <<<<"dictitems", NoneNode, <<>>>>>> ELSE <<>>
       IN
       /\ fo' = Append(fo, [t |-> "reduce", n |-> SNode, ln |-> 0])
       /\ ms' = [ms EXCEPT ![SNode] = f]
       /\ lk' = lk \cup {<<SFr.f, SName, f>>}
       /\ sst' = Append(SAdvance,
                        IF ReduceFixed
                        THEN [f |-> f, items |-> base \o setter, i |-> 1,
                              pend |-> IF RHasDict(nd.v) THEN PairItems(SubSeq(its, 1, m), SubSeq(its, m + 1, 2 * m))
                                       ELSE IdxItems(its, 0),
                              hp |-> RHasList(nd.v) \/ RHasDict(nd.v),
                              pn |-> IF RHasDict(nd.v) THEN "dictitems" ELSE "listitems",
                              p |-> SPath]
                        ELSE GFrame(f, base \o buggy, SPath))
    /\ Log("group", SPath)
    /\ UNCHANGED <<phase, g, stack, h, ml, lst, hroot, err, tback, ok>>

\* return from save_iterable / save_dict / save_hdf5 / save_range
SaveReturn ==
    /\ phase = "save" /\ SFr.i > Len(SFr.items) /\ ~SFr.hp /\ Len(sst) > 1
    /\ sst' = Pop(sst)
    /\ Log(IF SFr.p # <<>> /\ SFr.p[Len(SFr.p)] \in {"keys", "values"} THEN "auxret" ELSE "ret", SFr.p)
    /\ UNCHANGED <<phase, g, stack, fo, lk, ms, h, ml, lst, hroot, err, tback, ok>>

LFrame0 == [f |-> 0, o |-> 0, kind |-> "top", names |-> <<"/">>, i |-> 1, acc |-> <<>>, st |-> 0, p |-> <<>>]

SaveDone ==
    /\ phase = "save" /\ Len(sst) = 1 /\ SFr.i > Len(SFr.items)
    /\ phase' = "load"
    /\ h' = <<>> /\ ml' = [j \in 1..Len(fo) |-> 0] /\ lst' = <<LFrame0>>
    /\ hroot' = 0 /\ err' = FALSE /\ tback' = FALSE
    /\ Log("saved", <<>>)
    /\ UNCHANGED <<g, stack, fo, lk, ms, sst, ok>>

-----------------------------------------------------------------------------
(* ---------- Hdf5Loader.load ---------- *)

LFr == Top(lst)
LBusy == phase = "load" /\ LFr.i <= Len(LFr.names)
LName == LFr.names[LFr.i]
LTarget == (CHOOSE x \in lk : x[1] = LFr.f /\ x[2] = LName)[3]          \* self.h5group[path]
LPath == IF LFr.f = 0 THEN <<>> ELSE Append(LFr.p, LName)
Names(f) == {x[2] : x \in {y \in lk : y[1] = f}}
IdxNames(n) == [j \in 1..n |-> ToString(j - 1)]
\* h5py iterates a group in alphabetical order of the names
SortedKeyNames(f) == LET idx == {j \in 1..Len(KeyName) : KeyName[j] \in Names(f)}
                         RECURSIVE Srt(_)
                         Srt(S) == IF S = {} THEN <<>> ELSE
                                   LET m == CHOOSE x \in S : \A y \in S : x <= y IN <<KeyName[m]>> \o Srt(S \ {m})
                     IN Srt(idx)
KeyIndex(nm) == CHOOSE j \in 1..Len(KeyName) : KeyName[j] = nm

RECURSIVE HashableH(_, _)
HashableH(hh, n) == \/ hh[n].k \in HashLeaf \/ hh[n].k = "reduce"
                    \/ hh[n].k = "tuple" /\ \A j \in 1..Len(hh[n].ch) : HashableH(hh, hh[n].ch[j])

\* what the frame `fr` does with a loaded child x: (new h, new frame, raised?)
DeliverH(hh, fr, x) ==
    CASE fr.kind \in {"list", "tuple", "set", "aux"} -> [hh EXCEPT ![fr.o].ch = Append(@, x)]
      [] fr.kind \in KeyedKinds -> [hh EXCEPT ![fr.o].ch = Append(@, x), ![fr.o].ks = Append(@, KeyIndex(fr.names[fr.i]))]
      [] OTHER -> hh
DeliverF(fr, x) == [fr EXCEPT !.i = @ + 1, !.acc = IF fr.kind \in {"range", "reduce", "top"} THEN Append(@, x) ELSE @]
Raises(hh, fr, x) == fr.kind = "set" /\ ~HashableH(hh, x)

\* the loaded singleton (None, small int, dtype, global) if it exists already
Existing(hh, k, v) == IF \E j \in 1..Len(hh) : hh[j].k = k /\ hh[j].v = v
                      THEN CHOOSE j \in 1..Len(hh) : hh[j].k = k /\ hh[j].v = v ELSE 0
MemoHit(t) == ml[t] # 0 /\ h[ml[t]].k # "none"      \* `in_memo is not None`
InProgressTuple(t) == \E j \in 1..Len(lst) : lst[j].f = t /\ lst[j].kind = "tuple"

Finish(e) == /\ phase' = "judge" /\ err' = e

\* memo hit: return the memorized object
LoadHit ==
    /\ LBusy /\ MemoHit(LTarget)
    /\ LET x == ml[LTarget] IN
       IF Raises(h, LFr, x) THEN /\ Finish(TRUE) /\ UNCHANGED <<h, lst, hroot>>
       ELSE /\ h' = DeliverH(h, LFr, x)
            /\ lst' = SetTop(lst, DeliverF(LFr, x))
            /\ hroot' = IF LFr.kind = "top" THEN x ELSE hroot
            /\ UNCHANGED <<phase, err>>
    /\ tback' = (tback \/ InProgressTuple(LTarget))
    /\ Log("hit", LPath)
    /\ UNCHANGED <<g, stack, fo, lk, ms, sst, ml, ok>>

\* load_none / load_dataset / load_str / load_global / load_dtype
LoadData ==
    /\ LBusy /\ ~MemoHit(LTarget) /\ fo[LTarget].t \in LeafKinds
    /\ LET t == LTarget
           k == fo[t].t
           v == IF fo[t].n = 0 THEN 0 ELSE g[fo[t].n].v
           ex == IF k \in SingleKinds THEN Existing(h, k, v) ELSE 0
           x == IF ex # 0 THEN ex ELSE Len(h) + 1
           h1 == IF ex # 0 THEN h ELSE Append(h, LNode(k, v, fo[t].n))
       IN
       /\ ml' = [ml EXCEPT ![t] = IF @ = 0 THEN x ELSE @]           \* setdefault
       /\ IF Raises(h1, LFr, x) THEN /\ Finish(TRUE) /\ h' = h1 /\ UNCHANGED <<lst, hroot>>
          ELSE /\ h' = DeliverH(h1, LFr, x)
               /\ lst' = SetTop(lst, DeliverF(LFr, x))
               /\ hroot' = IF LFr.kind = "top" THEN x ELSE hroot
               /\ UNCHANGED <<phase, err>>
    /\ Log("data", LPath)
    /\ UNCHANGED <<g, stack, fo, lk, ms, sst, tback, ok>>

\* load_list / load_set / load_tuple / load_simple_dict / from_hdf5: create the object (for a tuple: a
\* temporary list), memorize_load, then load the children
LoadEnter ==
    /\ LBusy /\ ~MemoHit(LTarget) /\ fo[LTarget].t \in {"list", "tuple", "set", "simple_dict", "instance"}
    /\ LET t == LTarget
           ty == fo[t].t
           k == CASE ty = "simple_dict" -> "sdict" [] ty = "instance" -> "inst" [] OTHER -> ty
           o == Len(h) + 1
       IN
       /\ h' = Append(h, LNode(IF k = "tuple" THEN "list" ELSE k, 0, fo[t].n))
       /\ ml' = [ml EXCEPT ![t] = IF @ = 0 THEN o ELSE @]
       /\ lst' = Append(lst, [f |-> t, o |-> o, kind |-> k,
                              names |-> IF k \in KeyedKinds THEN SortedKeyNames(t) ELSE IdxNames(fo[t].ln),
                              i |-> 1, acc |-> <<>>, st |-> 0, p |-> LPath])
    /\ Log("enter", LPath)
    /\ UNCHANGED <<phase, g, stack, fo, lk, ms, sst, hroot, err, tback, ok>>

\* load_range: the three children first, the object (and its memo entry) afterwards
LoadEnterRange ==
    /\ LBusy /\ ~MemoHit(LTarget) /\ fo[LTarget].t = "range"
    /\ lst' = Append(lst, [f |-> LTarget, o |-> 0, kind |-> "range", names |-> <<"start", "stop", "step">>,
                           i |-> 1, acc |-> <<>>, st |-> 0, p |-> LPath])
    /\ Log("enter", LPath)
    /\ UNCHANGED <<phase, g, stack, fo, lk, ms, sst, h, ml, hroot, err, tback, ok>>

\* load_general_dict: obj = {}; memorize; keys = load_list(h5gr['keys']) ...
AuxFrame(fa, o, p) == [f |-> fa, o |-> o, kind |-> "aux", names |-> IdxNames(fo[fa].ln), i |-> 1, acc |-> <<>>,
                       st |-> 0, p |-> p]
Child(f, nm) == (CHOOSE x \in lk : x[1] = f /\ x[2] = nm)[3]
LoadEnterGDict ==
    /\ LBusy /\ ~MemoHit(LTarget) /\ fo[LTarget].t = "dict"
    /\ LET t == LTarget  o == Len(h) + 1  kl == Len(h) + 2  fk == Child(t, "keys") IN
       /\ h' = h \o <<LNode("gdict", 0, fo[t].n), Node("list", 0)>>
       /\ ml' = [ml EXCEPT ![t] = IF @ = 0 THEN o ELSE @, ![fk] = IF @ = 0 THEN kl ELSE @]
       /\ lst' = lst \o <<[f |-> t, o |-> o, kind |-> "gdict", names |-> <<>>, i |-> 1, acc |-> <<kl>>, st |-> 1, p |-> LPath],
                          AuxFrame(fk, kl, Append(LPath, "keys"))>>
    /\ Log("enter", LPath)
    /\ UNCHANGED <<phase, g, stack, fo, lk, ms, sst, hroot, err, tback, ok>>

\* load_reduce: func and args are loaded first, obj = func(args..), memorize_load, then state / items
LoadEnterReduce ==
    /\ LBusy /\ ~MemoHit(LTarget) /\ fo[LTarget].t = "reduce"
    /\ lst' = Append(lst, [f |-> LTarget, o |-> 0, kind |-> "reduce", names |-> <<"func", "args">>,
                           i |-> 1, acc |-> <<>>, st |-> 1, p |-> LPath])
    /\ Log("enter", LPath)
    /\ UNCHANGED <<phase, g, stack, fo, lk, ms, sst, h, ml, hroot, err, tback, ok>>

LDone == phase = "load" /\ LFr.i > Len(LFr.names)
Parent == lst[Len(lst) - 1]
\* pop the top frame and hand x to the caller's frame
ReturnTo(hh, x) ==
    IF Raises(hh, Parent, x) THEN /\ Finish(TRUE) /\ h' = hh /\ UNCHANGED <<lst, hroot>>
    ELSE /\ h' = DeliverH(hh, Parent, x)
         /\ lst' = SetTop(Pop(lst), DeliverF(Parent, x))
         /\ hroot' = IF Parent.kind = "top" THEN x ELSE hroot
         /\ UNCHANGED <<phase, err>>

\* list / set / simple dict / instance: return the object that was memorized at the start
LoadReturn ==
    /\ LDone /\ LFr.kind \in {"list", "set", "sdict", "inst"}
    /\ ReturnTo(h, LFr.o)
    /\ Log("ret", LFr.p)
    /\ UNCHANGED <<g, stack, fo, lk, ms, sst, ml, tback, ok>>

\* tuple: obj = tuple(obj); memo_load[h5gr.id] = obj   (overwrites the temporary list)
LoadReturnTuple ==
    /\ LDone /\ LFr.kind = "tuple"
    /\ LET x == Len(h) + 1 IN
       /\ ml' = [ml EXCEPT ![LFr.f] = x]
       /\ ReturnTo(Append(h, [LNode("tuple", 0, fo[LFr.f].n) EXCEPT !.ch = h[LFr.o].ch]), x)
    /\ Log("ret", LFr.p)
    /\ UNCHANGED <<g, stack, fo, lk, ms, sst, tback, ok>>

\* range(start, stop, step); memorize_load afterwards
LoadReturnRange ==
    /\ LDone /\ LFr.kind = "range"
    /\ LET x == Len(h) + 1 IN
       /\ ml' = [ml EXCEPT ![LFr.f] = IF @ = 0 THEN x ELSE @]
       /\ ReturnTo(Append(h, [LNode("range", 0, fo[LFr.f].n) EXCEPT !.ch = LFr.acc]), x)
    /\ Log("ret", LFr.p)
    /\ UNCHANGED <<g, stack, fo, lk, ms, sst, tback, ok>>

\* general dict: keys loaded -> values = load_list(h5gr['values'])
LoadKeysDone ==
    /\ LDone /\ LFr.kind = "aux" /\ Parent.kind = "gdict" /\ Parent.st = 1
    /\ LET vl == Len(h) + 1  fv == Child(Parent.f, "values") IN
       /\ h' = Append(h, Node("list", 0))
       /\ ml' = [ml EXCEPT ![fv] = IF @ = 0 THEN vl ELSE @]
       /\ lst' = Append(SetTop(Pop(lst), [Parent EXCEPT !.st = 2, !.acc = Append(@, vl)]),
                        AuxFrame(fv, vl, Append(Parent.p, "values")))
    /\ Log("aux", Append(Parent.p, "values"))
    /\ UNCHANGED <<phase, g, stack, fo, lk, ms, sst, hroot, err, tback, ok>>

\* ... obj.update(zip(keys, values)); return obj      (raises if a key is unhashable)
LoadValuesDone ==
    /\ LDone /\ LFr.kind = "aux" /\ Parent.kind = "gdict" /\ Parent.st = 2
    /\ LET d == Parent.o  K == h[Parent.acc[1]].ch  V == h[Parent.acc[2]].ch
           GP == lst[Len(lst) - 2]
           h1 == [h EXCEPT ![d].ch = K \o V]
       IN
       IF (\E j \in 1..Len(K) : ~HashableH(h, K[j])) \/ Raises(h1, GP, d)
       THEN /\ Finish(TRUE) /\ UNCHANGED <<h, lst, hroot>>
       ELSE /\ h' = DeliverH(h1, GP, d)
            /\ lst' = SetTop(Pop(Pop(lst)), DeliverF(GP, d))
            /\ hroot' = IF GP.kind = "top" THEN d ELSE hroot
            /\ UNCHANGED <<phase, err>>
    /\ Log("ret", Parent.p)
    /\ UNCHANGED <<g, stack, fo, lk, ms, sst, ml, tback, ok>>

(* load_reduce, after func and args: obj = func(args..); memorize_load; then
     'state' in h5gr      -> state = load(state); obj.__dict__.update(state)   (harness classes: no __setstate__)
     'listitems' in h5gr  -> for item in load(listitems): obj.append(item)
     'dictitems' in h5gr  -> for k, v in load(dictitems): obj[k] = v
   The reduce node in h gets ch = <<func, args>> \o state? \o items, like in g.
   st = 1: func/args loaded, create object;  st = 2: the optional parts are being loaded (acc collects them) *)
LoadReduceCreate ==
    /\ LDone /\ LFr.kind = "reduce" /\ LFr.st = 1
    /\ LET x == Len(h) + 1
           present == Names(LFr.f)
           more == (IF "state" \in present THEN <<"state">> ELSE <<>>) \o
                   (IF "state_setter" \in present THEN <<"state_setter">> ELSE <<>>) \o
                   (IF "listitems" \in present THEN <<"listitems">> ELSE <<>>) \o
                   (IF "dictitems" \in present THEN <<"dictitems">> ELSE <<>>)
       IN
       /\ h' = Append(h, [LNode("reduce", g[fo[LFr.f].n].v, fo[LFr.f].n) EXCEPT !.ch = LFr.acc])
       /\ ml' = [ml EXCEPT ![LFr.f] = IF @ = 0 THEN x ELSE @]
       /\ lst' = SetTop(lst, [LFr EXCEPT !.o = x, !.st = 2, !.names = <<"func", "args">> \o more])
    /\ Log("create", LFr.p)
    /\ UNCHANGED <<phase, g, stack, fo, lk, ms, sst, hroot, err, tback, ok>>

\* everything loaded: apply state and items to the object.  acc = <<func, args, state?, setter?, items?>>
\*   state: obj.__dict__.update(state), or obj = state_setter(obj, state) -- the *return value* of the setter
\*          replaces obj (a setter following the pickle protocol returns None: known finding
\*          C17-reduce-state-setter); the memo entry keeps the object (setdefault does not overwrite)
\*   listitems: for item in load(listitems): obj.append(item)
\*   dictitems: for key, val in load(dictitems): obj[key] = val      (raises for an unhashable key)
\* Under the old protocol the items container is whatever was stored under that name: iterating a dict
\* yields its keys, None is not iterable, a key string cannot be unpacked into (key, val).
LoadReduceFinish ==
    /\ LDone /\ LFr.kind = "reduce" /\ LFr.st = 2
    /\ LET present == Names(LFr.f)
           hs == "state" \in present
           hset == "state_setter" \in present
           hl == "listitems" \in present
           hd == "dictitems" \in present
           itn == IF hl \/ hd THEN LFr.acc[Len(LFr.acc)] ELSE 0          \* the loaded items object
           isd == itn # 0 /\ h[itn].k = "sdict"
           h1 == IF isd THEN h \o [j \in 1..Len(h[itn].ks) |-> Node("keystr", h[itn].ks[j])] ELSE h
           iter == IF itn = 0 THEN <<>>
                   ELSE IF h[itn].k = "list" THEN h[itn].ch
                   ELSE IF isd THEN [j \in 1..Len(h[itn].ks) |-> Len(h) + j]
                   ELSE <<>>
           pairs == itn # 0 /\ h[itn].k = "list" /\ \A j \in 1..Len(iter) : h[iter[j]].k = "tuple" /\ Len(h[iter[j]].ch) = 2
           bad == itn # 0 /\ (h[itn].k \notin {"list", "sdict"} \/ (hd /\ ~pairs))
           keys == IF hd /\ pairs THEN [j \in 1..Len(iter) |-> h[iter[j]].ch[1]] ELSE <<>>
           vals == IF hd /\ pairs THEN [j \in 1..Len(iter) |-> h[iter[j]].ch[2]] ELSE <<>>
           unhash == \E j \in 1..Len(keys) : ~HashableH(h, keys[j])
           items == IF hd THEN keys \o vals ELSE iter
           st == IF hs THEN <<LFr.acc[3]>> ELSE <<>>
           se == IF hset THEN <<LFr.acc[4]>> ELSE <<>>
           h2 == [h1 EXCEPT ![LFr.o].ch = <<LFr.acc[1], LFr.acc[2]>> \o st \o se \o items]
           ex == Existing(h2, "none", 0)
           lost == hset /\ ~SetterFixed          \* obj = state_setter(obj, state): a pickle-style setter returns None
           x == IF lost THEN (IF ex # 0 THEN ex ELSE Len(h2) + 1) ELSE LFr.o
           h3 == IF lost /\ ex = 0 THEN Append(h2, Node("none", 0)) ELSE h2
       IN
       IF bad \/ unhash THEN /\ Finish(TRUE) /\ UNCHANGED <<h, lst, hroot>>
       ELSE ReturnTo(h3, x)
    /\ Log("ret", LFr.p)
    /\ UNCHANGED <<g, stack, fo, lk, ms, sst, ml, tback, ok>>

LoadDone ==
    /\ phase = "load" /\ Len(lst) = 1 /\ LFr.i > Len(LFr.names)
    /\ Finish(FALSE)
    /\ Log("loaded", <<>>)
    /\ UNCHANGED <<g, stack, fo, lk, ms, sst, h, ml, lst, hroot, tback, ok>>

-----------------------------------------------------------------------------
(* ---------- the verdict: rooted ordered isomorphism ---------- *)

SameShape(a, b) == /\ a.k = b.k /\ a.v = b.v /\ Len(a.ch) = Len(b.ch)
                   /\ a.k \in KeyedKinds => Range(a.ks) = Range(b.ks)
\* children of b in the order of a (keyed kinds are matched by key, not by position)
ChildFor(a, b, j) == IF a.k \in KeyedKinds THEN b.ch[CHOOSE i \in 1..Len(b.ks) : b.ks[i] = a.ks[j]] ELSE b.ch[j]
\* the only candidate isomorphism is forced by the roots and the order of the children
RECURSIVE Walk(_, _, _, _)
Walk(ga, hb, m, todo) ==
    IF todo = <<>> THEN m
    ELSE LET a == todo[1][1]  b == todo[1][2]  rest == Tail(todo) IN
         IF m[a] # 0 THEN (IF m[a] = b THEN Walk(ga, hb, m, rest) ELSE <<>>)
         ELSE IF ~SameShape(ga[a], hb[b]) THEN <<>>
         ELSE Walk(ga, hb, [m EXCEPT ![a] = b],
                   [j \in 1..Len(ga[a].ch) |-> <<ga[a].ch[j], ChildFor(ga[a], hb[b], j)>>] \o rest)
Iso(ga, ra, hb, rb) == LET m == Walk(ga, hb, [j \in 1..Len(ga) |-> 0], <<<<ra, rb>>>>) IN
                       /\ m # <<>>
                       /\ \A i, j \in 1..Len(ga) : (i # j /\ m[i] # 0 /\ m[j] # 0) => m[i] # m[j]

Judge ==
    /\ phase = "judge"
    /\ phase' = "done"
    /\ ok' = (~err /\ Iso(g, 1, h, hroot))
    /\ last' = [op |-> "judge", p |-> <<>>]
    /\ Emit => PrintT(<<"C17FINAL", [g |-> g, fo |-> fo, lk |-> lk, h |-> h, hroot |-> hroot, err |-> err,
                                    ok |-> ok', tback |-> tback, hist |-> hist]>>)
    /\ UNCHANGED <<g, stack, fo, lk, ms, sst, h, ml, lst, hroot, err, tback, hist>>

Idle == phase \in {"done", "invalid"} /\ UNCHANGED vars      \* so that CHECK_DEADLOCK finds a stuck save / load

Init == /\ phase = "init" /\ g = <<>> /\ stack = <<>> /\ fo = <<>> /\ lk = {} /\ ms = <<>> /\ sst = <<>>
        /\ h = <<>> /\ ml = <<>> /\ lst = <<>> /\ hroot = 0 /\ err = FALSE /\ tback = FALSE /\ ok = FALSE
        /\ last = [op |-> "init"] /\ hist = <<>>

DoNewRoot == \E k \in RootKinds : \E v \in Vals(k) : NewRoot(k, v)
DoAddNew == \E k \in Kinds : \E v \in Vals(k) : \E key \in 0..NKeys : AddNew(k, v, key)
DoAddRef == \E j \in 1..MaxNodes : \E key \in 0..NKeys : AddRef(j, key)

Next == \/ DoNewRoot \/ DoAddNew \/ DoAddRef \/ Close \/ BuildDone \/ Discard \/ Abandon
        \/ SaveLink \/ SaveData \/ SaveGroup \/ SaveGDict \/ SaveValues \/ SaveAuxTuple \/ SaveReduce \/ SaveReturn \/ SaveDone
        \/ LoadHit \/ LoadData \/ LoadEnter \/ LoadEnterRange \/ LoadEnterGDict \/ LoadEnterReduce
        \/ LoadReturn \/ LoadReturnTuple \/ LoadReturnRange \/ LoadKeysDone \/ LoadValuesDone
        \/ LoadReduceCreate \/ LoadReduceFinish \/ LoadDone
        \/ Judge \/ Idle

Spec == Init /\ [][Next]_vars
BuildOnly == phase \in {"init", "build", "invalid"} \/ (phase = "save" /\ hist = <<>>)   \* state constraint used to count graphs only
-----------------------------------------------------------------------------
(* ---------- properties ---------- *)

Edges(gg) == {<<a, b>> \in (1..Len(gg)) \X (1..Len(gg)) : b \in Range(gg[a].ch)}
\* the reduce variants that do not round-trip: with a state_setter the loader returns the setter's return
\* value (known finding C17-reduce-state-setter); the old save_reduce (~ReduceFixed) lost listitems / dictitems
DefectFree(gg) == \A n \in 1..Len(gg) : gg[n].k = "reduce" =>
                         (gg[n].v = 1 \/ (ReduceFixed /\ gg[n].v \in {2, 3, 4}) \/ (SetterFixed /\ gg[n].v = 5))
Saved == phase \in {"load", "judge", "done"}

\* one h5 object per python object; every reference is a link to *the* object of its target
\* (so two paths are the same h5 object iff they were the same python object)
FileMirrorsGraph ==
    Saved /\ DefectFree(g) =>
             /\ \A n \in 1..Len(g) : ms[n] # 0 /\ fo[ms[n]].n = n
             /\ \A m, n \in 1..Len(g) : m # n => ms[m] # ms[n]
             /\ Cardinality({j \in 1..Len(fo) : fo[j].n # 0}) = Len(g)
             /\ <<0, "/", ms[1]>> \in lk
             /\ \A n \in 1..Len(g) : g[n].k \in SeqKinds \cup KeyedKinds \cup {"range"} =>
                   \A j \in 1..Len(g[n].ch) : <<ms[n], Items(g[n])[j][1], ms[g[n].ch[j]]>> \in lk
             /\ \A x \in lk : \A y \in lk : (x[1] = y[1] /\ x[2] = y[2]) => x = y       \* names are unique in a group

\* never two python objects in one h5 object, never two members of a group under one name
FileNoAliasing ==
    Saved => /\ \A m, n \in 1..Len(g) : (m # n /\ ms[m] # 0) => ms[m] # ms[n]
             /\ \A n \in 1..Len(g) : ms[n] # 0 => fo[ms[n]].n = n
             /\ \A x \in lk : \A y \in lk : (x[1] = y[1] /\ x[2] = y[2]) => x = y
\* the round trip is exact, except in the documented case (and the known defect) -- and then it is not
RoundTrip == phase = "done" => (ok <=> (~tback /\ DefectFree(g)))
\* the plain theorem: what must fail under the old save_reduce (witness run) and what holds for graphs
\* without a state_setter today
RoundTripPlain == phase = "done" => (ok <=> ~tback)
\* the loader raises only in those cases
ErrOnlyTupleCycle == phase \in {"judge", "done"} /\ err => (tback \/ ~DefectFree(g))
\* sufficient condition on the graph alone: no tuple lies on a cycle
TupleOnCycle(gg) == \E t \in Tuples(gg) : t \in ReachFrom(Edges(gg), {t}, {})
AcyclicTuplesFine == phase = "done" /\ ~TupleOnCycle(g) /\ DefectFree(g) => ok
\* termination: the number of save()/load() calls and returns is bounded by the size of the graph
BoundedWork == phase \in {"save", "load", "judge", "done"} => Len(hist) <= 8 * (NEdges(g) + Len(g) + 2)

\* shared references stay shared, distinct objects stay distinct: the memo_load is a function on h5
\* objects and (when ok) the composite node -> h5 object -> loaded object is injective
SharingPreserved ==
    phase = "done" /\ ok => \A m, n \in 1..Len(g) : m # n => ml[ms[m]] # ml[ms[n]]
=============================================================================
