------------------------------ MODULE MPOGraph ------------------------------
(* The MPO graph (finite state machine) tenpy builds for a CouplingModel, written like the implementation
   (OnsiteTerms.add_to_graph, CouplingTerms.add_to_graph with MPOGraph.add_string_left_to_right,
   ExponentiallyDecayingTerms.add_to_graph, MPOGraph.add_missing_IdL_IdR) on top of the way CouplingModel.add_coupling
   turns a declaration into Jordan-Wigner transformed local operators (string on the first operator, swap when i > j).

   Design-level claim, model-checked over all small models of ModelDecl: the automaton semantics
       sum over accepted paths IdL -> ... -> IdR of (product of strengths) x (tensor product of edge operators)
   of the graph built this way equals the meaning of the declarations (the stored half for explicit_plus_hc),
   for finite systems and on the window of an infinite system (keys are extended when a string passes a
   multiple of the unit cell, otherwise different unit cells would share states).

   An edge is [l |-> keyL, r |-> keyR, ops |-> <<base operator names>>, s |-> <<re, im, k>>]  (strength (re + i im)/2^k);
   graph[i+1] = set of edges on site i of the unit cell.  *)
EXTENDS ModelDecl

KL == <<"IdL">>      \* all keys are tuples (TLC cannot compare a string with a tuple)
KR == <<"IdR">>
\* w: the edge carries the strength of a term (strengths of equal such edges are added, other edges are shared)
Edge(l, r, ops, s) == [l |-> l, r |-> r, ops |-> ops, s |-> s, w |-> FALSE]
EdgeW(l, r, ops, s) == [l |-> l, r |-> r, ops |-> ops, s |-> s, w |-> TRUE]
Int3(z) == <<z[1], z[2], 0>>
One3 == <<1, 0, 0>>
NameSeq(n) == IF n = "Id" THEN <<>> ELSE <<n>>

-----------------------------------------------------------------------------
\* stored local terms of one declaration, as the implementation keeps them:
\*   onsite:   [kind |-> "on", i, ops, s]
\*   coupling: [kind |-> "co", i, j, opi (Seq of names), opj, str, s]      with i < j, j possibly >= NCell (next unit cells)
\* Only the unit cell is stored (not the window): x ranges over the MPS unit cell.
CellCfg(c) == [c EXCEPT !.cells = 1]            \* geometry of one unit cell; open window in x is wrong for it:
\* positions of a coupling inside the unit cell: box corners b with b.x in 0..Lx-1 (periodic / infinite) or fitting (open)
CellBoxX(c, d) == IF Infinite(c) \/ c.bcx = "periodic" THEN c.Lx ELSE IMax(0, c.Lx - BoxExt(d, 1))
\* MPS index of lattice position (x, y, u) where x may leave the unit cell of an infinite system
MpsIdx(c, x, y, u) == IF Infinite(c) THEN Idx(c, x % c.Lx, y, u) + (x \div c.Lx) * NCell(c)
                      ELSE Idx(c, IF c.bcx = "periodic" THEN x % c.Lx ELSE x, y, u)

HalfOrFull(expl, hc, z) == \* strength stored for a declaration: explicit_plus_hc halves what has no "+ h.c."
    IF expl /\ ~hc THEN <<z[1], z[2], 1>> ELSE <<z[1], z[2], 0>>

\* CouplingModel.add_coupling for one position: JW string multiplied on the *left* operator, swap if i > j
StoredCoupling(c, d, bx, by, expl, conj) ==
    LET o1 == d.ops[1]
        o2 == d.ops[2]
        i0 == MpsIdx(c, bx + o1[2][1] - BoxMin(d, 1), WrapY(c, by + o1[2][2] - BoxMin(d, 2)), o1[3])
        j0 == MpsIdx(c, bx + o2[2][1] - BoxMin(d, 1), WrapY(c, by + o2[2][2] - BoxMin(d, 2)), o2[3])
        \* shift so that the smaller index lies in the unit cell (infinite systems)
        sh == IF Infinite(c) THEN (IMin(i0, j0) \div NCell(c)) * NCell(c) ELSE 0
        i == i0 - sh
        j == j0 - sh
        t1 == c.uc[o1[3] + 1]
        t2 == c.uc[o2[3] + 1]
        n1 == IF conj THEN HcName(o2[1]) ELSE o1[1]      \* the "+ h.c." call: add_coupling(conj, u2, hc(op2), u1, hc(op1), -dx)
        n2 == IF conj THEN HcName(o1[1]) ELSE o2[1]
        \* after the swap of roles for the conjugate, operator 1 sits at (conj ? j : i)
        p1 == IF conj THEN j ELSE i
        p2 == IF conj THEN i ELSE j
        ty1 == IF conj THEN t2 ELSE t1
        ty2 == IF conj THEN t1 ELSE t2
        jw == IF d.str = "auto" THEN NeedsJW(ty1, n1) /\ NeedsJW(ty2, n2) ELSE FALSE
        str == IF d.str = "auto" THEN (IF jw THEN "JW" ELSE "Id") ELSE (IF conj THEN HcName(d.str) ELSE d.str)
        z0 == StrengthAt(d.s, bx % ShapeX(c, d), by % ShapeY(c, d))
        z == IF conj THEN GConj(z0) ELSE z0
    IN IF p1 < p2
       THEN [kind |-> "co", i |-> p1, j |-> p2, opi |-> IF jw THEN <<n1, "JW">> ELSE <<n1>>, opj |-> <<n2>>, str |-> str,
             s |-> HalfOrFull(expl, d.hc, z)]
       ELSE [kind |-> "co", i |-> p2, j |-> p1, opi |-> IF jw THEN <<"JW", n2>> ELSE <<n2>>, opj |-> <<n1>>, str |-> str,
             s |-> HalfOrFull(expl, d.hc, z)]

StoredOf(c, d, expl) ==
    IF d.kind = "onsite" THEN
        LET base == [n \in 1..(c.Lx * c.Ly) |->
                        [kind |-> "on", i |-> Idx(c, (n - 1) \div c.Ly, (n - 1) % c.Ly, d.u), ops |-> <<d.op>>,
                         s |-> HalfOrFull(expl, d.hc, StrengthAt(d.s, (n - 1) \div c.Ly, (n - 1) % c.Ly))]]
            conj == [n \in 1..Len(base) |-> [base[n] EXCEPT !.ops = <<HcName(d.op)>>,
                                                           !.s = <<base[n].s[1], -base[n].s[2], base[n].s[3]>>]]
        IN IF d.hc /\ ~expl THEN base \o conj ELSE base
    ELSE \* two-site coupling
        LET nx == CellBoxX(c, d)
            ny == NBoxY(c, d)
            base == [n \in 1..(nx * ny) |-> StoredCoupling(c, d, (n - 1) \div ny, (n - 1) % ny, expl, FALSE)]
            conj == [n \in 1..(nx * ny) |-> StoredCoupling(c, d, (n - 1) \div ny, (n - 1) % ny, expl, TRUE)]
        IN IF d.hc /\ ~expl THEN base \o conj ELSE base

RECURSIVE AllStored(_, _, _, _)
AllStored(c, ds, n, expl) == IF n = 0 THEN <<>> ELSE AllStored(c, ds, n - 1, expl) \o StoredOf(c, ds[n], expl)

-----------------------------------------------------------------------------
\* the graph.  Keys: "IdL", KR, <<"left", i, op_i (Seq), str>> and extensions <<..., k, str, str>>
LeftKey(t) == <<"left", t.i, t.opi, t.str>>
\* MPOGraph.add_string_left_to_right(i, j, key, opname): edges on the sites i < k < j, the key is extended whenever
\* (k - i) is a multiple of L;  returns [edges, key]
RECURSIVE StringLR(_, _, _, _, _, _, _)
StringLR(L, i, j, k, key, str, acc) ==
    IF k >= j THEN [edges |-> acc, key |-> key]
    ELSE LET keyR == IF (k - i) % L = 0 THEN key \o <<k, str, str>> ELSE key
         IN StringLR(L, i, j, k + 1, keyR, str, acc \cup {<<k % L, Edge(key, keyR, NameSeq(str), One3)>>})

\* edges (as pairs <<site, edge>>) of one stored term
TermEdges(L, t) ==
    IF t.kind = "on" THEN {<<t.i, EdgeW(KL, KR, t.ops, t.s)>>}
    ELSE LET st == StringLR(L, t.i, t.j, t.i + 1, LeftKey(t), t.str, {})
         IN {<<t.i, Edge(KL, LeftKey(t), t.opi, One3)>>} \cup st.edges
            \cup {<<t.j % L, EdgeW(st.key, KR, t.opj, t.s)>>}

\* strengths of parallel edges with the same operator are *added* (dictionary entries d3[op_j] += strength,
\* onsite_terms[i][op] += strength); the opening edge and the string edges are shared (skip_existing)
GAdd3(a, b) == LET k == IMax(a[3], b[3]) IN <<a[1] * Pow(2, k - a[3]) + b[1] * Pow(2, k - b[3]), a[2] * Pow(2, k - a[3]) + b[2] * Pow(2, k - b[3]), k>>
RECURSIVE Sum3(_)
Sum3(S) == IF S = {} THEN <<0, 0, 0>> ELSE LET x == CHOOSE y \in S : TRUE IN GAdd3(x[2], Sum3(S \ {x}))
Merge(pairs) ==      \* pairs: sequence of <<site, edge>> (with multiplicity)
    LET n == Len(pairs)
        Same(a, b) == pairs[a][1] = pairs[b][1] /\ pairs[a][2].l = pairs[b][2].l /\ pairs[a][2].r = pairs[b][2].r
                      /\ pairs[a][2].ops = pairs[b][2].ops
        Closing(a) == pairs[a][2].w
        reps == {a \in 1..n : \A b \in 1..(a - 1) : ~Same(a, b)}
    IN {<<pairs[a][1],
          IF Closing(a) THEN [pairs[a][2] EXCEPT !.s = Sum3({<<b, pairs[b][2].s>> : b \in {x \in 1..n : Same(a, x)}})]
          ELSE pairs[a][2]>> : a \in reps}

RECURSIVE ConcatG(_, _)
ConcatG(ss, n) == IF n = 0 THEN <<>> ELSE ConcatG(ss, n - 1) \o ss[n]
RECURSIVE SetToSeqG(_)
SetToSeqG(S) == IF S = {} THEN <<>> ELSE LET x == CHOOSE y \in S : TRUE IN <<x>> \o SetToSeqG(S \ {x})
RECURSIVE PairsOf(_, _, _)
PairsOf(L, ts, n) == IF n = 0 THEN <<>> ELSE PairsOf(L, ts, n - 1) \o SetToSeqG(TermEdges(L, ts[n]))

\* ExponentiallyDecayingTerms.add_to_graph (uniform lambda, all sites or every second site): one extra state per term
ExpEdges(c, d, nr, expl, conj) ==
    LET L == NCell(c)
        S == SubsAll(c, d)
        inS(i) == \E k \in 1..Len(S) : S[k] = i
        label == <<"exp-decay", nr>>
        ty == c.uc[1]
        jw == NeedsJW(ty, d.opi) /\ NeedsJW(ty, d.opj)
        oi0 == IF jw THEN <<d.opi, "JW">> ELSE <<d.opi>>
        \* hc of (op_i JW) is (JW hc(op_i));  hc of op_j
        oi == IF conj THEN (IF jw THEN <<"JW", HcName(d.opi)>> ELSE <<HcName(d.opi)>>) ELSE oi0
        oj == IF conj THEN <<HcName(d.opj)>> ELSE <<d.opj>>
        str == IF jw THEN <<"JW">> ELSE <<>>
        lam == <<d.lam[1], IF conj THEN -d.lam[2] ELSE d.lam[2], IF d.lamInv = 2 THEN 1 ELSE 2>>
        amp0 == GScale(Pow(d.lamInv, d.dmax), d.s0)
        amp1 == IF conj THEN GConj(amp0) ELSE amp0
        amp == IF expl /\ ~d.hc THEN <<amp1[1], amp1[2], 1>> ELSE <<amp1[1], amp1[2], 0>>
        first == S[1]
        lastS == S[Len(S)]
    IN IF Infinite(c)
       THEN UNION {(IF inS(i) THEN {<<i, Edge(label, label, str, lam)>>, <<i, Edge(label, KR, oj, amp)>>,
                                   <<i, Edge(KL, label, oi, lam)>>}
                    ELSE {<<i, Edge(label, label, str, One3)>>}) : i \in 0..(L - 1)}
       ELSE IF lastS <= first THEN {}
       ELSE {<<first, Edge(KL, label, oi, lam)>>, <<lastS, Edge(label, KR, oj, amp)>>}
            \cup UNION {(IF inS(i) THEN {<<i, Edge(label, label, str, lam)>>, <<i, Edge(label, KR, oj, amp)>>,
                                        <<i, Edge(KL, label, oi, lam)>>}
                         ELSE {<<i, Edge(label, label, str, One3)>>}) : i \in (first + 1)..(lastS - 1)}

-----------------------------------------------------------------------------
\* multi-site couplings (MultiCouplingTerms): the term is split at the site switchLR; operators left of it are inserted
\* from the left with keys ("left", i, op, str, j, op, str, ...), operators right of it from the right (site indices
\* shifted so that the last operator lies in the first unit cell) with keys ("right", ...); one edge at switchLR
\* connects the two key chains and carries the strength.  Mirrored for declarations whose operators are written in
\* ascending site order on a chain with a one-site unit cell basis (what PropMulti / PropMultiLong generate for chains).
SwOf(d) == IF "sw" \in DOMAIN d THEN d.sw ELSE "middle_i"
OrderedMulti(c, d) == /\ d.kind = "multi" /\ c.Ly = 1 /\ Nu(c) = 1 /\ (Infinite(c) \/ c.bcx = "open")
                      /\ \A k \in 1..(Len(d.ops) - 1) : d.ops[k][2][1] < d.ops[k + 1][2][1]

RECURSIVE StringRL(_, _, _, _, _, _, _)
StringRL(L, j, i, k, key, str, acc) ==       \* add_string_right_to_left(j, i, key, str): sites j > k > i, going down
    IF k <= i THEN [edges |-> acc, key |-> key]
    ELSE LET keyLn == IF (j - k) % L = 0 THEN key \o <<k, str, str>> ELSE key
         IN StringRL(L, j, i, k - 1, keyLn, str, acc \cup {<<k % L, Edge(keyLn, key, NameSeq(str), One3)>>})

\* stored form of one multi-site term: sites (ascending), operators (Seq of names each, JW multiplied in), strings
StoredMulti(c, d, bx, expl, conj) ==
    LET n == Len(d.ops)
        raw == [k \in 1..n |-> MpsIdx(c, bx + d.ops[k][2][1] - BoxMin(d, 1), 0, 0)]
        sh == IF Infinite(c) THEN (raw[1] \div NCell(c)) * NCell(c) ELSE 0
        site == [k \in 1..n |-> raw[k] - sh]
        ty == c.uc[1]
        name == [k \in 1..n |-> IF conj THEN HcName(d.ops[k][1]) ELSE d.ops[k][1]]
        nf == Cardinality({k \in 1..n : NeedsJW(ty, name[k])})
        \* the conjugate is declared in reversed order; sorting it back by site swaps every pair of fermionic operators
        sign == IF conj /\ ((nf * (nf - 1)) \div 2) % 2 = 1 THEN -1 ELSE 1
        jwRight == [k \in 1..n |-> Cardinality({m \in 1..k : NeedsJW(ty, name[m])}) % 2 = 1]
        ops == [k \in 1..n |-> IF nf > 0 /\ jwRight[k] THEN <<name[k], "JW">> ELSE <<name[k]>>]
        str == [k \in 1..(n - 1) |-> IF nf > 0 /\ jwRight[k] THEN "JW" ELSE "Id"]
        z0 == StrengthAt(d.s, bx % ShapeX(c, d), 0)
        z == GScale(sign, IF conj THEN GConj(z0) ELSE z0)
        sw == IF SwOf(d) = "middle_op" THEN site[(n \div 2) + 1] ELSE (site[1] + site[n] + 1) \div 2
    IN [site |-> site, ops |-> ops, str |-> str, sw |-> sw, s |-> HalfOrFull(expl, d.hc, z),
        shift |-> site[n] - (site[n] % NCell(c))]

RECURSIVE LeftChain(_, _, _, _, _)
LeftChain(L, t, k, key, acc) ==     \* operators 1..k-1 are inserted, `key` is the key right of operator k-1
    IF k > Len(t.site) \/ t.site[k] >= t.sw
    THEN (IF k = 1 THEN [edges |-> acc, key |-> KL]
          ELSE LET st == StringLR(L, t.site[k - 1], t.sw, t.site[k - 1] + 1, key, t.str[k - 1], {})
               IN [edges |-> acc \cup st.edges, key |-> st.key])
    ELSE IF k = 1
    THEN LET k1 == <<"left", t.site[1], t.ops[1], t.str[1]>>
         IN LeftChain(L, t, 2, k1, acc \cup {<<t.site[1] % L, Edge(KL, k1, t.ops[1], One3)>>})
    ELSE LET st == StringLR(L, t.site[k - 1], t.site[k], t.site[k - 1] + 1, key, t.str[k - 1], {})
             kf == st.key \o <<t.site[k], t.ops[k], t.str[k]>>
         IN LeftChain(L, t, k + 1, kf, acc \cup st.edges \cup {<<t.site[k] % L, Edge(st.key, kf, t.ops[k], One3)>>})

RECURSIVE RightChain(_, _, _, _, _)
RightChain(L, t, k, key, acc) ==    \* operators k+1..n are inserted (from the right), `key` is the key left of operator k+1
    LET n == Len(t.site)
        r(m) == t.site[m] - t.shift
    IN IF k < 1 \/ t.site[k] <= t.sw
       THEN (IF k = n THEN [edges |-> acc, key |-> KR]
             ELSE LET st == StringRL(L, r(k + 1), t.sw - t.shift, r(k + 1) - 1, key, t.str[k], {})
                  IN [edges |-> acc \cup st.edges, key |-> st.key])
       ELSE IF k = n
       THEN LET kn == <<"right", r(n), t.ops[n], t.str[n - 1]>>
            IN RightChain(L, t, n - 1, kn, acc \cup {<<r(n) % L, Edge(kn, KR, t.ops[n], One3)>>})
       ELSE LET st == StringRL(L, r(k + 1), r(k), r(k + 1) - 1, key, t.str[k], {})
                kf == st.key \o <<r(k), t.ops[k], t.str[k - 1]>>
            IN RightChain(L, t, k - 1, kf, acc \cup st.edges \cup {<<r(k) % L, Edge(kf, st.key, t.ops[k], One3)>>})

MultiTermEdges(L, t) ==
    LET n == Len(t.site)
        lc == LeftChain(L, t, 1, KL, {})
        rc == RightChain(L, t, n, KR, {})
        atOp == {k \in 1..n : t.site[k] = t.sw}
        \* the operator on the switch site, or the string of the segment that contains it
        opSw == IF atOp # {} THEN t.ops[CHOOSE k \in atOp : TRUE]
                ELSE NameSeq(t.str[CHOOSE k \in 1..(n - 1) : t.site[k] < t.sw /\ t.sw < t.site[k + 1]])
    IN lc.edges \cup rc.edges \cup {<<t.sw % L, EdgeW(lc.key, rc.key, opSw, t.s)>>}

MultiStored(c, d, expl) ==
    LET nx == CellBoxX(c, d)
        base == [b \in 1..nx |-> StoredMulti(c, d, b - 1, expl, FALSE)]
        conj == [b \in 1..nx |-> StoredMulti(c, d, b - 1, expl, TRUE)]
    IN IF d.hc /\ ~expl THEN base \o conj ELSE base
RECURSIVE MultiPairs(_, _, _, _)
MultiPairs(c, ds, n, expl) ==
    IF n = 0 THEN <<>> ELSE
    MultiPairs(c, ds, n - 1, expl)
    \o (IF ds[n].kind = "multi"
        THEN LET ms == MultiStored(c, ds[n], expl)
             IN ConcatG([m \in 1..Len(ms) |-> SetToSeqG(MultiTermEdges(NCell(c), ms[m]))], Len(ms))
        ELSE <<>>)

SupportedIn(c, d) == c.shift = 0 /\ (d.kind = "onsite" \/ d.kind = "coupling" \/ d.kind = "expdecay" \/ OrderedMulti(c, d))
Supported(d) == SupportedIn(cfg, d)
RECURSIVE ExpAll(_, _, _, _)
ExpAll(c, ds, n, expl) ==
    IF n = 0 THEN {} ELSE
    ExpAll(c, ds, n - 1, expl)
    \cup (IF ds[n].kind = "expdecay"
          THEN ExpEdges(c, ds[n], 1000 + 2 * n, expl, FALSE) \cup (IF ds[n].hc /\ ~expl THEN ExpEdges(c, ds[n], 1001 + 2 * n, expl, TRUE) ELSE {})
          ELSE {})

NonExp(ds) == SelectSeq(ds, LAMBDA d : d.kind \in {"onsite", "coupling"})
\* add_missing_IdL_IdR: Id edges IdL -> IdL and IdR -> IdR on every site
IdEdges(L) == UNION {{<<i, Edge(KL, KL, <<>>, One3)>>, <<i, Edge(KR, KR, <<>>, One3)>>} : i \in 0..(L - 1)}
BuildGraph(c, ds, expl) ==
    LET L == NCell(c)
        ts == AllStored(c, NonExp(ds), Len(NonExp(ds)), expl)
        all == Merge(PairsOf(L, ts, Len(ts)) \o MultiPairs(c, ds, Len(ds), expl)) \cup ExpAll(c, ds, Len(ds), expl) \cup IdEdges(L)
    IN [i \in 1..L |-> SetToSeqG({p[2] : p \in {q \in all : q[1] = i - 1}})]

-----------------------------------------------------------------------------
\* automaton semantics on the window (the same definition as in TraceMPOGraph, which applies it to the real graph)
ExtendG(acc, e, i) == [num |-> GMul(acc.num, <<e.s[1], e.s[2]>>), k |-> acc.k + e.s[3],
                       ops |-> acc.ops \o [m \in 1..Len(e.ops) |-> <<e.ops[m], i>>]]
RECURSIVE PathsG(_, _, _, _, _, _)
PathsG(graph, L, nw, i, key, acc) ==
    IF i = nw THEN (IF key = KR THEN <<acc>> ELSE <<>>)
    ELSE LET out == SelectSeq(graph[(i % L) + 1], LAMBDA e : e.l = key)
         IN ConcatG([n \in 1..Len(out) |-> PathsG(graph, L, nw, i + 1, out[n].r, ExtendG(acc, out[n], i))], Len(out))
GraphSum(c, graph, K) ==
    LET ps == PathsG(graph, NCell(c), NW(c), 0, KL, [num |-> GOne, k |-> 0, ops |-> <<>>])
    IN DenseOfTerms(TypesOf(c), [n \in 1..Len(ps) |->
          [c |-> GScale(Pow(2, K - ps[n].k), ps[n].num), ops |-> ps[n].ops, raw |-> TRUE]])

\* K: enough binary digits for every path (halves from explicit_plus_hc, lambda^distance)
ScaleK(c, ds) == 1 + 2 * NW(c)

GraphMeaning(expl) ==
    LET K == ScaleK(cfg, decls)
        graph == BuildGraph(cfg, decls, expl)
    IN EvalMat(GraphSum(cfg, graph, K)) = EvalMat(MScale(<<Pow(2, IF expl THEN K - 1 ELSE K), 0>>, IF expl THEN G2 ELSE H))

GraphSemantics == (Idle /\ \A n \in 1..Len(decls) : Supported(decls[n])) => GraphMeaning(FALSE) /\ GraphMeaning(TRUE)
=============================================================================
