"""Replay side of spec/Factor.tla (property C05): builds the real npc.Array of a spec tensor, calls the real
tenpy.linalg.np_conserved factorization and evaluates the relation the spec action states.

numpy is used only (a) to project implementation objects (to_ndarray, to_qflat) and (b) to evaluate residuals of
relations whose exact data (entries, sector ranks, moments, inner-leg charges) were computed by TLC."""
import re
import warnings
from collections import Counter

import numpy as np

from . import core, tlaval

TOL = 1e-9
EPS_CUTOFF = 1e-10


class Viol(Exception):
    def __init__(self, clause, detail=None):
        Exception.__init__(self, clause)
        self.clause = clause
        self.detail = detail


# ---------------------------------------------------------------------------------------------------------
# dump / trace readers (only the selected states are parsed: the dumps are large)
_HDR = re.compile(r'^State \d+:.*$', re.M)


def split_dump(path):
    """Yield the raw text of every state of a `tlc -dump` file."""
    with open(path) as f:
        txt = f.read()
    ms = list(_HDR.finditer(txt))
    for j, m in enumerate(ms):
        end = ms[j + 1].start() if j + 1 < len(ms) else len(txt)
        yield txt[m.end():end].strip()


_SIM_LAST = re.compile(r'^STATE_(\d+) ==\s*\n', re.M)


def last_state_of_sim_trace(path):
    with open(path) as f:
        txt = f.read()
    ms = list(_SIM_LAST.finditer(txt))
    if not ms:
        raise core.MachineryError('no state in simulation trace %s' % path)
    body = txt[ms[-1].end():]
    body = body.split('\n\n')[0]
    body = re.sub(r'^=+\s*$', '', body, flags=re.M).strip()
    return tlaval.parse_state(body)


# ---------------------------------------------------------------------------------------------------------
def _cvec(v):
    return np.array(v, dtype=np.int64)


def gmat(rows, shape=None):
    """matrix of Gaussian integers <<re, im>> -> complex ndarray"""
    a = np.array(rows, dtype=np.float64)
    if a.size == 0:
        return np.zeros(shape if shape is not None else (0, 0), dtype=np.complex128)
    return a[..., 0] + 1j * a[..., 1]


def gnum(z):
    return complex(z[0], z[1])


class Built:
    """The real tenpy objects of a spec tensor."""

    def __init__(self, trec):
        import tenpy.linalg.np_conserved as npc
        from tenpy.linalg.charges import ChargeInfo, LegCharge
        self.rec = trec
        self.mod = list(trec['mod'])
        self.chinfo = ChargeInfo(self.mod)
        self.kind = str(trec['kind'])
        self.nL = len(trec['L']['legs'])
        self.nR = len(trec['R']['legs'])

        def mkleg(l):
            sizes = list(l['sizes'])
            slices = np.concatenate([[0], np.cumsum(sizes)])
            ch = np.array(l['ch'], dtype=np.int64).reshape(len(sizes), len(self.mod))
            return LegCharge.from_qind(self.chinfo, slices, ch, int(l['qconj']))
        legs = [mkleg(l) for l in trec['L']['legs']] + [mkleg(l) for l in trec['R']['legs']]
        self.elegs = legs
        dims = [l.ind_len for l in legs]
        self.dL = int(np.prod(dims[:self.nL]))
        self.dR = int(np.prod(dims[self.nL:]))
        M = gmat(trec['M'], (self.dL, self.dR))
        if M.shape != (self.dL, self.dR):
            raise core.MachineryError('spec matrix has shape %r, legs give %r' % (M.shape, (self.dL, self.dR)))
        self.cplx = bool(trec['cplx'])
        self.dt = str(trec.get('dt', 'complex' if self.cplx else 'float'))
        if self.kind == 'ipi2':
            M = 1j * np.pi / 2 * M
            dtype = np.complex128
        elif self.cplx:
            dtype = np.complex128
        else:
            dtype = np.int64 if self.dt == 'int' else np.float64      # integer entries: an int64 Array is exact
            M = M.real.copy()
        self.M = M
        self.dtype = dtype
        self.scale = max(1.0, float(np.abs(M).max()) if M.size else 1.0)
        dense = M.reshape(dims)
        rank = len(legs)
        T = npc.Array(legs, dtype, _cvec(trec['qtotal']))
        data, qdata = [], []
        for rb, cb in trec['stored']:
            q = [int(b) - 1 for b in list(rb) + list(cb)]
            sl = tuple(slice(legs[a].slices[q[a]], legs[a].slices[q[a] + 1]) for a in range(rank))
            data.append(np.array(dense[sl], dtype=dtype, order='C'))
            qdata.append(q)
        T._data = data
        T._qdata = np.array(qdata, dtype=np.intp).reshape(len(qdata), rank)
        T._qdata_sorted = False
        T.iset_leg_labels(['a', 'b', 'c', 'd'][:rank])
        try:
            T.test_sanity()
        except Exception as e:
            raise core.MachineryError('spec tensor is not a valid npc.Array: %r' % (e,))
        if not np.array_equal(T.to_ndarray(), dense):
            raise core.MachineryError('spec tensor has non-zero entries outside stored blocks')
        self.T = T
        comb, qc = [], []
        if self.nL == 2:
            comb.append([0, 1])
            qc.append(int(trec['L']['pq']))
        if self.nR == 2:
            comb.append([self.nL, self.nL + 1])
            qc.append(int(trec['R']['pq']))
        self.A = T.combine_legs(comb, qconj=qc) if comb else T
        self.A0 = self.A.copy(deep=True)
        self.labels = self.A.get_leg_labels()

    # -- projections -------------------------------------------------------------------------------------
    def valid(self, q):
        return self.chinfo.make_valid(np.asarray(q, dtype=np.int64))

    def signed_counter(self, leg):
        """multiset {signed charge (valid) : multiplicity} of a leg"""
        if leg.ind_len == 0:
            return {}
        q = self.valid(leg.qconj * leg.to_qflat())
        return dict(Counter(tuple(int(x) for x in r) for r in q))

    def signed_flat(self, leg):
        if leg.ind_len == 0:
            return []
        q = self.valid(leg.qconj * leg.to_qflat())
        return [tuple(int(x) for x in r) for r in q]

    def rows(self, X, ncols=None):
        """dense 2D array of a factor whose first leg is A.legs[0] (unfused row order of the spec)"""
        if self.nL == 2:
            X = X.split_legs(0)
        a = X.to_ndarray()
        return a.reshape(self.dL, a.size // self.dL)

    def cols(self, X):
        """dense 2D array of a factor whose last leg is A.legs[1]"""
        if self.nR == 2:
            X = X.split_legs(X.rank - 1)
        a = X.to_ndarray()
        return a.reshape(a.size // self.dR, self.dR)

    def both(self, X):
        sp = []
        if self.nL == 2:
            sp.append(0)
        if self.nR == 2:
            sp.append(1)
        if sp:
            X = X.split_legs(sp)
        return X.to_ndarray().reshape(self.dL, self.dR)


def _bytes(x):
    if x is None:
        return None
    x = np.asarray(x)
    return (str(x.dtype), x.shape, np.ascontiguousarray(x).tobytes())


def leg_fingerprint(leg):
    """byte-level fingerprint of a LegCharge / LegPipe and, for pipes, of every incoming leg (recursively).
    Leg objects are shared between arrays: no routine may assign to any of these attributes of an operand's leg."""
    fp = [type(leg).__name__, int(leg.ind_len), int(leg.block_number), int(leg.qconj), bool(leg.sorted), bool(leg.bunched),
          _bytes(leg.slices), _bytes(leg.charges), _bytes(leg.chinfo.mod), tuple(leg.chinfo.names)]
    if hasattr(leg, 'legs'):      # LegPipe
        fp += [int(leg.nlegs), tuple(leg.subshape), tuple(leg.subqshape), _bytes(leg.q_map), _bytes(leg.q_map_slices),
               _bytes(getattr(leg, '_perm', None)), _bytes(getattr(leg, '_strides', None))]
        fp += [leg_fingerprint(x) for x in leg.legs]
    return tuple(fp)


def array_fingerprint(X):
    """what a caller can observe of an operand: value, labels, total charge, dtype, and every reachable leg object"""
    return dict(dtype=str(X.dtype), qtotal=_bytes(X.qtotal), labels=tuple(X.get_leg_labels()), shape=tuple(X.shape),
                value=_bytes(X.to_ndarray()), block_dtypes=tuple(sorted({str(b.dtype) for b in X._data})),
                leg_ids=tuple(id(l) for l in X.legs), legs=tuple(leg_fingerprint(l) for l in X.legs))


def operand_fingerprint(B):
    fp = dict(A=array_fingerprint(B.A))
    if B.T is not B.A:
        fp['T'] = array_fingerprint(B.T)      # the tensor the pipes of A were made from shares its legs with them
    fp['elegs'] = tuple(leg_fingerprint(l) for l in B.elegs)
    return fp


def operand_diff(before, after):
    """None, or (clause, detail) naming what changed"""
    for name in ('A', 'T'):
        if name not in before:
            continue
        b, a = before[name], after[name]
        for k in ('legs', 'leg_ids'):
            if b[k] != a[k]:
                which = [i for i in range(len(b[k])) if i >= len(a[k]) or b[k][i] != a[k][i]]
                return ('operand-leg-mutated', '%s: leg(s) %r of the operand changed (%s)' % (name, which, k))
        for k in ('value', 'labels', 'qtotal', 'dtype', 'shape', 'block_dtypes'):
            if b[k] != a[k]:
                return ('operand-changed', '%s: %s of the operand changed' % (name, k))
    if before['elegs'] != after['elegs']:
        return ('operand-leg-mutated', 'an elementary leg object of the operand changed')
    return None


def expected_counter(inner):
    return {tuple(int(x) for x in c): int(m) for c, m in inner}


def leg_flag_lies(leg, path='leg'):
    """cached claims of a leg that are false: sorted => charges lexsorted (LegCharge.is_sorted order), bunched => no equal
    neighbouring charges; incoming legs of pipes recursively.  Flags are compared as implications only."""
    out = []
    ch = np.asarray(leg.charges)
    if leg.sorted and ch.shape[0] > 1 and ch.shape[1] > 0:
        if not np.array_equal(np.lexsort(ch.T), np.arange(ch.shape[0])):
            out.append('%s claims sorted, charges %s' % (path, ch.tolist()))
    if leg.bunched and ch.shape[0] > 1:
        if np.any(np.all(ch[1:] == ch[:-1], axis=1)):
            out.append('%s claims bunched, charges %s' % (path, ch.tolist()))
    if hasattr(leg, 'legs'):
        for k, sub in enumerate(leg.legs):
            out += leg_flag_lies(sub, '%s.legs[%d]' % (path, k))
    return out


def _sane(X, name):
    from tenpy.tools.optimization import temporary_level
    try:
        X.test_sanity()
        with temporary_level(0):      # level 'none' also verifies the cached sorted / bunched flags of the legs
            X.test_sanity()
    except Exception as e:
        raise Viol('sanity-' + name, repr(e))
    for k, leg in enumerate(X.legs):
        lies = leg_flag_lies(leg, '%s.legs[%d]' % (name, k))
        if lies:
            raise Viol('leg-flags', '; '.join(lies))
    for b in X._data:
        if not np.all(np.isfinite(b)):
            raise Viol('nan', name)


def _leg_equal(a, b, clause):
    try:
        a.test_equal(b)
    except Exception as e:
        raise Viol(clause, repr(e))


def _leg_contractible(a, b, clause):
    try:
        a.test_contractible(b)
    except Exception as e:
        raise Viol(clause, repr(e))


def _close(got, exp, tol, clause, what=None):
    got = np.asarray(got)
    exp = np.asarray(exp)
    if got.shape != exp.shape:
        raise Viol(clause, 'shape %r vs %r %s' % (got.shape, exp.shape, what or ''))
    if got.size == 0:
        return
    if not np.all(np.isfinite(got)):
        raise Viol('nan', clause)
    err = float(np.abs(got - exp).max())
    if err > tol:
        raise Viol(clause, 'residual %.3e > %.1e %s' % (err, tol, what or ''))


def _eye(n):
    return np.eye(n)


def _qt(B, X, exp, clause):
    if not np.array_equal(np.asarray(X.qtotal), B.valid(_cvec(exp))):
        raise Viol(clause, 'qtotal %r expected %r' % (list(X.qtotal), list(exp)))


def _opt_q(v):
    return None if isinstance(v, str) else _cvec(v)


def _qt_as_list(l):
    return l['op'] == 'svd' and l['qm'] in ('LR', 'LN', 'NR', 'bad') and bool(l['lab'])


def _cutoff(l):
    if l['cut'] == 'none':
        return None
    if l['cut'] == 'eps':
        return EPS_CUTOFF
    return float(np.sqrt(l['c2'] / 2.0))


def _moments(S, pow_, clause):
    S = np.asarray(S, dtype=np.float64)
    for k in (1, 2, 3):
        got = float(np.sum(S ** (2 * k)))
        exp = float(pow_[k - 1])
        if abs(got - exp) > TOL * max(1.0, abs(exp)):
            raise Viol(clause, 'sum S^%d = %r, exact %r' % (2 * k, got, exp))


def _two_factor_structure(B, l, F1, F2, labs):
    A = B.A
    _sane(F1, 'F1')
    _sane(F2, 'F2')
    _leg_equal(F1.legs[0], A.legs[0], 'outer-leg')
    _leg_equal(F2.legs[1], A.legs[1], 'outer-leg')
    _leg_contractible(F1.legs[1], F2.legs[0], 'inner-contractible')
    if F2.legs[0].qconj != l['iqconj']:
        raise Viol('inner-qconj', 'qconj %r expected %r' % (F2.legs[0].qconj, l['iqconj']))
    _qt(B, F1, l['qtL'], 'qtotal')
    _qt(B, F2, l['qtR'], 'qtotal')
    got = B.signed_counter(F2.legs[0])
    exp = expected_counter(l['inner'])
    if got != exp:
        raise Viol('inner-charges', 'signed charges of the new leg %r expected %r' % (got, exp))
    if F1.shape != (A.shape[0], l['K']) or F2.shape != (l['K'], A.shape[1]):
        raise Viol('shape', '%r %r K=%r' % (F1.shape, F2.shape, l['K']))
    if F1.get_leg_labels() != [B.labels[0], labs[0]] or F2.get_leg_labels() != [labs[1], B.labels[1]]:
        raise Viol('labels', '%r %r' % (F1.get_leg_labels(), F2.get_leg_labels()))


def _expect_ok(l):
    if l['res'] != 'ok':
        raise Viol('no-error', 'expected %s, the call returned normally' % l['res'])


def _labs(l):
    return ['iL', 'iR'] if l['lab'] else [None, None]


# ---------------------------------------------------------------------------------------------------------
def op_svd(B, l, npc, force_fallback=False):
    A = B.A
    kw = dict(full_matrices=bool(l['full']), compute_uv=bool(l['cu']), cutoff=_cutoff(l),
              qtotal_LR=[_opt_q(l['argLR'][0]), _opt_q(l['argLR'][1])], inner_labels=_labs(l), inner_qconj=int(l['iq']))
    if _qt_as_list(l):      # charges given as plain Python lists (as everywhere else in the npc interface)
        kw['qtotal_LR'] = [None if q is None else [int(x) for x in q] for q in kw['qtotal_LR']]
    if force_fallback:
        import scipy.linalg
        orig = scipy.linalg.svd
        state = {'n': 0}

        def flaky(a, full_matrices=True, compute_uv=True, overwrite_a=False, check_finite=True, lapack_driver='gesdd'):
            # a non-converging gesdd: the real LAPACK call runs with exactly the arguments tenpy gave (so it uses the
            # input as workspace iff tenpy allowed that) and then reports failure like scipy does for info > 0
            res = orig(a, full_matrices, compute_uv, overwrite_a, check_finite, lapack_driver)
            if lapack_driver == 'gesdd':
                state['n'] += 1
                raise np.linalg.LinAlgError('SVD did not converge (interposed)')
            return res
        scipy.linalg.svd = flaky
        try:
            out = npc.svd(A, **kw)
        finally:
            scipy.linalg.svd = orig
        if state['n'] == 0:
            raise core.MachineryError('interposition point scipy.linalg.svd not used by svd_robust')
    else:
        out = npc.svd(A, **kw)
    _expect_ok(l)
    if not l['cu']:
        S = np.asarray(out)
        if S.ndim != 1 or len(S) != l['K']:
            raise Viol('S-shape', 'len(S)=%r expected %r' % (S.shape, l['K']))
        if not np.all(np.isfinite(S)):
            raise Viol('nan', 'S')
        if np.iscomplexobj(S) or np.any(S < -TOL * B.scale):
            raise Viol('S-negative', repr(S))
        _moments(S, l['pow'], 'moments')
        return
    U, S, V = out
    S = np.asarray(S)
    if not np.all(np.isfinite(S)):
        raise Viol('nan', 'S')
    if S.ndim != 1 or np.iscomplexobj(S) or np.any(S < -TOL * B.scale):
        raise Viol('S-negative', repr(S))
    if l['full']:
        _sane(U, 'F1')
        _sane(V, 'F2')
        _leg_equal(U.legs[0], A.legs[0], 'outer-leg')
        _leg_equal(V.legs[1], A.legs[1], 'outer-leg')
        _qt(B, U, l['qtL'], 'qtotal')
        _qt(B, V, l['qtR'], 'qtotal')
        if U.shape != (B.dL, B.dL) or V.shape != (B.dR, B.dR):
            raise Viol('shape', '%r %r' % (U.shape, V.shape))
        if B.signed_counter(U.legs[1]) != expected_counter(l['innerL']) or \
                B.signed_counter(V.legs[0]) != expected_counter(l['innerR']):
            raise Viol('inner-charges', '%r %r expected %r %r' % (B.signed_counter(U.legs[1]), B.signed_counter(V.legs[0]),
                                                                  l['innerL'], l['innerR']))
        labs = _labs(l)
        if U.get_leg_labels() != [B.labels[0], labs[0]] or V.get_leg_labels() != [labs[1], B.labels[1]]:
            raise Viol('labels', '%r %r' % (U.get_leg_labels(), V.get_leg_labels()))
        Ud = B.rows(U)
        Vd = B.cols(V)
        _close(Ud.conj().T @ Ud, _eye(B.dL), TOL, 'U-isometry')
        _close(Vd @ Vd.conj().T, _eye(B.dR), TOL, 'V-isometry')
        D = Ud.conj().T @ B.M @ Vd.conj().T
        big = np.abs(D) > TOL * B.scale
        if np.any(big.sum(axis=0) > 1) or np.any(big.sum(axis=1) > 1):
            raise Viol('reconstruction', 'U^+ A V^+ is not (generalized) diagonal')
        dv = np.sort(np.abs(D[big]))
        sv = np.sort(S[S > TOL * B.scale])
        if np.any(np.abs(D[big].imag) > TOL * B.scale) or np.any(D[big].real < 0):
            raise Viol('reconstruction', 'U^+ A V^+ has non-positive entries')
        _close(dv, sv, TOL * B.scale, 'reconstruction', 'singular values vs U^+ A V^+')
        _moments(S, l['pow'], 'moments')
        return
    _two_factor_structure(B, l, U, V, _labs(l))
    if len(S) != l['K']:
        raise Viol('S-shape', 'len(S)=%r expected %r' % (len(S), l['K']))
    Ud = B.rows(U)
    Vd = B.cols(V)
    K = l['K']
    _close(Ud.conj().T @ Ud, _eye(K), TOL, 'U-isometry')
    _close(Vd @ Vd.conj().T, _eye(K), TOL, 'V-isometry')
    rec = gmat(l['rec'], (B.dL, B.dR)) if l['cut'] == 'half' else B.M
    _close((Ud * S) @ Vd, rec, TOL * B.scale, 'reconstruction')
    _moments(S, l['pow'], 'moments')


def _sector_triangular(B, rowleg, colleg, Rd, qt_of_factor, upper, pos):
    """Rd[a, b] restricted to each charge sector (rows / columns in flat order of their legs) is upper (lower)
    triangular; with pos the diagonal is real and non-negative."""
    rs = B.signed_flat(rowleg)
    cs = B.signed_flat(colleg)
    qt = B.valid(_cvec(qt_of_factor))
    groups = {}
    for i, r in enumerate(rs):
        key = tuple(int(x) for x in B.valid(qt - np.array(r)))     # signed charge of the matching columns
        groups.setdefault(key, ([], []))[0].append(i)
    for j, c in enumerate(cs):
        if c in groups:
            groups[c][1].append(j)
    tol = TOL * B.scale
    for key, (ri, ci) in groups.items():
        sub = Rd[np.ix_(ri, ci)]
        for a in range(sub.shape[0]):
            for b in range(sub.shape[1]):
                if (a > b if upper else b > a) and abs(sub[a, b]) > tol:
                    raise Viol('triangular', 'sector %r entry (%d,%d) = %r' % (key, a, b, sub[a, b]))
        if pos:
            d = np.diag(sub)
            if np.any(np.abs(d.imag) > tol) or np.any(d.real < -tol):
                raise Viol('pos-diag', 'sector %r diagonal %r' % (key, d))


def op_qr(B, l, npc):
    A = B.A
    kw = dict(mode=str(l['mode']), inner_labels=_labs(l), cutoff=_cutoff(l), qtotal_Q=_opt_q(l['argQ']), inner_qconj=int(l['iq']))
    if l['op'] == 'qr':
        Q, R = npc.qr(A, pos_diag_R=bool(l['pos']), **kw)
        F1, F2 = Q, R
    else:
        L, Q = npc.lq(A, pos_diag_L=bool(l['pos']), **kw)
        F1, F2 = L, Q
    _two_factor_structure(B, l, F1, F2, _labs(l))
    K = l['K']
    d1 = B.rows(F1)
    d2 = B.cols(F2)
    if l['op'] == 'qr':
        _close(d1.conj().T @ d1, _eye(K), TOL, 'Q-isometry')
    else:
        _close(d2 @ d2.conj().T, _eye(K), TOL, 'Q-isometry')
    _close(d1 @ d2, B.M, TOL * B.scale, 'reconstruction')
    if l['op'] == 'qr':
        _sector_triangular(B, F2.legs[0], A.legs[1], F2.to_ndarray(), l['qtR'], True, bool(l['pos']))
    else:
        # L = [A.legs[0], inner]: transpose view, rows <-> inner
        _sector_triangular(B, F1.legs[1], A.legs[0], F1.to_ndarray().T, l['qtL'], True, bool(l['pos']))


def _sorted_ok(w, sort):
    tol = 1e-7 * max(1.0, float(np.abs(w).max()) if len(w) else 1.0)
    if sort in ('None', '<'):
        x = np.real(w)
    elif sort == '>':
        x = -np.real(w)
    elif sort == 'm<':
        x = np.abs(w)
    else:
        x = -np.abs(w)
    return bool(np.all(x[1:] >= x[:-1] - tol))


def _eig_blocks(B, leg, negate):
    """list of (slice, sector key) of a blocked leg"""
    out = []
    for b in range(leg.block_number):
        s = B.valid(leg.qconj * leg.charges[b])
        if negate:
            s = B.valid(-s)
        out.append((slice(leg.slices[b], leg.slices[b + 1]), tuple(int(x) for x in s)))
    return out


def _eig_moments(B, l, W, blocks, check_sort):
    exp = {tuple(int(x) for x in k): (int(m), tm) for k, m, tm in l['smom']}
    bykey = {}
    for sl, key in blocks:
        w = W[sl]
        if check_sort and not _sorted_ok(w, l['sort']):
            raise Viol('sort-order', 'block %r: %r not ordered by %r' % (key, w, l['sort']))
        bykey.setdefault(key, []).append(w)
    if set(bykey) != set(exp):
        raise Viol('eig-sectors', 'sectors %r expected %r' % (sorted(bykey), sorted(exp)))
    for key, ws in bykey.items():
        w = np.concatenate(ws)
        m, tm = exp[key]
        if len(w) != m:
            raise Viol('eig-sectors', 'sector %r has %d eigenvalues, expected %d' % (key, len(w), m))
        for k in (1, 2, 3):
            e = gnum(tm[k - 1])
            g = complex(np.sum(w.astype(np.complex128) ** k))
            if abs(g - e) > 1e-7 * max(1.0, abs(e), float(np.sum(np.abs(w) ** k))):
                raise Viol('moments', 'sector %r: sum w^%d = %r, exact Tr = %r' % (key, k, g, e))


def op_eigen(B, l, npc):
    A = B.A
    op = l['op']
    sort = None if l['sort'] == 'None' else str(l['sort'])
    herm = op in ('eigh', 'eigvalsh')
    check_sort = herm or sort is not None       # eig(sort=None): LAPACK order, nothing promised beyond the doc remark
    if op in ('eigvalsh', 'eigvals'):
        W = np.asarray(getattr(npc, op)(A, sort=sort))
        _expect_ok(l)
        if W.shape != (l['dim'],) or not np.all(np.isfinite(W)):
            raise Viol('W-shape', repr(W))
        if herm and np.iscomplexobj(W):
            raise Viol('W-shape', 'complex eigenvalues from eigvalsh')
        _, Ab = B.A0.as_completely_blocked()
        _eig_moments(B, l, W, _eig_blocks(B, Ab.legs[0], False), check_sort)
        return
    W, V = getattr(npc, op)(A, sort=sort)
    _expect_ok(l)
    W = np.asarray(W)
    if W.shape != (l['dim'],) or not np.all(np.isfinite(W)):
        raise Viol('W-shape', repr(W))
    if herm and np.iscomplexobj(W):
        raise Viol('W-shape', 'complex eigenvalues from eigh')
    _sane(V, 'V')
    _leg_equal(V.legs[0], A.legs[0], 'outer-leg')
    _qt(B, V, l['qtV'], 'qtotal')
    if V.get_leg_labels() != [B.labels[0], 'eig']:
        raise Viol('labels', repr(V.get_leg_labels()))
    if B.signed_counter(V.legs[1]) != B.signed_counter(A.legs[1]):
        raise Viol('inner-charges', 'second leg of V does not carry the charges of a.legs[1]')
    Vd = B.rows(V)
    tol = 1e-7 * B.scale if not herm else TOL * B.scale * 10
    _close(B.M @ Vd, Vd * W, tol, 'eigen-equation')
    if herm:
        _close(Vd.conj().T @ Vd, _eye(l['dim']), TOL, 'V-unitary')
    else:
        _close(np.linalg.norm(Vd, axis=0), np.ones(l['dim']), TOL, 'V-normalized')
    _eig_moments(B, l, W, _eig_blocks(B, V.legs[1], True), check_sort)


def op_speigs(B, l, npc):
    A = B.A
    sector = _cvec(l['sector'])
    k = int(l['k'])
    sub = gmat(l['sub'])
    if B.kind == 'ipi2':
        sub = 1j * np.pi / 2 * sub
    tol = 1e-7 * B.scale
    if l['vec']:
        W, V = npc.speigs(A, sector, k, which='LM')
    else:
        W = npc.speigs(A, sector, k, which='LM', return_eigenvectors=False)
        V = None
    W = np.asarray(W)
    if W.shape != (k,):
        raise Viol('W-shape', 'asked for %d eigenvalues of a sector of size %d, got %r' % (k, l['m'], W.shape))
    for w in W:
        sm = np.linalg.svd(sub - w * np.eye(len(sub)), compute_uv=False)[-1]
        if sm > tol:
            raise Viol('eigen-equation', '%r is not an eigenvalue of the sector (sigma_min=%.2e)' % (w, sm))
    if V is not None:
        if len(V) != k:
            raise Viol('W-shape', 'number of vectors %d' % len(V))
        for w, v in zip(W, V):
            _sane(v, 'v')
            _qt(B, v, sector, 'qtotal')
            _leg_equal(v.legs[0], A.legs[0], 'outer-leg')
            vd = (v.split_legs(0) if B.nL == 2 else v).to_ndarray().reshape(-1)
            if abs(np.linalg.norm(vd) - 1.0) > 1e-6:
                raise Viol('V-normalized', repr(np.linalg.norm(vd)))
            _close(B.M @ vd, w * vd, tol, 'eigen-equation')


def op_expm(B, l, npc):
    A = B.A
    E = npc.expm(A)
    _sane(E, 'E')
    _leg_equal(E.legs[0], A.legs[0], 'outer-leg')
    _leg_equal(E.legs[1], A.legs[1], 'outer-leg')
    _qt(B, E, [0] * len(B.mod), 'qtotal')
    if E.get_leg_labels() != B.labels:
        raise Viol('labels', repr(E.get_leg_labels()))
    Ed = B.both(E)
    if l['exact'] != 'no':
        exp = gmat(l['num'], (B.dL, B.dL)) / float(l['den'])
        _close(Ed, exp, 1e-12 * max(1.0, float(np.abs(exp).max())), 'expm-exact')
        return
    Em = B.both(npc.expm(A * (-1.0)))
    sc = max(1.0, float(np.abs(Ed).max())) * max(1.0, float(np.abs(Em).max()))
    _close(Ed @ Em, _eye(B.dL), TOL * sc * B.dL, 'expm-inverse')
    _close(Ed @ B.M - B.M @ Ed, np.zeros_like(Ed), TOL * sc * B.scale, 'expm-commutes')
    tr = gnum(l['trace'])
    det = np.linalg.det(Ed)
    if abs(det - np.exp(tr)) > 1e-8 * max(1.0, abs(np.exp(tr))) * sc:
        raise Viol('expm-det', 'det = %r, exp(Tr A) = %r' % (det, np.exp(tr)))


def op_pinv(B, l, npc):
    A = B.A
    P = npc.pinv(A, cutoff=EPS_CUTOFF)
    _expect_ok(l)
    _sane(P, 'B')
    _leg_contractible(P.legs[0], A.legs[1], 'outer-leg')
    _leg_contractible(P.legs[1], A.legs[0], 'outer-leg')
    _qt(B, P, l['qtB'], 'qtotal')
    X = P
    sp = []
    if B.nR == 2:
        sp.append(0)
    if B.nL == 2:
        sp.append(1)
    if sp:
        X = X.split_legs(sp)
    Pd = X.to_ndarray().reshape(B.dR, B.dL)
    M = B.M
    sc = max(1.0, float(np.abs(Pd).max())) * B.scale
    _close(M @ Pd @ M, M, TOL * sc * B.scale, 'moore-penrose-1')
    _close(Pd @ M @ Pd, Pd, TOL * sc * sc, 'moore-penrose-2')
    _close((M @ Pd).conj().T, M @ Pd, TOL * sc, 'moore-penrose-3')
    _close((Pd @ M).conj().T, Pd @ M, TOL * sc, 'moore-penrose-4')
    if np.linalg.matrix_rank(Pd, tol=1e-8) != l['rank']:
        raise Viol('rank', 'rank(pinv) = %d, exact rank of a = %d' % (np.linalg.matrix_rank(Pd, tol=1e-8), l['rank']))


def op_polar(B, l, npc):
    A = B.A
    left = bool(l['left'])
    u, p, s = npc.polar(A, left=left)
    _expect_ok(l)
    _sane(u, 'u')
    _sane(p, 'p')
    _leg_equal(u.legs[0], A.legs[0], 'outer-leg')
    _leg_equal(u.legs[1], A.legs[1], 'outer-leg')
    _qt(B, u, l['qtU'], 'qtotal')
    _qt(B, p, l['qtP'], 'qtotal')
    s = np.asarray(s)
    if np.any(s < 0) or not np.all(np.isfinite(s)):
        raise Viol('S-negative', repr(s))
    _moments(s, l['pow'], 'moments')
    ud = B.both(u)
    M = B.M
    tol = TOL * B.scale * B.scale * 10
    if not left:
        _leg_equal(p.legs[1], A.legs[1], 'outer-leg')
        _leg_contractible(p.legs[0], A.legs[1], 'outer-leg')
        X = p.split_legs([0, 1]) if B.nR == 2 else p
        pd = X.to_ndarray().reshape(B.dR, B.dR)
        _close(ud @ pd, M, tol, 'reconstruction')
        _close(pd @ pd, M.conj().T @ M, tol, 'polar-p-squared')
        if l['fullrank']:
            _close(ud.conj().T @ ud, _eye(B.dR), TOL * 10, 'U-isometry')
    else:
        _leg_equal(p.legs[0], A.legs[0], 'outer-leg')
        _leg_contractible(p.legs[1], A.legs[0], 'outer-leg')
        X = p.split_legs([0, 1]) if B.nL == 2 else p
        pd = X.to_ndarray().reshape(B.dL, B.dL)
        _close(pd @ ud, M, tol, 'reconstruction')
        _close(pd @ pd, M @ M.conj().T, tol, 'polar-p-squared')
        if l['fullrank']:
            _close(ud @ ud.conj().T, _eye(B.dL), TOL * 10, 'U-isometry')
    _close(pd.conj().T, pd, tol, 'polar-p-hermitian')
    if np.linalg.eigvalsh((pd + pd.conj().T) / 2).min() < -tol:
        raise Viol('polar-p-positive', 'p has a negative eigenvalue')
    _close(ud @ ud.conj().T @ ud, ud, TOL * 10, 'U-isometry', 'partial isometry')


def op_ortho(B, l, npc):
    A = B.A
    new = 'new' if l['lab'] else None
    with warnings.catch_warnings():
        warnings.simplefilter('ignore')
        O = npc.orthogonal_columns(A, new)
    _sane(O, 'O')
    _leg_equal(O.legs[0], A.legs[0], 'outer-leg')
    if O.legs[1].qconj != l['iqconj']:
        raise Viol('inner-qconj', repr(O.legs[1].qconj))
    _qt(B, O, l['qt'], 'qtotal')
    if O.shape != (B.dL, l['K']):
        raise Viol('shape', repr(O.shape))
    if B.signed_counter(O.legs[1]) != expected_counter(l['inner']):
        raise Viol('inner-charges', '%r expected %r' % (B.signed_counter(O.legs[1]), l['inner']))
    if O.get_leg_labels() != [B.labels[0], new if new is not None else B.labels[1]]:
        raise Viol('labels', repr(O.get_leg_labels()))
    Od = B.rows(O)
    _close(Od.conj().T @ Od, _eye(l['K']), TOL, 'O-isometry')
    _close(B.M.conj().T @ Od, np.zeros((B.dR, l['K'])), TOL * B.scale, 'O-orthogonal')


OPS = dict(svd=op_svd, qr=op_qr, lq=op_qr, eigh=op_eigen, eig=op_eigen, eigvalsh=op_eigen, eigvals=op_eigen,
           speigs=op_speigs, expm=op_expm, pinv=op_pinv, polar=op_polar, ortho=op_ortho)


def classify(B, ana, l):
    """argument classes that go into a violation signature (never the random data)"""
    sects = ana['sect']
    two = [s for s in sects if s['m'] > 0 and s['n'] > 0]
    c = dict(piped=bool(B.nL == 2 or B.nR == 2), int_dtype=bool(B.dt == 'int'))
    op = l['op']
    zero = [0] * len(B.mod)
    if op == 'svd':
        c.update(full=bool(l['full']), cut=str(l['cut']), qt_as_list=_qt_as_list(l),
                 no_singular_values=bool(l.get('res') == 'ok' and l.get('K') == 0))
        if l['full'] and l.get('res') == 'ok' and 'qtL' in l:
            c.update(qtL_zero=list(l['qtL']) == zero, qtR_zero=list(l['qtR']) == zero,
                     all_sectors_stored=all(s['m'] > 0 and s['n'] > 0 and s['stored'] for s in sects))
    elif op in ('qr', 'lq'):
        c.update(mode=str(l['mode']), cut=str(l['cut']), pos=bool(l['pos']),
                 rank_deficient=any(s['stored'] and s['rank'] < min(s['m'], s['n']) for s in two),
                 zero_pivot=any(s['stored'] and s['rank'] < (s['n'] if op == 'qr' else s['m']) for s in two))
    elif op in ('eigh', 'eig', 'eigvalsh', 'eigvals'):
        c.update(sort=str(l['sort']))
    elif op == 'polar':
        c.update(left=bool(l['left']))
    elif op == 'speigs':
        c.update(vec=bool(l['vec']), small=bool(l['k'] >= l['m'] - 1), all=bool(l['k'] == l['m']), sector_stored=bool(l['stored']), real_dtype=not B.cplx,
                 zero_block=bool(l['stored'] and not np.any(np.array(l['sub']))))
    return c


def run_case(B, ana, l, npc, force_fallback=False):
    """Execute one factorization of the behaviour; returns None or (clause, detail)."""
    op = str(l['op'])
    fn = OPS.get(op)
    if fn is None:
        raise core.MachineryError('unknown Factor op %r' % op)
    exp_res = str(l['res'])
    before = operand_fingerprint(B)
    r = _run_relation(B, l, npc, fn, op, exp_res, force_fallback)
    # the operand (value, labels, qtotal, dtype and every LegCharge / LegPipe object reachable from it) must be untouched,
    # whatever the routine returned or raised; this is reported before any relation that may merely be a consequence
    try:
        after = operand_fingerprint(B)
    except Exception as e:
        return ('operand-changed', 'the operand is not readable after the call: %r' % (e,))
    d = operand_diff(before, after)
    if d is not None:
        return (d[0], d[1] + ('; relation result: %r' % (r,) if r else ''))
    if r is None:
        try:
            B.A.test_sanity()
        except Exception as e:
            return ('operand-changed', repr(e))
    return r


def _run_relation(B, l, npc, fn, op, exp_res, force_fallback):
    try:
        with warnings.catch_warnings():
            warnings.simplefilter('ignore')
            with np.errstate(all='ignore'):
                if op == 'svd' and force_fallback:
                    fn(B, l, npc, force_fallback=True)
                else:
                    fn(B, l, npc)
        got = 'ok'
    except Viol as v:
        return (v.clause, v.detail)
    except core.MachineryError:
        raise
    except Exception as e:  # an exception of the code under test is an observable result
        got = type(e).__name__
        if exp_res == 'ok':
            return ('exception', '%s: %s' % (got, e))
        if got != exp_res:
            return ('error-class', 'raised %s, expected %s' % (got, exp_res))
        got = exp_res
    if got == 'ok' and exp_res != 'ok':
        return ('no-error', 'expected %s' % exp_res)
    return None
