---------------------------- MODULE TraceKrylov ----------------------------
(* Trace validation for the Lanczos control-flow machine of Krylov.tla.

   The harness (harness/krylov.py) runs the real LanczosGroundState / LanczosEvolution under
   run-time interposition (KrylovBased._to_cache, .iscale_prefactor, .iadd_prefactor_other,
   H.matvec, Array.__mul__ for `psi0 * vf[0]`, _build_krylov, _rebuild_krylov_for_result_full,
   run; the Unshift event is derived from the returned energy: Ritz value of H + E_shift minus E_shift) and writes one JSON line per run: [tid |-> n, ev |-> <<event, ...>>], every event being
   exactly the `last` record of the corresponding action of Krylov.tla (objects are numbered in
   the order of their first appearance, which is the allocation order of the spec's heap).
   A run is accepted iff its events are, one by one, the `last` records along a behaviour of
   SpecCF that ends in pc = "done"; all invariants of Krylov are evaluated in every state.
   Every trace is an independent initial state (tid); accepted / rejected ids are printed. *)
EXTENDS Krylov, Json, IOUtils, TLCExt

VARIABLES tid, l
tvars == <<cfvars, pl, tid, l>>

T == ndJsonDeserialize(IOEnv.TRACE_FILE)
NT == Len(T)

Ev == T[tid].ev
Cur == Ev[l]

TraceInit == InitCF /\ tid \in 1..NT /\ l = 1

Step(A) == /\ pc \notin {"accepted", "rejected"}
           /\ l <= Len(Ev)
           /\ A
           /\ last' = Cur
           /\ l' = l + 1 /\ tid' = tid

TrStart    == Step(Cur.op = "Start" /\ Start(Cur.Nmax, Cur.Ncache, Cur.Nmin, Cur.reortho, Cur.m, Cur.conv, Cur.shift))
TrBScale   == Step(BScale)
TrBCache   == Step(BCache)
TrBMatvec  == Step(BMatvec)
TrBAlpha   == Step(BAlpha)
TrBReortho == Step(BReortho)
TrBBeta    == Step(BBeta)
TrBBreak   == Step(BBreak)
TrBNext    == Step(BNext)
TrRUnshift == Step(RUnshift)
TrRReturn1 == Step(RReturn1)
TrRMul     == Step(RMul)
TrRCached  == Step(RCached)
TrRClear   == Step(RClear)
TrQCache   == Step(QCache)
TrQMatvec  == Step(QMatvec)
TrQAlpha   == Step(QAlpha)
TrQReortho == Step(QReortho)
TrQBeta    == Step(QBeta)
TrQScale   == Step(QScale)
TrQAdd     == Step(QAdd)
TrRNorm    == Step(RNorm)
TrRReturn  == Step(RReturn)

TraceSteps == \/ TrStart \/ TrBScale \/ TrBCache \/ TrBMatvec \/ TrBAlpha \/ TrBReortho \/ TrBBeta
              \/ TrBBreak \/ TrBNext \/ TrRUnshift \/ TrRReturn1 \/ TrRMul \/ TrRCached \/ TrRClear
              \/ TrQCache \/ TrQMatvec \/ TrQAlpha \/ TrQReortho \/ TrQBeta \/ TrQScale \/ TrQAdd
              \/ TrRNorm \/ TrRReturn

Finished == pc = "done" /\ l = Len(Ev) + 1

TrAccept == /\ Finished
            /\ PrintT(<<"ACCEPT", T[tid].tid>>)
            /\ pc' = "accepted"
            /\ UNCHANGED <<pl, opt, k, cache, w, psif, heap, N, lc, ri, happ, last, tid, l>>

TrReject == /\ pc \notin {"accepted", "rejected"}
            /\ ~Finished
            /\ ~ENABLED TraceSteps
            /\ PrintT(<<"REJECT", T[tid].tid, l, pc>>)
            /\ pc' = "rejected"
            /\ UNCHANGED <<pl, opt, k, cache, w, psif, heap, N, lc, ri, happ, last, tid, l>>

TraceNext == TraceSteps \/ TrAccept \/ TrReject
TraceSpec == TraceInit /\ [][TraceNext]_tvars
=============================================================================
