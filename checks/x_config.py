"""Growth beyond the listed properties: tenpy.tools.params.Config (unused-option tracking) against spec/Config.tla.
Run: ./check X_config --tier quick.  Not registered in MANIFEST.json (the property list is fixed); DESIGN §14.7."""
import shutil
import warnings

from harness import core, tlc, tlaval


def cfg(maxops):
    return dict(spec='Spec', constants=dict(Keys={'a', 'b'}, Vals={1, 2}, MaxOps=maxops),
                invariants=['UnusedAreOptions'], properties=['SilentGetSilent', 'ReadIsUsed', 'NoWarnTwice'], view='AbsView')


def _fn(v):
    return dict(v) if isinstance(v, dict) else {}


def replay(ctx, init_keys, hist, origin):
    from tenpy.tools.params import Config
    C = {'root': Config({k: 1 for k in sorted(init_keys)}, 'root')}
    try:
        for n, st in enumerate(hist):
            l, o = st['l'], st['o']
            op = l['op']
            c = C.get(l.get('c'))
            got = None
            with warnings.catch_warnings(record=True) as w:
                warnings.simplefilter('always')
                try:
                    if op == 'getitem':
                        got = ('val', c[l['k']])
                    elif op == 'setitem':
                        c[l['k']] = l['v']
                        got = ('ok', None)
                    elif op == 'delitem':
                        del c[l['k']]
                        got = ('ok', None)
                    elif op == 'get':
                        got = ('val', c.get(l['k'], l['d']))
                    elif op == 'silent_get':
                        got = ('val', c.silent_get(l['k'], l['d']))
                    elif op == 'setdefault':
                        c.setdefault(l['k'], l['d'])
                        got = ('ok', None)
                    elif op == 'touch':
                        c.touch(*sorted(l['keys']))
                        got = ('ok', None)
                    elif op == 'deprecated_alias':
                        c.deprecated_alias(l['old'], l['new'])
                        got = ('warned' if any(issubclass(x.category, FutureWarning) for x in w) else 'ok', None)
                    elif op == 'deprecated_ignore':
                        c.deprecated_ignore(l['k'])
                        got = ('warned' if len(w) else 'ok', None)
                    elif op == 'warn_unused':
                        before = set(c.unused)
                        c.warn_unused()
                        msgs = [str(x.message) for x in w]
                        got = ('warned' if msgs else 'ok', sorted(before) if msgs else [])
                        if msgs and not all(repr(k) in msgs[0] for k in before):
                            got = ('warned-wrong-keys', msgs)
                    elif op == 'copy':
                        name = 'cs' if l['shared'] else 'co'
                        C[name] = C['root'].copy(share_unused=l['shared'])
                        if not l['shared']:
                            pass
                        got = ('ok', None)
                    elif op == 'observe':
                        got = ('ok', (sorted(c.keys()), len(c)))
                    else:
                        raise core.MachineryError('unknown Config op %r' % op)
                except KeyError:
                    got = ('KeyError', None)
            if op in ('getitem', 'get', 'silent_get'):
                exp = (l['res'], l['v'] if l['res'] == 'val' else None)
            elif op == 'warn_unused':
                exp = (l['res'], sorted(l['warned']))
            elif op == 'observe':
                exp = ('ok', (sorted(l['keys']), l['len']))
            else:
                exp = (l['res'], None)
            ok, clause = got == exp, 'result'
            impl = {}
            if ok:
                for name, cc in C.items():
                    impl[name] = dict(options=dict(cc.options), unused=sorted(cc.unused))
                    if dict(cc.options) != _fn(o['opts'][name]):
                        ok, clause = False, 'options'
                    elif sorted(cc.unused) != sorted(o['unused'][name]):
                        ok, clause = False, 'unused'
            ctx.case(('cfg', origin, n, repr(l)), action='Config.' + op)
            if not ok:
                ctx.violation(dict(kind='replay', spec='Config', op=op, clause=clause),
                              dict(step=n, hist=tlaval.to_jsonable(hist), got=got, expected=exp, impl=impl))
                return False
        return True
    finally:
        for cc in C.values():
            cc.unused.clear()  # no warnings from __del__


def check(ctx):
    quick = ctx.tier == 'quick'
    ctx.rule = 'behaviours of spec/Config.tla (state cover of the exhaustive run + -simulate) replayed on the real Config; case = step'
    ctx.assume('TLC', 'projection: Config.options, Config.unused, captured warnings')
    res, dump, d = tlc.mc('Config', cfg(4 if quick else 5), dump=False)
    ctx.add_mc('Config', res)
    if res.violated:
        ctx.violation(dict(kind='mc', spec='Config', invariant=res.violated[0]), dict(trace=tlaval.to_jsonable(res.error_trace)))
    shutil.rmtree(d, ignore_errors=True)
    # behaviours need the initial key set: use simulation traces (first state = Init)
    res, traces, d = tlc.simulate('Config', cfg(12), num=300 if quick else 3000, depth=13, seed=ctx.seed + 5, workers=4)
    for j, tr in enumerate(traces):
        init_keys = set(_fn(tr[0][1]['opts']['root']).keys())
        replay(ctx, init_keys, tr[-1][1]['hist'], 'sim%d' % j)
        if j == 3:
            ctx.sample(dict(spec='Config', init=sorted(init_keys), behaviour=tlaval.to_jsonable([x['l'] for x in tr[-1][1]['hist']])))
    ctx.trace_ok(len(traces))
    shutil.rmtree(d, ignore_errors=True)


if __name__ == '__main__':
    core.main_wrapper('X_config', check)
