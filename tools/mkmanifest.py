#!/venv/bin/python
"""Regenerate /verif/MANIFEST.json from the table below (single place to edit) and validate it."""
import json
import os
import subprocess

V = os.path.dirname(os.path.dirname(os.path.abspath(__file__)))
TECH = 'TLA+ specification + TLC model checking + conformance (replay of TLC behaviours into the code / TLC validation of recorded traces)'

CHECKS = {
 'C01': dict(text='TLC generates, from spec/Npc.tla + spec/NpcProgram.tla (dense reference semantics over Gaussian integers, charge layer per doc/intro/npc.rst), every operation enabled on random catalogue tensors (exhaustive depth 1) and random programs (-simulate); each step is executed on real np_conserved Arrays and to_ndarray / labels / qtotal / leg block structure are compared EXACTLY with the specification state.',
             note='trusts TLC, the dense layer of the spec (tested against numpy), the projection functions in harness/npc.py; bounded: rank<=4, <=64 entries, 26 operations, 0-3 charges; exact arithmetic (integers in float64)'),
 'C02': dict(text='Same behaviours as C01; after every step every live tensor must satisfy the storage invariants of the specification (PoolChargeRule/PoolWellFormed model-checked by TLC on the design; on the implementation: test_sanity at optimisation level 0, unique blocks, charge rule per block, truthful _qdata_sorted / sorted / bunched flags recomputed by the harness).',
             note='flags compared as implications; trusts TLC and harness/npc.py sanity_clauses'),
 'C03': dict(text='Same state machine; the action property OnlyOutChanges (only the target slot of a step changes) is model-checked and enforced on the implementation with fingerprints of every live tensor and of every leg object ever seen (byte-identical slices/charges/qconj); documented shallow-copy results are tracked in the spec variable `shared` and never updated in place.',
             note='trusts TLC and the fingerprints (dense values, labels, qtotal, leg bytes)'),
 'C04': dict(text='The TLC behaviours of NpcProgram are replayed in two interpreter processes (TENPY_NO_CYTHON=1; extension rebuilt from the current _npc_helper.pyx by harness/buildext.py and injected through a meta-path finder); both must refine the specification and their canonical serialisations (blocks, legs, labels, qtotal, dtype, values, error class) must be identical.',
             note='the rebuilt binary is verified to be the loaded one; stale in-tree .so is never used; float32/MKL not covered'),
 'C05': dict(text='spec/Factor.tla builds block-sparse matrices over Gaussian integers (unsorted / repeated charge blocks, pipes on either side, non-zero qtotal, absent vs stored-zero blocks, planted ranks) and states each factorization as a relation whose data TLC computes exactly (per-sector ranks by fraction-free elimination, trace moments, expected charge multiset / qconj / qtotals of the new leg, finite exponential series); TLC checks FactorChargeRule, SectorsConsistent, ExpmRule etc. exhaustively; every enumerated case is replayed on the real svd/qr/lq/eigh/eig/eigvals/speigs/expm/pinv/polar/orthogonal_columns: structure compared exactly, characterising identities evaluated on the returned floats at 1e-9*scale.',
             note='accuracy on ill-conditioned matrices not decided (small integer instances only); ARPACK path of speigs not modelled; trusts TLC and harness/factor.py'),
 'C07': dict(text='spec/MPSState.tla: the abstract state is the dense state vector over Gaussian integers plus the recorded norm; the representation layer has per-site form exponents, bond values (powers of 4), integer tensors with non-uniform bond dimensions, charge masks, finite/segment/infinite boundary conditions. Actions: plain constructor, from_product_state, from_lat_product_state, from_singlets, from_product_mps_covering, from_full, from_Bflat, convert_form, set_B, get_B/get_theta/get_SL/get_SR observers (also outside the unit cell), canonical_form. TLC checks Rep (contraction of the representation = psi), Divisible, FormStutter, GetBInvariant on all enumerated instances and all sequences of <= 3 form conversions; each behaviour is replayed into real MPS objects and the harness own numpy contraction of psi._B/_S/form is compared bit-exactly with the spec state; SVD/QR routes (from_full, canonical_form) through proportionality, norm and exact Schmidt-moment relations.',
             note='canonical_form_infinite1/2 and L > 4 not covered; trusts TLC and harness/mps.py (dense_from_mps)'),
 'C08': dict(text='spec/MPSMeasure.tla computes exact numerators and denominators on the dense state for expectation_value (one/multi-site), expectation_value_term and _terms_sum (JW, i<j, i=j, i>j), correlation_function (opstr, str_on_first, autoJW, hermitian), term_correlation_function_left/right, overlap / full_contraction with different bra and ket, get_rho_segment, Renyi-2 mutinf_two_site, probability_per_charge / average_charge / charge_variance, sample_measurements (weight = Born amplitude or probability for every sampled outcome); TLC checks RealNorm, HermitianReal, CorrHermitian, Anticommute, RhoTrace; every generated measurement is replayed on the real MPS / MPSEnvironment and compared with the exact ratio (rtol 1e-10).',
             note='infinite MPS beyond product states (TransferMatrix overlaps, correlation_length) and von-Neumann mutual information not covered; trusts TLC and harness/mps.py'),
 'C09': dict(text='spec/MPSTransform.tla: transformations as maps on the dense state: apply_local_op (names with JW strings, unitary flag, two-site arrays), apply_product_op, apply_local_term, swap_sites (fermionic sign), permute_sites, add, group_sites/group_split, enlarge_chi, compress_svd (overlap relation), canonical_form, spatial_inversion, roll_mps_unit_cell, enlarge_mps_unit_cell, extract_segment; TLC checks Rep9 (up to the documented global sign), InversionInvolution, SwapInvolution, RollRelabels, EnlargeKeeps, NormKept over all sequences of <= 2-3 transformations, every bc and mixed forms; behaviours are replayed into real MPS objects and the projected dense state and norm compared exactly (relations where SVD is involved).',
             note='perturb, variational compress, compute_K, swap across the unit-cell boundary not covered; truncation quality only as overlap >= reported bound; trusts TLC and harness/mps.py'),
 'C12': dict(text='spec/Sites.tla defines every predefined site class (spin S<=3, boson cutoff<=4, clock q<=5, fermion, spinful fermion, hole) from the documented physics with exact entries (phase, integer times square root of a squarefree radical, denominator) for every conserve option; TLC checks the defining algebras, hc pairs, operator charges and the permutation between conserve options, and the grouping/common-charge policies. spec/Fermion.tla is a genuine Fock space on bit strings plus tenpy\'s Jordan-Wigner route written like the implementation; TLC checks CAR and that every route yields the signed partial permutation of the product of true fermionic operators for all pairs/quadruples on <=6 sites. Every table and every term is replayed on the real Site objects and through each tenpy route (order_combine_term, *_handle_JW, TermList->MPOGraph->MPO, add_coupling/add_multi_coupling, expectation_value_term, apply_local_term, correlation_function, GroupedSite) and compared exactly.',
             note='clock-site phases come from np.exp and are compared at 1e-13; infinite bc / unit-cell shifts in handle_JW, explicit_plus_hc not replayed; trusts TLC and harness/sites.py'),
 'C13': dict(text='spec/Sweep.tla is the sweep/environment bookkeeping state machine (tensor versions, LP/RP parts with the versions they were contracted from, ages, schedules of one-/two-site engines on finite and infinite chains, mixers, free_no_longer_needed_envs); TLC checks FreshEnvs, AgeRule, SweepCoversAllBonds, NoRecompute, EnergySize; real DMRG/TDVP runs are recorded by interposition on set_B / get_LP / get_RP / del_* / update_local / make_eff_H and each history is validated by TLC against spec/TraceSweep.tla. spec/Solvable.tla carries certified exactly solvable Hamiltonians (classical, dimer, Majumdar-Ghosh, ferromagnet) with certificates TLC checks over the integers; engines x mixers x diag methods are run on them and the postconditions (norm, canonical form, charge sector, E = <H>, E >= E0, E = E0 and overlap 1 when untruncated) are evaluated with the certified data; effective Hamiltonians on integer data are compared exactly.',
             note='convergence for Hamiltonians without certificate and VUMPS in the thermodynamic limit are not decided; orthogonal_to / segment bc not traced; trusts TLC and harness/sweeps.py'),
 'C14': dict(text='spec/TimeEvo.tla models time/schedule/truncation-error accounting of all time-evolution engines (Suzuki-Trotter schedules as exact symbolic polynomials, error bags); TLC checks TimeAdvance, ScheduleComposes, ErrAccounting over all orders/splits; real engine runs (TEBD 1/2/4/4_opt, QR-TEBD, TDVP 1/2-site, ExpMPO I/II, time-dependent variants) are recorded by run-time interposition and each trace is validated by TLC against spec/TraceTimeEvo.tla with every invariant evaluated at every event.',
             note='orders of convergence in dt and drift bounds are asymptotic numerical claims and not decided; trusts TLC, the recorder harness/timeevo.py'),
 'C15': dict(text='spec/Truncation.tla is a declarative semantics of truncate(): spectra as sequences of naturals (unsorted, zeros, ties, not normalised), every option possibly None, each constraint a predicate on the keep-count, documented priority fold with dropped constraints, result = largest admissible cut, eps and norm as exact rationals; TLC checks NoInversion, Honoured, Maximal, Priority, DroppedOnlyIfForced, BudgetRespected and the TruncationError algebra over all spectra of length <= 4-5 x all option combinations; every case is replayed on the real truncate() (permuted, scaled, normalised input) and on svd_theta / eigh_rho / decompose_theta_qr_based with matrices whose integer singular values TLC certifies (ThetaCertified).',
             note='ties closer than 1e-10 and rank-deficient matrices in the decompositions not covered; trusts TLC and the rational->float conversion (power-of-two scales)'),
 'C19': dict(text='spec/Lattice.tla defines orderings (named, standard with snake/priority, grouped, permutations), mps2lat/lat2mps with periodic extension, identification of positions under open/periodic/shifted boundaries, couplings by two independent enumerations (constructive and brute force over all pairs), multi-couplings, strength indexing by the reduced lower-left corner, irregular/helical/multi-species variants and neighbour classes through integer quadratic forms; TLC checks OrderIsBijection, RoundTrip, EachPairExactlyOnce, InfiniteBoundaryPairInOneCell, FlipSymmetry, StrengthIndex, CountNeighbors on every enumerated case (lattice class x size <= 3x3/4x4 x ordering x bc x dx x (u1,u2)); every case is replayed on the real lattice objects (order, index maps on [-2N,3N), possible_couplings / possible_multi_couplings multisets and strengths through CouplingModel.add_coupling, pairs, count_neighbors, distance, mps2lat_values(_masked)).',
             note='orderings and boundary conditions are factorised (every ordering with periodic bc; every bc with 3 orderings); plotting/BZ helpers out of scope; trusts TLC and harness/lattice.py'),
 'C20': dict(text='TLC exhaustively checks Events / DictCacheSeq / CacheThreaded (emit order, exact disconnect, dictionary refinement, sub-cache isolation, no deadlock, failure surfaces) for all operation sequences and interleavings up to a bound; every generated behaviour is replayed step by step into the real EventHandler / DictCache over Storage, PickleStorage, Hdf5Storage and, under a deterministic cooperative scheduler substituted for queue/threading, into the real ThreadedStorage + Worker.',
             note='preemption inside steps without shared accesses is unobservable and not explored; trusts TLC, the scheduler harness/dst.py, projections in checks/c20*.py'),
}
# filled in below from files present
EXTRA = {}


def main():
    props = [json.loads(l) for l in open(os.path.join(V, 'properties.jsonl'))]
    extra_path = os.path.join(V, 'tools', 'manifest_extra.json')
    if os.path.exists(extra_path):
        EXTRA.update(json.load(open(extra_path)))
    table = dict(CHECKS)
    table.update(EXTRA)
    checks = []
    na = []
    pending = json.load(open(os.path.join(V, 'tools', 'not_claimed.json'))) if os.path.exists(os.path.join(V, 'tools', 'not_claimed.json')) else {}
    for p in props:
        pid = p['id']
        if pid in table and os.path.exists(os.path.join(V, 'checks', pid.lower() + '.py')) and pid not in pending:
            t = table[pid]
            checks.append(dict(property_id=pid, quick_cmd='./check %s --tier quick' % pid, thorough_cmd='./check %s --tier thorough' % pid,
                               evidence_file='/verif/evidence/%s.json' % pid, replay_cmd_template='./check %s --replay {path}' % pid,
                               engine='tlc-mbt', level_claimed=dict(category='model_checking', text=t['text'], design_ref='§6.' + pid),
                               level_note=t['note'], technique=TECH))
        else:
            na.append(dict(property_id=pid, reason=pending.get(pid, 'check not finished yet (spec and harness under construction, see DESIGN.md §12); not claimed until it is green on the unchanged tree')))
    man = dict(version=1, setup_cmd='cd /verif && ./setup.sh',
               hooks=dict(guard='TENPY_VERIF',
                          enable='no source hooks: checks interpose at run time on the working tree (PYTHONPATH=/repo, compiled kernels rebuilt from the current .pyx); ./check exports TENPY_VERIF=1 for future add-only hooks',
                          baseline_off_cmd='cd /repo && /venv/bin/python -m pytest -ra -q -p no:cacheprovider --timeout=900 --continue-on-collection-errors --junitxml=/tmp/baseline_off.junit.xml',
                          source_commits=[], add_only=True),
               engines=[dict(name='tlc-mbt', path='/verif/harness', serves_properties=[c['property_id'] for c in checks],
                             kind_free_text='TLA+ specifications in /verif/spec checked by TLC; behaviours replayed into the implementation; implementation traces validated by TLC')],
               checks=checks, notes='see DESIGN.md; known findings in known_findings.json and known_findings.d/', not_applicable=na)
    with open(os.path.join(V, 'MANIFEST.json'), 'w') as f:
        json.dump(man, f, indent=1)
    import jsonschema
    jsonschema.validate(man, json.load(open('/root/.vp/MANIFEST.schema.json')))
    print('MANIFEST ok: claimed', [c['property_id'] for c in checks])


if __name__ == '__main__':
    main()
