----------------------------- MODULE MPOAlgebra -----------------------------
(* C11: operations on matrix product operators agree with the dense operators they denote.
   Two operator slots A, B hold MPOs; the abstract state is the exact dense operator of each slot (module
   ModelTerms: Gaussian-integer matrices on a small chain, or on a window of an infinite chain).  Every
   action is one MPO method; what the method must return / must produce is computed here from the dense
   operators alone:
      A + B, dagger, plus_identity, sort_legcharges, group_sites, to_TermList/from_term_list (meaning unchanged),
      is_hermitian, is_equal (exact truth values), overlap = Tr(A^dagger B), distance,
      expectation_value <v|O|v>/<v|v>, variance, O|v> (apply_naively / apply with SVD, zip_up, variational),
      make_U_I(dt) = sum over sets of non-overlapping terms of dt^k (product of the terms)  (a polynomial in dt),
      make_U_II(0) = 1 and make_U_II(dt) for a diagonal on-site operator.  *)
EXTENDS ModelTerms, Sequences

CONSTANTS Configs,     \* lattice configurations (Chains)
          MaxOps,
          CatLimit     \* 0: the whole operator catalogue; n > 0: only n operators (exhaustive deep runs)

VARIABLES cfg, A, B, last, nops, hist
vars == <<cfg, A, B, last, nops, hist>>
AbsView == <<cfg, A, B, last, nops>>

NoCfg == [name |-> "none"]
Scalar(z) == [shape |-> <<1, 1>>, vals |-> <<z>>]
Lat(L, bc, mps, t, cells) == [name |-> "Chain", Lx |-> L, Ly |-> 1, bcx |-> bc, bcy |-> "open", mps |-> mps, uc |-> <<t>>, cells |-> cells,
                              shift |-> 0]
ConfigsQuick == {Lat(4, "open", "finite", "spin", 1), Lat(3, "open", "finite", "fermion", 1),
                 Lat(2, "periodic", "infinite", "spin", 2), Lat(1, "periodic", "infinite", "spin", 4)}
\* 64 states: only pairs, sums and the equality / Hermiticity tests (Big below); run separately
ConfigsBig == {Lat(2, "periodic", "infinite", "spin", 3)}
ConfigsOne == {Lat(3, "open", "finite", "fermion", 1)}
\* exhaustive run of the quick tier (the two-site infinite unit cell is covered by ConfigsBig and the simulation)
ConfigsMC == {Lat(4, "open", "finite", "spin", 1), Lat(3, "open", "finite", "fermion", 1), Lat(1, "periodic", "infinite", "spin", 4)}
ConfigsTwo == {Lat(3, "open", "finite", "spin", 1), Lat(2, "periodic", "infinite", "spin", 2)}
ConfigsFull == ConfigsQuick \cup {Lat(3, "open", "finite", "spin", 1), Lat(4, "periodic", "finite", "fermion", 1),
                                  Lat(2, "periodic", "infinite", "fermion", 2), Lat(2, "open", "finite", "boson1", 1)}

Coup(z, o1, o2, dx, hc) == [kind |-> "coupling", s |-> Scalar(z), ops |-> <<<<o1, <<0, 0>>, 0>>, <<o2, <<dx, 0>>, 0>>>>, str |-> "auto", hc |-> hc]
Ons(z, o, hc) == [kind |-> "onsite", s |-> Scalar(z), u |-> 0, op |-> o, hc |-> hc]
OnsArr(vals, o) == [kind |-> "onsite", s |-> [shape |-> <<Len(vals), 1>>, vals |-> vals], u |-> 0, op |-> o, hc |-> FALSE]
Multi3(z, o1, o2, o3, hc) == [kind |-> "multi", s |-> Scalar(z), str |-> "auto", hc |-> hc,
                              ops |-> <<<<o1, <<0, 0>>, 0>>, <<o2, <<1, 0>>, 0>>, <<o3, <<2, 0>>, 0>>>>]

\* operator catalogue: sequences of declarations.  Pairs differing in one long-range term (strength or presence),
\* Hermitian and non-Hermitian ones (complex strength, missing conjugate), on-site only, diagonal.
\* range of the "long-range" coupling in which two otherwise equal operators differ; for the one-site infinite unit cell
\* it does not fit into the L + 2 * max_range sites the shorter-range operator alone would look at
\* L = 2, window of 3 cells: range 4 spans 5 sites, more than L + 2 r = 4 (r = 1 the known range of the other operand) but
\* within the documented default window L + 2 L = 6 for an operand of unknown range
FarRange(c) == IF Infinite(c) /\ NCell(c) = 1 THEN 3 ELSE IF Infinite(c) /\ c.cells >= 3 THEN 4 ELSE IF Sx(c) >= 3 THEN 2 ELSE 1
Big == cfg # NoCfg /\ Size(DimsOf(TypesOf(cfg))) > 32
CatalogueAll(c) ==
    LET t == c.uc[1]
        far == FarRange(c)
    IN CASE t = "spin" ->
            {<<Coup(<<1, 0>>, "Sigmaz", "Sigmaz", 1, FALSE), Ons(<<2, 0>>, "Sigmax", FALSE)>>,
             <<Coup(<<1, 0>>, "Sigmaz", "Sigmaz", 1, FALSE), Ons(<<2, 0>>, "Sigmax", FALSE), Coup(<<1, 0>>, "Sigmaz", "Sigmaz", far, FALSE)>>,
             <<Coup(<<1, 0>>, "Sigmaz", "Sigmaz", 1, FALSE), Ons(<<2, 0>>, "Sigmax", FALSE), Coup(<<2, 0>>, "Sigmaz", "Sigmaz", far, FALSE)>>,
             <<Coup(<<1, 2>>, "Sp", "Sm", 1, TRUE)>>,
             <<Coup(<<1, 2>>, "Sp", "Sm", 1, FALSE)>>,
             <<Coup(<<0, 1>>, "Sigmax", "Sigmay", far, FALSE), Ons(<<1, 0>>, "Sigmay", FALSE)>>,
             <<Ons(<<0, 1>>, "Sigmaz", FALSE)>>,
             <<Ons(<<3, 0>>, "Sigmaz", FALSE)>>,
             <<OnsArr([k \in 1..c.Lx |-> IF k % 2 = 1 THEN <<1, 0>> ELSE <<-2, 0>>], "Sigmaz"), Coup(<<1, 0>>, "Sigmaz", "Sigmaz", 1, FALSE)>>}
            \cup (IF Sx(c) >= 3 THEN {<<Multi3(<<1, 0>>, "Sigmax", "Sigmay", "Sigmaz", FALSE)>>,
                                      <<Multi3(<<1, 1>>, "Sp", "Sigmaz", "Sm", TRUE), Ons(<<1, 0>>, "Sigmaz", FALSE)>>} ELSE {})
         [] t = "fermion" ->
            {<<Coup(<<1, 0>>, "Cd", "C", 1, TRUE), Ons(<<2, 0>>, "N", FALSE)>>,
             <<Coup(<<1, 0>>, "Cd", "C", 1, TRUE), Ons(<<2, 0>>, "N", FALSE), Coup(<<1, 2>>, "Cd", "C", far, TRUE)>>,
             <<Coup(<<1, 0>>, "Cd", "C", 1, TRUE), Ons(<<2, 0>>, "N", FALSE), Coup(<<2, 2>>, "Cd", "C", far, TRUE)>>,
             <<Coup(<<0, 1>>, "Cd", "C", far, FALSE)>>,
             <<Coup(<<1, 0>>, "Cd", "Cd", 1, FALSE)>>,
             <<Coup(<<1, 0>>, "N", "N", 1, FALSE), Ons(<<-1, 0>>, "N", FALSE)>>,
             <<Ons(<<0, 2>>, "N", FALSE)>>}
         [] OTHER ->
            {<<Coup(<<1, 0>>, "Bd", "B", 1, TRUE), Ons(<<2, 0>>, "N", FALSE)>>, <<Ons(<<1, 0>>, "N", FALSE)>>,
             <<Coup(<<0, 1>>, "Bd", "B", 1, FALSE)>>}

Catalogue(c) == IF CatLimit = 0 THEN CatalogueAll(c)
                ELSE LET first == <<Coup(<<1, 0>>, "Sigmaz", "Sigmaz", 1, FALSE), Ons(<<2, 0>>, "Sigmax", FALSE)>>
                         firstF == <<Coup(<<1, 0>>, "Cd", "C", 1, TRUE), Ons(<<2, 0>>, "N", FALSE)>>
                     IN {ds \in CatalogueAll(c) : ds \in {first, firstF, <<Coup(<<1, 2>>, "Sp", "Sm", 1, FALSE)>>,
                                                          <<Coup(<<0, 1>>, "Cd", "C", FarRange(c), FALSE)>>,
                                                          <<Ons(<<0, 1>>, "Sigmaz", FALSE)>>}}

RECURSIVE SumDecls(_, _, _)
SumDecls(c, ds, n) == IF n = 0 THEN MZero(Size(DimsOf(TypesOf(c))), Size(DimsOf(TypesOf(c))))
                      ELSE EvalMat(MAdd(SumDecls(c, ds, n - 1), DeclOp(c, ds[n])))
OpOf(c, ds) == SumDecls(c, ds, Len(ds))

\* states: basis states and small integer superpositions, as sparse lists << <<index, amplitude>>, ... >>
D(c) == Size(DimsOf(TypesOf(c)))
StateCatalogue(c) ==
    {<<<<5 % D(c), GOne>>>>, <<<<2, GOne>>>>,
     <<<<0, GOne>>, <<D(c) - 1, GOne>>>>,
     <<<<1, GOne>>, <<2, <<0, 2>>>>, <<4 % D(c), <<-1, 0>>>>>>,
     <<<<3 % D(c), <<1, 1>>>>, <<5 % D(c), <<2, 0>>>>, <<6 % D(c), <<0, -1>>>>>>}
VecOf(c, st) == TLCEval([s \in 1..D(c) |-> GSumFn([k \in 1..Len(st) |-> IF st[k][1] = s - 1 THEN st[k][2] ELSE GZero], Len(st))])

\* ---------- make_U_I: W_I sends "term finished" back to "ready" with a factor dt, so the dense meaning is
\*            sum over sets of pairwise non-overlapping terms (site intervals disjoint) of dt^k * product
TermLo(t) == TermMin(t)
TermHi(t) == TermMin(t) + TermRange(t)
Disjoint(S, terms) == \A a, b \in S : a < b => (TermHi(terms[a]) < TermLo(terms[b]) \/ TermHi(terms[b]) < TermLo(terms[a]))
\* product of the terms of S, ordered by position (they commute: disjoint supports, even fermion parity)
RECURSIVE ProdTerm(_, _)
ProdTerm(S, terms) ==
    IF S = {} THEN [c |-> GOne, ops |-> <<>>, raw |-> FALSE]
    ELSE LET a == CHOOSE x \in S : \A y \in S : TermLo(terms[x]) <= TermLo(terms[y])
             rest == ProdTerm(S \ {a}, terms)
         IN [c |-> GMul(terms[a].c, rest.c), ops |-> terms[a].ops \o rest.ops, raw |-> FALSE]
RECURSIVE SetToSeq(_)
SetToSeq(S) == IF S = {} THEN <<>> ELSE LET x == CHOOSE y \in S : TRUE IN <<x>> \o SetToSeq(S \ {x})
UICoeff(c, terms, k) ==
    LET subs == SetToSeq({S \in SUBSET (1..Len(terms)) : Cardinality(S) = k /\ Disjoint(S, terms)})
    IN DenseOfTerms(TypesOf(c), [n \in 1..Len(subs) |-> ProdTerm(subs[n], terms)])
RECURSIVE UISum(_, _, _, _)
UISum(c, terms, dt, k) == IF k < 0 THEN MZero(D(c), D(c))
                          ELSE EvalMat(MAdd(UISum(c, terms, dt, k - 1), EvalMat(MScale(GPow(dt, k), UICoeff(c, terms, k)))))
UI(c, ds, dt) == LET terms == EvalTerms(AllTerms(c, ds, Len(ds))) IN UISum(c, terms, dt, NW(c))

-----------------------------------------------------------------------------
\* decls = <<>> once the slot no longer comes from a declaration list; mk: "all" = IdL/IdR known on every bond,
\* "ends" = only at the two ends (max_range unknown) -- the same operator, fewer methods are applicable
\* max_range bookkeeping (attribute MPO.max_range: "maximum range of the terms, None for unknown"):
\*   tr = range of the longest term of the operator,  rk = whether the MPO knows its range.
\* Documented rule: an MPO built from W tensors / grids does not know its range, and unknown + anything = unknown.
\* A conformant implementation reports None when rk = FALSE and, when rk = TRUE, None or a number >= tr
\* (never a range shorter than the terms it contains: to_TermList, is_equal, is_hermitian rely on it).
Slot(ds, m, mk, rk, tr) == [decls |-> ds, m |-> m, mk |-> mk, rk |-> rk, tr |-> tr]
Empty == [decls |-> <<>>, m |-> <<>>, mk |-> "all", rk |-> TRUE, tr |-> 0]
MaxTermRange(c, ds) == LET ts == EvalTerms(AllTerms(c, ds, Len(ds)))
                       IN IF Len(ts) = 0 THEN 0 ELSE IMaxFn([n \in 1..Len(ts) |-> TermRange(ts[n])], Len(ts))
IMax2(a, b) == IF a >= b THEN a ELSE b

Get(s) == IF s = "A" THEN A ELSE B
AllMarkers(s) == Get(s).mk \in {"all", "wt"}
Filled(s) == Get(s).m # <<>>

Init == cfg = NoCfg /\ A = Empty /\ B = Empty /\ last = [op |-> "init"] /\ nops = 0 /\ hist = <<>>

Obs(a, b) == [A |-> IF a.m = <<>> THEN [n |-> 0, e |-> <<>>] ELSE Sparse(a.m),
              B |-> IF b.m = <<>> THEN [n |-> 0, e |-> <<>>] ELSE Sparse(b.m),
              rng |-> [A |-> [rk |-> a.rk, tr |-> a.tr], B |-> [rk |-> b.rk, tr |-> b.tr]]]
Step(l, a, b) == /\ nops < MaxOps /\ nops' = nops + 1
                 /\ A' = a /\ B' = b /\ last' = l
                 /\ hist' = Append(hist, [l |-> l, o |-> Obs(a, b)])
                 /\ UNCHANGED cfg
SetSlot(s, v, l) == IF s = "A" THEN Step(l, v, B) ELSE Step(l, A, v)

Setup == cfg = NoCfg /\ \E c \in Configs : cfg' = c /\ UNCHANGED <<A, B, last, nops, hist>>

\* build an MPO from a declaration list; markers: "all" = IdL/IdR known on every bond and the range known (built from
\* terms), "wt" = the same W tensors handed to the MPO constructor with all markers but max_range = None,
\* "ends" = markers only at the two ends and max_range = None
Make == cfg # NoCfg /\ ~Big /\ \E s \in {"A", "B"}, ds \in Catalogue(cfg) : \E mk \in (IF s = "A" THEN {"all", "ends"} ELSE {"all", "wt"}) :
            SetSlot(s, Slot(ds, OpOf(cfg, ds), mk, mk = "all", MaxTermRange(cfg, ds)),
                    [op |-> "make", s |-> s, decls |-> ds, markers |-> mk])

\* both slots at once (so that binary operations are reached early in the exhaustive run)
PairOps(c) ==
    LET far == FarRange(c)
        t == c.uc[1]
        base == IF t = "spin" THEN <<Coup(<<1, 0>>, "Sigmaz", "Sigmaz", 1, FALSE), Ons(<<2, 0>>, "Sigmax", FALSE)>>
                ELSE IF t = "fermion" THEN <<Coup(<<1, 0>>, "Cd", "C", 1, TRUE), Ons(<<2, 0>>, "N", FALSE)>>
                ELSE <<Coup(<<1, 0>>, "Bd", "B", 1, TRUE), Ons(<<2, 0>>, "N", FALSE)>>
        lr(z) == IF t = "spin" THEN Coup(z, "Sigmaz", "Sigmaz", far, FALSE) ELSE IF t = "fermion" THEN Coup(z, "Cd", "C", far, TRUE)
                 ELSE Coup(z, "Bd", "B", far, TRUE)
        nonh == IF t = "spin" THEN <<Coup(<<1, 2>>, "Sp", "Sm", 1, FALSE)>> ELSE IF t = "fermion" THEN <<Coup(<<0, 1>>, "Cd", "C", far, FALSE)>>
                ELSE <<Coup(<<0, 1>>, "Bd", "B", 1, FALSE)>>
    IN IF Infinite(c) /\ c.cells >= 3 THEN {base, base \o <<lr(<<1, 0>>)>>}
       ELSE {base, base \o <<lr(<<1, 0>>)>>, base \o <<lr(<<2, 0>>)>>, nonh}
MakePair == cfg # NoCfg /\ A = Empty /\ B = Empty /\ \E da, db \in PairOps(cfg), mkB \in {"all", "wt"} :
    Step([op |-> "make_pair", declsA |-> da, declsB |-> db, markersB |-> mkB],
         Slot(da, OpOf(cfg, da), "all", TRUE, MaxTermRange(cfg, da)), Slot(db, OpOf(cfg, db), mkB, mkB = "all", MaxTermRange(cfg, db)))

Add == Filled("A") /\ Filled("B") /\ AllMarkers("A") /\ AllMarkers("B") /\ \E s \in {"A", "B"} :
           SetSlot(s, Slot(IF A.decls # <<>> /\ B.decls # <<>> THEN A.decls \o B.decls ELSE <<>>,    \* the terms of a sum
                           EvalMat(MAdd(A.m, B.m)), "all", A.rk /\ B.rk, IMax2(A.tr, B.tr)), [op |-> "add", s |-> s])

Dagger == ~Big /\ \E s \in {"A", "B"} : Filled(s) /\ SetSlot(s, Slot(<<>>, EvalMat(MDagger(Get(s).m)), Get(s).mk, Get(s).rk, Get(s).tr), [op |-> "dagger", s |-> s])

PlusIdentity == cfg # NoCfg /\ ~Big /\ ~Infinite(cfg) /\ \E s \in {"A", "B"}, al \in {<<0, 0>>, <<1, 0>>, <<0, -2>>}, be \in {<<1, 0>>, <<0, 1>>, <<-2, 0>>} :
    \* the result is a valid MPO for measurements and apply, but its IdL -> IdL entry is scaled (documented structure
    \* [beta*1  beta*C  alpha*1+beta*D]): marked "scaled"; only plus_identity itself is applied to it again
    Filled(s) /\ Get(s).mk \in {"all", "scaled"} /\ SetSlot(s, Slot(<<>>, EvalMat(MAdd(MScale(al, MId(D(cfg))), MScale(be, Get(s).m))), "scaled", Get(s).rk, Get(s).tr),
                         [op |-> "plus_identity", s |-> s, alpha |-> al, beta |-> be])

\* representation changes: the operator stays the same
Represent == \E s \in {"A", "B"}, how \in {"sort_legcharges", "group_sites", "termlist_roundtrip", "termlist_roundtrip_rev", "copy"} :
    /\ ~Big /\ Filled(s) /\ (how = "group_sites" => NCell(cfg) % 2 = 0) /\ (how # "copy" => AllMarkers(s))
    \* to_TermList(start = all sites, in ascending resp. descending order) followed by from_term_list
    /\ (how \in {"termlist_roundtrip", "termlist_roundtrip_rev"} => cfg.uc[1] = "spin")
    \* an MPO rebuilt from its term list knows its range again; sort_legcharges keeps the markers but we treat the result
    \* like an MPO with all markers known
    /\ SetSlot(s, [Get(s) EXCEPT !.decls = IF how = "copy" THEN @ ELSE <<>>,
                                 !.rk = IF how \in {"termlist_roundtrip", "termlist_roundtrip_rev"} THEN TRUE ELSE @,
                                 !.mk = IF how \in {"termlist_roundtrip", "termlist_roundtrip_rev"} THEN "all" ELSE @],
               [op |-> how, s |-> s])

QHermitian == \E s \in {"A", "B"} : Filled(s) /\ Step([op |-> "is_hermitian", s |-> s, res |-> MIsHermitian(Get(s).m)], A, B)
\* equality is symmetric: A.is_equal(B) and B.is_equal(A) both have to return this truth value
QEqual == Filled("A") /\ Filled("B") /\ Step([op |-> "is_equal", res |-> (A.m = B.m)], A, B)

FrobInner(X, Y) == MTrace(MMul(MDagger(X), Y))
QOverlap == Filled("A") /\ Filled("B") /\ ~Infinite(cfg) /\
            Step([op |-> "overlap", res |-> FrobInner(A.m, B.m), dist2 |-> Re(FrobInner(MSub(A.m, B.m), MSub(A.m, B.m)))], A, B)

QExpect == \E s \in {"A", "B"} : Filled(s) /\ ~Infinite(cfg) /\ \E st \in StateCatalogue(cfg) :
    LET v == VecOf(cfg, st)
        Hv == TLCEval(MVec(Get(s).m, v))
    IN Step([op |-> "expectation_value", s |-> s, state |-> st, num |-> VInner(v, Hv), den |-> VNorm2(v),
             num2 |-> VInner(v, MVec(Get(s).m, Hv))], A, B)

\* O|v>: the vector every apply method has to reproduce (up to its reported truncation error)
ApplyStates(c) == {<<<<2, GOne>>>>, <<<<0, GOne>>, <<D(c) - 1, GOne>>>>,
                   <<<<1, GOne>>, <<2, <<0, 2>>>>, <<4 % D(c), <<-1, 0>>>>>>}
\* compression methods with the option combine (legs combined into pipes inside the sweep engine: must not matter)
\* <<method, combine, chi_max (0: no truncation requested), m_temp>>
ApplyMethods == {<<"naive", FALSE, 0, 1>>, <<"SVD", FALSE, 0, 1>>, <<"zip_up", FALSE, 0, 1>>, <<"variational", FALSE, 0, 1>>,
                 <<"variational", TRUE, 0, 1>>, <<"variationalQR", FALSE, 0, 1>>, <<"variationalQR", TRUE, 0, 1>>,
                 \* genuine truncation: the result is an approximation, the reported truncation error has to account for it
                 <<"SVD", FALSE, 1, 1>>, <<"zip_up", FALSE, 2, 1>>, <<"zip_up", FALSE, 1, 2>>}
\* reduced density matrix (Gram matrix) of the vector w for the cut between site b-1 and b: exact data for the
\* Eckart-Young bound on what any result of bond dimension chi can achieve, and what must have been discarded
GramOf(c, w, b) ==
    LET dims == DimsOf(TypesOf(c))
        dl == IProdFn([i \in 1..b |-> dims[i]], b)
        dr == D(c) \div dl
    IN TLCEval([r \in 1..dl |-> TLCEval([q \in 1..dl |->
           GSumFn([k \in 1..dr |-> GMul(w[(r - 1) * dr + k], GConj(w[(q - 1) * dr + k]))], dr)])])
\* which method is tried on which state (the full product would only multiply equal cases)
ApplyCases(c) ==
    LET Pr == <<<<2, GOne>>>>
        Gz == <<<<0, GOne>>, <<D(c) - 1, GOne>>>>
        Ws == <<<<1, GOne>>, <<2, <<0, 2>>>>, <<4 % D(c), <<-1, 0>>>>>>
    IN {<<Pr, m>> : m \in {x \in ApplyMethods : x[3] = 0 /\ ~x[2]}}
       \cup {<<Gz, m>> : m \in {<<"naive", FALSE, 0, 1>>, <<"variational", TRUE, 0, 1>>, <<"variationalQR", TRUE, 0, 1>>, <<"SVD", FALSE, 1, 1>>}}
       \cup {<<Ws, m>> : m \in ApplyMethods \ {<<"naive", FALSE, 0, 1>>, <<"variationalQR", FALSE, 0, 1>>, <<"variationalQR", TRUE, 0, 1>>}}
QApply == \E s \in {"A", "B"} : Filled(s) /\ ~Infinite(cfg) /\ \E cs \in ApplyCases(cfg) :
    LET st == cs[1]
        mc == cs[2]
        v == VecOf(cfg, st)
        meth == mc[1]
        w == TLCEval(MVec(Get(s).m, v))
    IN (meth \in {"variational", "variationalQR"} => NW(cfg) >= 3) /\      \* the two-site sweep engine needs more than two sites
       (mc[3] > 0 => NW(cfg) >= (IF meth = "zip_up" THEN 4 ELSE 3)) /\
       Step([op |-> "apply", s |-> s, state |-> st, method |-> meth, combine |-> mc[2], chi |-> mc[3], m_temp |-> mc[4],
             gram |-> IF mc[3] = 0 THEN <<>> ELSE [b \in 1..(NW(cfg) - 1) |-> GramOf(cfg, w, b)], den |-> VNorm2(v), w |-> w], A, B)

\* propagators (only for slots that still know their terms)
QUI == \E s \in {"A", "B"} : Filled(s) /\ AllMarkers(s) /\ Get(s).decls # <<>> /\ ~Infinite(cfg) /\ \E dt \in {<<0, 0>>, <<1, 0>>, <<0, -1>>, <<2, 1>>} :
    Step([op |-> "make_U_I", s |-> s, dt |-> dt, U |-> Sparse(UI(cfg, Get(s).decls, dt))], A, B)

\* make_U_I of the sum A + B: the terms of a sum are the terms of both operands (also on the window of an infinite MPO)
QUISum == ~Big /\ Filled("A") /\ Filled("B") /\ A.mk = "all" /\ B.mk = "all" /\ A.decls # <<>> /\ B.decls # <<>> /\
    \E dt \in {<<1, 0>>, <<0, -1>>} :
        Step([op |-> "make_U_I_of_sum", dt |-> dt, U |-> Sparse(UI(cfg, A.decls \o B.decls, dt))], A, B)

IsDiagonal(X) == \A r \in 1..NRows(X) : \A q \in 1..NCols(X) : r # q => GIsZero(X[r][q])
OnsiteOnly(ds) == \A n \in 1..Len(ds) : ds[n].kind = "onsite"
QUII == \E s \in {"A", "B"} : Filled(s) /\ AllMarkers(s) /\ Get(s).decls # <<>> /\ ~Infinite(cfg) /\ \E dt \in {<<0, 0>>, <<0, -1>>} :
    (dt = <<0, 0>> \/ (OnsiteOnly(Get(s).decls) /\ IsDiagonal(Get(s).m))) /\
    Step([op |-> "make_U_II", s |-> s, dt |-> dt, diag |-> [r \in 1..D(cfg) |-> Get(s).m[r][r]]], A, B)

\* MPO.prefactor(i, ops): the coefficient of the operator string ops (on sites i, i+1, ...; identities elsewhere) in the
\* operator, w.r.t. the product basis of mutually orthogonal local operators: tr(S^dagger H) / tr(S^dagger S)
PrefStrings(c) == IF c.uc[1] = "spin"
                  THEN {<<"Sp", "Sm">>, <<"Sm", "Sp">>, <<"Sp">>, <<"Sp", "Sigmaz", "Sm">>, <<"Sigmaz", "Id", "Sigmaz">>}
                  ELSE IF c.uc[1] = "fermion" THEN {<<"Cd", "C">>, <<"C", "Cd">>, <<"Cd", "JW", "C">>, <<"C", "JW", "Cd">>}
                  ELSE {<<"Bd", "B">>, <<"B", "Bd">>}
StringOp(c, i, ops) == DenseOfTerms(TypesOf(c), <<[c |-> GOne, raw |-> TRUE, ops |-> [k \in 1..Len(ops) |-> <<ops[k], i + k - 1>>]]>>)
MInner(X, Y) == GSumFn([r \in 1..NRows(X) |-> GSumFn([q \in 1..NCols(X) |-> GMul(GConj(X[r][q]), Y[r][q])], NCols(X))], NRows(X))
QPrefactor == ~Big /\ \E s \in {"A"} : Filled(s) /\ AllMarkers(s) /\ \E ops \in PrefStrings(cfg), i \in {0, 1} :
    /\ i + Len(ops) <= NW(cfg) /\ i < NCell(cfg)
    /\ LET S == StringOp(cfg, i, ops)
       IN Step([op |-> "prefactor", s |-> s, i |-> i, ops |-> ops, num |-> MInner(S, Get(s).m), den |-> Re(MInner(S, S))], A, B)

\* make_U_II is second order in dt for every direction of dt in the complex plane (real time, imaginary time with either
\* sign, complex): the central difference (U_II(ph*h) - U_II(-ph*h)) / (2 ph h) equals H up to O(h^2); h = 2^-k
QUIIOrder == ~Big /\ \E s \in {"A"} : Filled(s) /\ AllMarkers(s) /\ Get(s).decls # <<>> /\ ~Infinite(cfg) /\
    \E ph \in {<<-1, 0>>, <<0, -1>>, <<1, -1>>} : Step([op |-> "make_U_II_order", s |-> s, ph |-> ph, k |-> 6], A, B)

Next == Setup \/ QPrefactor \/ QUIIOrder \/ QUISum \/ Make \/ MakePair \/ Add \/ Dagger \/ PlusIdentity \/ Represent \/ QHermitian \/ QEqual \/ QOverlap \/ QExpect \/ QApply
        \/ QUI \/ QUII
Spec == Init /\ [][Next]_vars

-----------------------------------------------------------------------------
\* properties of the algebra itself (checked on every reachable state)
GetN(s) == IF s = "A" THEN A' ELSE B'
DaggerInvolution == [][\A s \in {"A", "B"} : (last'.op = "dagger" /\ last'.s = s) => MDagger(GetN(s).m) = Get(s).m]_vars
\* the first two coefficients of make_U_I: U_I(0) = 1 and dU_I/dt(0) = H
UIFirstOrder == \A s \in {"A", "B"} : (Filled(s) /\ Get(s).decls # <<>> /\ ~Infinite(cfg)) =>
    LET terms == EvalTerms(AllTerms(cfg, Get(s).decls, Len(Get(s).decls)))
    IN UICoeff(cfg, terms, 0) = MId(D(cfg)) /\ UICoeff(cfg, terms, 1) = Get(s).m
HermitianSum == [][(last'.op = "add" /\ MIsHermitian(A.m) /\ MIsHermitian(B.m)) => MIsHermitian(GetN(last'.s).m)]_vars
=============================================================================
