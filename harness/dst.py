"""Deterministic simulation of the real tenpy.tools.thread.Worker / tenpy.tools.cache.ThreadedStorage.

No source edits: `tenpy.tools.thread` looks up `queue` and `threading` as module attributes, so the
harness replaces those two attributes (at run time, for the duration of a replay) by the
instrumented equivalents below.  Every operation of an instrumented object is a *yield point* of a
cooperative scheduler: the calling OS thread parks *before* performing the primitive and continues
only when the controller grants it; it then performs exactly that primitive plus the thread-local
code up to its next yield point, where it parks again.  Exactly one of the real threads runs at a
time, control changes only at yield points, time-outs are virtual (a `put`/`get` with a time-out
that is granted while the queue is full/empty raises Full/Empty at once; nothing ever sleeps).

Yield point labels (= the labels of the specification spec/CacheThreaded.tla):
    q.put q.get q.task_done q.join q.empty   ev.set ev.is_set   thread.start thread.join
    thread.is_alive thread.end   loaded.contains loaded.get loaded.set loaded.del
    disk.load disk.save disk.delete   op.begin (driver: start of the next public cache operation)
"""
import collections
import os
import pickle
import shutil
import threading as _threading
import types

from . import core

GRANT_TIMEOUT = 20.0  # real seconds a granted step may take before it is declared hung
SETUP_TIMEOUT = 90.0  # real seconds the machinery itself (thread start / unwinding) may take


class _Abort(BaseException):
    """Raised inside a parked thread to unwind it when a replay is over."""


class InjectedFailure(OSError):
    """The failure the schedule injects into a disk operation."""


class StepHung(Exception):
    pass


class _PoolThread:
    """A reusable OS thread (starting a thread costs milliseconds on a loaded machine)."""
    idle = []
    lock = _threading.Lock()

    def __init__(self):
        self.wake = _threading.Semaphore(0)
        self.job = None
        self.thread = _threading.Thread(target=self._loop, name='dst-pool', daemon=True)
        self.thread.start()

    def _loop(self):
        while True:
            self.wake.acquire()
            sched, p, fn = self.job
            self.job = None
            sched._thread_main(p, fn)
            with _PoolThread.lock:
                _PoolThread.idle.append(self)

    @classmethod
    def run(cls, sched, p, fn):
        with cls.lock:
            t = cls.idle.pop() if cls.idle else None
        if t is None:
            t = cls()
        t.job = (sched, p, fn)
        t.wake.release()
        return t


class Proc:
    def __init__(self, name):
        self.name = name
        self.go = _threading.Semaphore(0)
        self.label = None
        self.enabled = None
        self.parked = False
        self.ended = False
        self.cmd = None
        self.abort = False
        self.first_park = None  # semaphore released instead of sched.ctl at the first park
        self.thread = None
        self.finished = _threading.Semaphore(0)
        self.crashed = None  # exception that escaped the thread's target
        self.steps = 0

    def is_enabled(self):
        if self.ended or not self.parked:
            return False
        return True if self.enabled is None else bool(self.enabled())


class Scheduler:
    """Cooperative scheduler.  Two ways to drive it:

    * external controller: grant(name) from the controlling thread, one step at a time;
    * directed (used by the replays, fewer context switches): run_directed(director) -- whichever
      scheduled thread has just parked calls director.advance() itself (it holds the "baton"), which
      checks the step just executed and names the next process; the baton is handed over only when
      the process changes.  director.advance() -> (proc name, cmd) or None (stop).
    """

    def __init__(self):
        self.procs = {}
        self.ctl = _threading.Semaphore(0)
        self.done = _threading.Semaphore(0)
        self.tls = _threading.local()
        self.director = None
        self.director_error = None
        self.trace = None  # optional list collecting (proc, label)

    # -- called from the scheduled threads -------------------------------------------------------
    def yp(self, label, enabled=None):
        p = getattr(self.tls, 'proc', None)
        if p is None:
            return None  # unregistered thread (the controller during set-up): pass through
        if p.abort:
            if enabled is not None and not enabled():
                raise _Abort()
            return None
        p.label, p.enabled, p.parked = label, enabled, True
        if p.first_park is not None:
            s, p.first_park = p.first_park, None
            s.release()
            p.go.acquire()
        elif self.director is not None:
            self._baton(p)
        else:
            self.ctl.release()
            p.go.acquire()
        p.parked = False
        if p.abort:
            raise _Abort()
        p.steps += 1
        cmd, p.cmd = p.cmd, None
        return cmd

    def _advance(self):
        try:
            return self.director.advance()
        except BaseException as e:  # noqa: machinery problems are re-raised in the controlling thread
            self.director_error = e
            return None

    def _baton(self, p):
        nxt = self._advance()
        if nxt is None:
            self.done.release()
            p.go.acquire()  # until shutdown
            return
        q = self.procs[nxt[0]]
        q.cmd = nxt[1]
        if q is p:
            return
        q.go.release()
        p.go.acquire()

    def _thread_main(self, p, fn):
        self.tls.proc = p
        try:
            fn()
        except _Abort:
            pass
        except BaseException as e:  # noqa: an uncaught exception ends a thread like in CPython
            p.crashed = e
        finally:
            p.ended = True
            p.parked = False
            if p.first_park is not None:  # ended without ever parking
                s, p.first_park = p.first_park, None
                s.release()
            elif self.director is not None and not p.abort:
                nxt = self._advance()
                if nxt is None:
                    self.done.release()
                else:
                    q = self.procs[nxt[0]]
                    q.cmd = nxt[1]
                    q.go.release()
            else:
                self.ctl.release()
            self.tls.proc = None
            p.finished.release()

    # -- called from the controller ---------------------------------------------------------------
    def spawn(self, name, fn):
        """Start a real OS thread for process `name` running fn; returns once it is parked (or ended)."""
        p = Proc(name)
        self.procs[name] = p
        sem = _threading.Semaphore(0)
        p.first_park = sem
        p.thread = _PoolThread.run(self, p, fn)
        if not sem.acquire(timeout=SETUP_TIMEOUT):
            import faulthandler
            import sys
            faulthandler.dump_traceback(file=sys.stderr, all_threads=True)
            raise core.MachineryError('process %s does not reach its first yield point' % name)
        return p

    def grant(self, name, cmd=None):
        p = self.procs[name]
        if not p.parked or p.ended:
            raise core.MachineryError('grant(%s): process not parked' % name)
        p.cmd = cmd
        p.go.release()
        if not self.ctl.acquire(timeout=GRANT_TIMEOUT):
            raise StepHung('%s did not reach its next yield point within %.0f s after %r' % (name, GRANT_TIMEOUT, p.label))
        if self.trace is not None:
            self.trace.append((name, p.label))

    def run_directed(self, director, timeout=GRANT_TIMEOUT):
        """Run until director.advance() returns None; all processes must be parked."""
        self.director = director
        self.director_error = None
        nxt = self._advance()
        if nxt is not None:
            q = self.procs[nxt[0]]
            q.cmd = nxt[1]
            q.go.release()
            if not self.done.acquire(timeout=timeout):
                self.hung = True
                raise StepHung('no yield point reached within %.0f s' % timeout)
        if self.director_error is not None:
            raise self.director_error

    hung = False

    def shutdown(self):
        """Unwind every thread that is still parked."""
        for p in self.procs.values():
            p.abort = True
        for p in self.procs.values():
            if not p.ended:
                p.go.release()
        for p in self.procs.values():
            if p.thread is not None:
                if not p.finished.acquire(timeout=1.0 if self.hung else SETUP_TIMEOUT) and not self.hung:
                    raise core.MachineryError('thread of process %s does not unwind' % p.name)


# ------------------------------------------------------------------------------------------------
# instrumented `queue` and `threading`
# ------------------------------------------------------------------------------------------------
def make_modules(S, worker_name='W'):
    """Return (fake_queue_module, fake_threading_module) bound to scheduler S."""

    class Empty(Exception):
        pass

    class Full(Exception):
        pass

    class Queue:
        def __init__(self, maxsize=0):
            self.maxsize = maxsize
            self.items = collections.deque()
            self.unfinished_tasks = 0

        def _isfull(self):
            return 0 < self.maxsize <= len(self.items)

        def _pop(self):
            return self.items.popleft()

        def put(self, item, block=True, timeout=None):
            nb = (not block) or timeout is not None
            S.yp('q.put', enabled=lambda: nb or not self._isfull())
            if self._isfull():
                raise Full()
            self.items.append(item)
            self.unfinished_tasks += 1

        def get(self, block=True, timeout=None):
            nb = (not block) or timeout is not None
            S.yp('q.get', enabled=lambda: nb or len(self.items) > 0)
            if not self.items:
                raise Empty()
            return self._pop()

        def put_nowait(self, item):
            return self.put(item, block=False)

        def get_nowait(self):
            return self.get(block=False)

        def task_done(self):
            S.yp('q.task_done')
            if self.unfinished_tasks <= 0:
                raise ValueError('task_done() called too many times')
            self.unfinished_tasks -= 1

        def join(self):
            S.yp('q.join', enabled=lambda: self.unfinished_tasks == 0)

        def empty(self):
            S.yp('q.empty')
            return not self.items

        def full(self):
            S.yp('q.full')
            return self._isfull()

        def qsize(self):
            S.yp('q.qsize')
            return len(self.items)

    class LifoQueue(Queue):
        def _pop(self):
            return self.items.pop()

    class Event:
        def __init__(self):
            self._flag = False

        def set(self):
            S.yp('ev.set')
            self._flag = True

        def clear(self):
            S.yp('ev.clear')
            self._flag = False

        def is_set(self):
            S.yp('ev.is_set')
            return self._flag

        isSet = is_set

        def wait(self, timeout=None):
            S.yp('ev.wait', enabled=lambda: self._flag or timeout is not None)
            return self._flag

    class Thread:
        _count = 0

        def __init__(self, group=None, target=None, name=None, args=(), kwargs=None, daemon=None):
            self._target, self._args, self._kwargs = target, args, kwargs or {}
            self.name = name
            self.daemon = daemon
            self._alive = False
            self._started = False
            self.proc = None

        def _run(self):
            try:
                self._target(*self._args, **self._kwargs)
            except _Abort:
                raise
            except Exception as e:  # like threading.excepthook: the thread just ends
                self.proc.crashed = e
            S.yp('thread.end')
            self._alive = False

        def start(self):
            S.yp('thread.start')
            if self._started:
                raise RuntimeError('threads can only be started once')
            self._started = True
            self._alive = True
            name = worker_name if Thread._count == 0 else '%s%d' % (worker_name, Thread._count)
            Thread._count += 1
            self.proc = S.spawn(name, self._run)

        def is_alive(self):
            S.yp('thread.is_alive')
            return self._alive

        def join(self, timeout=None):
            S.yp('thread.join', enabled=lambda: (not self._alive) or timeout is not None)

    Thread._count = 0
    q = types.SimpleNamespace(Queue=Queue, LifoQueue=LifoQueue, Empty=Empty, Full=Full, __name__='queue(dst)')
    t = types.SimpleNamespace(Thread=Thread, Event=Event, __name__='threading(dst)',
                              current_thread=_threading.current_thread, get_ident=_threading.get_ident)
    return q, t


def make_traced_dict(S):
    class TracedDict(dict):
        """ThreadedStorage._loaded: the dictionary both threads touch."""

        def __contains__(self, k):
            S.yp('loaded.contains')
            return dict.__contains__(self, k)

        def __getitem__(self, k):
            S.yp('loaded.get')
            return dict.__getitem__(self, k)

        def __setitem__(self, k, v):
            S.yp('loaded.set')
            dict.__setitem__(self, k, v)

        def __delitem__(self, k):
            S.yp('loaded.del')
            dict.__delitem__(self, k)

    return TracedDict


# ------------------------------------------------------------------------------------------------
# a real CacheFile with ThreadedStorage over a disk storage under the scheduler
# ------------------------------------------------------------------------------------------------
_MEM = {}


def mem_storage_class(tc):
    """A non-trivial storage that keeps its data in RAM, built on the public Storage interface
    (ThreadedStorage refuses the trivial Storage).  Used for the bulk of the replays because directory
    operations on the build file system cost milliseconds; PickleStorage / Hdf5Storage get a share."""
    cls = _MEM.get(tc)
    if cls is None:
        class MemStorage(tc.Storage):
            trivial = False

            def subcontainer(self, name):
                if not self._opened:
                    raise ValueError('Trying to access closed storage')
                res = MemStorage.open()
                self._subcontainers.append(res)
                return res

            def delete(self, key):  # like PickleStorage / Hdf5Storage: a missing key is not an error
                if not self._opened:
                    raise ValueError('Trying to access closed storage')
                self.data.pop(key, None)
        cls = _MEM[tc] = MemStorage
    return cls


class Rig:
    """Owns the patched module attributes, the scheduler, the real cache objects and the driver thread."""

    def __init__(self, tmpdir, caches=('root',), qmax=1, storage='MemStorage'):
        import logging
        import tenpy.tools.thread as tt
        import tenpy.tools.cache as tc
        for attr in ('queue', 'threading'):
            if not hasattr(tt, attr):
                raise core.MachineryError('interposition point tenpy.tools.thread.%s missing' % attr)
        logging.getLogger('tenpy.tools.thread').disabled = True
        logging.getLogger('tenpy.tools.cache').disabled = True
        self.tt, self.tc = tt, tc
        self.S = S = Scheduler()
        self.saved = (tt.queue, tt.threading)
        self.tmp = tmpdir
        self.kind = storage
        self.results = []
        self.caches = {}
        self.disks = {}
        self.closed_dirs = {}
        fq, ft = make_modules(S)
        tt.queue, tt.threading = fq, ft
        try:
            import warnings
            with warnings.catch_warnings():
                warnings.simplefilter('ignore')
                if storage == 'MemStorage':
                    mem_storage_class(tc)
                    root = tc.CacheFile.open('MemStorage', use_threading=True, max_queue_size=qmax)
                elif storage == 'PickleStorage':
                    root = tc.CacheFile.open('PickleStorage', use_threading=True, max_queue_size=qmax,
                                             directory=os.path.join(tmpdir, 'pc'))
                elif storage == 'Hdf5Storage':
                    root = tc.CacheFile.open('Hdf5Storage', use_threading=True, max_queue_size=qmax,
                                             filename=os.path.join(tmpdir, 'c.h5'))
                else:
                    raise core.MachineryError(storage)
            self.caches['root'] = root
            if 'sub' in caches:
                self.caches['sub'] = root.create_subcache('sub')
            TD = make_traced_dict(S)
            for name, c in self.caches.items():
                st = c.long_term_storage
                if not isinstance(st, tc.ThreadedStorage) or not isinstance(getattr(st, '_loaded', None), dict) \
                        or not isinstance(getattr(st, '_waiting_for_load', None), set):
                    raise core.MachineryError('interposition point ThreadedStorage._loaded/_waiting_for_load missing')
                st._loaded = TD()
                self.disks[name] = st.disk_storage
                self._wrap_disk(st.disk_storage, name)
            self.worker = root.long_term_storage.worker
            if not isinstance(self.worker.tasks, fq.Queue) or 'W' not in S.procs:
                raise core.MachineryError('Worker does not use the instrumented queue/threading')
            S.spawn('M', self._driver)
        except BaseException:
            S.hung = True  # do not wait for threads that never came up
            self.close()
            raise

    def _wrap_disk(self, disk, cname):
        S = self.S
        for op in ('load', 'save', 'delete'):
            orig = getattr(disk, op, None)
            if orig is None:
                raise core.MachineryError('interposition point disk_storage.%s missing' % op)

            def w(*a, _orig=orig, _op=op):
                cmd = S.yp('disk.' + _op)
                if cmd == 'fail':
                    raise InjectedFailure('injected failure in disk.%s%r' % (_op, a[:1]))
                return _orig(*a)
            w.dst_op, w.dst_cache = op, cname
            setattr(disk, op, w)

    # -- the main thread of the program under test ------------------------------------------------
    def _driver(self):
        S = self.S
        while True:
            op = S.yp('op.begin')
            if op is None:
                return
            self.results.append(run_op(self.caches, op))

    # -- projection of the shared state ------------------------------------------------------------
    def project(self):
        W = self.worker
        out = {}
        q = []
        for t in W.tasks.items:
            f, a = t[0], t[1]
            q.append(dict(op=getattr(f, 'dst_op', '?'), c=getattr(f, 'dst_cache', '?'), k=a[0], v=a[1] if len(a) > 1 else 0))
        out['q'] = q
        out['unf'] = W.tasks.unfinished_tasks
        out['exit'] = W.exit._flag
        out['alive'] = W.worker_thread._alive
        for name, c in self.caches.items():
            st = c.long_term_storage
            out['loaded.' + name] = dict(dict.items(st._loaded))
            out['wait.' + name] = sorted(st._waiting_for_load)
            out['ltk.' + name] = sorted(c.long_term_keys)
            out['stc.' + name] = dict(c.short_term_cache)
            out['stk.' + name] = sorted(c.short_term_keys)
            out['disk.' + name] = self.disk_content(name)
        return out

    def disk_content(self, name):
        """What the disk storage holds, read from the file system (None: storage closed and removed)."""
        d = self.disks[name]
        tc = self.tc
        if isinstance(d, tc.Hdf5Storage):
            if not d._opened or not d.h5gr:
                return None
            from tenpy.tools.hdf5_io import load_from_hdf5
            return {k: load_from_hdf5(d.h5gr, k) for k in d.h5gr.keys() if 'type' in d.h5gr[k].attrs}
        if hasattr(d, 'data') and not hasattr(d, 'directory'):
            return dict(d.data) if d._opened else None
        if not os.path.isdir(d.directory):
            return None
        out = {}
        for fn in os.listdir(d.directory):
            if fn.endswith(d.extension):
                with open(os.path.join(d.directory, fn), 'rb') as f:
                    out[fn[:-len(d.extension)]] = pickle.load(f)
        return out

    def close(self):
        """Unwind the threads, restore the module attributes, remove files."""
        try:
            self.S.shutdown()
        finally:
            self.tt.queue, self.tt.threading = self.saved
            for d in self.disks.values():
                h = getattr(d, 'h5gr', None)
                try:
                    if h is not None and h and h.file:
                        h.file.close()
                except Exception:
                    pass
            if self.tmp is not None:
                shutil.rmtree(self.tmp, ignore_errors=True)


def run_op(caches, op):
    """Execute one public cache operation (record from the spec) on the real objects -> (result, value)."""
    kind = op['op']
    c = caches[op['c']]
    k = op['k']
    try:
        if kind == 'set':
            c[k] = op['v']
            return ('ok', 0)
        if kind == 'getitem':
            return ('val', c[k])
        if kind == 'get':
            r = c.get(k)
            return ('default', 0) if r is None else ('val', r)
        if kind == 'del':
            del c[k]
            return ('ok', 0)
        if kind == 'contains':
            return ('true' if k in c else 'false', 0)
        if kind == 'stk':
            c.set_short_term_keys(*sorted(op['S']))
            return ('ok', 0)
        if kind == 'preload':
            c.preload(*list(op['ks']), raise_missing=op['rm'])
            return ('ok', 0)
        if kind == 'close':
            caches['root'].close()
            return ('ok', 0)
        raise core.MachineryError('unknown operation %r' % (op,))
    except _Abort:
        raise
    except core.MachineryError:
        raise
    except Exception as e:  # what the operation raises is its observable result
        return (type(e).__name__, 0)
