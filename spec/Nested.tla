------------------------------- MODULE Nested -------------------------------
(* Growth beyond the listed properties: the nested-options helpers of tenpy.tools.misc
   (get_recursive, set_recursive, update_recursive, merge_recursive, flatten) that simulations use to address,
   override and merge parameter trees ("algorithm_params.trunc_params.chi_max").

   A tree is a leaf [t |-> "leaf", v |-> value] or a dict [t |-> "dict", m |-> function from a subset of Keys to trees].
   The state is one mutable tree `d` (the options being edited, always a dict at the root) and a second, read-only
   tree `o` (what gets merged in).  One action per public function; errors are modelled by their class. *)
EXTENDS Naturals, Sequences, FiniteSets, TLC

CONSTANTS Keys, Vals, MaxOps, DepthD, DepthO

VARIABLES d, o, last, nops, hist
vars == <<d, o, last, nops, hist>>
AbsView == <<d, o, last, nops>>

Leaf(v) == [t |-> "leaf", v |-> v]
Dict(m) == [t |-> "dict", m |-> m]
IsDict(x) == x.t = "dict"
EmptyFn == [k \in {} |-> 0]
Empty == Dict(EmptyFn)
Has(x, k) == k \in DOMAIN x.m
Put(x, k, v) == Dict([j \in (DOMAIN x.m) \cup {k} |-> IF j = k THEN v ELSE x.m[j]])

RECURSIVE Trees(_)
Trees(n) == IF n = 0 THEN {Leaf(v) : v \in Vals}
            ELSE {Leaf(v) : v \in Vals} \cup {Dict(m) : m \in UNION {[S -> Trees(n - 1)] : S \in SUBSET Keys}}

Paths(n) == UNION {[1..k -> Keys] : k \in 1..n}

Ok(x) == [k |-> "ok", v |-> x]
Err(e) == [k |-> "err", e |-> e]

(* get_recursive(x, path) without default: x[p1][p2]...; a missing key is KeyError, indexing a leaf TypeError *)
RECURSIVE Get(_, _)
Get(x, p) == IF p = <<>> THEN Ok(x)
             ELSE IF ~IsDict(x) THEN Err("TypeError")
             ELSE IF ~Has(x, Head(p)) THEN Err("KeyError")
             ELSE Get(x.m[Head(p)], Tail(p))
(* with a default: `subkey not in x` is evaluated first -- on a leaf that is a TypeError, too *)
RECURSIVE GetD(_, _, _)
GetD(x, p, dflt) == IF p = <<>> THEN Ok(x)
                    ELSE IF ~IsDict(x) THEN Err("TypeError")
                    ELSE IF ~Has(x, Head(p)) THEN Ok(dflt)
                    ELSE GetD(x.m[Head(p)], Tail(p), dflt)

(* set_recursive: result is the new tree or an error; with insert_dicts missing intermediate dicts are created *)
RECURSIVE Set(_, _, _, _)
Set(x, p, v, ins) ==
    IF ~IsDict(x) THEN Err("TypeError")
    ELSE IF Len(p) = 1 THEN Ok(Put(x, p[1], v))
    ELSE IF ~Has(x, Head(p)) THEN (IF ins THEN LET r == Set(Empty, Tail(p), v, ins) IN
                                                 IF r.k = "ok" THEN Ok(Put(x, Head(p), r.v)) ELSE r
                                   ELSE Err("KeyError"))
    ELSE LET r == Set(x.m[Head(p)], Tail(p), v, ins) IN IF r.k = "ok" THEN Ok(Put(x, Head(p), r.v)) ELSE r

(* update_recursive: set_recursive for every item in order; stops at the first error, earlier items stay applied *)
RECURSIVE Update(_, _, _)
Update(x, items, ins) ==
    IF items = <<>> THEN [tree |-> x, res |-> Ok(0)]
    ELSE LET r == Set(x, items[1][1], items[1][2], ins) IN
         IF r.k = "ok" THEN Update(r.v, Tail(items), ins) ELSE [tree |-> x, res |-> r]

(* merge_recursive(a, b, conflict) *)
RECURSIVE Merge(_, _, _)
Merge(a, b, conflict) ==
    LET ks == (DOMAIN a.m) \cup (DOMAIN b.m)
        sub(k) == IF k \notin DOMAIN b.m THEN Ok(a.m[k])
                  ELSE IF k \notin DOMAIN a.m THEN Ok(b.m[k])
                  ELSE IF IsDict(a.m[k]) /\ IsDict(b.m[k]) THEN Merge(a.m[k], b.m[k], conflict)
                  ELSE IF conflict = "error" THEN (IF a.m[k] = b.m[k] THEN Ok(a.m[k]) ELSE Err("ValueError"))
                  ELSE IF conflict = "first" THEN Ok(a.m[k])
                  ELSE Ok(b.m[k])
    IN IF \E k \in ks : sub(k).k = "err" THEN Err("ValueError")
       ELSE Ok(Dict([k \in ks |-> sub(k).v]))

(* flatten: set of <<path, leaf value>>; empty sub-dicts vanish *)
RECURSIVE Flat(_)
Flat(x) == UNION {IF IsDict(x.m[k]) THEN {<<<<k>> \o e[1], e[2]>> : e \in Flat(x.m[k])} ELSE {<<<<k>>, x.m[k].v>>}
                  : k \in DOMAIN x.m}

RECURSIVE Prune(_)      \* remove empty sub-dicts (recursively): what survives flatten
Prune(x) == IF ~IsDict(x) THEN x
            ELSE LET keep == {k \in DOMAIN x.m : ~IsDict(x.m[k]) \/ Flat(x.m[k]) # {}} IN
                 Dict([k \in keep |-> Prune(x.m[k])])

RECURSIVE FromFlat(_, _)
FromFlat(x, S) == IF S = {} THEN x
                  ELSE LET e == CHOOSE e \in S : TRUE IN FromFlat(Set(x, e[1], Leaf(e[2]), TRUE).v, S \ {e})

RECURSIVE Depth(_)
Depth(x) == IF ~IsDict(x) \/ DOMAIN x.m = {} THEN 0
            ELSE 1 + (CHOOSE n \in 0..10 : (\E k \in DOMAIN x.m : Depth(x.m[k]) = n) /\ (\A k \in DOMAIN x.m : Depth(x.m[k]) <= n))

------------------------------------------------------------------------------
RootTrees(n) == {x \in Trees(n) : IsDict(x)}
Init == /\ d \in RootTrees(DepthD) /\ o \in RootTrees(DepthO) /\ last = [op |-> "init"] /\ nops = 0
        /\ hist = <<[l |-> [op |-> "init", o |-> o], d |-> d]>>

Step(newd, l) == /\ d' = newd /\ last' = l /\ nops' = nops + 1 /\ UNCHANGED o
                 /\ hist' = Append(hist, [l |-> l, d |-> newd])

DoGet == \E p \in Paths(3) \cup {<<>>} : nops < MaxOps /\ Step(d, [op |-> "get", path |-> p, res |-> Get(d, p)])
DoGetDefault == \E p \in Paths(3) \cup {<<>>} : nops < MaxOps /\
                  Step(d, [op |-> "get_default", path |-> p, dflt |-> 99, res |-> GetD(d, p, Leaf(99))])
Values == {Leaf(v) : v \in Vals} \cup {Empty}
DoSet == \E p \in Paths(3), v \in Values, ins \in BOOLEAN : nops < MaxOps /\
           LET r == Set(d, p, v, ins) IN
           Step(IF r.k = "ok" THEN r.v ELSE d, [op |-> "set", path |-> p, val |-> v, ins |-> ins, res |-> IF r.k = "ok" THEN Ok(0) ELSE r])
DoUpdate == \E p1, p2 \in Paths(2), ins \in BOOLEAN : nops < MaxOps /\ p1 # p2 /\
              LET items == <<<<p1, Leaf(7)>>, <<p2, Leaf(8)>>>>
                  u == Update(d, items, ins) IN
              Step(u.tree, [op |-> "update", items |-> items, ins |-> ins, res |-> u.res])
DoMerge == \E c \in {"error", "first", "last"}, swap \in BOOLEAN : nops < MaxOps /\
             LET r == IF swap THEN Merge(o, d, c) ELSE Merge(d, o, c) IN
             Step(IF r.k = "ok" THEN r.v ELSE d, [op |-> "merge", conflict |-> c, swap |-> swap, res |-> IF r.k = "ok" THEN Ok(0) ELSE r])
DoFlatten == nops < MaxOps /\ Step(d, [op |-> "flatten", res |-> Flat(d)])
DoRebuild == nops < MaxOps /\ Step(d, [op |-> "rebuild", res |-> Prune(d)])    \* update_recursive({}, flatten(d))

Next == DoGet \/ DoGetDefault \/ DoSet \/ DoUpdate \/ DoMerge \/ DoFlatten \/ DoRebuild
Spec == Init /\ [][Next]_vars

------------------------------------------------------------------------------
RootIsDict == IsDict(d)
\* what was set can be read back
SetThenGet == [][(last'.op = "set" /\ last'.res.k = "ok") => Get(d', last'.path) = Ok(last'.val)]_vars
\* frame: a successful set changes nothing that is reachable by a path unrelated to the one set
Unrelated(p, q) == \E i \in 1..Len(p) : i <= Len(q) /\ p[i] # q[i]
SetFrame == [][(last'.op = "set" /\ last'.res.k = "ok") =>
                 \A q \in Paths(3) : Unrelated(last'.path, q) /\ Get(d, q).k = "ok" => Get(d', q) = Get(d, q)]_vars
\* a failed set leaves the options as they were
FailedSetNoChange == [][(last'.op = "set" /\ last'.res.k = "err") => d' = d]_vars
\* rebuilding from the flat form gives the tree without its empty sub-dicts
FlatRoundTrip == FromFlat(Empty, Flat(d)) = Prune(d)
\* merging: every leaf of the result comes from one of the operands; with "first"/"last" there is never an error;
\* merging a tree with itself changes nothing
MergeSelf == Merge(d, d, "error") = Ok(d)
MergeLeaves == \A c \in {"first", "last"} : LET r == Merge(d, o, c) IN
                 r.k = "ok" /\ Flat(r.v) \subseteq Flat(d) \cup Flat(o)
MergeLastWins == LET r == Merge(d, o, "last") IN \A e \in Flat(o) : Get(r.v, e[1]) = Ok(Leaf(e[2]))
MergeFirstWins == LET r == Merge(d, o, "first") IN \A e \in Flat(d) : Get(r.v, e[1]) = Ok(Leaf(e[2]))
Bounded == nops <= MaxOps
=============================================================================
