"""C20: caches and event dispatch obey their sequential spec under any schedule.

Stages: MC (Events, DictCacheSeq, CacheThreaded) + REPLAY of TLC behaviours into the real
EventHandler / DictCache over every storage class / ThreadedStorage under a forced scheduler.
"""
import os
import pickle
import shutil
import tempfile
import warnings

from harness import core, tlc, tlaval


# ------------------------------------------------------------------------------------------------
# Events
# ------------------------------------------------------------------------------------------------
EV_CONST = dict(Callbacks={'f', 'g', 'r', 'o'}, Returning={'r'}, OneShot={'o'}, Tags={0, 7}, Prios={0, 1}, MaxId=3, MaxOps=5)


def ev_cfg(maxops, maxid=3, prios=(0, 1)):
    c = dict(EV_CONST)
    c.update(MaxOps=maxops, MaxId=maxid, Prios=set(prios))
    return dict(spec='Spec', constants=c, invariants=['EmitOrder', 'UniqueIds'],
                properties=['DisconnectExact', 'EmitKeeps', 'LastEmitRight', 'EmitCallsAll'], view='AbsView')


def replay_events(ctx, hist, origin):
    # every history is replayed with two bindings of the result of the Returning callback: its name (truthy) and 0 (falsy but
    # not None) -- emit_until_result is documented to stop at the first result that `is not None`
    uses_result = any(st['l']['op'] == 'emit_until_result' for st in hist) and any(st['l'].get('cb') == 'r' for st in hist)
    return all([_replay_events(ctx, hist, origin, rv) for rv in (('r', 0) if uses_result else ('r',))])


def _replay_events(ctx, hist, origin, rv):
    from tenpy.tools.events import EventHandler
    calls = []
    cur = {}

    def mk(name):
        own = {}

        def cb(**kw):
            calls.append([name, kw.get('tag', 0)])
            if name == 'o':   # a one-shot listener: disconnects itself from the handler that is emitting
                cur['h'].disconnect(own['id'])
            return rv if name == 'r' else None
        cb.__name__ = name
        return cb, own
    H = {1: EventHandler()}
    for n, st in enumerate(hist):
        l, o = st['l'], st['o']
        op = l['op']
        got = None
        with warnings.catch_warnings(record=True) as w:
            warnings.simplefilter('always')
            if op == 'connect':
                cb, own = mk(l['cb'])
                kw = {'tag': l['kw']} if l['kw'] else None
                if l['form'] == 'decorator':
                    ret = H[l['h']].connect(priority=l['prio'], extra_kwargs=kw)(cb)
                else:
                    ret = H[l['h']].connect(cb, priority=l['prio'], extra_kwargs=kw)
                own['id'] = H[l['h']].id_of_last_connected
                got = dict(id=own['id'], returns_callback=ret is cb)
                exp = dict(id=l['id'], returns_callback=True)
            elif op == 'disconnect':
                H[l['h']].disconnect(l['id'])
                got = dict(found=not any('No listener' in str(x.message) for x in w))
                exp = dict(found=l['found'])
            elif op == 'emit':
                del calls[:]
                cur['h'] = H[l['h']]
                res = H[l['h']].emit()
                got = dict(calls=[list(c) for c in calls], nres=len(res))
                exp = dict(calls=[list(c) for c in l['calls']], nres=len(l['calls']))
            elif op == 'emit_until_result':
                del calls[:]
                cur['h'] = H[l['h']]
                res = H[l['h']].emit_until_result()
                got = dict(calls=[list(c) for c in calls], result='None' if res is None else ('r' if res is rv else res))
                exp = dict(calls=[list(c) for c in l['calls']], result=l['result'])
            elif op == 'copy':
                H[2] = H[1].copy()
                got = exp = {}
            else:
                raise core.MachineryError('unknown Events op %r' % op)
        # projection of the implementation state
        proj = {}
        for h in (1, 2):
            if h in H:
                proj[h] = sorted([x.listener_id, x.callback.__name__, x.priority, (x.extra_kwargs or {}).get('tag', 0)] for x in H[h].listeners)
            else:
                proj[h] = []
        spec_conn = {h: sorted(list(x) for x in o['connected'][h - 1]) for h in (1, 2)}
        ctx.case(('ev', origin, n, repr(l), rv), action='Events.' + op)
        if got != exp or proj != spec_conn:
            clause = 'result' if got != exp else 'connected-set'
            ctx.violation(dict(kind='replay', spec='Events', op=op, clause=clause, returning=repr(rv)),
                          dict(step=n, hist=tlaval.to_jsonable(hist), got=got, expected=exp, impl_connected=proj,
                               spec_connected=spec_conn))
            return False
    return True


# ------------------------------------------------------------------------------------------------
# DictCache over sequential storages
# ------------------------------------------------------------------------------------------------
def dc_cfg(maxops):
    return dict(spec='Spec', constants=dict(Keys={'a', 'b'}, Vals={1, 2}, MaxOps=maxops),
                invariants=['DictRefinement', 'ReadsLatest'], properties=['SubcacheIsolation'], view='AbsView')


def _storage_content(storage):
    """Projection: what is stored long-term, read without going through the cache."""
    from tenpy.tools import cache as tc
    if isinstance(storage, tc.ThreadedStorage):
        storage = storage.disk_storage
    if isinstance(storage, tc.Hdf5Storage):
        from tenpy.tools.hdf5_io import load_from_hdf5
        return {k: load_from_hdf5(storage.h5gr, k) for k in storage.h5gr.keys() if 'type' in storage.h5gr[k].attrs}
    if isinstance(storage, tc.PickleStorage):
        out = {}
        for fn in os.listdir(storage.directory):
            if fn.endswith(storage.extension):
                with open(os.path.join(storage.directory, fn), 'rb') as f:
                    out[fn[:-len(storage.extension)]] = pickle.load(f)
        return out
    return dict(storage.data)


def open_cache(kind, tmp):
    from tenpy.tools.cache import CacheFile
    if kind == 'Storage':
        return CacheFile.open()
    if kind == 'PickleStorage':
        return CacheFile.open('PickleStorage', directory=os.path.join(tmp, 'pc'))
    if kind == 'Hdf5Storage':
        with warnings.catch_warnings():
            warnings.simplefilter('ignore')
            return CacheFile.open('Hdf5Storage', filename=os.path.join(tmp, 'c.h5'))
    raise core.MachineryError(kind)


def _fn(v):
    """partial function from TLC (Fn, or list when domain is 1..n, or empty) -> dict"""
    if isinstance(v, dict):
        return dict(v)
    if isinstance(v, list):
        if not v:
            return {}
        raise core.MachineryError('unexpected sequence for partial function: %r' % (v,))
    raise core.MachineryError('bad fn %r' % (v,))


def replay_dictcache(ctx, hist, kind, origin):
    tmp = tempfile.mkdtemp(prefix='c20-', dir=tlc.scratch('c20tmp'))
    C = {}
    try:
        C['root'] = open_cache(kind, tmp)
        closed = False
        for n, st in enumerate(hist):
            l, o = st['l'], st['o']
            op = l['op']
            c = C.get(l.get('c'))
            got = None
            try:
                if op == 'set':
                    c[l['k']] = l['v']
                    got = ('ok', None)
                elif op == 'getitem':
                    got = ('val', c[l['k']])
                elif op == 'get':
                    r = c.get(l['k'])
                    got = ('default', None) if r is None else ('val', r)
                elif op == 'del':
                    del c[l['k']]
                    got = ('ok', None)
                elif op == 'pop':
                    got = ('val', c.pop(l['k']))
                elif op == 'observe':
                    keys = set(iter(c))
                    got = ('ok', (sorted(keys), len(c), sorted(k for k in ('a', 'b') if k in c)))
                elif op == 'set_short_term_keys':
                    c.set_short_term_keys(*sorted(l['keys']))
                    got = ('ok', None)
                elif op == 'preload':
                    c.preload(*sorted(l['keys']), raise_missing=l['rm'])
                    got = ('ok', None)
                elif op == 'create_subcache':
                    C['sub'] = C['root'].create_subcache('sub')
                    got = ('ok', None)
                elif op == 'close':
                    C['root'].close()
                    closed = True
                    got = ('ok', None)
                elif op == 'set_closed':
                    if bool(c):
                        got = ('still-open', None)
                    else:
                        c[l['k']] = 1
                        got = ('ok', None)
                else:
                    raise core.MachineryError('unknown DictCache op %r' % op)
            except KeyError:
                got = ('KeyError', None)
            except ValueError:
                got = ('ValueError', None)
            except Exception as e:  # any other exception of the code under test is an observable result
                got = (type(e).__name__, None)
            if op == 'observe':
                exp = ('ok', (sorted(l['keys']), l['len'], sorted(l['keys'])))
            elif op in ('getitem', 'get', 'pop'):
                exp = (l['res'], l['v'] if l['res'] == 'val' else None)
            else:
                exp = (l['res'], None)
            ok = (got == exp)
            clause = 'result'
            impl = {}
            if ok and not closed:
                # state projection
                for name, cache in C.items():
                    Dspec = _fn(o['D'][name])
                    impl[name] = dict(keys=sorted(cache.long_term_keys), store=_storage_content(cache.long_term_storage),
                                      stc=dict(cache.short_term_cache))
                    if set(cache.long_term_keys) != set(Dspec):
                        ok, clause = False, 'long_term_keys'
                    elif impl[name]['store'] != Dspec:
                        ok, clause = False, 'storage-content'
                    elif any(k not in Dspec or Dspec[k] != v for k, v in impl[name]['stc'].items()):
                        ok, clause = False, 'short_term_cache-stale'
            ctx.case(('dc', kind, origin, n, repr(l)), action='DictCache.' + op)
            if not ok:
                ctx.violation(dict(kind='replay', spec='DictCacheSeq', op=op, clause=clause, storage=kind),
                              dict(step=n, hist=tlaval.to_jsonable(hist), got=got, expected=exp, impl=impl,
                                   spec_obs=tlaval.to_jsonable(o)))
                return False
        return True
    finally:
        try:
            if C.get('root') is not None and bool(C['root']):
                C['root'].close()
        except Exception:
            pass
        shutil.rmtree(os.path.dirname(tmp), ignore_errors=True)


# ------------------------------------------------------------------------------------------------
def run_seq_part(ctx):
    quick = ctx.tier == 'quick'
    # ---- Events
    mcc = ev_cfg(4 if quick else 5)
    if quick:
        mcc['constants'] = dict(mcc['constants'], Callbacks={'f', 'r', 'o'})
    res, dump, d = tlc.mc('Events', mcc, dump=True)
    ctx.add_mc('Events', res)
    if res.violated:
        ctx.violation(dict(kind='mc', spec='Events', invariant=res.violated[0]),
                      dict(trace=tlaval.to_jsonable(res.error_trace)))
    nb = 0
    for st in tlaval.iter_dump(dump):
        if st['hist']:
            nb += 1
            replay_events(ctx, st['hist'], 'mc%d' % nb)
            if nb == 7:
                ctx.sample(dict(spec='Events', behaviour=tlaval.to_jsonable([x['l'] for x in st['hist']])))
    ctx.trace_ok(nb)
    shutil.rmtree(d, ignore_errors=True)
    # deeper random behaviours
    res, traces, d = tlc.simulate('Events', ev_cfg(12, maxid=6, prios=(0, 1, 2)), num=800 if quick else 6000, depth=13,
                                  seed=ctx.seed + 1, workers=4)
    for j, tr in enumerate(traces):
        hist = tr[-1][1]['hist']
        replay_events(ctx, hist, 'sim%d' % j)
    ctx.trace_ok(len(traces))
    shutil.rmtree(d, ignore_errors=True)

    # ---- DictCache
    res, dump, d = tlc.mc('DictCacheSeq', dc_cfg(4 if quick else 5), dump=True)
    ctx.add_mc('DictCacheSeq', res)
    if res.violated:
        ctx.violation(dict(kind='mc', spec='DictCacheSeq', invariant=res.violated[0]),
                      dict(trace=tlaval.to_jsonable(res.error_trace)))
    hists = [st['hist'] for st in tlaval.iter_dump(dump) if st['hist']]
    shutil.rmtree(d, ignore_errors=True)
    kinds = ['Storage', 'PickleStorage', 'Hdf5Storage']
    for j, h in enumerate(hists):
        # every behaviour on the trivial storage; a seeded share on the disk-backed ones
        replay_dictcache(ctx, h, 'Storage', 'mc%d' % j)
        if (j + ctx.seed) % (8 if quick else 2) == 0:
            replay_dictcache(ctx, h, 'PickleStorage', 'mc%d' % j)
        if (j + ctx.seed) % (40 if quick else 8) == 1:
            replay_dictcache(ctx, h, 'Hdf5Storage', 'mc%d' % j)
        if j == 11:
            ctx.sample(dict(spec='DictCacheSeq', behaviour=tlaval.to_jsonable([x['l'] for x in h])))
    ctx.trace_ok(len(hists))
    res, traces, d = tlc.simulate('DictCacheSeq', dc_cfg(14), num=60 if quick else 1500, depth=15, seed=ctx.seed + 2)
    for j, tr in enumerate(traces):
        hist = tr[-1][1]['hist']
        replay_dictcache(ctx, hist, kinds[j % 3], 'sim%d' % j)
    ctx.trace_ok(len(traces))
    shutil.rmtree(d, ignore_errors=True)


def check(ctx):
    ctx.rule = ('behaviours = operation sequences generated by TLC (state-cover dump of the exhaustive run + -simulate); '
                'a case is one replayed step; distinct = distinct (behaviour, step, operation record)')
    ctx.assume('TLC 1.8 model checker', 'projection functions in checks/c20.py (listeners list, long_term_keys, storage content)',
               'the specification modules Events, DictCacheSeq, CacheThreaded')
    run_seq_part(ctx)
    try:
        from checks import c20_threaded
    except ImportError:
        c20_threaded = None
    if c20_threaded is not None:
        c20_threaded.run(ctx)


if __name__ == '__main__':
    core.main_wrapper('C20', check)
