---------------------------- MODULE TraceTimeEvo ----------------------------
(* Trace validation for TimeEvo (C14): executions of the real tenpy engines, recorded by run-time
   interposition as ndjson (one event per line, many traces per file), are checked to be behaviours of
   TimeEvo with Acct = "spec".  Every event is mapped to the TimeEvo action of the same name with the
   *observed* arguments; after every event all invariants of TimeEvo are evaluated on the new state and
   the names of the broken ones are added to the verdict of the trace.  An event whose guard is false
   (the specification has no such step at this point) rejects the rest of the trace ("control").
   One PrintT line <<"VERDICT", tid, verdict>> per trace; verdict = {} means accepted. *)
EXTENDS TimeEvo, Json, IOUtils, TLCExt

Log == TLCEval(ndJsonDeserialize(IOEnv.TRACE_FILE))

VARIABLES l,        \* next line of the log
          verdict,  \* set of <<broken clause, event, line>>
          tid,      \* id of the current trace
          endl      \* line of the End event of the current trace

tvars == <<vars, l, verdict, tid, endl>>
Ev == Log[l]

TraceInit == Init /\ l = 1 /\ verdict = {} /\ tid = -1 /\ endl = 0

CfgOf(e) == [fam |-> e.fam, order |-> e.order, L |-> e.L, finite |-> e.finite, td |-> e.td,
             t0 |-> <<e.t0[1], e.t0[2]>>, zero |-> {}]

Accept(extra) == /\ l' = l + 1
                 /\ verdict' = verdict \cup {<<x, Ev.ev, l>> : x \in extra} \cup {<<n, Ev.ev, l>> : n \in Broken'}
                 /\ UNCHANGED <<tid, endl>>
Reject == /\ verdict' = verdict \cup {<<"control", Ev.ev, l>>}
          /\ l' = endl
          /\ UNCHANGED <<vars, tid, endl>>

TrBegin == /\ Ev.ev = "Begin"
           /\ SetUp(CfgOf(Ev))
           /\ l' = l + 1 /\ tid' = Ev.tid /\ endl' = Ev.end
           /\ verdict' = IF Ev.td /\ <<Ev.mt0[1], Ev.mt0[2]>> # <<Ev.t0[1], Ev.t0[2]>> THEN {<<"ModelTime", "Begin", l>>} ELSE {}

TrEnd == /\ Ev.ev = "End"
         /\ PrintT(<<"VERDICT", tid, verdict \cup (IF pc = "idle" THEN {} ELSE {<<"control", "End", l>>})>>)
         /\ l' = l + 1
         /\ UNCHANGED <<vars, verdict, tid, endl>>

TrRunBegin == Ev.ev = "RunBegin" /\ IF GRunBegin(Ev.N, Ev.k) THEN RunBegin(Ev.N, Ev.k) /\ Accept({}) ELSE Reject
TrRunEnd == Ev.ev = "RunEnd" /\ IF GRunEnd THEN RunEnd /\ Accept({}) ELSE Reject
TrRunEvoBegin == Ev.ev = "RunEvoBegin" /\ IF GRunEvoBegin(Ev.N, Ev.k) THEN RunEvoBegin(Ev.N, Ev.k) /\ Accept({}) ELSE Reject
TrPrepare == Ev.ev = "Prepare" /\ IF GPrepare(Ev.k, Ev.recalc) THEN Prepare(Ev.k, Ev.recalc) /\ Accept({}) ELSE Reject
TrCalcU == Ev.ev = "CalcU" /\
    IF GCalcU(Ev.k, Ev.imag, Ev.recalc) THEN CalcU(Ev.k, Ev.imag, Ev.recalc) /\ Accept({}) ELSE Reject
TrEvolveBegin == Ev.ev = "EvolveBegin" /\
    IF GEvolveBegin(Ev.N, Ev.k, Ev.sweep) THEN EvolveBegin(Ev.N, Ev.k, Ev.sweep) /\ Accept({}) ELSE Reject
TrStepBegin == Ev.ev = "StepBegin" /\ IF GStepBegin(Ev.uidx, Ev.odd) THEN StepBegin(Ev.uidx, Ev.odd) /\ Accept({}) ELSE Reject
TrUpdateBond == Ev.ev = "UpdateBond" /\
    IF GUpdateBond(Ev.b, Ev.err)
    THEN UpdateBond(Ev.b, Ev.uidx, Ev.dts, Ev.uk, <<Ev.umt[1], Ev.umt[2]>>, Ev.uim, Ev.err) /\ Accept({}) ELSE Reject
TrUpdateBondImag == Ev.ev = "UpdateBondImag" /\
    IF GUpdateBondImag(Ev.b, Ev.err)
    THEN UpdateBondImag(Ev.b, Ev.uidx, Ev.dts, Ev.uk, <<Ev.umt[1], Ev.umt[2]>>, Ev.uim, Ev.err) /\ Accept({}) ELSE Reject
TrApplyU == Ev.ev = "ApplyU" /\
    IF GApplyU(Ev.err) THEN ApplyU(Ev.dts, Ev.uk, <<Ev.umt[1], Ev.umt[2]>>, Ev.err) /\ Accept({}) ELSE Reject
TrStepEnd == Ev.ev = "StepEnd" /\ IF GStepEnd THEN StepEnd(Ev.hasret, FromRuns(Ev.ret)) /\ Accept({}) ELSE Reject
TrSweepBegin == Ev.ev = "SweepBegin" /\ IF GSweepBegin THEN SweepBegin /\ Accept({}) ELSE Reject
TrKrylov == Ev.ev = "Krylov" /\
    IF GKrylov(Ev.kind, Ev.x) THEN Krylov(Ev.kind, Ev.x, Ev.h, <<Ev.umt[1], Ev.umt[2]>>) /\ Accept({}) ELSE Reject
TrUpdateLocal == Ev.ev = "UpdateLocal" /\ IF GUpdateLocal(Ev.err) THEN UpdateLocal(Ev.i0, Ev.err) /\ Accept({}) ELSE Reject
TrSweepEnd == Ev.ev = "SweepEnd" /\ IF GSweepEnd THEN SweepEnd /\ Accept({}) ELSE Reject
TrEvolveEnd == Ev.ev = "EvolveEnd" /\
    IF GEvolveEnd THEN EvolveEnd(<<Ev.t[1], Ev.t[2]>>, Ev.hasret, FromRuns(Ev.ret)) /\ Accept({}) ELSE Reject
TrReinit == Ev.ev = "Reinit" /\ IF GReinit THEN Reinit(<<Ev.mt[1], Ev.mt[2]>>) /\ Accept({}) ELSE Reject
TrRunEvoEnd == Ev.ev = "RunEvoEnd" /\
    IF GRunEvoEnd
    THEN /\ RunEvoEnd(<<Ev.t[1], Ev.t[2]>>, Ev.hasrep, FromRuns(Ev.rep), Ev.ovok)
         /\ Accept(IF Ev.bad THEN {"ErrKind:undecodable"}
                   ELSE IF ~Ev.hasrep \/ BEq(last'.rep, terr') THEN {}
                   ELSE {"ErrKind:" \o ErrKind(last'.rep, performed')})
    ELSE Reject

TraceNext == l <= Len(Log) /\
    (\/ TrBegin \/ TrEnd \/ TrRunBegin \/ TrRunEnd \/ TrRunEvoBegin \/ TrPrepare \/ TrEvolveBegin \/ TrStepBegin
     \/ TrUpdateBond \/ TrApplyU \/ TrStepEnd \/ TrSweepBegin \/ TrKrylov \/ TrUpdateLocal \/ TrSweepEnd \/ TrEvolveEnd
     \/ TrReinit \/ TrRunEvoEnd \/ TrCalcU \/ TrUpdateBondImag)

TraceSpec == TraceInit /\ [][TraceNext]_tvars

\* the whole log is consumed (an unknown event name would stop TLC before the end)
Consumed == l = Len(Log) + 1
TraceDone == <>Consumed
=============================================================================
