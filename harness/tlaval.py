"""Parser for TLA+ values as printed by TLC (state dumps, simulation trace files, error traces).

Maps   <<a, b>> -> list        {a, b} -> Set (a list subclass, elements in TLC's order)
       [f |-> v] -> dict       (k :> v @@ ...) -> Fn (dict; tuple keys for <<..>> keys)
       "s" -> str   123/-1 -> int   TRUE/FALSE -> bool   modelvalue -> MV(str subclass)
"""
import re

_TOK = re.compile(r'''\s*(?:
    (?P<str>"(?:[^"\\]|\\.)*") |
    (?P<num>-?\d+) |
    (?P<lseq><<) | (?P<rseq>>>) |
    (?P<mapsto>\|->) | (?P<colgt>:>) | (?P<atat>@@) |
    (?P<dots>\.\.) |
    (?P<punc>[\[\]{}(),]) |
    (?P<id>[A-Za-z_][A-Za-z0-9_!]*)
)''', re.X)


class Set(list):
    pass


class Fn(dict):
    pass


class MV(str):
    pass


class ParseError(Exception):
    pass


def tokenize(s):
    pos = 0
    n = len(s)
    out = []
    while pos < n:
        m = _TOK.match(s, pos)
        if m is None:
            if s[pos:].strip() == '':
                break
            raise ParseError('cannot tokenize at %r' % s[pos:pos + 40])
        pos = m.end()
        k = m.lastgroup
        out.append((k, m.group(k)))
    return out


def _hashable(v):
    if isinstance(v, list):
        return tuple(_hashable(x) for x in v)
    if isinstance(v, dict):
        return tuple(sorted((k, _hashable(x)) for k, x in v.items()))
    return v


def _parse(toks, i):
    k, t = toks[i]
    if k == 'str':
        return bytes(t[1:-1], 'utf-8').decode('unicode_escape') if '\\' in t else t[1:-1], i + 1
    if k == 'num':
        # range a..b ?
        if i + 1 < len(toks) and toks[i + 1][0] == 'dots':
            b = int(toks[i + 2][1])
            return Set(range(int(t), b + 1)), i + 3
        return int(t), i + 1
    if k == 'id':
        if t == 'TRUE':
            return True, i + 1
        if t == 'FALSE':
            return False, i + 1
        return MV(t), i + 1
    if k == 'lseq':
        out = []
        i += 1
        while toks[i][0] != 'rseq':
            v, i = _parse(toks, i)
            out.append(v)
            if toks[i] == ('punc', ','):
                i += 1
        return out, i + 1
    if k == 'punc' and t == '{':
        out = Set()
        i += 1
        while toks[i] != ('punc', '}'):
            v, i = _parse(toks, i)
            out.append(v)
            if toks[i] == ('punc', ','):
                i += 1
        return out, i + 1
    if k == 'punc' and t == '[':
        out = {}
        i += 1
        while toks[i] != ('punc', ']'):
            name = toks[i][1]
            if toks[i + 1][0] != 'mapsto':
                raise ParseError('expected |-> after %r' % name)
            v, i = _parse(toks, i + 2)
            out[str(name)] = v
            if toks[i] == ('punc', ','):
                i += 1
        return out, i + 1
    if k == 'punc' and t == '(':
        out = Fn()
        i += 1
        while toks[i] != ('punc', ')'):
            key, i = _parse(toks, i)
            if toks[i][0] != 'colgt':
                raise ParseError('expected :> in function')
            v, i = _parse(toks, i + 1)
            out[_hashable(key)] = v
            if toks[i][0] == 'atat':
                i += 1
        return out, i + 1
    raise ParseError('unexpected token %r' % (toks[i],))


def parse_value(s):
    toks = tokenize(s)
    v, i = _parse(toks, 0)
    if i != len(toks):
        raise ParseError('trailing tokens: %r' % (toks[i:i + 5],))
    return v


_CONJ = re.compile(r'^/\\ (\w+) = ', re.M)


def parse_state(text):
    """text: lines '/\\ var = value' (value possibly spanning lines). Returns dict var->value."""
    out = {}
    ms = list(_CONJ.finditer(text))
    if not ms:
        # single variable specs print 'var = value'
        m = re.match(r'\s*(\w+) = ', text)
        if m:
            out[m.group(1)] = parse_value(text[m.end():])
            return out
        raise ParseError('no conjuncts in state: %r' % text[:80])
    for j, m in enumerate(ms):
        end = ms[j + 1].start() if j + 1 < len(ms) else len(text)
        out[m.group(1)] = parse_value(text[m.end():end])
    return out


_STATE_HDR = re.compile(r'^State (\d+):.*$', re.M)


def iter_dump(path):
    """Iterate over states of a `tlc -dump` file."""
    with open(path) as f:
        txt = f.read()
    ms = list(_STATE_HDR.finditer(txt))
    for j, m in enumerate(ms):
        end = ms[j + 1].start() if j + 1 < len(ms) else len(txt)
        yield parse_state(txt[m.end():end].strip())


_SIM_STATE = re.compile(r'^\\\* (.*?)\nSTATE_(\d+) ==\s*\n', re.M)


def parse_sim_trace(path):
    """Parse one file written by `tlc -simulate file=...`: list of (action_header, state dict)."""
    with open(path) as f:
        txt = f.read()
    ms = list(_SIM_STATE.finditer(txt))
    out = []
    for j, m in enumerate(ms):
        end = ms[j + 1].start() if j + 1 < len(ms) else len(txt)
        body = txt[m.end():end]
        body = body.split('\n\n')[0] if '\n\n' in body else body
        body = re.sub(r'^=+\s*$', '', body, flags=re.M).strip()
        hdr = m.group(1)
        am = re.match(r'<(\w+)', hdr)
        out.append((am.group(1) if am else hdr, parse_state(body)))
    return out


def to_jsonable(v):
    if isinstance(v, Fn):
        return {'$fn': [[to_jsonable(list(k) if isinstance(k, tuple) else k), to_jsonable(x)] for k, x in v.items()]}
    if isinstance(v, dict):
        return {k: to_jsonable(x) for k, x in v.items()}
    if isinstance(v, (list, tuple)):
        return [to_jsonable(x) for x in v]
    if isinstance(v, MV):
        return str(v)
    return v
