"""Shared helpers for the MPS checks (C07, C08, C09).

* building real tenpy objects (sites, MPS) from the data of a spec state (integer tensors, bond
  exponents, form labels, boundary condition, norm, bond charges);
* the *projection*: explicit numpy contraction of ``psi._B`` with the forms undone through ``psi._S`` and
  ``psi.form`` (never tenpy's own get_theta / get_full_wavefunction), in the spec's standard local basis
  (the order documented for ``conserve=None``; charge sorting of the sites is undone through ``site.perm``).

Conventions shared with spec/MPSState.tla
  site kinds   "H" SpinHalfSite (up, down), "F" FermionSite (empty, full), "T" SpinSite(S=1) (-1, 0, 1)
  cons         "none" | "U1" | "Z2"
  B[i][s][a][b]  Gaussian integer <<re, im>>, s physical index (1-based in TLA+), a / b left / right bond index
  Sx[b][k]     exponent e, the bond value is 2^e                      (b = 1..L+1 in TLA+)
  form[i]      "A" | "B" | "C" | "G" | "Th"
  psi          [shape |-> <<chiL, d_0, .., d_{n-1}, chiR>>, val |-> flat C-order sequence of <<re, im>>]
"""
import itertools
import warnings

import numpy as np

FORMS = {'A': (1.0, 0.0), 'B': (0.0, 1.0), 'C': (0.5, 0.5), 'G': (0.0, 0.0), 'Th': (1.0, 1.0)}
_site_cache = {}


def make_site(kind, cons):
    from tenpy.networks import site as ts
    key = (kind, cons)
    if key in _site_cache:
        return _site_cache[key]
    if kind == 'H':
        s = ts.SpinHalfSite(conserve={'none': None, 'U1': 'Sz', 'Z2': 'parity'}[cons])
    elif kind == 'F':
        s = ts.FermionSite(conserve={'none': None, 'U1': 'N', 'Z2': 'parity'}[cons])
    elif kind == 'T':
        s = ts.SpinSite(S=1.0, conserve={'none': None, 'U1': 'Sz', 'Z2': 'parity'}[cons])
    elif kind == 'E':
        assert cons == 'none'
        s = ts.SpinHalfFermionSite(cons_N=None, cons_Sz=None)
    else:
        raise ValueError('unknown site kind %r' % (kind,))
    _site_cache[key] = s
    return s


def make_sites(kinds, cons):
    return [make_site(k, cons) for k in kinds]


def std_to_impl(site):
    """m[std index] = index of that basis state in the site's (possibly charge-sorted) basis."""
    sub = getattr(site, 'sites', None)
    if sub is not None and hasattr(site, 'n_sites'):  # GroupedSite: std index = C-order over the sub-sites' std indices
        maps = [std_to_impl(s) for s in sub]
        dims = [len(m) for m in maps]
        out = np.zeros(int(np.prod(dims)), dtype=int)
        for n, idx in enumerate(itertools.product(*[range(d) for d in dims])):
            out[n] = site.leg.map_incoming_flat([int(maps[k][idx[k]]) for k in range(len(idx))])
        return out
    perm = np.asarray(site.perm)  # impl index k holds std state perm[k]
    inv = np.zeros(len(perm), dtype=int)
    inv[perm] = np.arange(len(perm))
    return inv


def gi(z):
    return complex(z[0], z[1])


def tensor_from_spec(t):
    """spec dense tensor [shape, val] -> complex ndarray"""
    shape = [int(x) for x in t['shape']]
    val = np.array([gi(z) for z in t['val']], dtype=complex)
    return val.reshape(shape)


def matrix_from_spec(m):
    return np.array([[gi(z) for z in row] for row in m], dtype=complex)


def B_from_spec(Bi):
    """B_i[s][a][b] -> ndarray (d, chiL, chiR) complex"""
    return np.array([[[gi(z) for z in row] for row in mat] for mat in Bi], dtype=complex)


def S_from_exp(e):
    return np.array([2.0 ** int(x) for x in e], dtype=np.float64)


def bond_leg(chinfo, charges, qconj, cons, bunch=False):
    from tenpy.linalg import np_conserved as npc
    if cons == 'none':
        return npc.LegCharge.from_trivial(len(charges), chinfo, qconj)
    leg = npc.LegCharge.from_qflat(chinfo, [[int(q)] for q in charges], qconj)
    return leg.bunch()[1] if bunch else leg


def npc_B(site, Bstd, qL, qR, cons, dtype, bunch=False):
    """npc B tensor (labels p, vL, vR) from a dense array in the standard local basis."""
    from tenpy.linalg import np_conserved as npc
    m = std_to_impl(site)
    Bimpl = np.zeros(Bstd.shape, dtype=dtype)
    for s in range(Bstd.shape[0]):
        Bimpl[m[s]] = Bstd[s].real if np.dtype(dtype).kind != 'c' else Bstd[s]
    ci = site.leg.chinfo
    legs = [site.leg, bond_leg(ci, qL, +1, cons, bunch), bond_leg(ci, qR, -1, cons, bunch)]
    return npc.Array.from_ndarray(Bimpl, legs, dtype=dtype, labels=['p', 'vL', 'vR'], raise_wrong_sector=True)


def build_mps(rec, cls=None, bunch=False):
    """rec: dict with keys bc, kinds, cons, form (list), Sx (list of L+1 exponent lists), B (list of
    B_i[s][a][b]), nrm (int), qb (list of L+1 charge lists; ignored for cons none).
    Uses the plain MPS constructor (no canonicalization)."""
    from tenpy.networks.mps import MPS
    cls = cls or MPS
    kinds = list(rec['kinds'])
    cons = rec['cons']
    sites = make_sites(kinds, cons)
    L = len(sites)
    Bs_std = [B_from_spec(b) for b in rec['B']]
    is_complex = any(np.any(b.imag != 0) for b in Bs_std)
    dtype = np.complex128 if is_complex else np.float64
    qb = rec.get('qb') or [[0] * Bs_std[0].shape[1]] + [[0] * b.shape[2] for b in Bs_std]
    Bs = [npc_B(sites[i], Bs_std[i], qb[i], qb[i + 1], cons, dtype, bunch) for i in range(L)]
    SVs = [S_from_exp(e) for e in rec['Sx']]
    with warnings.catch_warnings():
        warnings.simplefilter('ignore')
        psi = cls(sites, Bs, SVs, bc=rec['bc'], form=list(rec['form']), norm=float(rec.get('nrm', 1)),
                  unit_cell_width=L)
    return psi


def _B_std(psi, j):
    """stored tensor of site j (index in the unit cell) as ndarray (chiL, d, chiR) in the standard basis"""
    B = psi._B[j]
    arr = B.to_ndarray()
    lab = B.get_leg_labels()
    arr = np.transpose(arr, [lab.index('vL'), lab.index('p'), lab.index('vR')])
    m = std_to_impl(psi.sites[j])
    return arr[:, m, :]


def _bond_S(psi, b):
    """bond value array left of site b (any integer for infinite bc; 0..L for finite)"""
    L = psi.L
    if psi.bc == 'infinite':
        S = psi._S[b % L]
    else:
        S = psi._S[b]
    if S is None:
        raise ValueError('no singular values on bond %d' % b)
    return np.asarray(S, dtype=np.float64)


def gamma(psi, i):
    """Gamma_i = S_L^-nuL B_i S_R^-nuR from the stored data (ndarray chiL, d, chiR)"""
    L = psi.L
    j = i % L if psi.bc == 'infinite' else i
    f = psi.form[j]
    if f is None:
        raise ValueError('form None on site %d' % i)
    B = _B_std(psi, j)
    SL, SR = _bond_S(psi, i), _bond_S(psi, i + 1)
    if f[0] != 0.0:
        B = B * (SL ** (-f[0]))[:, None, None]
    if f[1] != 0.0:
        B = B * (SR ** (-f[1]))[None, None, :]
    return B


def bform(psi, i):
    """tensor of site i rescaled to form B = Gamma_i S_{i+1}: S_L^-nuL B_i S_R^(1-nuR) (no scaling for zero exponents,
    so exactly vanishing bond values -- enlarge_chi -- do no harm in form B)"""
    L = psi.L
    j = i % L if psi.bc == 'infinite' else i
    f = psi.form[j]
    if f is None:
        raise ValueError('form None on site %d' % i)
    B = _B_std(psi, j)
    if f[0] != 0.0:
        B = B * (_bond_S(psi, i) ** (-f[0]))[:, None, None]
    if f[1] != 1.0:
        B = B * (_bond_S(psi, i + 1) ** (1.0 - f[1]))[None, None, :]
    return B


def dense_from_mps(psi, first=0, n=None):
    """S_first Gamma_first S Gamma ... Gamma_{first+n-1} S_{first+n} as ndarray (chiL, d.., chiR); norm NOT included."""
    if n is None:
        n = psi.L
    T = np.diag(_bond_S(psi, first)).astype(complex)  # (chiL, chi)
    T = T.reshape(T.shape[0], 1, T.shape[1])  # (chiL, D, chi)
    dims = []
    for i in range(first, first + n):
        GS = bform(psi, i)
        T = np.tensordot(T, GS, axes=(2, 0))  # chiL, D, d, chiR
        T = T.reshape(T.shape[0], T.shape[1] * T.shape[2], T.shape[3])
        dims.append(GS.shape[1])
    return T.reshape([T.shape[0]] + dims + [T.shape[2]])


def state_tensor(psi, first=0, n=None):
    """dense_from_mps, for a segment MPS expressed in the original outer Schmidt bases (segment_boundaries)"""
    T = dense_from_mps(psi, first, n)
    U, V = getattr(psi, 'segment_boundaries', (None, None))
    if psi.bc == 'segment' and U is not None and first == 0 and (n is None or n == psi.L):
        T = np.tensordot(U.transpose(['vL', 'vR']).to_ndarray(), T, axes=(1, 0))
        T = np.tensordot(T, V.transpose(['vL', 'vR']).to_ndarray(), axes=(T.ndim - 1, 0))
    return T


def npc_to_std(arr, sites_by_label):
    """npc Array -> ndarray with physical legs (given as {label: site}) mapped to the standard basis;
    starred labels use the same map. Returns (ndarray, labels)."""
    a = arr.to_ndarray()
    lab = arr.get_leg_labels()
    for ax, l in enumerate(lab):
        base = l[:-1] if l.endswith('*') else l
        if base in sites_by_label:
            m = std_to_impl(sites_by_label[base])
            a = np.take(a, m, axis=ax)
    return a, lab


def op_npc(site, mat_std, labels=('p', 'p*')):
    """single-site operator given in the standard basis -> npc Array on `site`"""
    from tenpy.linalg import np_conserved as npc
    m = std_to_impl(site)
    d = len(m)
    M = np.zeros((d, d), dtype=complex)
    for a in range(d):
        for b in range(d):
            M[m[a], m[b]] = mat_std[a][b]
    if np.all(M.imag == 0):
        M = M.real.copy()
    return npc.Array.from_ndarray(M, [site.leg, site.leg.conj()], labels=list(labels))


def exact_equal(a, b):
    a = np.asarray(a)
    b = np.asarray(b)
    return a.shape == b.shape and bool(np.all(a == b))


def proportional(a, b, rtol=1e-9):
    """|<a|b>|^2 = <a|a><b|b> within rtol (and both non-zero)"""
    a = np.asarray(a).ravel()
    b = np.asarray(b).ravel()
    if a.shape != b.shape:
        return False, None
    aa = np.vdot(a, a).real
    bb = np.vdot(b, b).real
    ab = abs(np.vdot(a, b)) ** 2
    if aa == 0 or bb == 0:
        return False, (aa, bb, ab)
    return abs(ab - aa * bb) <= rtol * aa * bb, (aa, bb, ab)


def close(a, b, rtol=1e-9, scale=None):
    a = np.asarray(a, dtype=complex)
    b = np.asarray(b, dtype=complex)
    if a.shape != b.shape:
        return False
    if scale is None:
        scale = max(1.0, float(np.max(np.abs(b))) if b.size else 1.0)
    return bool(np.all(np.abs(a - b) <= rtol * scale))


# ------------------------------------------------------------------------------------------------
# replay of spec behaviours (shared by checks c07, c08, c09)
# ------------------------------------------------------------------------------------------------
LABELS = {'H': ['up', 'down'], 'F': ['empty', 'full'], 'T': ['-1.0', '0.0', '1.0'], 'E': ['empty', 'up', 'down', 'full']}


def rep_to_rec(rep, nrm=1):
    """spec representation record -> argument of build_mps"""
    S = [list(e) for e in rep['S']]
    if rep['bc'] == 'infinite':
        S = S + [S[0]]
    return dict(bc=rep['bc'], kinds=list(rep['kinds']), cons=rep['cons'], form=list(rep['form']), Sx=S,
                B=rep['B'], nrm=nrm, qb=[list(q) for q in rep['qb']])


def quiet(fn, *a, **kw):
    with warnings.catch_warnings():
        warnings.simplefilter('ignore')
        return fn(*a, **kw)


def dense_to_npc(P, sites, cons, qL=None, qR=None, with_outer=True):
    """dense tensor (chiL, d.., chiR) in the standard basis -> npc Array with labels vL, p0.., vR
    (outer legs dropped if with_outer is False; then chiL = chiR = 1 is required)"""
    from tenpy.linalg import np_conserved as npc
    n = len(sites)
    A = np.array(P)
    for k, s in enumerate(sites):
        m = std_to_impl(s)
        inv = np.zeros(len(m), dtype=int)
        inv[m] = np.arange(len(m))
        A = np.take(A, inv, axis=k + 1)   # impl index j holds std state inv[j]
    if np.all(A.imag == 0):
        A = A.real.copy()
    ci = sites[0].leg.chinfo
    legs = [s.leg for s in sites]
    labels = ['p%d' % k for k in range(n)]
    if with_outer:
        qL = qL if qL is not None else [0] * A.shape[0]
        qR = qR if qR is not None else [0] * A.shape[-1]
        legs = [bond_leg(ci, qL, +1, cons)] + legs + [bond_leg(ci, qR, -1, cons)]
        labels = ['vL'] + labels + ['vR']
    else:
        A = A.reshape(A.shape[1:-1])
    return npc.Array.from_ndarray(A, legs, labels=labels)


class Replay:
    """Steps one spec behaviour (hist) through real tenpy objects.  `handlers[op](self, l)` performs the
    operation and returns a dict describing what to compare; the state comparison after the step is common."""

    def __init__(self, ctx, spec, handlers, origin):
        self.ctx = ctx
        self.spec = spec
        self.handlers = handlers
        self.origin = origin
        self.psi = None
        self.aux = {}
        self.step = -1
        self.hist = None
        self.bc = None
        self.exp_norm = None
        self.alias_period = None   # enlarge_mps_unit_cell may store one tensor for the sites j, j + L_old
        self.jw_seen = False
        self.sign_free = False   # compare up to a global sign (documented loss of a global sign with JW strings)

    # -- reporting
    def violation(self, op, clause, detail, **sig):
        from . import tlaval
        s = dict(kind='replay', spec=self.spec, op=op, clause=clause, bc=self.bc)
        s.update(sig)
        d = dict(step=self.step, origin=self.origin, hist=tlaval.to_jsonable(self.hist[:self.step + 1]))
        d.update(detail)
        self.ctx.violation(s, d)

    def nwin(self):
        L = self.psi.L
        if self.psi.bc != 'infinite':
            return L
        return 2 * L if L <= 2 else L + 1

    def track_norm(self, l, o):
        """expected MPS.norm from the norm bookkeeping fields of the history record"""
        if o['mode'] == 'raw':
            self.exp_norm = float(o['nrm'])
        elif 'nabs' in l:
            self.exp_norm = float(np.sqrt(l['nabs'][0] / l['nabs'][1]))
        elif 'nfac' in l and self.exp_norm is not None:
            self.exp_norm = self.exp_norm * float(np.sqrt(l['nfac'][0] / l['nfac'][1]))
        if o['mode'] in ('unitnn', 'loose'):
            self.exp_norm = None

    def compare_state(self, op, o, exp, sig):
        """o: spec Obs (psi, nrm, mode).  raw: bit-exact; unit: direction, normalized tensors, tracked norm;
        unitnn: direction, normalized tensors; loose: direction"""
        psi = self.psi
        want = tensor_from_spec(o['psi'])
        try:
            got = state_tensor(psi, 0, self.nwin())
        except Exception as e:  # noqa
            self.violation(op, 'projection-failed', dict(error=repr(e)), **sig)
            return False
        if got.shape != want.shape and not (o['mode'] != 'raw' and got.size == want.size and got.shape[0] == want.shape[0]
                                            and got.shape[-1] == want.shape[-1]):
            self.violation(op, 'state-shape', dict(got=list(got.shape), expected=list(want.shape)), **sig)
            return False
        if o['mode'] == 'raw':
            if not np.all(got == want) and not (self.sign_free and np.all(got == -want)):
                self.violation(op, 'state', dict(got=_cl(got), expected=_cl(want)), **sig)
                return False
            if float(psi.norm) != float(o['nrm']):
                self.violation(op, 'norm', dict(got=float(psi.norm), expected=float(o['nrm'])), **sig)
                return False
            return True
        ok, data = proportional(got, want)
        if not ok:
            self.violation(op, 'state-proportional', dict(got=_cl(got), expected=_cl(want), inner=data), **sig)
            return False
        nimpl = float(np.linalg.norm(got.ravel()))
        if o['mode'] in ('unit', 'unitnn') and abs(nimpl - 1.0) > 1e-9:
            self.violation(op, 'tensors-normalized', dict(got=nimpl), **sig)
            return False
        if o['mode'] == 'unit' and self.exp_norm is not None:
            if abs(float(psi.norm) - self.exp_norm) > 1e-9 * max(1.0, abs(self.exp_norm)):
                self.violation(op, 'norm', dict(got=float(psi.norm), expected=self.exp_norm), **sig)
                return False
        if exp.get('vector_scale') is not None:
            w = want * exp['vector_scale'] * float(o['nrm'])
            g = got * float(psi.norm)
            if not close(g, w, 1e-9, max(1.0, float(np.max(np.abs(w))))):
                self.violation(op, 'state-vector', dict(got=_cl(g), expected=_cl(w)), **sig)
                return False
        return True

    def run(self, hist):
        self.hist = hist
        for n, st in enumerate(hist):
            self.step = n
            l, o = st['l'], st['o']
            op = l['op']
            h = self.handlers.get(op)
            if h is None:
                from . import core
                raise core.MachineryError('no replay handler for op %r' % op)
            held = None
            if self.psi is not None and n > 0:
                # tensors a caller may still reference (get_B(copy=False), copy() shares nothing): a transformation
                # has to replace stored tensors, not rescale them in place
                held = [(B, list(B.get_leg_labels()), B.to_ndarray().copy()) for B in self.psi._B]
            res = h(self, l, o)
            if res is False:
                return False
            res = res or {}
            sig = res.get('sig', {})
            if held is not None and not res.get('inplace_ok'):
                for k, (B, lab, old) in enumerate(held):
                    try:
                        now = B.transpose(lab).to_ndarray()
                    except Exception:  # labels / legs replaced: the object was re-used for something else
                        now = None
                    if now is None or now.shape != old.shape or not np.array_equal(now, old):
                        self.violation(op, 'stored-tensor-modified-in-place', dict(site=k), **sig)
                        return False
            self.ctx.case((self.spec, self.origin, n, op), action='%s.%s' % (self.spec, op))
            self.track_norm(l, o)
            # no two sites may share one stored tensor: a later in-place operation on one site (e.g. the rescaling in
            # canonical_form_infinite1) would silently change the other.  Reported once per behaviour, replay continues.
            al = aliased_tensors(self.psi, self.alias_period)
            if al:
                self.violation(op, 'aliased-tensors', dict(pairs=al), **sig)
                self.alias_period = 1
            if res.get('skip_state'):
                continue
            if not self.compare_state(op, o, res, sig):
                return False
        return True


def fingerprint(psi):
    """everything observable about an operand MPS: dense state, norm, forms, bond values, total charge, and per stored
    tensor its labels, total charge and leg charges"""
    legs = []
    for B in psi._B:
        legs.append((tuple(B.get_leg_labels()), tuple(int(q) for q in B.qtotal),
                     tuple((int(l.qconj), tuple(l.slices.tolist()), tuple(map(tuple, l.charges.tolist()))) for l in B.legs),
                     B.to_ndarray().tobytes()))
    return dict(state=state_tensor(psi, 0, psi.L).tobytes(), norm=float(psi.norm), form=tuple(psi.form),
                S=tuple(None if S is None else np.asarray(S).tobytes() for S in psi._S),
                qtotal=tuple(int(q) for q in psi.get_total_charge()), tensors=tuple(legs), ids=tuple(id(B) for B in psi._B))


def operand_changed(before, psi):
    """names of the observables of an operand that differ from the fingerprint taken before the operation"""
    after = fingerprint(psi)
    return sorted(k for k in before if before[k] != after[k])


def aliased_tensors(psi, period=None):
    """pairs of sites whose stored tensors share memory (a later in-place operation on one would change the other)"""
    out = []
    if psi is None:
        return out
    Bs = psi._B
    for i in range(len(Bs)):
        for j in range(i + 1, len(Bs)):
            if period and (j - i) % period == 0:
                continue
            if Bs[i] is Bs[j] or any(np.shares_memory(x, y) for x in Bs[i]._data for y in Bs[j]._data):
                out.append((i, j))
    return out


def _cl(a):
    a = np.asarray(a)
    return [[float(z.real), float(z.imag)] for z in a.ravel()[:64]]


# ---- constructors --------------------------------------------------------------------------------
def h_new(rp, l, o):
    rp.psi = build_mps(rep_to_rec(l['rep'], l['nrm']))
    rp.bc = l['rep']['bc']
    for b, e in enumerate(l['rep']['S']):
        if not exact_equal(np.asarray(rp.psi._S[b]), S_from_exp(e)):
            rp.violation('new', 'stored-S', dict(bond=b), cons=l['rep']['cons'])
            return False
    return dict(sig=dict(cons=l['rep']['cons']))


def _pstate(kind, how, vec):
    v = [gi(z) for z in vec]
    if how == 'array':
        return np.array(v)
    if how == 'array1':          # a basis state given as a 1D local wave function
        return np.array(v).real
    idx = [k for k, z in enumerate(v) if z != 0]
    assert len(idx) == 1
    return idx[0] if how == 'int' else LABELS[kind][idx[0]]


def h_product(rp, l, o):
    from tenpy.networks.mps import MPS
    kinds = list(l['kinds'])
    sites = make_sites(kinds, l['cons'])
    hows = list(l.get('hows') or [l['how']] * len(kinds))
    p_state = [_pstate(kinds[i], hows[i], l['vecs'][i]) for i in range(len(kinds))]
    cplx = l['how'] == 'array' and any(np.any(np.asarray(p).imag != 0) for p in p_state)
    if l['how'] == 'array' and not cplx:
        p_state = [np.asarray(p).real for p in p_state]
    rp.bc = l['bc']
    rp.psi = quiet(MPS.from_product_state, sites, p_state, bc=l['bc'], dtype=complex if cplx else float,
                   form=l['form'], unit_cell_width=len(kinds))
    return dict(sig=dict(how=l['how'], cons=l['cons']))


def h_latproduct(rp, l, o):
    from tenpy.networks.mps import MPS
    from tenpy.models.lattice import Chain, Ladder
    uk = list(l['ukinds'])
    sites = make_sites(uk, 'none')
    bc = l['bc']
    kw = dict(bc_MPS=bc, bc='periodic' if bc == 'infinite' else 'open')
    lat = Chain(l['nx'], sites[0], **kw) if l['nu'] == 1 else Ladder(l['nx'], sites, **kw)
    p_state = [[_pstate(uk[u], 'label', l['pstate'][x][u]) for u in range(l['nu'])] for x in range(l['tile'])]
    rp.bc = bc
    rp.psi = quiet(MPS.from_lat_product_state, lat, p_state)
    return dict(sig=dict(nu=l['nu'], tile=l['tile']))


def h_singlets(rp, l, o):
    from tenpy.networks.mps import MPS
    site = make_site('H', 'none' if (l['n'] + l['lonely_state']) % 2 else 'U1')
    rp.bc = 'finite'
    rp.psi = quiet(MPS.from_singlets, site, l['n'], [tuple(p) for p in l['pairs']], lonely=sorted(l['lonely']),
                   lonely_state=['up', 'down'][l['lonely_state']], bc='finite', unit_cell_width=l['n'])
    return dict(vector_scale=2.0 ** (-0.5 * l['npairs']), sig=dict(pairs=str(l['pairs'])))


def h_covering(rp, l, o):
    from tenpy.networks.mps import MPS
    locs = [build_mps(rep_to_rec(r, 1), bunch=True) for r in l['locals']]
    rp.bc = 'finite'
    rp.psi = quiet(MPS.from_product_mps_covering, locs, [tuple(m) for m in l['imap']], bc='finite', unit_cell_width=l['n'])
    srt = all(list(m) == sorted(m) for m in l['imap'])
    sig = dict(sorted_maps=srt, cons=l.get('cons', 'none'))
    # the stored bond values, each with the charge of its index, are the combinations of the local ones
    psi = rp.psi
    for b, bag in enumerate(l.get('Sbag', []), start=1):
        want = sorted((int(q), float(2.0 ** int(e))) for q, e in bag)
        q = psi._B[b].get_leg('vL').to_qflat()
        q = [int(x[0]) if len(x) else 0 for x in q]
        got = sorted(zip(q, [float(x) for x in np.asarray(psi._S[b])]))
        rp.ctx.case((rp.origin, rp.step, 'covering-S', b), action='%s.stored_S' % rp.spec)
        if got != want:
            rp.violation('from_product_mps_covering', 'stored-S-per-charge', dict(bond=b, got=got[:40], expected=want[:40]), **sig)
            return False
    return dict(sig=sig)


def h_from_full(rp, l, o):
    from tenpy.networks.mps import MPS
    src = l['src']
    sites = make_sites(list(src['kinds']), src['cons'])
    P = tensor_from_spec(o['psi'])
    bc = src['bc']
    rp.bc = bc
    qb = src['qb']
    T = dense_to_npc(P, sites, src['cons'], list(qb[0]), list(qb[-1]), with_outer=(bc == 'segment'))
    outer_S = (S_from_exp(src['S'][0]), S_from_exp(src['S'][-1])) if bc == 'segment' else None
    form = None if l['form'] == 'none' else l['form']
    rp.psi = quiet(MPS.from_full, sites, T, form=form, normalize=l['normalize'], bc=bc, outer_S=outer_S,
                   unit_cell_width=len(sites))
    return dict(sig=dict(form=l['form'], normalize=l['normalize'], cons=src['cons']))


def h_from_bflat(rp, l, o):
    from tenpy.networks.mps import MPS
    src = l['src']
    sites = make_sites(list(src['kinds']), src['cons'])
    Bs = [B_from_spec(b) for b in src['B']]
    if not any(np.any(b.imag != 0) for b in Bs):
        Bs = [b.real.copy() for b in Bs]
    SVs = [S_from_exp(e) for e in src['S']]
    rp.bc = src['bc']
    rp.psi = quiet(MPS.from_Bflat, sites, Bs, SVs, bc=src['bc'], permute=True, form=list(src['form']),
                   unit_cell_width=len(sites))
    sig = dict(cons=src['cons'], L=len(sites), inner_chi_1=all(b.shape[2] == 1 for b in Bs[:-1]))
    if src['bc'] == 'infinite':
        # canonical_form_infinite re-gauges the window: only the canonical form itself is claimed (to the precision
        # documented for canonical_form_infinite1, half the machine precision)
        if l['chimax'] > 1:
            nt = float(np.max(np.abs(quiet(rp.psi.norm_test))))
            if not nt < 1e-6:
                rp.violation('from_Bflat', 'not-canonical', dict(norm_test=nt, chi=list(rp.psi.chi)), **sig)
                return False
        return dict(sig=sig, skip_state=True)
    return dict(sig=sig)


# ---- form algebra ----------------------------------------------------------------------------------
def h_convert(rp, l, o):
    f = list(l['form'])
    quiet(rp.psi.convert_form, f[0] if len(set(f)) == 1 else f)
    return {}


def h_set_B(rp, l, o):
    psi = rp.psi
    i = l['i']
    j = i % psi.L
    B = B_from_spec(l['B'])
    site = psi.sites[j]
    dtype = np.complex128 if np.any(B.imag != 0) else np.float64
    arr = npc_B(site, B, [0] * B.shape[1], [0] * B.shape[2], 'none', dtype)
    psi.set_B(i, arr, form=l['form'])
    return dict(sig=dict(form=l['form']))


def B_std_from_npc(B, site):
    a, lab = npc_to_std(B, {'p': site})
    return np.transpose(a, [lab.index('p'), lab.index('vL'), lab.index('vR')])


def theta_std_from_npc(th, sites):
    n = len(sites)
    a, lab = npc_to_std(th, {'p%d' % k: sites[k] for k in range(n)})
    return np.transpose(a, [lab.index('vL')] + [lab.index('p%d' % k) for k in range(n)] + [lab.index('vR')])


def h_observe(rp, l, o):
    psi = rp.psi
    ok = True
    for (i, f), want in l['getB'].items():
        got = B_std_from_npc(quiet(psi.get_B, i, None if f == 'none' else f), psi.sites[i % psi.L])
        rp.ctx.case((rp.origin, rp.step, 'get_B', i, f), action='%s.get_B' % rp.spec)
        if not exact_equal(got, B_from_spec(want)):
            rp.violation('get_B', 'value', dict(i=i, form=f, got=_cl(got), expected=_cl(B_from_spec(want))),
                         form=f, outside_unit_cell=not (0 <= i < psi.L))
            ok = False
    for (i, n, fl, fr), want in l['theta'].items():
        got = theta_std_from_npc(quiet(psi.get_theta, i, n, formL=fl / 2.0, formR=fr / 2.0),
                                 [psi.sites[(i + k) % psi.L] for k in range(n)])
        rp.ctx.case((rp.origin, rp.step, 'get_theta', i, n, fl, fr), action='%s.get_theta' % rp.spec)
        if not exact_equal(got, tensor_from_spec(want)):
            rp.violation('get_theta', 'value', dict(i=i, n=n, formL=fl / 2.0, formR=fr / 2.0, got=_cl(got),
                                                    expected=_cl(tensor_from_spec(want))),
                         n1_nondefault_form=(n == 1 and (fl, fr) != (2, 2)))
            ok = False
    for name, fn in (('SL', psi.get_SL), ('SR', psi.get_SR)):
        tab = l[name]
        items = tab.items() if isinstance(tab, dict) else enumerate(tab)
        for i, want in items:
            if not isinstance(tab, dict):
                i = i  # sequence: domain 1..n can not occur (site indices start at 0 or below)
            got = np.asarray(fn(i))
            rp.ctx.case((rp.origin, rp.step, name, i), action='%s.get_%s' % (rp.spec, name))
            if not exact_equal(got, S_from_exp(want)):
                rp.violation('get_' + name, 'value', dict(i=i, got=got.tolist(), expected=S_from_exp(want).tolist()))
                ok = False
    return dict(skip_state=False) if ok else False


def schmidt_checks(rp, psi, rho, op, sig):
    """rho: {k: exact reduced density matrix of the cut after k axes of the state tensor}"""
    ok = True
    items = rho.items() if isinstance(rho, dict) else [(k + 1, m) for k, m in enumerate(rho)]
    ent2 = {}
    for k, m in items:
        M = matrix_from_spec(m)
        b = k - 1  # bond index
        S = np.asarray(psi._S[b % len(psi._S)], dtype=float)
        tr1 = np.trace(M).real
        for p in (1, 2, 3):
            want = np.trace(np.linalg.matrix_power(M, p)).real / tr1 ** p
            got = float(np.sum(S ** (2 * p)))
            rp.ctx.case((rp.origin, rp.step, 'schmidt', k, p), action='%s.schmidt_moment' % rp.spec)
            if abs(got - want) > 1e-9:
                rp.violation(op, 'schmidt-moment', dict(bond=b, power=p, got=got, expected=want, S=S.tolist()), **sig)
                ok = False
        ent2[b] = -np.log(np.trace(M @ M).real / tr1 ** 2)
    bonds = sorted(ent2)
    e2 = quiet(psi.entanglement_entropy, n=2, bonds=bonds)
    e1 = quiet(psi.entanglement_entropy, bonds=bonds)
    spec_ = quiet(psi.entanglement_spectrum)
    nt = psi.nontrivial_bonds
    for x, b in enumerate(bonds):
        S = np.asarray(psi._S[b], dtype=float)
        S2 = S[S > 1e-30] ** 2
        if abs(e2[x] - ent2[b]) > 1e-8 or abs(e1[x] - float(-np.sum(S2 * np.log(S2)))) > 1e-9:
            rp.violation(op, 'entanglement-entropy', dict(bond=b, renyi2=float(e2[x]), expected_renyi2=float(ent2[b]),
                                                          vN=float(e1[x])), **sig)
            ok = False
        es = np.asarray(spec_[b - nt.start])
        if not np.allclose(np.sort(es), np.sort(-2.0 * np.log(S)), atol=1e-9):
            rp.violation(op, 'entanglement-spectrum', dict(bond=b, got=es.tolist()), **sig)
            ok = False
    return ok


def spectrum_by_charge(rp, psi, rhoq, op, sig):
    """entanglement_spectrum(by_charge=True): per bond and charge sector, sum S^2 and sum S^4 of that sector are the
    traces of the exact reduced density matrix restricted to the rows of that charge"""
    items = rhoq.items() if isinstance(rhoq, dict) else [(k + 1, m) for k, m in enumerate(rhoq)]
    if not items:
        return True
    spec_ = quiet(psi.entanglement_spectrum, by_charge=True)
    nt = psi.nontrivial_bonds
    mod2 = psi.chinfo.mod[0] == 2 if psi.chinfo.qnumber else False
    for k, rec in items:
        b = k - 1
        M = matrix_from_spec(rec['rho'])
        q = np.array([int(x) for x in rec['q']])
        tr = np.trace(M).real
        want = {}
        for c in sorted(set(q.tolist())):
            sub = M[np.ix_(q == c, q == c)]
            w1, w2 = np.trace(sub).real / tr, np.trace(sub @ sub).real / tr ** 2
            if w1 > 1e-13:
                want[c] = (w1, w2)
        got = {}
        for ch, xi in spec_[b - nt.start]:
            c = int(ch[0]) % 2 if mod2 else int(ch[0])
            p = np.exp(-np.asarray(xi))
            a = got.get(c, (0.0, 0.0))
            got[c] = (a[0] + float(np.sum(p)), a[1] + float(np.sum(p ** 2)))
        got = {c: v for c, v in got.items() if v[0] > 1e-13}
        rp.ctx.case((rp.origin, rp.step, 'spectrum-by-charge', b), action='%s.entanglement_spectrum_by_charge' % rp.spec)
        if set(got) != set(want) or any(abs(got[c][0] - want[c][0]) > 1e-9 or abs(got[c][1] - want[c][1]) > 1e-9 for c in want):
            rp.violation(op, 'entanglement-spectrum-by-charge', dict(bond=b, got={str(c): v for c, v in got.items()},
                                                                      expected={str(c): v for c, v in want.items()}),
                         last_bond=(b == psi.L), **sig)
            return False
    return True


def h_canonical(rp, l, o):
    psi = rp.psi
    quiet(psi.canonical_form, renormalize=l['renormalize'])
    sig = dict(renormalize=l['renormalize'])
    exp = dict(sig=sig)
    if not l['renormalize'] and o['mode'] == 'unit' and l['nfac'][1] == 1 and rp.hist[rp.step - 1]['o']['mode'] == 'raw':
        exp['vector_scale'] = 1.0   # the norm is tracked: norm * tensors = nrm * psi as vectors
    nt = float(np.max(np.abs(quiet(psi.norm_test))))
    if nt > 1e-9:
        rp.violation('canonical_form', 'norm_test', dict(norm_test=nt), **sig)
        return False
    if not schmidt_checks(rp, psi, l['rho'], 'canonical_form', sig):
        return False
    if not spectrum_by_charge(rp, psi, l.get('rhoq', []), 'canonical_form', sig):
        return False
    return exp


BASE_HANDLERS = {
    'new': h_new, 'from_product_state': h_product, 'from_lat_product_state': h_latproduct,
    'from_singlets': h_singlets, 'from_product_mps_covering': h_covering, 'from_full': h_from_full,
    'from_Bflat': h_from_bflat, 'convert_form': h_convert, 'set_B': h_set_B, 'observe': h_observe,
    'canonical_form': h_canonical,
}
