"""C11: MPO algebra equals operator algebra.

MC      spec/MPOAlgebra.tla: two operator slots, one action per MPO method, the dense operator of each slot as abstract
        state; properties of the algebra (dagger involution, U_I(0) = 1 and U_I'(0) = H, ...)
REPLAY  every TLC behaviour is stepped through real tenpy MPO objects: after every step both slots are projected to
        dense matrices (explicit contraction of the W tensors) and compared with the spec state; query results
        (is_hermitian, is_equal, overlap, expectation_value, variance, apply_*, make_U_I, make_U_II) are compared with
        the exact values / relations computed by TLC.
"""
import os
import shutil
import warnings

import numpy as np

from harness import core, tlc, tlaval
from harness import models as hm

WORKERS = int(os.environ.get('VERIF_TLC_WORKERS', '8'))


# ------------------------------------------------------------------------------------------------
# no TLC process may outlive the check: explicit timeouts on every run, and all descendants are killed on exit /
# SIGTERM / SIGINT / SIGHUP (a killed check must not leave a JVM behind)
# ------------------------------------------------------------------------------------------------
TLC_TIMEOUT = int(os.environ.get('VERIF_TLC_TIMEOUT', '1500'))
# recursive operators on matrices of a few hundred entries need more than the default thread stack of the JVM
JVM_ENV = dict(JAVA_TOOL_OPTIONS='-Xss32m')


def _descendants(pid):
    kids = {}
    for name in os.listdir('/proc'):
        if name.isdigit():
            try:
                with open('/proc/%s/stat' % name) as f:
                    fields = f.read().rsplit(')', 1)[1].split()
                kids.setdefault(int(fields[1]), []).append(int(name))
            except (OSError, IndexError, ValueError):
                pass
    out, todo = [], [pid]
    while todo:
        for k in kids.get(todo.pop(), []):
            out.append(k)
            todo.append(k)
    return out


def _kill_children(*_sig):
    import signal
    for k in _descendants(os.getpid()):
        try:
            os.kill(k, signal.SIGKILL)
        except OSError:
            pass
    if _sig:  # called as a signal handler: terminate with the conventional status
        os._exit(128 + _sig[0])


def _install_reaper():
    import atexit
    import signal
    atexit.register(_kill_children)
    for s in (signal.SIGTERM, signal.SIGINT, signal.SIGHUP):
        try:
            signal.signal(s, _kill_children)
        except (ValueError, OSError):
            pass

TOL = 1e-9


def alg_cfg(configs, maxops, catlimit, props=True):
    return dict(spec='Spec', constants=dict(Configs='<-' + configs, MaxOps=maxops, CatLimit=catlimit),
                invariants=['UIFirstOrder'] if props else [], properties=['DaggerInvolution', 'HermitianSum'] if props else [],
                view='AbsView')


def g(z):
    return complex(z[0], z[1])


class Impl:
    """The real objects behind the two slots."""

    def __init__(self, cfg):
        self.cfg = cfg
        self.cells = cfg['cells'] if cfg['mps'] == 'infinite' else 1
        self.infinite = cfg['mps'] == 'infinite'
        self.slots = {}
        self.sites = None

    def dense(self, s):
        H = self.slots.get(s)
        if H is None:
            return None
        A = hm.dense_from_mpo(H, self.cells)
        if H.explicit_plus_hc:
            A = A + A.conj().T
        return A

    def state(self, st):
        """sparse amplitude list -> (normalised MPS, dense normalised vector)"""
        from tenpy.networks.mps import MPS
        import tenpy.linalg.np_conserved as npc
        sites = self.sites
        dims = [s.dim for s in sites]
        D = int(np.prod(dims))
        v = np.zeros(D, dtype=complex)
        for idx, amp in st:
            v[idx] += g(amp)
        if len(st) == 1:
            digits = np.unravel_index(st[0][0], dims)
            psi = MPS.from_product_state(sites, [int(x) for x in digits], bc='finite')
        else:
            arr = npc.Array.from_ndarray_trivial(v.reshape(dims), labels=['p%d' % i for i in range(len(dims))])
            psi = MPS.from_full(sites, arr, normalize=True)
        return psi, v / np.linalg.norm(v)


def full_vector(psi):
    """Contract the B tensors of a finite MPS (form 'B' as stored after apply_naively / compression) times its norm."""
    th = psi.get_theta(0, psi.L)
    th = th.itranspose(['vL'] + ['p%d' % i for i in range(psi.L)] + ['vR']).to_ndarray()
    return th.reshape(-1) * psi.norm


def remake_with_end_markers(H):
    """The same W tensors, but IdL / IdR only known at the two ends and max_range unknown."""
    from tenpy.networks.mpo import MPO
    L = H.L
    IdL = [H.IdL[0]] + [None] * (L - 1) + [H.IdL[L] if H.bc == 'infinite' else None]
    IdR = [H.IdR[0] if H.bc == 'infinite' else None] + [None] * (L - 1) + [H.IdR[L]]
    return MPO(H.sites, [H.get_W(i, copy=True) for i in range(L)], H.bc, IdL, IdR, max_range=None,
               mps_unit_cell_width=H.unit_cell_width)


def remake_from_W_tensors(H):
    """The same W tensors and markers handed to the plain MPO constructor: the range of the terms is unknown."""
    from tenpy.networks.mpo import MPO
    return MPO(H.sites, [H.get_W(i, copy=True) for i in range(H.L)], H.bc, list(H.IdL), list(H.IdR), max_range=None,
               mps_unit_cell_width=H.unit_cell_width)


def viol(ctx, l, clause, hist, step, cfg, **detail):
    sig = dict(kind='replay', spec='MPOAlgebra', op=l['op'], clause=clause, mps=cfg['mps'], site=cfg['uc'][0])
    if 'method' in l:
        sig['method'] = l['method']
    if 'markers' in l:
        sig['markers'] = l['markers']
    if 'combine' in l:
        sig['combine'] = bool(l['combine'])
    for k in ('cause',):
        if k in detail:
            sig[k] = detail[k]
    ctx.violation(sig, dict(step=step, cfg=tlaval.to_jsonable(cfg), hist=tlaval.to_jsonable([x['l'] for x in hist]), **detail))


def close(a, b, scale=1.0):
    return abs(a - b) <= TOL * max(1.0, scale, abs(b))


def replay(ctx, cfg, hist, key):
    """Step one behaviour through real MPO objects.  Returns False at the first divergence."""
    from tenpy.networks import mpo as tmpo
    im = Impl(cfg)
    marks = {}
    for n, st in enumerate(hist):
        l, o = st['l'], st['o']
        op = l['op']
        ctx.case(('c11', key, n, repr(l)), action='C11.' + op)
        try:
            with warnings.catch_warnings():
                warnings.simplefilter('ignore')
                ok = step(ctx, im, marks, l, hist, n, cfg)
        except core.MachineryError:
            raise
        except Exception as e:
            cause = type(e).__name__ + ('-dt0' if op == 'make_U_II' and l['dt'] == [0, 0] else '')
            if op in ('termlist_roundtrip', 'termlist_roundtrip_rev'):
                # classification only: __add__ / plus_identity store IdR as negative indices
                H_ = im.slots.get(l['s'])
                if H_ is not None and any(x is not None and x < 0 for x in H_.IdR):
                    cause = 'negative-IdR-index'
            viol(ctx, l, 'exception', hist, n, cfg, error=repr(e), cause=cause)
            return False
        if not ok:
            return False
        # state projection: both slots
        for s in ('A', 'B'):
            exp = o[s]
            got = im.dense(s)
            if exp['n'] == 0:
                if got is not None:
                    raise core.MachineryError('slot filled in the implementation but not in the spec')
                continue
            E = hm.dense_of_sparse(exp)
            exact = op in ('make', 'make_pair', 'add', 'dagger', 'copy', 'sort_legcharges', 'group_sites') or op.startswith('is_')
            good = got is not None and got.shape == E.shape and (np.array_equal(got, E) if exact else
                                                                hm.max_abs_diff(got, E) <= TOL * max(1.0, np.max(np.abs(E))))
            # max_range: None when the spec says "unknown"; never shorter than the longest term
            if op != 'group_sites':
                mr = im.slots[s].max_range
                if (not st['o']['rng'][s]['rk'] and mr is not None) or (mr is not None and mr < st['o']['rng'][s]['tr']):
                    viol(ctx, l, 'max_range', hist, n, cfg, got=str(mr), spec=st['o']['rng'][s], slot=s)
                    return False
            if not good:
                again = op == 'plus_identity' and any(h['l']['op'] == 'plus_identity' and h['l']['s'] == l['s'] for h in hist[:n])
                viol(ctx, l, 'slot', hist, n, cfg, first_differences=hm.first_diffs(got, E) if got is not None else None,
                     cause='input-is-result-of-plus_identity' if again else 'other')
                return False
    return True


# constants of the truncation relations (calibrated margins; SVD compression works in canonical form, zip-up does not)
TRUNC_C = {'SVD': dict(upper=2.0, lower=1.0), 'zip_up': dict(upper=10.0, lower=4.0)}


def apply_truncated(ctx, l, hist, n, cfg, H, psi2, w):
    """MPO.apply under genuine truncation, as two-sided relations between the exact O|psi> (spec), the returned state and
    the reported truncation error eps:
       LB  <=  |O psi - result|^2 / |O psi|^2  <=  upper * eps        and        eps >= LB / lower
    LB = max over the bonds of the weight of the Schmidt values beyond chi_max of O|psi> (Eckart-Young; from the exact
    Gram matrices supplied by the spec): no state of bond dimension chi_max is closer, and at least that weight had to
    be discarded."""
    meth, chi = l['method'], l['chi']
    n2 = float(np.linalg.norm(w) ** 2)
    LB = 0.0
    for G in l['gram']:
        Gm = np.array([[g(z) for z in row] for row in G])
        ev = np.sort(np.linalg.eigvalsh(Gm))[::-1]
        LB = max(LB, float(np.sum(ev[chi:])) / float(l['den']) / n2)     # the Gram matrices belong to the unnormalised O v
    options = dict(compression_method=meth, m_temp=int(l['m_temp']), trunc_params=dict(chi_max=int(chi)))
    err = H.apply(psi2, options)
    got = full_vector(psi2)
    rel = float(np.linalg.norm(got - w) ** 2) / n2
    eps = float(err.eps)
    c = TRUNC_C[meth]
    detail = dict(rel_error=rel, reported_eps=eps, eckart_young_bound=LB, chi_result=[int(x) for x in psi2.chi])
    if max(psi2.chi) > chi:
        viol(ctx, l, 'truncated-bond-dimension', hist, n, cfg, **detail)
        return False
    if rel < LB - 1e-9:
        viol(ctx, l, 'truncated-better-than-optimal', hist, n, cfg, **detail)
        return False
    if LB <= 1e-12 and meth == 'SVD':      # (zip-up truncates in a non-canonical gauge: it may discard weight needlessly)
        if rel > 1e-8:
            viol(ctx, l, 'applied-state', hist, n, cfg, cause='no-truncation-needed', **detail)
            return False
        return True
    if LB > 1e-12 and eps < LB / c['lower'] - 1e-12:
        viol(ctx, l, 'truncation-error-underreported', hist, n, cfg, **detail)
        return False
    if rel > c['upper'] * eps + 1e-9:
        viol(ctx, l, 'truncation-error-does-not-cover-deviation', hist, n, cfg, **detail)
        return False
    return True


def step(ctx, im, marks, l, hist, n, cfg):
    from tenpy.networks import mpo as tmpo
    op = l['op']
    cells = im.cells
    if op == 'make':
        M = hm.build_model(cfg, l['decls'])
        H = M.H_MPO
        im.sites = M.lat.mps_sites()
        if l['markers'] == 'ends':
            H = remake_with_end_markers(H)
        elif l['markers'] == 'wt':
            H = remake_from_W_tensors(H)
        im.slots[l['s']] = H
        return True
    if op == 'make_pair':
        for s_, ds in (('A', l['declsA']), ('B', l['declsB'])):
            M = hm.build_model(cfg, ds)
            im.sites = M.lat.mps_sites()
            im.slots[s_] = remake_from_W_tensors(M.H_MPO) if s_ == 'B' and l.get('markersB') == 'wt' else M.H_MPO
        return True
    if op == 'add':
        im.slots[l['s']] = im.slots['A'] + im.slots['B']
        return True
    if op == 'dagger':
        im.slots[l['s']] = im.slots[l['s']].dagger()
        return True
    if op == 'plus_identity':
        im.slots[l['s']] = im.slots[l['s']].plus_identity(g(l['alpha']), g(l['beta']))
        return True
    if op == 'copy':
        im.slots[l['s']] = im.slots[l['s']].copy()
        return True
    if op == 'sort_legcharges':
        H = im.slots[l['s']].copy()
        H.sort_legcharges()
        im.slots[l['s']] = H
        return True
    if op == 'group_sites':
        H = im.slots[l['s']].copy()
        H.group_sites(2)
        # keep the ungrouped object for later steps (sites differ); compare the grouped one right here
        A = hm.dense_from_mpo(H, cells)
        B = im.dense(l['s'])
        if not np.array_equal(A, B):
            viol(ctx, l, 'grouped-operator', hist, n, cfg, first_differences=hm.first_diffs(A, B))
            return False
        return True
    if op in ('termlist_roundtrip', 'termlist_roundtrip_rev'):
        H = im.slots[l['s']]
        start = None if op == 'termlist_roundtrip' else list(range(H.L))[::-1]
        tl = H.to_TermList(['Id', 'Sigmax', 'Sigmay', 'Sigmaz'], start=start)
        G = tmpo.MPOGraph.from_term_list(tl, H.sites, H.bc, unit_cell_width=H.unit_cell_width)
        im.slots[l['s']] = G.build_MPO()
        return True
    H = im.slots.get(l.get('s'))
    if op == 'is_hermitian':
        kw = dict(max_range=im.cells * H.L) if im.infinite and H.max_range is None else {}
        got = bool(H.is_hermitian(**kw))
        if got != l['res']:
            viol(ctx, l, 'truth-value', hist, n, cfg, got=got, expected=l['res'])
            return False
        return True
    if op == 'is_equal':
        HA, HB = im.slots['A'], im.slots['B']
        zero = not np.any(im.dense('A')) and not np.any(im.dense('B'))
        for first, second, which in ((HA, HB, 'A.is_equal(B)'), (HB, HA, 'B.is_equal(A)')):
            # unknown max_range (markers only at the ends): the documented default window is L + 2 L sites; the caller
            # has to say how far the terms reach
            kw = {}
            if im.infinite and None in (first.max_range, second.max_range):
                # documented default for an unknown range: L + 2 * max(L, known ranges) sites; used as is when this is
                # the window of the spec, otherwise the caller says how far the terms reach
                known = [r for r in (first.max_range, second.max_range) if r is not None]
                if first.L + 2 * max([first.L] + known) != im.cells * first.L:
                    kw = dict(max_range=im.cells * first.L)
            got = bool(first.is_equal(second, **kw))
            if got != l['res']:
                # classification only: the window is chosen from the max_range of the first operand alone
                longer = (im.infinite and first.max_range is not None and second.max_range is not None
                          and second.max_range > first.max_range)
                viol(ctx, l, 'truth-value', hist, n, cfg, got=got, expected=l['res'], which=which,
                     cause='both-zero' if zero else ('other-operand-has-longer-range' if longer else 'other'))
                return False
            if im.infinite:
                # the overlap on the default window (num_sites=None) must at least be defined for every pair of operands
                try:
                    first.overlap(second, understood_infinite=True)
                except TypeError as e:
                    viol(ctx, l, 'overlap-default-window', hist, n, cfg, error=repr(e), which=which,
                         cause='other-max_range-unknown' if second.max_range is None else 'other')
                    return False
        return True
    if op == 'overlap':
        A, B = im.slots['A'], im.slots['B']
        ov = complex(A.overlap(B))
        exp = g(l['res'])
        if not close(ov, exp):
            viol(ctx, l, 'overlap', hist, n, cfg, got=str(ov), expected=str(exp))
            return False
        d = float(A.distance(B))
        d2 = float(l['dist2'])
        if not close(d, np.sqrt(d2)):
            viol(ctx, l, 'distance', hist, n, cfg, got=d, expected=float(np.sqrt(d2)),
                 cause='returns-squared-distance' if close(d, d2) else 'other')
            return False
        return True
    if op == 'expectation_value':
        psi, v = im.state(l['state'])
        num, den, num2 = g(l['num']), float(l['den']), g(l['num2'])
        exp = num / den
        got = complex(H.expectation_value(psi))
        if not close(got, exp):
            viol(ctx, l, 'expectation_value', hist, n, cfg, got=str(got), expected=str(exp))
            return False
        got_f = complex(H.expectation_value_finite(psi))
        if not close(got_f, exp):
            viol(ctx, l, 'expectation_value_finite', hist, n, cfg, got=str(got_f), expected=str(exp))
            return False
        var_exp = num2 / den - exp ** 2
        got_v = complex(H.variance(psi))
        if not close(got_v, var_exp, scale=abs(num2 / den)):
            viol(ctx, l, 'variance', hist, n, cfg, got=str(got_v), expected=str(var_exp))
            return False
        return True
    if op == 'apply':
        psi, v = im.state(l['state'])
        w = np.array([g(z) for z in l['w']]) / np.sqrt(float(l['den']))
        meth = l['method']
        psi2 = psi.copy()
        if meth == 'naive':
            H.apply_naively(psi2)
            got = full_vector(psi2)
            exact = len(l['state']) == 1
            if not (np.array_equal(got, w) if exact else np.max(np.abs(got - w)) <= TOL * max(1.0, np.max(np.abs(w)))):
                viol(ctx, l, 'applied-state', hist, n, cfg, got=[str(x) for x in got], expected=[str(x) for x in w])
                return False
            return True
        if not np.any(w):
            return True  # O|v> = 0 cannot be normalised by the compression methods
        if l.get('chi', 0) > 0:
            return apply_truncated(ctx, l, hist, n, cfg, H, psi2, w)
        options = dict(compression_method=meth, combine=bool(l.get('combine', False)), trunc_params=dict(chi_max=64, svd_min=1e-14),
                       max_sweeps=8, min_sweeps=2, tol_theta_diff=1e-12, start_env_sites=0, m_temp=4, trunc_weight=1.0)
        err = H.apply(psi2, options)
        got = full_vector(psi2)
        resid = float(np.linalg.norm(got - w) ** 2)
        eps = float(getattr(err, 'eps', 0.0))
        scale = float(np.linalg.norm(w) ** 2)
        if not resid <= (abs(eps) + 1e-8) * max(1.0, scale):
            # classification only: the variational sweep starts from psi itself
            orth = abs(np.vdot(v, w)) <= 1e-12 * max(1.0, np.sqrt(scale))
            guess = 'product-state-guess' if len(l['state']) == 1 else 'entangled-guess'
            viol(ctx, l, 'applied-state', hist, n, cfg, residual=resid, reported_eps=eps, norm2=scale,
                 cause=guess + ('-orthogonal-to-target' if orth else ''))
            return False
        return True
    if op == 'make_U_I':
        U = H.make_U_I(g(l['dt']))
        got = hm.dense_from_mpo(U, cells)
        exp = hm.dense_of_sparse(l['U'])
        if not np.array_equal(got, exp):
            viol(ctx, l, 'propagator', hist, n, cfg, first_differences=hm.first_diffs(got, exp))
            return False
        return True
    if op == 'make_U_I_of_sum':
        U = (im.slots['A'] + im.slots['B']).make_U_I(g(l['dt']))
        got = hm.dense_from_mpo(U, cells)
        exp = hm.dense_of_sparse(l['U'])
        if not np.array_equal(got, exp):
            viol(ctx, l, 'propagator', hist, n, cfg, first_differences=hm.first_diffs(got, exp), IdL=str(U.IdL), IdR=str(U.IdR))
            return False
        return True
    if op == 'prefactor':
        got = complex(H.prefactor(int(l['i']), [str(x) for x in l['ops']]))
        exp = g(l['num']) / float(l['den'])
        if not close(got, exp):
            viol(ctx, l, 'prefactor', hist, n, cfg, got=str(got), expected=str(exp))
            return False
        return True
    if op == 'make_U_II_order':
        Hd = im.dense(l['s'])
        ph = g(l['ph'])
        scale = max(1.0, float(np.max(np.sum(np.abs(Hd), axis=1))))
        errs = []
        for k in (int(l['k']), int(l['k']) + 1):
            h = 2.0 ** -k
            dt = ph * h
            if dt.imag == 0:
                dt = float(dt.real)      # real dtype: imaginary-time evolution with either sign
            Up = hm.dense_from_mpo(H.make_U_II(dt), cells)
            Um = hm.dense_from_mpo(H.make_U_II(-dt), cells)
            D1 = (Up - Um) / (2 * dt) - Hd
            errs.append(float(np.max(np.abs(D1))) if np.all(np.isfinite(D1)) else float('nan'))
        h0 = 2.0 ** -int(l['k'])
        ok = all(np.isfinite(e) for e in errs) and errs[0] <= 4.0 * scale ** 3 * h0 ** 2 + 1e-12 \
            and errs[1] <= 0.5 * errs[0] + 1e-12
        if not ok:
            viol(ctx, l, 'propagator-order', hist, n, cfg, errors=errs, bound=4.0 * scale ** 3 * h0 ** 2,
                 cause='nan' if not all(np.isfinite(e) for e in errs) else 'order')
            return False
        return True
    if op == 'make_U_II':
        dt = g(l['dt'])
        U = H.make_U_II(dt)
        got = hm.dense_from_mpo(U, cells)
        exp = np.diag(np.exp(dt * np.array([g(z) for z in l['diag']]))) if dt != 0 else np.eye(len(l['diag']))
        if hm.max_abs_diff(got, exp.astype(complex)) > TOL:
            viol(ctx, l, 'propagator', hist, n, cfg, first_differences=hm.first_diffs(got, exp.astype(complex)))
            return False
        return True
    raise core.MachineryError('unknown MPOAlgebra op %r' % op)


# ------------------------------------------------------------------------------------------------
def run_mc(ctx, name, configs, maxops, catlimit, stride):
    res, dump, d = tlc.mc('MPOAlgebra', alg_cfg(configs, maxops, catlimit), dump=True, workers=WORKERS, timeout=TLC_TIMEOUT, env=JVM_ENV)
    ctx.add_mc(name, res)
    if res.violated:
        ctx.violation(dict(kind='mc', spec='MPOAlgebra', invariant=res.violated[0]), dict(trace=tlaval.to_jsonable(res.error_trace)[-3:]))
    n = nrep = 0
    for st in tlaval.iter_dump(dump):
        if not st['hist']:
            continue
        n += 1
        # binary operations are rare among the reachable states: always replayed; the rest is sampled
        rare = st['hist'][-1]['l']['op'] in ('is_equal', 'overlap', 'add')
        if (n + ctx.seed) % stride and not rare:
            continue
        nrep += 1
        replay(ctx, st['cfg'], st['hist'], (name, n))
        if nrep in (7, 200):
            ctx.sample(dict(spec='MPOAlgebra', cfg=tlaval.to_jsonable(st['cfg']), behaviour=tlaval.to_jsonable([x['l'] for x in st['hist']])))
    ctx.trace_ok(nrep)
    shutil.rmtree(d, ignore_errors=True)
    return res


def run_sim(ctx, configs, num, depth):
    res, traces, d = tlc.simulate('MPOAlgebra', alg_cfg(configs, depth, 0, props=False), num=max(1, num // 4), depth=depth + 1,
                                  seed=ctx.seed + 3, workers=4, timeout=TLC_TIMEOUT, env=JVM_ENV)
    shutil.rmtree(d, ignore_errors=True)
    n = 0
    for j, tr in enumerate(traces):
        st = tr[-1][1]
        if st['hist']:
            n += 1
            replay(ctx, st['cfg'], st['hist'], ('sim', j))
    if n == 0:
        raise core.MachineryError('simulation produced no behaviour')
    ctx.trace_ok(n)


def run_canary(ctx):
    """A corrupted predicted operator must be rejected by the replay."""
    import contextlib
    import io
    cfg = dict(name='Chain', Lx=3, Ly=1, bcx='open', bcy='open', mps='finite', uc=['spin'], cells=1)
    d = dict(kind='onsite', s=dict(shape=[1, 1], vals=[[3, 0]]), u=0, op='Sigmaz', hc=False)
    M = hm.build_model(cfg, [d])
    A = hm.dense_from_mpo(M.H_MPO)
    e = [[int(r), int(c), int(A[r, c].real), 0] for r, c in np.argwhere(A != 0)]
    e[0][2] += 1
    hist = [dict(l=dict(op='make', s='A', decls=[d], markers='all'), o=dict(A=dict(n=8, e=e), B=dict(n=0, e=[]), rng=dict(A=dict(rk=True, tr=0), B=dict(rk=True, tr=0))))]
    sub = core.Ctx('C11-canary', tier=ctx.tier, seed=ctx.seed)
    sub.known = []
    with contextlib.redirect_stdout(io.StringIO()):
        replay(sub, cfg, hist, 'canary')
    for v in sub.violations:
        try:
            os.remove(v['path'])
        except OSError:
            pass
    ctx.notes['canary'] = dict(rejected=len(sub.violations))
    if len(sub.violations) != 1:
        raise core.MachineryError('canary: corrupted expected operator was not rejected')


def check(ctx):
    _install_reaper()
    quick = ctx.tier == 'quick'
    ctx.rule = ('a case = one replayed step of a TLC behaviour (an MPO method applied to real MPO objects, both operator slots '
                'projected to dense matrices and the method result compared); distinct = distinct (behaviour, step, operation record)')
    ctx.assume('TLC model checker', 'projection functions in harness/models.py (contraction of W tensors)',
               'specification modules Exact, Dense, ModelTerms, MPOAlgebra',
               'compression methods are checked as relations: |O psi - result|^2 <= reported eps + 1e-8 (no truncation requested)')
    only = ctx.only
    if not only or 'mc' in only:
        res = run_mc(ctx, 'MPOAlgebra-depth2', 'ConfigsMC' if quick else 'ConfigsQuick', 2, 1, 6 if quick else 3)  # limited operator catalogue
        # (with the query actions added in the adversarial rounds the exhaustive run over ConfigsFull / the full catalogue no
        # longer finishes within the time-out; the larger lattices are sampled by the simulation stage below)
        runs = [res]
        # is_equal / is_hermitian with the documented default window for an operand of unknown range (L + 2 L sites)
        runs.append(run_mc(ctx, 'MPOAlgebra-window', 'ConfigsBig', 2, 1, 1))
        cov = {}
        for r in runs:
            for a, (dd, t) in r.coverage.items():
                cov[a] = cov.get(a, 0) + dd
        missing = [a for a in ('Setup', 'Make', 'MakePair', 'Add', 'Dagger', 'PlusIdentity', 'Represent', 'QHermitian', 'QEqual', 'QOverlap',
                               'QExpect', 'QApply', 'QUI', 'QUII') if cov.get(a, 0) == 0]
        if missing:
            raise core.MachineryError('actions never taken in the MC runs (vacuous): %r' % missing)
    if not only or 'sim' in only:
        run_sim(ctx, 'ConfigsQuick' if quick else 'ConfigsFull', 48 if quick else 600, 6)
    if not only or 'canary' in only:
        run_canary(ctx)
    ctx.exhaustive = False


if __name__ == '__main__':
    core.main_wrapper('C11', check)
