--------------------------- MODULE CacheThreaded ---------------------------
(* tenpy.tools.cache.CacheFile/DictCache over a ThreadedStorage (tenpy/tools/cache.py) whose disk
   input/output is done by the background thread of tenpy.tools.thread.Worker -- under every
   interleaving of the two threads at the points where they synchronise.

   Two processes, written with explicit program counters, statement by statement like the code:

   Main   (variable m, a record: pc + everything only the main thread touches) executes a program of
          DictCache operations (chosen one at a time at pc = "idle").  One step of Main = ONE
          synchronisation primitive (the "yield point" the process is parked at) followed by the
          thread-local code up to the next primitive:
             idle : op.begin            start of the next public operation
             pt1..pt3                   Worker.put_task  : exit.is_set ; thread.is_alive ; tasks.put | Full -> pt1
             jt1..jt5                   Worker.join_tasks: is_set ; is_alive ; tasks.join ; is_set ; is_alive
             ld1 ld4 ld6 ld7 ld8        ThreadedStorage.load : `k in _loaded` (x3: if / if / assert),
                                        _loaded[k], del _loaded[k]
             pl1                        ThreadedStorage.preload : `k in _loaded`
             sv2 sv3                    ThreadedStorage.save when k is waiting for load: assert k in _loaded ; _loaded[k] = v
             cl1 cl2 cl3                Worker.__exit__ : thread.is_alive ; exit.set ; thread.join  (+ disk close)
   Worker (pcW, task, wres) is Worker.run:
             w0  exit.is_set            -> wd1 (return -> finally: drain) | w1
             w1  tasks.get(timeout)     -> w2 | Empty -> w0
             w2  fct(args)             disk.load / disk.save / disk.delete ; may raise -> wf1
             w3  return_dict[key] = res
             w4  tasks.task_done        -> w0
             wf1 tasks.task_done        (the `finally` after an exception)
             wf2 exit.set               (`except Exception`)
             wd1 tasks.empty            -> wend | wd2
             wd2 tasks.get ; wd3 tasks.task_done -> wd1
             wend                       thread ends: is_alive() becomes False

   Time-outs (Full in put, Empty in get) are modelled as what happens when the process is scheduled
   while the queue is really full / empty, so they cannot produce unfair spurious livelocks.

   (No `hist` variable / VIEW as in the sequential modules: a behaviour here has 30-60 steps and the
   harness needs the full predicted state after every one of them, so the check dumps the state
   graph (`-dump dot`) and walks paths of it instead; `last` makes the edges self-describing.)

   D is the abstract dictionary of the property ("behaves like a dictionary"), a history variable
   updated when an operation returns.  `last` describes the step that led to the current state, so
   that every edge of the state graph is a self-describing schedule entry for the replay harness
   (harness/dst.py forces the real threads through exactly these steps and compares the state
   after every one of them). *)
EXTENDS Naturals, Sequences, FiniteSets, TLC

CONSTANTS Keys, Vals,
          Caches,         \* {"root"} or {"root", "sub"}: sub = root.create_subcache(..), shares the worker
          MaxOps,         \* bound on the number of operations of the program
          QMax,           \* Worker(max_queue_size=QMax)
          MaxFail,        \* number of disk operations that may be made to raise (0 or 1)
          OpKinds,        \* subset of {"set","getitem","get","del","contains","stk","preload"}
          PreloadSeqs,    \* key sequences offered to preload(keys...)
          AfterCloseOps   \* BOOLEAN: may the program go on after close()

NoVal == 0
WorkerErrors == {"WorkerDied", "AssertionError"}
Errors == WorkerErrors \cup {"ValueError"}

VARIABLES
    \* shared between the threads
    q,        \* Seq(task)            Worker.tasks (queue.Queue, FIFO, maxsize QMax)
    unf,      \* Nat                  Queue.unfinished_tasks
    exit,     \* BOOLEAN              Worker.exit (threading.Event)
    alive,    \* BOOLEAN              Worker.worker_thread.is_alive()
    loaded,   \* loaded[c]: partial function  ThreadedStorage._loaded (written by both threads)
    disk,     \* disk[c]  : partial function  what the disk storage holds
    dopen,    \* BOOLEAN              disk storage open
    \* main thread
    m,
    \* worker thread
    pcW, task, wres,
    \* failure injection / bookkeeping
    fails,    \* number of injected failures so far
    failed,   \* a disk operation has raised
    natfail,  \* a disk operation raised without being made to (load of a key that is not there)
    \* history
    D, broken, closed, nops, last

sh == <<q, unf, exit, alive, loaded, disk, dopen>>
wk == <<pcW, task, wres, fails, failed, natfail>>
hv == <<D, broken, closed, nops>>
vars == <<q, unf, exit, alive, loaded, disk, dopen, m, pcW, task, wres, fails, failed, natfail, D, broken, closed, nops, last>>

Empty == [k \in {} |-> NoVal]
Put(f, k, v) == [x \in DOMAIN f \cup {k} |-> IF x = k THEN v ELSE f[x]]
Drop(f, k) == [x \in DOMAIN f \ {k} |-> f[x]]
Restrict(f, S) == [x \in DOMAIN f \cap S |-> f[x]]
Range(s) == {s[i] : i \in 1..Len(s)}

AKey == CHOOSE k \in Keys : TRUE
NoTask == [op |-> "none", c |-> "root", k |-> AKey, v |-> NoVal]
MkOp(o, c, k, v, ks, S, rm) == [op |-> o, c |-> c, k |-> k, v |-> v, ks |-> ks, S |-> S, rm |-> rm]
NoOp == MkOp("none", "root", AKey, NoVal, <<>>, {}, FALSE)
CloseOp == MkOp("close", "root", AKey, NoVal, <<>>, {}, FALSE)

RegularOps ==
    {MkOp("set", c, k, v, <<>>, {}, FALSE) : c \in Caches, k \in Keys, v \in Vals}
    \cup {MkOp(o, c, k, NoVal, <<>>, {}, FALSE) : o \in {"getitem", "get", "del", "contains"}, c \in Caches, k \in Keys}
    \cup {MkOp("stk", c, AKey, NoVal, <<>>, S, FALSE) : c \in Caches, S \in SUBSET Keys}
    \cup {MkOp("preload", c, AKey, NoVal, ks, {}, rm) : c \in Caches, ks \in PreloadSeqs, rm \in BOOLEAN}
Ops == {o \in RegularOps : o.op \in OpKinds}

\* values for the constant PreloadSeqs (cfg files cannot hold sequences: PreloadSeqs <- PL1 ...)
PL1 == {<<k>> : k \in Keys}
PL2 == PL1 \cup {s \in [1..2 -> Keys] : s[1] # s[2]}
PLmin == {<<AKey>>} \cup {s \in [1..2 -> Keys] : s[1] = AKey /\ s[2] # AKey}

-----------------------------------------------------------------------------
\* Main thread: thread-local code as pure operators on the record m
Cc(mm) == mm.op.c
Kk(mm) == IF mm.op.op = "preload" THEN mm.op.ks[mm.i] ELSE mm.op.k
MkTask(o, mm, v) == [op |-> o, c |-> Cc(mm), k |-> Kk(mm), v |-> v]

\* the operation returns r / raises r  (the other fields are dead from here on: reset)
Finish(mm, r, v) == [mm EXCEPT !.pc = "idle", !.fin = TRUE, !.res = r, !.val = v,
                               !.task = NoTask, !.ret = "none", !.data = NoVal, !.i = 1]
PutTask(mm, t, ret) == [mm EXCEPT !.pc = "pt1", !.task = t, !.ret = ret, !.needw = TRUE]
JoinTasks(mm, ret) == [mm EXCEPT !.pc = "jt1", !.ret = ret, !.needw = TRUE]

RECURSIVE PreloadLoop(_), AfterStorage(_, _), StPreload(_)

\* long_term_storage.load/save/delete/preload returned (data = what load returned): rest of the DictCache method
AfterStorage(mm, data) ==
    LET c == Cc(mm)
        o == mm.op
    IN CASE o.op = "set" ->
              Finish([mm EXCEPT !.stc[c] = IF o.k \in mm.stk[c] THEN Put(@, o.k, o.v) ELSE @], "ok", NoVal)
         [] o.op \in {"getitem", "get"} ->
              Finish([mm EXCEPT !.stc[c] = IF o.k \in mm.stk[c] THEN Put(@, o.k, data) ELSE @], "val", data)
         [] o.op = "del" ->
              Finish([mm EXCEPT !.stc[c] = Drop(@, o.k)], "ok", NoVal)
         [] o.op = "preload" ->
              PreloadLoop([mm EXCEPT !.i = @ + 1])

\* ThreadedStorage.preload(key): `if key in self._waiting_for_load or key in self._loaded: return`
StPreload(mm) ==
    IF Kk(mm) \in mm.wait[Cc(mm)] THEN AfterStorage(mm, NoVal) ELSE [mm EXCEPT !.pc = "pl1"]

\* DictCache.preload: second loop
PreloadLoop(mm) ==
    IF mm.i > Len(mm.op.ks) THEN Finish(mm, "ok", NoVal)
    ELSE IF mm.op.ks[mm.i] \notin mm.ltk[Cc(mm)]
         THEN IF mm.op.rm THEN Finish(mm, "KeyError", NoVal) ELSE PreloadLoop([mm EXCEPT !.i = @ + 1])
         ELSE StPreload(mm)

\* ThreadedStorage.save(key, value)
StSave(mm) ==
    IF Kk(mm) \in mm.wait[Cc(mm)] THEN JoinTasks(mm, "sv2")
    ELSE PutTask(mm, MkTask("save", mm, mm.op.v), "sret")

\* ThreadedStorage.load: `assert key in self._waiting_for_load`
AssertWaiting(mm) ==
    IF Kk(mm) \in mm.wait[Cc(mm)] THEN [mm EXCEPT !.pc = "ld4"] ELSE Finish(mm, "AssertionError", NoVal)

\* put_task / join_tasks returned normally
Cont(mm) ==
    CASE mm.ret = "sret" -> AfterStorage(mm, NoVal)
      [] mm.ret = "ldaw" -> AssertWaiting(mm)
      [] mm.ret = "ld6"  -> [mm EXCEPT !.pc = "ld6"]
      [] mm.ret = "sv2"  -> [mm EXCEPT !.pc = "sv2"]

\* a public operation starts: code up to its first synchronisation primitive
Begin(mm0, o) ==
    LET c == o.c
        k == o.k
        mm == [mm0 EXCEPT !.op = o, !.needw = FALSE, !.i = 1, !.dab = failed /\ exit]
    IN CASE o.op = "set" -> StSave([mm EXCEPT !.ltk[c] = @ \cup {k}])
         [] o.op = "getitem" ->
              IF k \in DOMAIN mm.stc[c] THEN Finish(mm, "val", mm.stc[c][k])
              ELSE IF k \notin mm.ltk[c] THEN Finish(mm, "KeyError", NoVal)
              ELSE [mm EXCEPT !.pc = "ld1"]
         [] o.op = "get" ->
              IF k \notin mm.ltk[c] THEN Finish(mm, "default", NoVal)
              ELSE IF k \in DOMAIN mm.stc[c] THEN Finish(mm, "val", mm.stc[c][k])
              ELSE [mm EXCEPT !.pc = "ld1"]
         [] o.op = "del" ->
              IF k \in mm.ltk[c]
              THEN PutTask([mm EXCEPT !.ltk[c] = @ \ {k}], MkTask("delete", mm, NoVal), "sret")
              ELSE Finish([mm EXCEPT !.stc[c] = Drop(@, k)], "ok", NoVal)
         [] o.op = "contains" -> Finish(mm, IF k \in mm.ltk[c] THEN "true" ELSE "false", NoVal)
         [] o.op = "stk" -> Finish([mm EXCEPT !.stk[c] = o.S, !.stc[c] = Restrict(@, o.S)], "ok", NoVal)
         [] o.op = "preload" -> PreloadLoop([mm EXCEPT !.stk[c] = @ \cup Range(o.ks)])
         [] o.op = "close" ->       \* Storage._common_close, then Worker.__exit__
              IF ~mm.opened THEN Finish(mm, "ValueError", NoVal)
              ELSE [mm EXCEPT !.opened = FALSE, !.pc = "cl1"]

\* ThreadedStorage.close after the worker is gone: disk_storage.close(), _loaded.clear(),
\* _waiting_for_load.clear(); CacheFile.close: short_term_cache.clear()
CloseFinish(mm) ==
    Finish([mm EXCEPT !.wait["root"] = {}, !.stc["root"] = Empty], "ok", NoVal)

-----------------------------------------------------------------------------
Init ==
    /\ q = <<>> /\ unf = 0 /\ exit = FALSE /\ alive = TRUE
    /\ loaded = [c \in Caches |-> Empty]
    /\ disk = [c \in Caches |-> Empty]
    /\ dopen = TRUE
    /\ m = [pc |-> "idle", ret |-> "none", op |-> NoOp, task |-> NoTask, i |-> 1, data |-> NoVal,
            needw |-> FALSE, dab |-> FALSE, fin |-> FALSE, res |-> "none", val |-> NoVal, opened |-> TRUE,
            ltk |-> [c \in Caches |-> {}], stc |-> [c \in Caches |-> Empty],
            stk |-> [c \in Caches |-> {}], wait |-> [c \in Caches |-> {}]]
    /\ pcW = "w0" /\ task = NoTask /\ wres = NoVal
    /\ fails = 0 /\ failed = FALSE /\ natfail = FALSE
    /\ D = [c \in Caches |-> Empty] /\ broken = FALSE /\ closed = FALSE /\ nops = 0
    /\ last = [p |-> "-", lab |-> "init", f |-> FALSE, fin |-> FALSE, judge |-> FALSE, exp |-> <<>>]

\* what the abstract dictionary says an operation must answer
Expect(o) ==
    LET d == D[o.c] IN
    CASE o.op \in {"set", "del", "stk"} -> <<"ok", NoVal>>
      [] o.op = "getitem" -> IF o.k \in DOMAIN d THEN <<"val", d[o.k]>> ELSE <<"KeyError", NoVal>>
      [] o.op = "get" -> IF o.k \in DOMAIN d THEN <<"val", d[o.k]>> ELSE <<"default", NoVal>>
      [] o.op = "contains" -> <<IF o.k \in DOMAIN d THEN "true" ELSE "false", NoVal>>
      [] o.op = "preload" -> <<IF o.rm /\ ~(Range(o.ks) \subseteq DOMAIN d) THEN "KeyError" ELSE "ok", NoVal>>
      [] o.op = "close" -> <<"ok", NoVal>>

\* bookkeeping common to all steps of Main (m' is already determined)
Book(lab) ==
    /\ IF m'.fin
       THEN /\ D' = IF m'.res = "ok" /\ m'.op.op = "set" THEN [D EXCEPT ![m'.op.c] = Put(@, m'.op.k, m'.op.v)]
                    ELSE IF m'.res = "ok" /\ m'.op.op = "del" THEN [D EXCEPT ![m'.op.c] = Drop(@, m'.op.k)]
                    ELSE D
            /\ broken' = (broken \/ m'.res \in Errors)
            /\ closed' = (closed \/ (m'.op.op = "close" /\ m'.res = "ok"))
       ELSE UNCHANGED <<D, broken, closed>>
    /\ last' = [p |-> "M", lab |-> lab, f |-> FALSE, fin |-> m'.fin, judge |-> ~broken /\ ~closed,
                exp |-> IF m'.fin THEN Expect(m'.op) ELSE <<>>]

m0 == [m EXCEPT !.fin = FALSE]
c0 == Cc(m)
k0 == Kk(m)
WorkerDied(mm) == Finish(mm, "WorkerDied", NoVal)

CanOp == nops < MaxOps /\ (m.opened \/ AfterCloseOps)
CanClose == m.opened \/ (AfterCloseOps /\ nops < MaxOps)
Terminal == m.pc = "idle" /\ ~m.opened /\ ~CanOp

MBegin ==
    /\ m.pc = "idle"
    /\ \E o \in Ops \cup {CloseOp} :
          /\ IF o.op = "close" THEN CanClose ELSE CanOp
          /\ m' = Begin(m0, o)
    /\ nops' = nops + 1
    /\ UNCHANGED <<sh, wk>>
    /\ Book("op.begin")

\* _test_worker_alive, first half: `self.exit.is_set()`
MIsSet ==
    /\ m.pc \in {"pt1", "jt1", "jt4"}
    /\ m' = IF exit THEN WorkerDied(m0)
            ELSE [m0 EXCEPT !.pc = CASE m.pc = "pt1" -> "pt2" [] m.pc = "jt1" -> "jt2" [] m.pc = "jt4" -> "jt5"]
    /\ UNCHANGED <<sh, wk, nops>>
    /\ Book("ev.is_set")

\* second half: `not self.worker_thread.is_alive()`
MIsAlive ==
    /\ m.pc \in {"pt2", "jt2", "jt5"}
    /\ m' = IF ~alive THEN WorkerDied(m0)
            ELSE CASE m.pc = "pt2" -> [m0 EXCEPT !.pc = "pt3"]
                   [] m.pc = "jt2" -> [m0 EXCEPT !.pc = "jt3"]
                   [] m.pc = "jt5" -> Cont(m0)
    /\ UNCHANGED <<sh, wk, nops>>
    /\ Book("thread.is_alive")

\* self.tasks.put(task, timeout=1.0): success, or queue.Full -> `continue`
MPut ==
    /\ m.pc = "pt3"
    /\ IF Len(q) < QMax
       THEN /\ q' = Append(q, m.task) /\ unf' = unf + 1
            /\ m' = Cont(m0)
       ELSE /\ UNCHANGED <<q, unf>>
            /\ m' = [m0 EXCEPT !.pc = "pt1"]
    /\ UNCHANGED <<exit, alive, loaded, disk, dopen, wk, nops>>
    /\ Book("q.put")

\* self.tasks.join(): blocks until every task put so far has been marked done
MJoin ==
    /\ m.pc = "jt3" /\ unf = 0
    /\ m' = [m0 EXCEPT !.pc = "jt4"]
    /\ UNCHANGED <<sh, wk, nops>>
    /\ Book("q.join")

\* `key in self._loaded` at the four places where the main thread asks
MContains ==
    /\ m.pc \in {"ld1", "ld4", "ld6", "pl1", "sv2"}
    /\ LET isin == k0 \in DOMAIN loaded[c0] IN
       m' = CASE m.pc = "ld1" ->       \* if key not in self._loaded and key not in self._waiting_for_load
                    IF ~isin /\ k0 \notin m.wait[c0]
                    THEN PutTask([m0 EXCEPT !.wait[c0] = @ \cup {k0}], MkTask("load", m, NoVal), "ldaw")
                    ELSE AssertWaiting(m0)
              [] m.pc = "ld4" ->       \* if key not in self._loaded: join_tasks()
                    IF ~isin THEN JoinTasks(m0, "ld6") ELSE [m0 EXCEPT !.pc = "ld6"]
              [] m.pc = "ld6" ->       \* assert key in self._loaded
                    IF isin THEN [m0 EXCEPT !.pc = "ld7"] ELSE Finish(m0, "AssertionError", NoVal)
              [] m.pc = "pl1" ->       \* preload: ... or key in self._loaded: return
                    IF isin THEN AfterStorage(m0, NoVal)
                    ELSE PutTask([m0 EXCEPT !.wait[c0] = @ \cup {k0}], MkTask("load", m, NoVal), "sret")
              [] m.pc = "sv2" ->       \* save: assert key in self._loaded
                    IF isin THEN [m0 EXCEPT !.pc = "sv3"] ELSE Finish(m0, "AssertionError", NoVal)
    /\ UNCHANGED <<sh, wk, nops>>
    /\ Book("loaded.contains")

\* val = self._loaded[key]; self._waiting_for_load.remove(key)
MLoadedGet ==
    /\ m.pc = "ld7"
    /\ m' = IF k0 \in DOMAIN loaded[c0]
            THEN [m0 EXCEPT !.pc = "ld8", !.data = loaded[c0][k0], !.wait[c0] = @ \ {k0}]
            ELSE Finish(m0, "KeyError", NoVal)
    /\ UNCHANGED <<sh, wk, nops>>
    /\ Book("loaded.get")

\* del self._loaded[key]; return val
MLoadedDel ==
    /\ m.pc = "ld8"
    /\ loaded' = [loaded EXCEPT ![c0] = Drop(@, k0)]
    /\ m' = AfterStorage(m0, m.data)
    /\ UNCHANGED <<q, unf, exit, alive, disk, dopen, wk, nops>>
    /\ Book("loaded.del")

\* save of a key that is waiting for load: self._loaded[key] = value, then put_task(save)
MLoadedSet ==
    /\ m.pc = "sv3"
    /\ loaded' = [loaded EXCEPT ![c0] = Put(@, k0, m.op.v)]
    /\ m' = PutTask(m0, MkTask("save", m, m.op.v), "sret")
    /\ UNCHANGED <<q, unf, exit, alive, disk, dopen, wk, nops>>
    /\ Book("loaded.set")

\* Worker.__exit__: if self.worker_thread.is_alive(): self.exit.set(); self.worker_thread.join()
MCloseAlive ==
    /\ m.pc = "cl1"
    /\ IF alive THEN /\ m' = [m0 EXCEPT !.pc = "cl2"]
                     /\ UNCHANGED <<loaded, disk, dopen>>
       ELSE /\ m' = CloseFinish(m0)
            /\ loaded' = [c \in Caches |-> IF c = "root" THEN Empty ELSE loaded[c]]
            /\ disk' = [c \in Caches |-> Empty] /\ dopen' = FALSE
    /\ UNCHANGED <<q, unf, exit, alive, wk, nops>>
    /\ Book("thread.is_alive")

MCloseSet ==
    /\ m.pc = "cl2"
    /\ exit' = TRUE
    /\ m' = [m0 EXCEPT !.pc = "cl3"]
    /\ UNCHANGED <<q, unf, alive, loaded, disk, dopen, wk, nops>>
    /\ Book("ev.set")

MCloseJoin ==
    /\ m.pc = "cl3" /\ ~alive
    /\ m' = CloseFinish(m0)
    /\ loaded' = [c \in Caches |-> IF c = "root" THEN Empty ELSE loaded[c]]
    /\ disk' = [c \in Caches |-> Empty] /\ dopen' = FALSE
    /\ UNCHANGED <<q, unf, exit, alive, wk, nops>>
    /\ Book("thread.join")

MainNext == MBegin \/ MIsSet \/ MIsAlive \/ MPut \/ MJoin \/ MContains \/ MLoadedGet \/ MLoadedDel
            \/ MLoadedSet \/ MCloseAlive \/ MCloseSet \/ MCloseJoin

-----------------------------------------------------------------------------
\* Worker.run
WLast(lab, f) == last' = [p |-> "W", lab |-> lab, f |-> f, fin |-> FALSE, judge |-> FALSE, exp |-> <<>>]

WIsSet ==
    /\ pcW = "w0"
    /\ pcW' = IF exit THEN "wd1" ELSE "w1"
    /\ UNCHANGED <<sh, m, hv, task, wres, fails, failed, natfail>>
    /\ WLast("ev.is_set", FALSE)

WGet ==
    /\ pcW = "w1"
    /\ IF q = <<>> THEN /\ pcW' = "w0" /\ UNCHANGED <<q, task>>          \* queue.Empty after the time-out
       ELSE /\ task' = Head(q) /\ q' = Tail(q) /\ pcW' = "w2"
    /\ UNCHANGED <<unf, exit, alive, loaded, disk, dopen, m, hv, wres, fails, failed, natfail>>
    /\ WLast("q.get", FALSE)

\* res = fct(args): the disk operation; at most MaxFail of them are made to raise
WDisk ==
    /\ pcW = "w2"
    /\ \/ /\ fails < MaxFail                     \* injected failure
          /\ fails' = fails + 1 /\ failed' = TRUE /\ pcW' = "wf1"
          /\ UNCHANGED <<disk, wres, natfail>>
          /\ WLast("disk." \o task.op, TRUE)
       \/ /\ CASE task.op = "load" ->
                    IF dopen /\ task.k \in DOMAIN disk[task.c]
                    THEN /\ wres' = disk[task.c][task.k] /\ pcW' = "w3" /\ UNCHANGED <<disk, failed, natfail>>
                    ELSE /\ failed' = TRUE /\ natfail' = TRUE /\ pcW' = "wf1" /\ UNCHANGED <<disk, wres>>
               [] task.op = "save" ->
                    /\ disk' = [disk EXCEPT ![task.c] = Put(@, task.k, task.v)]
                    /\ pcW' = "w4" /\ UNCHANGED <<wres, failed, natfail>>
               [] task.op = "delete" ->
                    /\ disk' = [disk EXCEPT ![task.c] = Drop(@, task.k)]
                    /\ pcW' = "w4" /\ UNCHANGED <<wres, failed, natfail>>
          /\ UNCHANGED fails
          /\ WLast("disk." \o task.op, FALSE)
    /\ UNCHANGED <<q, unf, exit, alive, loaded, dopen, m, hv, task>>

\* return_dict[return_key] = res
WStore ==
    /\ pcW = "w3"
    /\ loaded' = [loaded EXCEPT ![task.c] = Put(@, task.k, wres)]
    /\ pcW' = "w4"
    /\ UNCHANGED <<q, unf, exit, alive, disk, dopen, m, hv, task, wres, fails, failed, natfail>>
    /\ WLast("loaded.set", FALSE)

WTaskDone ==
    /\ pcW \in {"w4", "wf1", "wd3"}
    /\ unf' = unf - 1
    /\ pcW' = CASE pcW = "w4" -> "w0" [] pcW = "wf1" -> "wf2" [] pcW = "wd3" -> "wd1"
    /\ UNCHANGED <<q, exit, alive, loaded, disk, dopen, m, hv, task, wres, fails, failed, natfail>>
    /\ WLast("q.task_done", FALSE)

WExitSet ==
    /\ pcW = "wf2"
    /\ exit' = TRUE
    /\ pcW' = "wd1"
    /\ UNCHANGED <<q, unf, alive, loaded, disk, dopen, m, hv, task, wres, fails, failed, natfail>>
    /\ WLast("ev.set", FALSE)

\* finally: while not self.tasks.empty(): self.tasks.get(); self.tasks.task_done()
WEmpty ==
    /\ pcW = "wd1"
    /\ pcW' = IF q = <<>> THEN "wend" ELSE "wd2"
    /\ UNCHANGED <<sh, m, hv, task, wres, fails, failed, natfail>>
    /\ WLast("q.empty", FALSE)

WDrainGet ==
    /\ pcW = "wd2" /\ q # <<>>
    /\ q' = Tail(q)
    /\ pcW' = "wd3"
    /\ UNCHANGED <<unf, exit, alive, loaded, disk, dopen, m, hv, task, wres, fails, failed, natfail>>
    /\ WLast("q.get", FALSE)

WEnd ==
    /\ pcW = "wend"
    /\ alive' = FALSE
    /\ pcW' = "wdone"
    /\ UNCHANGED <<q, unf, exit, loaded, disk, dopen, m, hv, task, wres, fails, failed, natfail>>
    /\ WLast("thread.end", FALSE)

WorkerNext == WIsSet \/ WGet \/ WDisk \/ WStore \/ WTaskDone \/ WExitSet \/ WEmpty \/ WDrainGet \/ WEnd

Stutter == Terminal /\ pcW = "wdone" /\ UNCHANGED vars

Next == MBegin \/ MIsSet \/ MIsAlive \/ MPut \/ MJoin \/ MContains \/ MLoadedGet \/ MLoadedDel
        \/ MLoadedSet \/ MCloseAlive \/ MCloseSet \/ MCloseJoin
        \/ WIsSet \/ WGet \/ WDisk \/ WStore \/ WTaskDone \/ WExitSet \/ WEmpty \/ WDrainGet \/ WEnd
        \/ Stutter

Spec == Init /\ [][Next]_vars
FairSpec == Spec /\ WF_vars(MainNext) /\ WF_vars(WorkerNext)

-----------------------------------------------------------------------------
\* Properties (C20, first sentence)

TypeOK ==
    /\ Len(q) <= QMax /\ unf \in 0..(QMax + 1) /\ unf >= Len(q)
    /\ fails \in 0..MaxFail

\* "reads return the latest value written": every operation that completes while no error has
\* surfaced answers what the abstract dictionary dictates -- or raises a worker error, which is
\* only allowed after a disk operation really failed (no spurious errors)
DictRefinement ==
    (last.fin /\ last.judge) =>
        \/ <<m.res, m.val>> = last.exp
        \/ m.res \in WorkerErrors /\ failed

\* the representation agrees with D whenever the main thread is between operations
LtkIsDomain ==
    (m.pc = "idle" /\ ~broken) => \A c \in Caches : m.ltk[c] = DOMAIN D[c]
StcFresh ==
    (m.pc = "idle" /\ ~broken /\ m.opened) =>
        \A c \in Caches : \A k \in DOMAIN m.stc[c] : k \in m.stk[c] /\ k \in DOMAIN D[c] /\ m.stc[c][k] = D[c][k]
LoadedFresh ==
    (m.pc = "idle" /\ ~failed /\ m.opened) =>
        \A c \in Caches : \A k \in DOMAIN loaded[c] :
            k \in m.wait[c] /\ (k \in DOMAIN D[c] => loaded[c][k] = D[c][k])

\* what the disk will hold once the worker has worked off the queue is D
ApplyTask(d, t) ==
    CASE t.op = "save" -> [d EXCEPT ![t.c] = Put(@, t.k, t.v)]
      [] t.op = "delete" -> [d EXCEPT ![t.c] = Drop(@, t.k)]
      [] OTHER -> d
RECURSIVE ApplyAll(_, _)
ApplyAll(d, s) == IF s = <<>> THEN d ELSE ApplyAll(ApplyTask(d, Head(s)), Tail(s))
EffDisk == ApplyAll(IF pcW = "w2" THEN ApplyTask(disk, task) ELSE disk, q)
QueueRefinement ==
    (m.pc = "idle" /\ ~failed /\ ~broken /\ m.opened) => \A c \in Caches : EffDisk[c] = D[c]

\* without injected failures no disk operation fails (a load is never asked for a key that is not there)
NoNaturalFailure == ~natfail

\* a failing worker surfaces as an error: an operation that starts after the worker flagged its
\* death and that needs the worker raises; worker errors never appear without a failure or a close
FailureSurfaces ==
    /\ (last.fin /\ m.dab /\ m.needw) => m.res \in WorkerErrors
    /\ (last.fin /\ m.res \in WorkerErrors) => (failed \/ ~m.opened)
    /\ (last.fin /\ m.res = "AssertionError") => failed

\* closing is clean: the first close() returns normally, afterwards the thread is gone, the disk
\* storage closed, nothing preloaded is kept; later operations that need the storage raise
CloseClean ==
    /\ (last.fin /\ m.op.op = "close") =>
            /\ closed /\ m.res \in {"ok", "ValueError"}
            /\ m.res = "ok" => (loaded["root"] = Empty /\ m.wait["root"] = {} /\ m.stc["root"] = Empty)
    /\ closed => (~alive /\ exit /\ pcW = "wdone" /\ ~dopen)
    /\ (last.fin /\ closed /\ m.needw /\ m.op.op # "close") => m.res = "WorkerDied"

\* sub-caches are isolated: an operation on one cache never changes the other's dictionary
SubcacheIsolation ==
    [][ \A c \in Caches : D'[c] # D[c] => (last'.fin /\ m'.op.c = c) ]_vars

\* liveness (under FairSpec): every started operation completes or raises; the program ends closed
OpsTerminate == (m.pc # "idle") ~> (m.pc = "idle")
Termination == <>(Terminal /\ pcW = "wdone")
=============================================================================
