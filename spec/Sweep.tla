------------------------------- MODULE Sweep -------------------------------
(* Environment and sweep bookkeeping of tenpy's sweeping ground-state algorithms
   (tenpy/algorithms/mps_common.py: Sweep.sweep / get_sweep_schedule / make_eff_H / update_env /
   free_no_longer_needed_envs; tenpy/algorithms/dmrg.py: TwoSiteDMRGEngine, SingleSiteDMRGEngine and the
   environment reads of the mixers; tenpy/networks/mps.py BaseEnvironment + mpo.py MPOEnvironment:
   get_LP/get_RP (build from the nearest stored part), set_*, del_*, ages).

   Abstraction.  A site tensor is represented by its version ver[i] (number of psi.set_B(i) so far).
   An environment part is [has, age, cnt, deps]: deps[m] is the version that the m-th most recently
   contracted site tensor had at the time of the contraction (LP[i]: site i-m, RP[i]: site i+m), cnt the
   number of contractions since the initial part, age the implementation's own book-keeping number.
   deps is cut after K = 2L entries (an infinite run keeps growing its environments).

   Properties: FreshEnvs / FreshWindow (the effective Hamiltonian and every measured energy are assembled from
   parts that contain the current tensors), AgeRule, BoundaryKept, NoCrash, SweepCoversAllBonds, NoRecompute,
   MemoryBound, EnergySize (refuted for the single-site engine on infinite systems -- a genuine defect of the
   implementation, see known_findings.d/C13.json).

   Grain: one action per method of the sweep loop (phase markers: they put the environment calls the
   method makes into `todo`) and one action `Call` per call on the environment / state.
   TraceSweep.tla validates recorded executions of the real engines against exactly these actions. *)
EXTENDS Integers, Sequences, FiniteSets, TLC

CONSTANTS Ls,         \* system sizes offered to Configure
          Finites,    \* subset of BOOLEAN: finite / infinite boundary conditions
          Ns,         \* subset of {1, 2}: n_optimize (SingleSite / TwoSite engine)
          Combines,   \* subset of BOOLEAN: option `combine`
          Mixes,      \* subset of {"none", "sub", "dm"}: mixer active in a sweep: none / SubspaceExpansion /
                      \* DensityMatrixMixer (activated, decayed and switched off between sweeps)
          MaxSweeps,  \* bound on the number of sweeps of a behaviour
          MaxExt      \* bound on the number of external get_LP/get_RP calls between steps

VARIABLES cfg,     \* [L, finite, n, combine, a0L, a0R]
          ver,     \* ver[i], i \in 0..L-1 : version of the tensor stored at site i
          LP, RP,  \* [0..L-1 -> Env]  stored environment parts (slot = site index inside the unit cell)
          retL, retR,  \* what the last get_LP / get_RP returned
          eff,     \* the effective Hamiltonian held by the engine: parts it was assembled from
          pc,      \* next phase marker expected: "config","idle","step","effH","local","env","post","free"; "cleanup": in
                   \* post_run_cleanup (the state of DMRGEngine._canonicalize is kept in `last`)
          todo,    \* calls the current phase still has to make
          cur,     \* current schedule entry [i0, mr, uL, uR] + age: the size reported by update_local
          k,       \* number of steps started in the running sweep
          sw,      \* flags of the running sweep [optimize, meas, mix]
          sweeps,  \* sweeps started so far
          opt,     \* opt[b]: how often bond (n=2) / site (n=1) b was updated in the running sweep
          hs,      \* history of the running half-sweep [mr, steps, touched]
          ext,     \* external calls made so far
          ok,      \* FALSE once an operation would have raised
          nrec,    \* contractions needed by make_eff_H of the current step
          last     \* last operation and its observable result

vars == <<cfg, ver, LP, RP, retL, retR, eff, pc, todo, cur, k, sw, sweeps, opt, hs, ext, ok, nrec, last>>

-----------------------------------------------------------------------------
\* environment parts
L == cfg.L
Sites == 0..(L - 1)
K == 2 * L
NoEnv == [has |-> FALSE, age |-> 0, cnt |-> 0, deps |-> <<>>]
MkEnv(a, c, d) == [has |-> TRUE, age |-> a, cnt |-> c, deps |-> d]
Trunc(s) == IF Len(s) > K THEN SubSeq(s, 1, K) ELSE s
Slot(i) == i % L                                   \* _to_valid_site_index
IMin(a, b) == IF a <= b THEN a ELSE b

\* _contract_LP(j, e) / _contract_RP(j, e): absorb the current tensor of site j
Contract(e, j) == MkEnv(e.age + 1, e.cnt + 1, Trunc(<<ver[Slot(j)]>> \o e.deps))

\* get_LP(i): nearest stored part at or left of i (finite: down to 0; infinite: within one unit cell)
CandL(i) == {j \in (IF cfg.finite THEN 0 ELSE i - L + 1)..i : LP[Slot(j)].has}
HasL(i) == CandL(i) # {}
NearL(i) == CHOOSE j \in CandL(i) : \A m \in CandL(i) : m <= j
RECURSIVE BuildL(_, _, _)
BuildL(e, j, i) == IF j >= i THEN e ELSE BuildL(Contract(e, j), j + 1, i)
GetL(i) == BuildL(LP[Slot(NearL(i))], NearL(i), i)
StoreL(i) == LET j == NearL(i) IN
    [s \in Sites |-> IF \E m \in (j + 1)..i : Slot(m) = s
                     THEN BuildL(LP[Slot(j)], j, CHOOSE m \in (j + 1)..i : Slot(m) = s)
                     ELSE LP[s]]

CandR(i) == {j \in i..(IF cfg.finite THEN L - 1 ELSE i + L - 1) : RP[Slot(j)].has}
HasR(i) == CandR(i) # {}
NearR(i) == CHOOSE j \in CandR(i) : \A m \in CandR(i) : m >= j
RECURSIVE BuildR(_, _, _)
BuildR(e, j, i) == IF j <= i THEN e ELSE BuildR(Contract(e, j), j - 1, i)
GetR(i) == BuildR(RP[Slot(NearR(i))], NearR(i), i)
StoreR(i) == LET j == NearR(i) IN
    [s \in Sites |-> IF \E m \in i..(j - 1) : Slot(m) = s
                     THEN BuildR(RP[Slot(j)], j, CHOOSE m \in i..(j - 1) : Slot(m) = s)
                     ELSE RP[s]]

\* an LP meant for position i (an RP for position i) contains only current tensors
FreshL(e, i) == \A m \in 1..Len(e.deps) : e.deps[m] = ver[Slot(i - m)]
FreshR(e, i) == \A m \in 1..Len(e.deps) : e.deps[m] = ver[Slot(i + m)]

-----------------------------------------------------------------------------
\* the sweep schedule (Sweep.get_sweep_schedule), written per step number kk = 1..NSteps
NSteps == IF cfg.finite THEN 2 * (L - cfg.n) ELSE 2 * L
Sched(kk) ==
    IF cfg.finite THEN
        IF kk <= L - cfg.n THEN [i0 |-> kk - 1, mr |-> TRUE, uL |-> TRUE, uR |-> FALSE, age |-> -1]
        ELSE [i0 |-> 2 * (L - cfg.n) - kk + 1, mr |-> FALSE, uL |-> FALSE, uR |-> TRUE, age |-> -1]
    ELSE
        IF kk <= L THEN [i0 |-> kk - 1, mr |-> TRUE, uL |-> TRUE, uR |-> kk <= cfg.n, age |-> -1]
        ELSE [i0 |-> 2 * L - kk + 1, mr |-> FALSE, uL |-> kk - L <= cfg.n, uR |-> TRUE, age |-> -1]

\* sites whose tensors the local update replaces (Sweep._update_env_inds)
IL == IF cfg.n = 2 \/ cur.mr THEN cur.i0 ELSE cur.i0 - 1
IR == IL + 1
\* what is counted as "optimised" by a step: the bond i0 (two-site) or the site i0 (single-site)
Units == IF cfg.n = 2 /\ cfg.finite THEN 0..(L - 2) ELSE Sites

G(op, i) == [op |-> op, i |-> i, store |-> TRUE]
GN(op, i) == [op |-> op, i |-> i, store |-> FALSE]
Opt(c, s) == IF c THEN s ELSE <<>>

\* Sweep.make_eff_H -> EffectiveH.__init__ (+ combine_Heff)
EffHCalls ==
    <<G("get_LP", cur.i0), G("get_RP", cur.i0 + cfg.n - 1)>> \o
    (IF ~cfg.combine THEN <<>>
     ELSE IF cfg.n = 2 THEN <<G("get_LP", cur.i0), G("get_RP", cur.i0 + 1)>>
     ELSE IF cur.mr THEN <<G("get_LP", cur.i0)>> ELSE <<G("get_RP", cur.i0)>>) \o
    <<[op |-> "effH", i |-> cur.i0, store |-> TRUE, len |-> cfg.n]>>

\* environment reads of the mixers inside update_local (mixed_svd): _get_LHeff / _get_RHeff
MixReads ==
    IF sw.mix = "none" THEN <<>>
    ELSE IF cfg.n = 2 THEN
        Opt(cur.uL /\ ~cfg.combine, <<G("get_LP", cur.i0)>>) \o Opt(cur.uR /\ ~cfg.combine, <<G("get_RP", cur.i0 + 1)>>)
    ELSE IF sw.mix = "sub" THEN
        IF cur.mr THEN Opt(~cfg.combine, <<G("get_LP", cur.i0)>>) ELSE Opt(~cfg.combine, <<G("get_RP", cur.i0)>>)
    ELSE \* single-site engine with the two-site DensityMatrixMixer
        IF cur.mr THEN Opt(cur.uL /\ ~cfg.combine, <<G("get_LP", cur.i0)>>) \o Opt(cur.uR, <<G("get_RP", cur.i0 + 1)>>)
        ELSE Opt(cur.uL, <<G("get_LP", cur.i0 - 1)>>) \o Opt(cur.uR /\ ~cfg.combine, <<G("get_RP", cur.i0)>>)

\* Sweep.update_env; EffectiveH.update_LP/update_RP use LHeff/RHeff when `combine`
HeffL == cfg.combine /\ (cfg.n = 2 \/ cur.mr)
HeffR == cfg.combine /\ (cfg.n = 2 \/ ~cur.mr)
UpdCalls ==
    <<G("del_LP", IR), G("del_RP", IL)>> \o
    Opt(cur.uL, <<IF HeffL THEN G("heff_LP", IR) ELSE G("get_LP", IR)>>) \o
    Opt(cur.uR, <<IF HeffR THEN G("heff_RP", IL) ELSE G("get_RP", IL)>>)

\* DMRGEngine.post_update_local: env.full_contraction(i_L) when E_trunc is measured
PostCalls == IF sw.meas \/ ~sw.optimize
             THEN <<GN("get_LP", IL + 1), GN("get_RP", IL), G("full", IL)>> ELSE <<>>

\* Sweep.free_no_longer_needed_envs
FreeCalls ==
    IF cfg.n = 2 THEN Opt(cur.uR, <<G("del_LP", IL)>>) \o Opt(cur.uL, <<G("del_RP", IR)>>)
    ELSE IF cur.mr /\ cur.uR THEN <<G("del_LP", IL)>>
    ELSE IF ~cur.mr /\ cur.uL THEN <<G("del_RP", IR)>>
    ELSE <<>>

-----------------------------------------------------------------------------
NoEff == [valid |-> FALSE, i0 |-> 0, jR |-> 0, LP |-> NoEnv, RP |-> NoEnv]
NoCur == [i0 |-> 0, mr |-> TRUE, uL |-> FALSE, uR |-> FALSE, age |-> -1]

Init == /\ cfg = [L |-> 2, finite |-> TRUE, n |-> 1, combine |-> FALSE, a0L |-> 0, a0R |-> 0]
        /\ ver = [i \in 0..1 |-> 0]
        /\ LP = [i \in 0..1 |-> NoEnv] /\ RP = [i \in 0..1 |-> NoEnv]
        /\ retL = NoEnv /\ retR = NoEnv /\ eff = NoEff
        /\ pc = "config" /\ todo = <<>> /\ cur = NoCur /\ k = 0
        /\ sw = [optimize |-> TRUE, meas |-> FALSE, mix |-> "none"]
        /\ sweeps = 0 /\ opt = [i \in 0..1 |-> 0]
        /\ hs = [mr |-> TRUE, steps |-> 0, touched |-> {}]
        /\ ext = 0 /\ ok = TRUE /\ nrec = 0
        /\ last = [op |-> "init"]

\* Sweep.__init__ -> init_env: fresh MPOEnvironment with LP[0] and RP[L-1] only
ConfigureAny(c) ==
    /\ cfg' = c
    /\ ver' = [i \in 0..(c.L - 1) |-> 0]
    /\ LP' = [i \in 0..(c.L - 1) |-> IF i = 0 THEN MkEnv(c.a0L, 0, <<>>) ELSE NoEnv]
    /\ RP' = [i \in 0..(c.L - 1) |-> IF i = c.L - 1 THEN MkEnv(c.a0R, 0, <<>>) ELSE NoEnv]
    /\ retL' = NoEnv /\ retR' = NoEnv /\ eff' = NoEff
    /\ pc' = "idle" /\ todo' = <<>> /\ cur' = NoCur /\ k' = 0
    /\ sw' = [optimize |-> TRUE, meas |-> FALSE, mix |-> "none"]
    /\ sweeps' = 0 /\ opt' = [i \in 0..(c.L - 1) |-> 0]
    /\ hs' = [mr |-> TRUE, steps |-> 0, touched |-> {}]
    /\ ext' = 0 /\ ok' = TRUE /\ nrec' = 0
    /\ last' = [op |-> "begin"]

Configure ==
    /\ pc = "config"
    /\ \E l \in Ls, f \in Finites, n \in Ns, cb \in Combines :
          /\ (f => l > n) /\ (~f => l >= n)       \* get_sweep_schedule: finite L > n; infinite two-site L >= 2
          /\ ConfigureAny([L |-> l, finite |-> f, n |-> n, combine |-> cb, a0L |-> 0, a0R |-> 0])

\* Sweep.sweep(optimize): the flags are fixed for the whole sweep
SweepBegin(o, me, mx) ==
    /\ pc = "idle" /\ todo = <<>> /\ sweeps < MaxSweeps
    /\ pc' = "step" /\ k' = 0 /\ sweeps' = sweeps + 1
    /\ sw' = [optimize |-> o, meas |-> me, mix |-> mx]
    /\ opt' = [i \in Sites |-> 0]
    /\ hs' = [mr |-> TRUE, steps |-> 0, touched |-> {}]
    /\ last' = [op |-> "sweep_begin"]
    /\ UNCHANGED <<cfg, ver, LP, RP, retL, retR, eff, todo, cur, ext, ok, nrec>>

\* next entry of the schedule (loop head of Sweep.sweep)
StepBegin ==
    /\ pc = "step" /\ todo = <<>> /\ k < NSteps
    /\ k' = k + 1 /\ cur' = Sched(k + 1) /\ pc' = "effH"
    /\ hs' = IF Sched(k + 1).mr = hs.mr THEN hs ELSE [mr |-> Sched(k + 1).mr, steps |-> 0, touched |-> {}]
    /\ last' = [op |-> "step", k |-> k + 1]
    /\ UNCHANGED <<cfg, ver, LP, RP, retL, retR, eff, todo, sw, sweeps, opt, ext, ok, nrec>>

MakeEffH ==
    /\ pc = "effH" /\ todo = <<>>
    /\ todo' = EffHCalls /\ pc' = "local" /\ nrec' = 0
    /\ last' = [op |-> "make_eff_H"]
    /\ UNCHANGED <<cfg, ver, LP, RP, retL, retR, eff, cur, k, sw, sweeps, opt, hs, ext, ok>>

\* DMRGEngine.update_local: age, (diag), mixed_svd, set_B
UpdateLocal ==
    /\ pc = "local" /\ todo = <<>>
    /\ todo' = MixReads \o <<G("set_B", IL), G("set_B", IR)>>
    /\ pc' = "env"
    /\ LET b == Slot(cur.i0) IN opt' = [opt EXCEPT ![b] = @ + 1]
    /\ IF LP[Slot(cur.i0)].has /\ RP[Slot(cur.i0 + cfg.n - 1)].has
       THEN /\ cur' = [cur EXCEPT !.age = LP[Slot(cur.i0)].age + cfg.n + RP[Slot(cur.i0 + cfg.n - 1)].age]
            /\ ok' = ok
       ELSE cur' = cur /\ ok' = FALSE      \* None + int
    /\ last' = [op |-> "update_local"]
    /\ UNCHANGED <<cfg, ver, LP, RP, retL, retR, eff, k, sw, sweeps, hs, ext, nrec>>

UpdateEnv ==
    /\ pc = "env" /\ todo = <<>>
    /\ todo' = UpdCalls /\ pc' = "post"
    /\ last' = [op |-> "update_env"]
    /\ UNCHANGED <<cfg, ver, LP, RP, retL, retR, eff, cur, k, sw, sweeps, opt, hs, ext, ok, nrec>>

PostUpdate ==
    /\ pc = "post" /\ todo = <<>>
    /\ todo' = PostCalls /\ pc' = "free"
    /\ last' = [op |-> "post_update_local"]
    /\ UNCHANGED <<cfg, ver, LP, RP, retL, retR, eff, cur, k, sw, sweeps, opt, hs, ext, ok, nrec>>

Free ==
    /\ pc = "free" /\ todo = <<>>
    /\ todo' = FreeCalls /\ pc' = "step"
    /\ eff' = NoEff
    /\ hs' = [hs EXCEPT !.steps = @ + 1]
    /\ last' = [op |-> "free"]
    /\ UNCHANGED <<cfg, ver, LP, RP, retL, retR, cur, k, sw, sweeps, opt, ext, ok, nrec>>

SweepEnd ==
    /\ pc = "step" /\ todo = <<>> /\ k = NSteps
    /\ pc' = "idle"
    /\ last' = [op |-> "sweep_end"]
    /\ UNCHANGED <<cfg, ver, LP, RP, retL, retR, eff, todo, cur, k, sw, sweeps, opt, hs, ext, ok, nrec>>

-----------------------------------------------------------------------------
(* End of IterativeSweeps.run: post_run_cleanup = mixer_cleanup; DMRGEngine._canonicalize.
   err is the class of np.linalg.norm(psi.norm_test()): "small" (<= norm_tol_final), "mid" (<= norm_tol), "big".
     _canonicalize:  if err small: return
                     if err big and infinite: up to `iter` (norm_tol_iter) rounds of environment sweeps, until err <= norm_tol
                     if err still not small: psi.canonical_form()
   so the state handed back is canonical up to norm_tol_final in every case (ReturnedCanonical). *)
ErrClasses == {"small", "mid", "big"}
MoreEnvRounds == last.err = "big" /\ ~cfg.finite /\ last.rounds < last.iter

RunCleanup ==
    /\ pc = "idle" /\ todo = <<>> /\ sweeps >= 1
    /\ pc' = "cleanup" /\ last' = [op |-> "run_cleanup"]
    /\ UNCHANGED <<cfg, ver, LP, RP, retL, retR, eff, todo, cur, k, sw, sweeps, opt, hs, ext, ok, nrec>>

CanonBegin(e, it) ==
    /\ pc = "cleanup" /\ last.op = "run_cleanup"
    /\ last' = [op |-> "canon", err |-> e, rounds |-> 0, iter |-> it]
    /\ UNCHANGED <<cfg, ver, LP, RP, retL, retR, eff, pc, todo, cur, k, sw, sweeps, opt, hs, ext, ok, nrec>>

CanonEnv(e) ==       \* one round self.environment_sweeps(update_env); e: class of the norm error afterwards
    /\ pc = "cleanup" /\ last.op \in {"canon", "canon_env"} /\ MoreEnvRounds
    /\ last' = [op |-> "canon_env", err |-> e, rounds |-> last.rounds + 1, iter |-> last.iter]
    /\ UNCHANGED <<cfg, ver, LP, RP, retL, retR, eff, pc, todo, cur, k, sw, sweeps, opt, hs, ext, ok, nrec>>

CanonForm ==         \* psi.canonical_form()
    /\ pc = "cleanup" /\ last.op \in {"canon", "canon_env"} /\ ~MoreEnvRounds /\ last.err # "small"
    /\ last' = [op |-> "canon_form", err |-> "small", rounds |-> last.rounds, iter |-> last.iter]
    /\ UNCHANGED <<cfg, ver, LP, RP, retL, retR, eff, pc, todo, cur, k, sw, sweeps, opt, hs, ext, ok, nrec>>

RunEnd(e) ==         \* _canonicalize returns; e: class of the norm error of the state handed back
    /\ pc = "cleanup" /\ last.op \in {"canon", "canon_env", "canon_form"}
    /\ e = last.err
    /\ (last.op = "canon_form" \/ (last.err = "small" /\ ~MoreEnvRounds))
    /\ pc' = "config" /\ last' = [op |-> "run_end", err |-> e]
    /\ UNCHANGED <<cfg, ver, LP, RP, retL, retR, eff, todo, cur, k, sw, sweeps, opt, hs, ext, ok, nrec>>

-----------------------------------------------------------------------------
\* one call on the environment / the state
ExecGetL(c) ==
    /\ IF HasL(c.i)
       THEN /\ retL' = GetL(c.i)
            /\ LP' = IF c.store THEN StoreL(c.i) ELSE LP
            /\ nrec' = nrec + (c.i - NearL(c.i))
            /\ last' = [op |-> "get_LP", i |-> c.i, store |-> c.store, ncontr |-> c.i - NearL(c.i)]
            /\ ok' = ok
       ELSE /\ ok' = FALSE /\ last' = [op |-> "get_LP", i |-> c.i, store |-> c.store, ncontr |-> -1]
            /\ UNCHANGED <<retL, LP, nrec>>
    /\ UNCHANGED <<ver, RP, retR, eff, hs>>

ExecGetR(c) ==
    /\ IF HasR(c.i)
       THEN /\ retR' = GetR(c.i)
            /\ RP' = IF c.store THEN StoreR(c.i) ELSE RP
            /\ nrec' = nrec + (NearR(c.i) - c.i)
            /\ last' = [op |-> "get_RP", i |-> c.i, store |-> c.store, ncontr |-> NearR(c.i) - c.i]
            /\ ok' = ok
       ELSE /\ ok' = FALSE /\ last' = [op |-> "get_RP", i |-> c.i, store |-> c.store, ncontr |-> -1]
            /\ UNCHANGED <<retR, RP, nrec>>
    /\ UNCHANGED <<ver, LP, retL, eff, hs>>

ExecDelL(c) ==
    /\ LP' = [LP EXCEPT ![Slot(c.i)] = NoEnv]
    /\ last' = [op |-> "del_LP", i |-> c.i]
    /\ UNCHANGED <<ver, RP, retL, retR, eff, hs, ok, nrec>>

ExecDelR(c) ==
    /\ RP' = [RP EXCEPT ![Slot(c.i)] = NoEnv]
    /\ last' = [op |-> "del_RP", i |-> c.i]
    /\ UNCHANGED <<ver, LP, retL, retR, eff, hs, ok, nrec>>

\* EffectiveH.update_LP with combine: LP[i] := U^dagger LHeff U, age = get_LP_age(i - 1) + 1;
\* LHeff was built from the LP the effective Hamiltonian holds, U is the tensor just stored at i - 1
ExecHeffL(c) ==
    /\ IF eff.valid /\ LP[Slot(c.i - 1)].has
       THEN /\ LP' = [LP EXCEPT ![Slot(c.i)] =
                         MkEnv(LP[Slot(c.i - 1)].age + 1, eff.LP.cnt + 1, Trunc(<<ver[Slot(c.i - 1)]>> \o eff.LP.deps))]
            /\ ok' = ok
       ELSE ok' = FALSE /\ UNCHANGED LP
    /\ last' = [op |-> "heff_LP", i |-> c.i]
    /\ UNCHANGED <<ver, RP, retL, retR, eff, hs, nrec>>

ExecHeffR(c) ==
    /\ IF eff.valid /\ RP[Slot(c.i + 1)].has
       THEN /\ RP' = [RP EXCEPT ![Slot(c.i)] =
                         MkEnv(RP[Slot(c.i + 1)].age + 1, eff.RP.cnt + 1, Trunc(<<ver[Slot(c.i + 1)]>> \o eff.RP.deps))]
            /\ ok' = ok
       ELSE ok' = FALSE /\ UNCHANGED RP
    /\ last' = [op |-> "heff_RP", i |-> c.i]
    /\ UNCHANGED <<ver, LP, retL, retR, eff, hs, nrec>>

\* psi.set_B(i, ...)
ExecSetB(c) ==
    /\ ver' = [ver EXCEPT ![Slot(c.i)] = @ + 1]
    /\ hs' = [hs EXCEPT !.touched = @ \cup {Slot(c.i)}]
    /\ last' = [op |-> "set_B", i |-> c.i]
    /\ UNCHANGED <<LP, RP, retL, retR, eff, ok, nrec>>

\* EffectiveH(env, i0, ...) acting on c.len sites i0 .. i0+len-1: keeps the parts just fetched,
\* LP for position i0 and RP for position jR = i0 + len - 1  (len = 0: ZeroSiteH between sites i0-1 and i0)
ExecEffH(c) ==
    /\ eff' = [valid |-> TRUE, i0 |-> c.i, jR |-> c.i + c.len - 1, LP |-> retL, RP |-> retR]
    /\ last' = [op |-> "effH", i |-> c.i]
    /\ UNCHANGED <<ver, LP, RP, retL, retR, hs, ok, nrec>>

\* env.full_contraction(i): <psi|H|psi> from get_LP(i+1, store=False), S, get_RP(i, store=False)
ExecFull(c) ==
    /\ last' = [op |-> "full", i |-> c.i, L |-> retL, R |-> retR]
    /\ UNCHANGED <<ver, LP, RP, retL, retR, eff, hs, ok, nrec>>

Exec(c) ==
    CASE c.op = "get_LP" -> ExecGetL(c)
      [] c.op = "get_RP" -> ExecGetR(c)
      [] c.op = "del_LP" -> ExecDelL(c)
      [] c.op = "del_RP" -> ExecDelR(c)
      [] c.op = "heff_LP" -> ExecHeffL(c)
      [] c.op = "heff_RP" -> ExecHeffR(c)
      [] c.op = "set_B" -> ExecSetB(c)
      [] c.op = "effH" -> ExecEffH(c)
      [] c.op = "full" -> ExecFull(c)

Call ==
    /\ todo # <<>>
    /\ Exec(Head(todo))
    /\ todo' = Tail(todo)
    /\ UNCHANGED <<cfg, pc, cur, k, sw, sweeps, opt, ext>>

\* somebody else (a measurement, a checkpoint) asks the environment for a part between two steps
ExtGet(side, i, st) ==
    /\ pc = "step" /\ todo = <<>> /\ ext < MaxExt
    /\ i \in (IF cfg.finite THEN Sites ELSE 0..L)
    /\ ext' = ext + 1
    /\ IF side = "L" THEN ExecGetL([op |-> "get_LP", i |-> i, store |-> st])
                     ELSE ExecGetR([op |-> "get_RP", i |-> i, store |-> st])
    /\ UNCHANGED <<cfg, pc, todo, cur, k, sw, sweeps, opt>>

DoSweepBegin == \E o, me \in BOOLEAN, mx \in Mixes : SweepBegin(o, me, mx)
DoExtGet == \E side \in {"L", "R"}, i \in 0..cfg.L, st \in BOOLEAN : ExtGet(side, i, st)

DoCanonBegin == \E e \in ErrClasses, it \in {0, 2} : CanonBegin(e, it)
DoCanonEnv == \E e \in ErrClasses : CanonEnv(e)
DoRunEnd == \E e \in ErrClasses : RunEnd(e)

Next == Configure \/ DoSweepBegin \/ StepBegin \/ MakeEffH \/ UpdateLocal \/ UpdateEnv \/ PostUpdate \/ Free
        \/ SweepEnd \/ Call \/ DoExtGet \/ RunCleanup \/ DoCanonBegin \/ DoCanonEnv \/ CanonForm \/ DoRunEnd

Spec == Init /\ [][Next]_vars

-----------------------------------------------------------------------------
\* Properties

EnvOK(e) == /\ e.has \in BOOLEAN
            /\ e.has => /\ Len(e.deps) = IMin(e.cnt, K)
                        /\ e.age >= 0

TypeOK == /\ pc \in {"config", "idle", "step", "effH", "local", "env", "post", "free", "cleanup"}
          /\ \A s \in Sites : EnvOK(LP[s]) /\ EnvOK(RP[s])
          /\ k \in 0..NSteps

\* FreshEnvs (finite systems): the effective Hamiltonian of every step, and every measured energy,
\* is assembled only from environment parts that contain the *current* tensors of all their sites
FreshEnvs ==
    /\ (cfg.finite /\ last.op = "effH") => FreshL(eff.LP, eff.i0) /\ FreshR(eff.RP, eff.jR)
    /\ (cfg.finite /\ last.op = "full") => FreshL(last.L, last.i + 1) /\ FreshR(last.R, last.i)

\* FreshWindow (finite and infinite): the part on the side the sweep comes from contains the current tensor
\* of every site the running half-sweep has already passed.  (For infinite systems everything beyond is, by
\* construction of iDMRG, the environment of the previous iteration; for finite systems FreshEnvs says more.)
FreshWindow ==
    last.op = "effH" =>
        LET i0 == eff.i0
            jR == eff.jR
        IN /\ hs.mr => \A m \in 1..IMin(hs.steps, Len(eff.LP.deps)) : eff.LP.deps[m] = ver[Slot(i0 - m)]
           /\ ~hs.mr => \A m \in 1..IMin(hs.steps, Len(eff.RP.deps)) : eff.RP.deps[m] = ver[Slot(jR + m)]

\* AgeRule: the age the implementation keeps for a part is the number of sites contracted into it
AgeOf(e, a0) == e.has => e.age = a0 + e.cnt
AgeRule ==
    /\ \A s \in Sites : AgeOf(LP[s], cfg.a0L) /\ AgeOf(RP[s], cfg.a0R)
    /\ AgeOf(retL, cfg.a0L) /\ AgeOf(retR, cfg.a0R)
    /\ eff.valid => AgeOf(eff.LP, cfg.a0L) /\ AgeOf(eff.RP, cfg.a0R)
    \* the size reported by update_local: the whole chain for finite systems
    /\ (cfg.finite /\ pc = "env") => cur.age = L + cfg.a0L + cfg.a0R

\* EnergySize: the network contracted by full_contraction in post_update_local (its value is recorded as E_total
\* of an environment sweep, and E_trunc = value - E0 otherwise) spans exactly the `age` sites reported for the update
EnergySize == last.op = "full" => last.L.age + last.R.age = cur.age
\* state constraint used to check EnergySize on everything but the single-site engine on infinite systems
NotSingleSiteInfinite == pc = "config" \/ cfg.n = 2 \/ cfg.finite

\* ReturnedCanonical: run() hands back a state whose norm error is at most norm_tol_final, and it never leaves
\* _canonicalize in between (an unfinished clean-up is not a possible end of a run)
ReturnedCanonical == last.op = "run_end" => last.err = "small"

\* the boundary parts of a finite system are never given up, nothing ever raises
BoundaryKept == pc \notin {"config"} /\ cfg.finite => LP[0] = MkEnv(cfg.a0L, 0, <<>>) /\ RP[L - 1] = MkEnv(cfg.a0R, 0, <<>>)
NoCrash == ok

\* SweepCoversAllBonds: a sweep updates every bond (two-site) / site (single-site); the turning points once,
\* everything else once in each direction
SweepCoversAllBonds ==
    last.op = "sweep_end" =>
        \A b \in Units : opt[b] = (IF cfg.finite /\ (b = 0 \/ b = (IF cfg.n = 2 THEN L - 2 ELSE L - 1)) THEN 1 ELSE 2)

\* update_env prepares exactly what the next step needs: from the second sweep on make_eff_H finds both parts
NoRecompute == (last.op = "effH" /\ sweeps >= 2 /\ ext = 0) => nrec = 0

\* free_no_longer_needed_envs keeps the number of stored parts minimal: between two steps at most L + 2
NStored == Cardinality({s \in Sites : LP[s].has}) + Cardinality({s \in Sites : RP[s].has})
MemoryBound == (pc = "step" /\ todo = <<>> /\ ext = 0 /\ pc # "config") => NStored <= L + 2
=============================================================================
