------------------------------- MODULE MPSState -------------------------------
(* tenpy.networks.mps.MPS: what state an MPS denotes (C07; base module of MPSMeasure (C08) and
   MPSTransform (C09)).

   Abstract state:  psi  -- the dense state tensor over Gaussian integers with legs
                            <<vL, p_0, .., p_{n-1}, vR>> (finite: vL = vR = 1, n = L; segment: outer legs =
                            the Schmidt states of the environment; infinite: the window of NWin sites starting at
                            site 0 -- two unit cells for L <= 2, else L + 1 sites -- S_0 Gamma_0 S_1 ... S_{NWin}),
                    nrm  -- MPS.norm  (the represented vector is nrm * psi).
   Representation:  R = [bc, kinds, cons, form, S, B, qb]  like the implementation:
                    form[i] in {A, B, C, G, Th}  (exponents (nuL, nuR) in halves: Nu2),
                    S[b] exponents e of the bond values 2^e (len L+1, for infinite bc len L like MPS._S),
                    B[i][s][a][b] the stored tensors, qb the charges of the bond indices.
   Rep invariant:   contraction of the representation with the forms undone = psi.
   Exact instances: all bond values are powers of 4 and all tensors integer multiples of them, so every
   form conversion is exact both here (integer division is checked by `Divisible`) and in float64.  *)
EXTENDS Dense, TLC

CONSTANTS Seed,       \* pattern seed (VERIF_SEED)
          Sample,     \* sampling: a generated case is kept iff Keep(caseNo) (a seeded hash) = 0 mod Sample
          MaxL,       \* largest number of sites (unit cell for infinite bc)
          MaxConv,    \* bound on the number of state-changing steps after construction
          BCs,        \* boundary conditions offered
          Ctors,      \* constructors offered (C07)
          Acts        \* further actions offered: "convert", "setB", "observe", "canonical"

VARIABLES R,          \* representation (record with field known)
          psi,        \* abstract dense state (see above)
          nrm,        \* MPS.norm (integer in exact instances)
          mode,       \* "raw": the tensors contract to psi exactly (bit for bit in the implementation), norm = nrm;
                      \* "unit": tensors normalized (after SVD routes), state proportional to psi, norm tracked through
                      \*         the nabs / nfac fields of the history; "unitnn": same, norm not tracked;
                      \* "loose": only the direction of the state is claimed
          phase,      \* "init" | "live" | "done"
          nops, last, hist

vars == <<R, psi, nrm, mode, phase, nops, last, hist>>
AbsView == <<R, psi, nrm, mode, phase, nops, last>>

NoRep == [known |-> FALSE]
-----------------------------------------------------------------------------
\* sites
\* site kinds: "H" spin-1/2, "F" spinless fermion, "T" spin-1, "E" spin-1/2 fermions (empty, up, down, full; without charges only)
Dim(k) == IF k = "T" THEN 3 ELSE IF k = "E" THEN 4 ELSE 2
QSite(k, cons) ==
    IF cons = "U1" THEN (CASE k = "H" -> <<1, -1>> [] k = "F" -> <<0, 1>> [] OTHER -> <<-2, 0, 2>>)
    ELSE IF cons = "Z2" THEN (CASE k = "H" -> <<1, 0>> [] k = "F" -> <<0, 1>> [] OTHER -> <<0, 1, 0>>)
    ELSE [s \in 1..Dim(k) |-> 0]
QNorm(q, cons) == IF cons = "Z2" THEN q % 2 ELSE q

RECURSIVE Pow2(_)
Pow2(n) == IF n = 0 THEN 1 ELSE 2 * Pow2(n - 1)

\* canonical form exponents (nuL, nuR) in units of 1/2
Nu2(f) == CASE f = "A" -> <<2, 0>> [] f = "B" -> <<0, 2>> [] f = "C" -> <<1, 1>>
            [] f = "G" -> <<0, 0>> [] f = "Th" -> <<2, 2>>
Forms == {"A", "B", "C", "G", "Th"}

\* z * (2^e)^(d2/2): exact (bond exponents are even whenever d2 is odd; division checked by Divisible)
Sc(z, e, d2) == LET h == (e * d2) \div 2 IN
                IF h >= 0 THEN GScale(Pow2(h), z) ELSE <<z[1] \div Pow2(-h), z[2] \div Pow2(-h)>>
ScDivisible(z, e, d2) == LET h == (e * d2) \div 2 IN
                (e * d2) % 2 = 0 /\ (h < 0 => (z[1] % Pow2(-h) = 0 /\ z[2] % Pow2(-h) = 0))

ScaleB(Bi, eL, eR, dL, dR) ==
    TLCEval([s \in 1..Len(Bi) |-> [a \in 1..Len(eL) |-> [b \in 1..Len(eR) |-> Sc(Sc(Bi[s][a][b], eL[a], dL), eR[b], dR)]]])
ScaleBDivisible(Bi, eL, eR, dL, dR) ==
    \A s \in 1..Len(Bi), a \in 1..Len(eL), b \in 1..Len(eR) :
        ScDivisible(Bi[s][a][b], eL[a], dL) /\ ScDivisible(Sc(Bi[s][a][b], eL[a], dL), eR[b], dR)

-----------------------------------------------------------------------------
\* index arithmetic (MPSGeometry._to_valid_site_index / _to_valid_bond_index), i any integer for infinite bc
NL(Rr) == Len(Rr.kinds)
Inf(Rr) == Rr.bc = "infinite"
SiteIx(Rr, i) == IF Inf(Rr) THEN (i % NL(Rr)) + 1 ELSE i + 1
BondIx(Rr, i, left) == LET j == i + (IF left THEN 0 ELSE 1) IN IF Inf(Rr) THEN (j % NL(Rr)) + 1 ELSE j + 1
SLof(Rr, i) == Rr.S[BondIx(Rr, i, TRUE)]
SRof(Rr, i) == Rr.S[BondIx(Rr, i, FALSE)]
ValidSite(Rr, i) == Inf(Rr) \/ (0 <= i /\ i < NL(Rr))

\* get_B(i, (nuL, nuR)) with target exponents in halves; -1 stands for None (keep the stored exponent)
GetBnu(Rr, i, tL, tR) ==
    LET j == SiteIx(Rr, i)
        cur == Nu2(Rr.form[j])
    IN ScaleB(Rr.B[j], SLof(Rr, i), SRof(Rr, i),
              IF tL = -1 THEN 0 ELSE tL - cur[1], IF tR = -1 THEN 0 ELSE tR - cur[2])
GetBnuDivisible(Rr, i, tL, tR) ==
    LET j == SiteIx(Rr, i)
        cur == Nu2(Rr.form[j])
    IN ScaleBDivisible(Rr.B[j], SLof(Rr, i), SRof(Rr, i),
              IF tL = -1 THEN 0 ELSE tL - cur[1], IF tR = -1 THEN 0 ELSE tR - cur[2])
GetB(Rr, i, f) == IF f = "none" THEN Rr.B[SiteIx(Rr, i)] ELSE GetBnu(Rr, i, Nu2(f)[1], Nu2(f)[2])

\* chain of site tensors T_k[s][a][b]  ->  dense tensor <<chiL, d_1, .., d_n, chiR>>
RECURSIVE CfgMats(_, _)
CfgMats(Ms, k) ==
    IF k = 1 THEN Ms[1]
    ELSE LET prev == CfgMats(Ms, k - 1)
             d == Len(Ms[k])
         IN TLCEval([c \in 1..(Len(prev) * d) |-> MMul(prev[((c - 1) \div d) + 1], Ms[k][((c - 1) % d) + 1])])
ChainT(Ms) ==
    LET n == Len(Ms)
        cm == CfgMats(Ms, n)
        D == Len(cm)
        cl == Len(Ms[1][1])
        cr == Len(Ms[n][1][1])
    IN [shape |-> <<cl>> \o [k \in 1..n |-> Len(Ms[k])] \o <<cr>>,
        val |-> TLCEval([m \in 1..(cl * D * cr) |->
                   cm[(((m - 1) \div cr) % D) + 1][((m - 1) \div (cr * D)) + 1][((m - 1) % cr) + 1]])]

\* get_theta(i, n, formL, formR) = S_i^fl Gamma_i S_{i+1} Gamma_{i+1} ... Gamma_{i+n-1} S_{i+n}^fr  (fl, fr in halves)
ThetaMs(Rr, i, n, fl, fr) ==
    IF n = 1 THEN <<GetBnu(Rr, i, fl, fr)>>
    ELSE TLCEval([k \in 1..n |-> IF k = 1 THEN GetBnu(Rr, i, fl, 2)
                         ELSE IF k = n THEN GetBnu(Rr, i + n - 1, 0, fr)
                         ELSE GetBnu(Rr, i + k - 1, 0, 2)])
GetTheta(Rr, i, n, fl, fr) == ChainT(ThetaMs(Rr, i, n, fl, fr))
Window(Rr, first, n) == GetTheta(Rr, first, n, 2, 2)
\* the dense meaning of a representation
\* window of an infinite MPS: two unit cells for L <= 2, else L + 1 sites (crosses the unit-cell boundary)
NWin(Rr) == IF Inf(Rr) THEN (IF NL(Rr) <= 2 THEN 2 * NL(Rr) ELSE NL(Rr) + 1) ELSE NL(Rr)
Contract(Rr) == Window(Rr, 0, NWin(Rr))

\* no stored tensor carries a total charge with respect to the bond charges qb (then the charge of a bond index counts
\* the particles to its left, the precondition of reading Jordan-Wigner signs off the bond charges)
ZeroQtotal(Rr) ==
    \A i \in 1..NL(Rr) : \A x \in 1..Len(Rr.B[i]), a \in 1..Len(Rr.B[i][1]), b \in 1..Len(Rr.B[i][1][1]) :
        ~GIsZero(Rr.B[i][x][a][b]) => QNorm(Rr.qb[i][a] + QSite(Rr.kinds[i], Rr.cons)[x] - Rr.qb[i + 1][b], Rr.cons) = 0

AllDivisible(Rr) ==
    \A i \in 0..(NL(Rr) - 1) : \A tL \in {0, 1, 2}, tR \in {0, 1, 2} : GetBnuDivisible(Rr, i, tL, tR)

-----------------------------------------------------------------------------
\* dense helpers on psi
AbsLE(t, m) == \A n \in 1..Len(t.val) : IAbs(t.val[n][1]) <= m /\ IAbs(t.val[n][2]) <= m
\* number of entries of the dense meaning of a representation (guard: keep instances small)
WinSize(Rr) == LET n == NL(Rr) IN
               Len(Rr.S[1]) * Len(Rr.S[1 + (IF Inf(Rr) THEN 0 ELSE n)]) * IProdSeq([i \in 1..n |-> Dim(Rr.kinds[i])])
                  * (IF Inf(Rr) THEN IProdSeq([i \in 1..(NWin(Rr) - n) |-> Dim(Rr.kinds[i])]) ELSE 1)
SizeOK(Rr) == WinSize(Rr) <= 300
\* matrix of psi with the first k axes as rows
PsiMat(t, k) ==
    LET rows == IProdSeq(SubSeq(t.shape, 1, k))
        cols == IProdSeq(SubSeq(t.shape, k + 1, Len(t.shape)))
    IN [r \in 1..rows |-> [c \in 1..cols |-> t.val[(r - 1) * cols + c]]]
\* reduced density matrix of the smaller side of the cut after k axes (same non-zero spectrum for both sides)
RhoCut(t, k) == LET M == TLCEval(PsiMat(t, k)) IN
                IF NRows(M) <= NCols(M) THEN MMul(M, MDagger(M)) ELSE MMul(MDagger(M), M)

\* apply a single-site operator O (matrix over the standard basis) on physical axis k (1..n) of psi
\* (flat C-order index arithmetic: the index along tensor axis k+1 has stride st)
Eager(t) == [shape |-> t.shape, val |-> TLCEval(t.val)]
ApplyOp1(t, k, O) ==
    LET st == Stride(t.shape, k + 1)
        d == t.shape[k + 1]
    IN [shape |-> t.shape,
        val |-> TLCEval([n \in 1..Len(t.val) |->
                   LET c == ((n - 1) \div st) % d
                       base == n - c * st
                   IN GSumSeq([u \in 1..d |-> GMul(O[c + 1][u], t.val[base + (u - 1) * st])])])]

-----------------------------------------------------------------------------
\* pseudo-random integer patterns (deterministic in Seed)
ValTab == << <<0, 0>>, <<1, 0>>, <<-1, 0>>, <<1, 0>>, <<0, 0>>, <<0, 1>>, <<-1, 0>>, <<1, 0>>, <<0, -1>>, <<0, 0>>, <<1, 0>> >>
Hash(k, v) == (k * k * 5 + k * (3 + Seed + v) + (Seed + 2 * v) * 7 + (k \div 3)) % 11
Entry(i, s, a, b, v, cplx) ==
    LET z == ValTab[Hash(i * 97 + s * 31 + a * 7 + b * 13, v) + 1]
    IN IF cplx THEN z ELSE <<z[1] + z[2], 0>>

\* bond charges: qb[1] given; every right index k is reachable from index (k-1) % chi of the left bond
RECURSIVE GenQb(_, _, _, _, _)
GenQb(kinds, cons, chis, v, q1) ==
    LET RECURSIVE Gq(_, _)
        Gq(b, acc) == IF b > Len(kinds) THEN acc
                     ELSE LET prev == acc[b]
                              qs == QSite(kinds[b], cons)
                              nxt == [k \in 1..chis[b + 1] |->
                                        QNorm(prev[((k - 1) % chis[b]) + 1] + qs[((k + v + b) % Len(qs)) + 1], cons)]
                          IN Gq(b + 1, Append(acc, nxt))
    IN Gq(1, <<q1>>)

GenB(kinds, cons, chis, qb, v, cplx) ==
    TLCEval([i \in 1..Len(kinds) |-> LET qs == QSite(kinds[i], cons) IN
        [s \in 1..Dim(kinds[i]) |-> [a \in 1..chis[i] |-> [b \in 1..chis[i + 1] |->
            IF QNorm(qb[i][a] + qs[s] - qb[i + 1][b], cons) = 0 THEN Entry(i, s, a, b, v, cplx) ELSE GZero]]]])

\* bond exponents in {0, 2} (values 1 or 4); trivial outer bonds for finite bc
GenS(chis, bc, v) ==
    LET nb == IF bc = "infinite" THEN Len(chis) - 1 ELSE Len(chis)
    IN [b \in 1..nb |-> IF bc = "finite" /\ (b = 1 \/ b = nb) THEN <<0>>
                        ELSE [k \in 1..chis[b] |-> 2 * (Hash(b * 17 + k * 5, v + 3) % 2)]]

FormSeqs == << <<"B", "B", "B", "B", "B", "B">>, <<"A", "A", "A", "A", "A", "A">>, <<"A", "C", "G", "B", "Th", "C">>,
               <<"C", "C", "C", "C", "C", "C">>, <<"G", "Th", "B", "A", "G", "C">>, <<"A", "A", "B", "B", "B", "A">> >>
FormPat(p, n) == SubSeq(FormSeqs[p], 1, n)

\* bond dimension patterns (non-uniform); index by (bc, L, cp)
ChiPat(bc, n, cp) ==
    IF cp = 3 THEN   \* bond dimension > 1 only on the outer bonds (bond 0 = bond L for infinite bc)
        [b \in 1..(n + 1) |-> IF (b = 1 \/ b = n + 1) /\ bc # "finite" THEN 2 ELSE 1]
    ELSE IF bc = "finite" THEN
        (CASE n = 2 -> IF cp = 1 THEN <<1, 2, 1>> ELSE <<1, 3, 1>>
           [] n = 3 -> IF cp = 1 THEN <<1, 2, 3, 1>> ELSE <<1, 2, 2, 1>>
           [] n = 4 -> IF cp = 1 THEN <<1, 2, 3, 2, 1>> ELSE <<1, 2, 1, 2, 1>>
           [] OTHER -> <<1, 1>>)
    ELSE IF bc = "segment" THEN
        (CASE n = 2 -> IF cp = 1 THEN <<2, 3, 2>> ELSE <<1, 2, 2>>
           [] n = 3 -> IF cp = 1 THEN <<2, 2, 3, 2>> ELSE <<2, 1, 2, 1>>
           [] n = 4 -> IF cp = 1 THEN <<2, 2, 3, 2, 2>> ELSE <<1, 2, 2, 2, 1>>
           [] OTHER -> <<2, 2>>)
    ELSE \* infinite: chis[n + 1] = chis[1]
        (CASE n = 1 -> IF cp = 1 THEN <<2, 2>> ELSE <<3, 3>>
           [] n = 2 -> IF cp = 1 THEN <<2, 3, 2>> ELSE <<2, 2, 2>>
           [] n = 3 -> IF cp = 1 THEN <<2, 3, 2, 2>> ELSE <<1, 2, 2, 1>>
           [] OTHER -> <<2, 1, 2, 3, 2>>)

KindSeqs == << <<"H", "H", "H", "H", "H", "H", "H", "H">>, <<"F", "F", "F", "F", "F", "F", "F", "F">>,
               <<"H", "T", "H", "T", "H", "T", "H", "T">>, <<"T", "T", "T", "T", "T", "T", "T", "T">>,
               <<"F", "H", "F", "H", "F", "H", "F", "H">>, <<"F", "E", "F", "E", "F", "E", "F", "E">> >>
\* kind pattern kp with conservation: mixed kinds only without charges
KindPat(kp, n) == SubSeq(KindSeqs[kp], 1, n)
Homogeneous(kp) == kp \in {1, 2, 4}

MkRepChis(bc, kinds, chis, cons, form, v, cplx) ==
    LET n == Len(kinds)
        q1 == [k \in 1..chis[1] |-> IF cons = "none" THEN 0 ELSE QNorm(QSite(kinds[1], cons)[((k + v) % Dim(kinds[1])) + 1], cons)]
        qb == IF cons = "none" THEN [b \in 1..(n + 1) |-> [k \in 1..chis[b] |-> 0]]
              ELSE GenQb(kinds, cons, chis, v, IF bc = "finite" THEN <<0>> ELSE q1)
        S == GenS(chis, bc, v)
        Gm == GenB(kinds, cons, chis, qb, v, cplx)         \* integer Gamma tensors
        Sb(b) == IF bc = "infinite" THEN S[((b - 1) % n) + 1] ELSE S[b]
    IN [known |-> TRUE, bc |-> bc, kinds |-> kinds, cons |-> cons, form |-> form, S |-> S, qb |-> qb,
        B |-> [i \in 1..n |-> ScaleB(Gm[i], Sb(i), Sb(i + 1), Nu2(form[i])[1], Nu2(form[i])[2])]]

\* mixed-radix case number and pseudo-random selection of one case in `Sample`
MkRep(bc, n, cp, kp, cons, fp, v, cplx) == MkRepChis(bc, KindPat(kp, n), ChiPat(bc, n, cp), cons, FormPat(fp, n), v, cplx)

CaseNo(bcn, n, cp, kp, cn, fp, v, cx) == ((((((bcn * 7 + n) * 4 + cp) * 7 + kp) * 3 + cn) * 8 + fp) * 3 + v) * 16 + cx
Keep(c) == LET a == c % 9973
               b == c \div 9973
               s == Seed % 1000
               x == (a * a + 17 * a * (b + 1) + 7919 * a + 104729 * b + 10477 * s + s * a + 12345) % 1000003
           IN x % Sample = 0
BcNum(bc) == CASE bc = "finite" -> 0 [] bc = "segment" -> 1 [] OTHER -> 2
ConsOf(cn) == CASE cn = 0 -> "none" [] cn = 1 -> "U1" [] OTHER -> "Z2"

-----------------------------------------------------------------------------
Obs == [psi |-> psi, nrm |-> nrm, exact |-> (mode = "raw"), mode |-> mode]
\* `last` keeps the operation and its (small) arguments; the history record additionally carries the data the
\* replay harness needs (input tensors, predicted results)
Rec(big) == hist' = Append(hist, [l |-> big, o |-> Obs'])

Init == /\ R = NoRep /\ psi = [shape |-> <<>>, val |-> <<>>] /\ nrm = 1 /\ mode = "raw"
        /\ phase = "init" /\ nops = 0 /\ last = [op |-> "init"] /\ hist = <<>>

\* ---------------------------------------------------------------- constructors
\* MPS(sites, Bs, SVs, bc, form, norm): the representation is taken as given
New(bc, n, cp, kp, cn, fp, v, cx, nr) ==
    /\ phase = "init" /\ "new" \in Ctors
    /\ phase' = "live" /\ nops' = 0
    \* (one chain with two different kinds of fermionic sites is always kept)
    /\ (Keep(CaseNo(BcNum(bc), n, cp, kp, cn, fp, v, cx))
        \/ (kp = 6 /\ bc = "finite" /\ n = 3 /\ cp = 1 /\ fp = 3 /\ v = 0 /\ cx = 1 /\ nr = 1)
        \* (and two U(1)-conserving segments: charge-resolved quantities on the outer bonds)
        \/ (bc = "segment" /\ cn = 1 /\ kp \in {1, 4} /\ n = 2 /\ cp = 1 /\ fp = 1 /\ v = 0 /\ cx = 0 /\ nr = 1))
    /\ (cn # 0 => (Homogeneous(kp) /\ bc # "infinite"))
    /\ LET R0 == MkRep(bc, n, cp, kp, ConsOf(cn), fp, v, cx = 1)
           P == Contract(R0)
       IN /\ SizeOK(R0) /\ ~TIsZero(P) /\ AbsLE(P, 400)
          /\ R' = R0 /\ psi' = P /\ nrm' = nr /\ mode' = "raw"
          /\ last' = [op |-> "new", c |-> <<bc, n, cp, kp, cn, fp, v, cx, nr>>]
          /\ Rec([op |-> "new", rep |-> R0, nrm |-> nr])

\* from_product_state(sites, p_state, bc, dtype, permute=True, form): p_state entries are basis indices,
\* state labels or (without charges) local wave functions; the state is their tensor product
\* kind of the p_state entry of site i (1-based): uniform, or labels / ints / one-hot arrays mixed in every order
HowAt(how, i) == CASE how = "mixA" -> <<"label", "int", "array1">>[((i - 1) % 3) + 1]
                   [] how = "mixB" -> <<"int", "label", "array1", "label">>[((i - 1) % 4) + 1]
                   [] how = "mixC" -> <<"array1", "label", "int", "int">>[((i - 1) % 4) + 1]
                   [] OTHER -> how
HowNum(how) == CASE how = "array" -> 1 [] how = "label" -> 2 [] how = "int" -> 3 [] how = "mixA" -> 4 [] how = "mixB" -> 5 [] OTHER -> 6
LocalVec(kind, how, v, pos) ==
    LET d == Dim(kind) IN
    IF how = "array" THEN [s \in 1..d |-> LET z == Entry(pos, s, 1, 2, v, TRUE) IN IF s = ((pos + v) % d) + 1 /\ GIsZero(z) THEN GOne ELSE z]
    ELSE [s \in 1..d |-> IF s = ((pos * (v + 1) + v) % d) + 1 THEN GOne ELSE GZero]
ProductRep(bc, kinds, cons, f, vecs) ==
    LET n == Len(kinds) IN
    [known |-> TRUE, bc |-> bc, kinds |-> kinds, cons |-> cons, form |-> [i \in 1..n |-> f],
     S |-> [b \in 1..(IF bc = "infinite" THEN n ELSE n + 1) |-> <<0>>],
     \* bond charges: left of site 1 zero (chargeL), then accumulated over the occupied basis states
     qb |-> IF cons = "none" THEN [b \in 1..(n + 1) |-> <<0>>]
            ELSE LET occ(i) == CHOOSE x \in 1..Dim(kinds[i]) : ~GIsZero(vecs[i][x])
                     RECURSIVE Acc(_)
                     Acc(b) == IF b = 1 THEN 0 ELSE QNorm(Acc(b - 1) + QSite(kinds[b - 1], cons)[occ(b - 1)], cons)
                 IN [b \in 1..(n + 1) |-> <<Acc(b)>>],
     B |-> [i \in 1..n |-> [s \in 1..Dim(kinds[i]) |-> << <<vecs[i][s]>> >>]]]
Product(bc, n, kp, cn, f, v, how) ==
    /\ phase = "init" /\ "product" \in Ctors
    /\ phase' = "live" /\ nops' = 0
    \* (infinite fermionic product states of local superpositions are always kept: measurements beyond the unit cell)
    /\ (Keep(CaseNo(BcNum(bc), n, 0, kp, cn, 0, v, HowNum(how))) \/ (how = "array" /\ bc = "infinite" /\ kp = 2 /\ f = "B"))
    /\ (cn # 0 => (Homogeneous(kp) /\ how # "array"))
    /\ LET kinds == KindPat(kp, n)
           hows == [i \in 1..n |-> HowAt(how, i)]
           vecs == [i \in 1..n |-> LocalVec(kinds[i], hows[i], v, i)]
           R0 == ProductRep(bc, kinds, ConsOf(cn), f, vecs)
           P == Contract(R0)
       IN /\ SizeOK(R0) /\ ~TIsZero(P)
          /\ R' = R0 /\ psi' = P /\ nrm' = 1 /\ mode' = "raw"
          /\ last' = [op |-> "from_product_state", c |-> <<bc, n, kp, cn, f, v, how>>]
          /\ Rec([op |-> "from_product_state", bc |-> bc, kinds |-> kinds, cons |-> ConsOf(cn), form |-> f,
                  how |-> how, hows |-> hows, vecs |-> vecs])

\* from_lat_product_state(lat, p_state): Chain (1 site per cell) or Ladder (2 sites per cell, MPS index 2x+u);
\* p_state is lattice indexed and tiled periodically over the lattice
LatProduct(bc, nx, nu, tile, kp, v) ==
    /\ phase = "init" /\ "latproduct" \in Ctors
    /\ phase' = "live" /\ nops' = 0
    /\ nx * nu <= MaxL /\ nx % tile = 0
    /\ LET n == nx * nu
           ukinds == KindPat(kp, nu)                                    \* unit cell sites
           kinds == [i \in 1..n |-> ukinds[((i - 1) % nu) + 1]]
           cellvec(x, u) == LocalVec(ukinds[u], "label", v, (x % tile) * nu + u)   \* tiling: x -> x mod tile
           vecs == [i \in 1..n |-> cellvec((i - 1) \div nu, ((i - 1) % nu) + 1)]
           R0 == ProductRep(bc, kinds, "none", "B", vecs)
       IN /\ SizeOK(R0)
          /\ R' = R0 /\ psi' = Contract(R0) /\ nrm' = 1 /\ mode' = "raw"
          /\ last' = [op |-> "from_lat_product_state", c |-> <<bc, nx, nu, tile, kp, v>>]
          /\ Rec([op |-> "from_lat_product_state", bc |-> bc, nx |-> nx, nu |-> nu, tile |-> tile, ukinds |-> ukinds,
                  pstate |-> [x \in 1..tile |-> [u \in 1..nu |-> vecs[(x - 1) * nu + u]]]])

\* from_singlets(site, L, pairs, lonely, lonely_state): amplitude of a configuration =
\* prod over pairs (i, j) of (+1 if s_i = up, s_j = down; -1 if s_i = down, s_j = up; else 0) * [lonely sites in lonely_state];
\* the state is 2^(-npairs/2) times this integer vector
PairingsOf(n, pp) ==   \* small catalogue of pair lists (0-based sites), possibly crossing / reversed / with lonely sites
    CASE n = 2 -> (IF pp = 1 THEN <<<<0, 1>>>> ELSE <<<<1, 0>>>>)
      [] n = 3 -> (IF pp = 1 THEN <<<<0, 2>>>> ELSE <<<<1, 2>>>>)
      [] n = 4 -> (CASE pp = 1 -> <<<<0, 1>>, <<2, 3>>>> [] pp = 2 -> <<<<0, 2>>, <<1, 3>>>> [] OTHER -> <<<<0, 3>>, <<2, 1>>>>)
      [] OTHER -> <<>>
SingletPsi(n, pairs, lonelyState) ==
    LET paired == UNION {{pairs[q][1], pairs[q][2]} : q \in 1..Len(pairs)}
        amp(idx) == \* idx: 0-based index tuple <<0, s_0.., 0>>; up = 0, down = 1 (SpinHalfSite)
            LET RECURSIVE A(_)
                A(q) == IF q = 0 THEN 1
                        ELSE LET si == idx[pairs[q][1] + 2] sj == idx[pairs[q][2] + 2]
                             IN (IF si = 0 /\ sj = 1 THEN 1 ELSE IF si = 1 /\ sj = 0 THEN -1 ELSE 0) * A(q - 1)
            IN IF \A i \in 0..(n - 1) : i \in paired \/ idx[i + 2] = lonelyState THEN A(Len(pairs)) ELSE 0
    IN Mk(<<1>> \o [i \in 1..n |-> 2] \o <<1>>, LAMBDA idx : <<amp(idx), 0>>)
Singlets(n, pp, ls) ==
    /\ phase = "init" /\ "singlets" \in Ctors /\ n <= MaxL /\ n >= 2
    /\ phase' = "live" /\ nops' = 0
    /\ LET pairs == PairingsOf(n, pp)
           paired == UNION {{pairs[q][1], pairs[q][2]} : q \in 1..Len(pairs)}
           lonely == {i \in 0..(n - 1) : i \notin paired}
       IN /\ R' = NoRep /\ psi' = SingletPsi(n, pairs, ls) /\ nrm' = 1 /\ mode' = "unit"
          /\ last' = [op |-> "from_singlets", c |-> <<n, pp, ls>>]
          /\ Rec([op |-> "from_singlets", n |-> n, pairs |-> pairs, lonely |-> lonely, lonely_state |-> ls,
                  npairs |-> Len(pairs), nabs |-> <<1, 1>>])

\* from_product_mps_covering(mps_covering, index_map): amplitude = product of the local amplitudes
CoverPsi(n, dims, locals, imap) ==
    Mk(<<1>> \o dims \o <<1>>, LAMBDA idx :
        LET RECURSIVE A(_)
            A(q) == IF q = 0 THEN GOne
                    ELSE GMul(At(locals[q], <<0>> \o [m \in 1..Len(imap[q]) |-> idx[imap[q][m] + 2]] \o <<0>>), A(q - 1))
        IN A(Len(locals)))
CoverMaps(n, mp) ==
    CASE n = 3 -> (IF mp = 1 THEN <<<<0, 1>>, <<2>>>> ELSE <<<<0, 2>>, <<1>>>>)
      [] n = 4 -> (CASE mp = 1 -> <<<<0, 1>>, <<2, 3>>>> [] mp = 2 -> <<<<0, 2>>, <<1, 3>>>> [] mp = 3 -> <<<<0, 3>>, <<1, 2>>>>
                     [] OTHER -> <<<<1, 2, 0>>, <<3>>>>)      \* local site 0 -> site 1, 1 -> 2, 2 -> 0: needs permute_sites
      [] n = 6 -> <<<<0, 3>>, <<1, 4>>, <<2, 5>>>>                 \* three local states cross the middle bond
      [] n = 8 -> <<<<0, 4>>, <<1, 5>>, <<2, 6>>, <<3, 7>>>>      \* four local states cross the middle bond
      [] OTHER -> <<<<0, 1>>>>
\* the bond values the constructor has to store on bond b (left of site b), each with the charge of its index:
\* all combinations <<sum of charges, sum of exponents>> of the local bonds that cross b (as a sequence; order free)
RECURSIVE CrossAll(_)
CrossAll(lists) ==
    IF lists = <<>> THEN << <<0, 0>> >>
    ELSE LET rest == CrossAll(Tail(lists))
             h == Head(lists)
         IN [x \in 1..(Len(h) * Len(rest)) |->
               LET a == h[((x - 1) \div Len(rest)) + 1]
                   c == rest[((x - 1) % Len(rest)) + 1]
               IN <<a[1] + c[1], a[2] + c[2]>>]
CoverBag(lreps, imap, cons, b) ==
    LET RECURSIVE Coll(_)
        Coll(q) == IF q = 0 THEN <<>>
                   ELSE LET m == imap[q]
                            lbs == {lb \in 1..(Len(m) - 1) : m[lb] < b /\ b <= m[lb + 1]}
                        IN IF lbs = {} THEN Coll(q - 1)
                           ELSE LET lb == CHOOSE x \in lbs : TRUE IN
                                Append(Coll(q - 1), [k \in 1..Len(lreps[q].S[lb + 1]) |-> <<lreps[q].qb[lb + 1][k], lreps[q].S[lb + 1][k]>>])
        all == CrossAll(Coll(Len(imap)))
    IN [x \in 1..Len(all) |-> <<QNorm(all[x][1], cons), all[x][2]>>]
Sorted(m) == \A k \in 1..(Len(m) - 1) : m[k] < m[k + 1]
Covering(n, mp, kp, cn, v, cx) ==
    /\ phase = "init" /\ "covering" \in Ctors /\ (n <= MaxL \/ (n \in {6, 8} /\ MaxL >= 4)) /\ n >= 2
    /\ phase' = "live" /\ nops' = 0
    /\ LET imap == CoverMaps(n, mp)
           kinds == KindPat(kp, n)
           cons == ConsOf(cn)
           \* local states: the first pattern variant that is non-zero, small, and (with a bond) has a non-degenerate
           \* spectrum of bond values -- so that a bond value on the wrong index / charge block is visible
           cand(q, w) == MkRep("finite", Len(imap[q]), IF cn = 0 THEN 1 + ((q + v) % 2) ELSE 1, kp, cons, 3, v + 7 * q + w, cx = 1)
           okc(q, w) == LET r == cand(q, w) c == Contract(r) IN
                        /\ ~TIsZero(c) /\ AbsLE(c, 40)
                        /\ (Len(imap[q]) >= 2 => \E k1, k2 \in 1..Len(r.S[2]) : r.S[2][k1] # r.S[2][k2])
                        \* (the constructor combines virtual legs into charge-sorted pipes and expects the legs of the
                        \* local states sorted by charge and bunched, as SVD produces them)
                        /\ \A b \in 1..Len(r.qb) : \A k \in 1..(Len(r.qb[b]) - 1) : r.qb[b][k] <= r.qb[b][k + 1]
           Ws == 0..23
           lrep(q) == cand(q, CHOOSE w \in Ws : okc(q, w) /\ \A w2 \in Ws : w2 < w => ~okc(q, w2))
           lreps == TLCEval([q \in 1..Len(imap) |-> lrep(q)])
           locals == TLCEval([q \in 1..Len(imap) |-> Eager(Contract(lreps[q]))])
           P == Eager(CoverPsi(n, [i \in 1..n |-> Dim(kinds[i])], locals, imap))
       IN /\ Homogeneous(kp)
          /\ \A q \in 1..Len(imap) : {w \in Ws : okc(q, w)} # {}      \* (a set, not \E: no branching of the action)
          /\ ~TIsZero(P) /\ AbsLE(P, 100000000)
          /\ R' = NoRep /\ psi' = P /\ nrm' = 1
          /\ mode' = IF \A q \in 1..Len(imap) : Sorted(imap[q]) THEN "raw" ELSE "loose"   \* unsorted: permute_sites (SVD)
          /\ last' = [op |-> "from_product_mps_covering", c |-> <<n, mp, kp, cn, v, cx>>]
          /\ Rec([op |-> "from_product_mps_covering", n |-> n, imap |-> imap, locals |-> lreps, cons |-> cons,
                  \* (unsorted index maps go through permute_sites / SVD: bond values not predicted)
                  Sbag |-> IF \A q \in 1..Len(imap) : Sorted(imap[q]) THEN [b \in 1..(n - 1) |-> CoverBag(lreps, imap, cons, b)] ELSE <<>>])

\* from_full(sites, psi, form, cutoff, normalize, bc, outer_S) and from_Bflat(sites, Bflat, SVs, bc, form):
\* routes through SVD / canonical_form -- relation: the result is proportional to the input, its tensors are
\* normalized, norm = |input| (normalize=False) or 1
FromFull(bc, n, cp, kp, cn, v, cx, f, normalize) ==
    /\ phase = "init" /\ "full" \in Ctors /\ bc # "infinite" /\ n >= 2
    /\ phase' = "live" /\ nops' = 0
    /\ Keep(CaseNo(BcNum(bc), n, cp, kp, cn, IF normalize THEN 1 ELSE 2, v, 8 + cx))
    /\ (cn # 0 => Homogeneous(kp))
    /\ LET R0 == MkRep(bc, n, cp, kp, ConsOf(cn), 1, v, cx = 1)
           P == Contract(R0)
       IN /\ SizeOK(R0) /\ ~TIsZero(P) /\ AbsLE(P, 400)
          /\ R' = NoRep /\ psi' = P /\ nrm' = 1 /\ mode' = "unit"
          /\ last' = [op |-> "from_full", c |-> <<bc, n, cp, kp, cn, v, cx, f, normalize>>]
          /\ Rec([op |-> "from_full", src |-> R0, form |-> f, normalize |-> normalize, n2 |-> TNorm2(P),
                  nabs |-> IF normalize THEN <<1, 1>> ELSE <<TNorm2(P), 1>>])

FromBflat(bc, n, cp, kp, cn, fp, v, cx) ==
    /\ phase = "init" /\ "bflat" \in Ctors /\ (bc # "infinite" => n >= 2)
    /\ phase' = "live" /\ nops' = 0
    \* (cp = 3 -- bond dimension > 1 only across the cell / segment boundary -- and one-site unit cells are always kept)
    /\ (Keep(CaseNo(BcNum(bc), n, cp, kp, cn, fp, v, 10 + cx)) \/ (bc # "finite" /\ kp = 1 /\ fp = 1 /\ cn = 0 /\ (cp = 3 \/ n = 1)))
    /\ (cn # 0 => (Homogeneous(kp) /\ bc = "finite")) /\ (cp = 3 => bc # "finite")
    /\ (bc = "infinite" => cn = 0 /\ cx = 0)
    /\ LET R0 == MkRep(bc, n, cp, kp, ConsOf(cn), fp, v, cx = 1)
           P == Contract(R0)
       IN /\ SizeOK(R0) /\ ~TIsZero(P) /\ AbsLE(P, 400)
          \* from_Bflat detects the bond charges from the entries: every bond index must carry a non-zero entry
          /\ (cn # 0 => \A i \in 1..n : \A b \in 1..Len(R0.S[i + 1]) :
                           \E s \in 1..Len(R0.B[i]), a \in 1..Len(R0.S[i]) : ~GIsZero(R0.B[i][s][a][b]))
          \* infinite bc: canonical_form_infinite changes the gauge of the window; only the canonical form (norm_test) is claimed
          /\ R' = NoRep /\ psi' = P /\ nrm' = 1 /\ mode' = IF bc = "infinite" THEN "loose" ELSE "unit"
          /\ last' = [op |-> "from_Bflat", c |-> <<bc, n, cp, kp, cn, fp, v, cx>>]
          /\ Rec([op |-> "from_Bflat", src |-> R0, n2 |-> TNorm2(P), nabs |-> <<1, 1>>,
                  chimax |-> LET RECURSIVE Mx(_)
                                 Mx(b) == IF b = 0 THEN 0 ELSE IMax(Len(R0.S[b]), Mx(b - 1))
                             IN Mx(Len(R0.S))])

\* ---------------------------------------------------------------- form algebra
\* convert_form(new_form): every site is rescaled; the state and the norm do not change
FormTargets(n) == {[i \in 1..n |-> f] : f \in Forms} \cup {FormPat(3, n), FormPat(5, n)}
ConvertForm(nf) ==
    /\ phase = "live" /\ R.known /\ nops < MaxConv
    /\ nf \in FormTargets(NL(R)) /\ nf # R.form
    /\ R' = [R EXCEPT !.form = nf, !.B = [i \in 1..NL(R) |-> GetB(R, i - 1, nf[i])]]
    /\ last' = [op |-> "convert_form", form |-> nf]
    /\ UNCHANGED <<psi, nrm, mode, phase>> /\ nops' = nops + 1
    /\ Rec(last')

\* set_B(i, B, form): the tensor of one site is replaced (B is given in `form`, built from an integer Gamma)
SetB(i, f, v) ==
    /\ phase = "live" /\ R.known /\ nops < MaxConv /\ R.cons = "none"
    /\ LET j == SiteIx(R, i)
           Gm == [s \in 1..Dim(R.kinds[j]) |-> [a \in 1..Len(SLof(R, i)) |-> [b \in 1..Len(SRof(R, i)) |-> Entry(j + 5, s, a, b, v, TRUE)]]]
           newB == ScaleB(Gm, SLof(R, i), SRof(R, i), Nu2(f)[1], Nu2(f)[2])
           R1 == [R EXCEPT !.form[j] = f, !.B[j] = newB]
           P == Contract(R1)
       IN /\ ~TIsZero(P) /\ AbsLE(P, 400)
          /\ R' = R1 /\ psi' = P
          /\ last' = [op |-> "set_B", i |-> i, form |-> f, v |-> v]
          /\ UNCHANGED <<nrm, mode, phase>> /\ nops' = nops + 1
          /\ Rec([op |-> "set_B", i |-> i, form |-> f, B |-> newB])

\* observers: get_B(i, form) for every site (for infinite bc also outside the unit cell) and form, get_theta,
\* get_SL / get_SR, chi
SiteRange(Rr) == IF Inf(Rr) THEN (0 - 2)..(NL(Rr) + 1) ELSE 0..(NL(Rr) - 1)
ThetaArgs(Rr) == {<<i, n, fl, fr>> \in (SiteRange(Rr) \X (1..3) \X {0, 1, 2} \X {0, 1, 2}) :
                    /\ (~Inf(Rr) => i + n <= NL(Rr))
                    /\ (Inf(Rr) => i + n <= NL(Rr) + 2)
                    /\ (i + n + fl + 2 * fr + Seed) % 3 = 0}       \* a third of the argument space per seed
Observe ==
    /\ phase = "live" /\ R.known
    /\ last' = [op |-> "observe"]
    /\ phase' = "done"
    /\ UNCHANGED <<R, psi, nrm, mode, nops>>
    /\ Rec([op |-> "observe",
             getB |-> [x \in (SiteRange(R) \X (Forms \cup {"none"})) |-> GetB(R, x[1], x[2])],
             theta |-> [x \in ThetaArgs(R) |-> GetTheta(R, x[1], x[2], x[3], x[4])],
             SL |-> [i \in SiteRange(R) |-> SLof(R, i)], SR |-> [i \in SiteRange(R) |-> SRof(R, i)]])

\* canonical_form(renormalize): routes through QR / SVD (finite, segment).  The state does not change; the
\* recorded norm absorbs the norm of the tensors iff renormalize = FALSE.  The Schmidt spectrum at every cut is
\* the spectrum of the exact reduced density matrices rho[k] (cut after k axes of psi).
Cuts(t) == IF t.shape[1] = 1 /\ t.shape[Len(t.shape)] = 1 THEN 2..(Len(t.shape) - 2) ELSE 1..(Len(t.shape) - 1)
\* |S_0|^2 |S_L|^2: canonical_form_finite first normalizes the outer bond values of a segment (the weights of the
\* orthonormal environment states) and drops that factor; 1 for finite bc
S2Sum(e) == ISumSeq([k \in 1..Len(e) |-> Pow2(2 * e[k])])
Outer2(Rr) == IF Rr.bc = "segment" THEN (IF Rr.known THEN S2Sum(Rr.S[1]) * S2Sum(Rr.S[NL(Rr) + 1]) ELSE 0) ELSE 1
\* reduced density matrix of the LEFT part of the cut after k axes, and the charge of each of its row indices
\* (charge of the outer left index + charges of the sites left of the cut): the Schmidt spectrum per charge sector
RhoLeft(t, k) == LET M == TLCEval(PsiMat(t, k)) IN MMul(M, MDagger(M))
RowCharges(t, Rr, k) ==
    LET sh == SubSeq(t.shape, 1, k)
    IN [r \in 1..IProdSeq(sh) |-> LET idx == Unflat(r - 1, sh) IN
          QNorm(Rr.qb[1][idx[1] + 1] + ISumSeq([a \in 1..(k - 1) |-> QSite(Rr.kinds[a], Rr.cons)[idx[a + 1] + 1]]), Rr.cons)]

\* norm bookkeeping of a canonicalizing step: from direction P (tensors exact in mode "raw", normalized otherwise) to
\* direction Pn; the recorded norm is multiplied by sqrt(a / b)
CanonFac(m, renorm, P, Pn) == IF renorm THEN <<1, 1>> ELSE IF m = "raw" THEN <<TNorm2(Pn), 1>> ELSE <<TNorm2(Pn), TNorm2(P)>>
CanonMode(m, Rr) == IF m \in {"raw", "unit"} /\ (m = "raw" => Outer2(Rr) = 1) THEN "unit" ELSE "unitnn"
Canonical(renorm) ==
    /\ phase = "live" /\ R.known /\ ~Inf(R) /\ NL(R) >= 2
    /\ AbsLE(psi, 150)
    /\ last' = [op |-> "canonical_form", renormalize |-> renorm]
    /\ R' = NoRep /\ mode' = CanonMode(mode, R) /\ phase' = "done"
    /\ UNCHANGED <<psi, nrm, nops>>
    /\ Rec([op |-> "canonical_form", renormalize |-> renorm, n2 |-> TNorm2(psi), outer2 |-> Outer2(R),
             nfac |-> CanonFac(mode, renorm, psi, psi),
             rho |-> [k \in Cuts(psi) |-> RhoCut(psi, k)],
             rhoq |-> IF R.cons # "none" /\ Len(psi.val) <= 64
                      THEN [k \in Cuts(psi) |-> [rho |-> RhoLeft(psi, k), q |-> RowCharges(psi, R, k)]] ELSE <<>>])

-----------------------------------------------------------------------------
DoNew == phase = "init" /\ \E bc \in BCs, n \in 1..MaxL, cp \in 1..2, kp \in 1..5, cn \in 0..2, fp \in 1..6, v \in 0..1, cx \in 0..1, nr \in {1, 3} :
            /\ (bc # "infinite" => n >= 2) /\ (nr = 3 => (fp + v) % 3 = 0)
            /\ New(bc, n, cp, kp, cn, fp, v, cx, nr)
DoProduct == phase = "init" /\ \E bc \in BCs, n \in 1..MaxL, kp \in 1..5, cn \in 0..2, f \in Forms \ {"Th"}, v \in 0..1, how \in {"int", "label", "array", "mixA", "mixB", "mixC"} :
            /\ (bc # "infinite" => n >= 2) /\ Product(bc, n, kp, cn, f, v, how)
DoLatProduct == phase = "init" /\ \E bc \in BCs \ {"segment"}, nx \in 1..MaxL, nu \in 1..2, tile \in 1..2, kp \in {1, 3, 5}, v \in 0..1 :
            /\ nx * nu >= 2 /\ (CaseNo(BcNum(bc), nx, nu, kp, 0, tile, v, 4) + Seed) % 13 = 0 /\ LatProduct(bc, nx, nu, tile, kp, v)
DoSinglets == phase = "init" /\ \E n \in 2..MaxL, pp \in 1..3, ls \in 0..1 : (pp = 3 => n = 4) /\ Singlets(n, pp, ls)
DoCovering == phase = "init" /\ \E n \in (2..MaxL) \cup {6, 8}, mp \in 1..4, kp \in {1, 4}, cn \in 0..2, v \in 0..1, cx \in 0..1 :
                 /\ (mp >= 3 => n = 4) /\ (n \in {6, 8} => (mp = 1 /\ kp = 1)) /\ (cn # 0 => (mp = 1 /\ (v + cx + n) % 2 = 0))
                 /\ Covering(n, mp, kp, cn, v, cx)
DoFromFull == phase = "init" /\ \E bc \in BCs, n \in 2..MaxL, cp \in 1..2, kp \in 1..5, cn \in 0..2, v \in 0..1, cx \in 0..1,
                 f \in {"none", "A", "B", "C", "G"}, nz \in BOOLEAN : FromFull(bc, n, cp, kp, cn, v, cx, f, nz)
DoFromBflat == phase = "init" /\ \E bc \in BCs, n \in 1..MaxL, cp \in 1..3, kp \in 1..5, cn \in 0..2, fp \in 1..6, v \in 0..1, cx \in 0..1 :
                 FromBflat(bc, n, cp, kp, cn, fp, v, cx)
DoConvert == "convert" \in Acts /\ phase = "live" /\ R.known /\ nops < MaxConv /\ \E nf \in FormTargets(IF R.known THEN NL(R) ELSE 1) : ConvertForm(nf)
DoSetB == "setB" \in Acts /\ phase = "live" /\ R.known /\ nops < MaxConv /\ \E i \in 0..(MaxL - 1), f \in {"A", "C", "Th"}, v \in 0..1 : i < NL(R) /\ (i + v) % 2 = 0 /\ SetB(i, f, v)
DoObserve == "observe" \in Acts /\ Observe
DoCanonical == "canonical" \in Acts /\ \E rn \in BOOLEAN : Canonical(rn)

Next == DoNew \/ DoProduct \/ DoLatProduct \/ DoSinglets \/ DoCovering \/ DoFromFull \/ DoFromBflat
        \/ DoConvert \/ DoSetB \/ DoObserve \/ DoCanonical
Spec == Init /\ [][Next]_vars

-----------------------------------------------------------------------------
\* Properties
\* the representation denotes psi
Rep == (phase # "init" /\ R.known) => Contract(R) = psi
\* every form conversion of every site stays inside the exact domain
Divisible == (phase # "init" /\ R.known) => AllDivisible(R)
\* form conversions (and observers, canonicalization) are stuttering steps on the state and its norm
FormStutter == [][ (last'.op \in {"convert_form", "observe", "canonical_form"}) => (psi' = psi /\ nrm' = nrm) ]_vars
\* the form algebra: get_B(i, f) after any conversion history equals get_B(i, f) before it
GetBInvariant == [][ (last'.op = "convert_form") =>
                       \A i \in 0..(NL(R) - 1), f \in Forms : GetB(R', i, f) = GetB(R, i, f) ]_vars
\* outer bonds of a finite MPS are trivial; S has L (+1) entries
Shape == (phase # "init" /\ R.known) =>
            /\ Len(R.S) = (IF Inf(R) THEN NL(R) ELSE NL(R) + 1)
            /\ (R.bc = "finite" => (R.S[1] = <<0>> /\ R.S[NL(R) + 1] = <<0>>))
            /\ \A i \in 1..NL(R) : Len(R.B[i]) = Dim(R.kinds[i])
=============================================================================
