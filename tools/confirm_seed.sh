#!/bin/sh
# tools/confirm_seed.sh <worktree> <i> <id> <pytest files...> : confirm a seeded change (demo passes on clean code, fails with the
# change, the given existing tests still pass with the change) and store it under /verif/seeded/<id>/
wt="$1"; i="$2"; id="$3"; shift 3
d="$wt/seeded/$i"
git -C "$wt" checkout -q -- . || exit 2
cd "$wt" || exit 2
PYTHONPATH="$wt" /venv/bin/python -W ignore "$d/demo.py" > /tmp/confirm_clean.$$.log 2>&1; c0=$?
git -C "$wt" apply "$d/patch.diff" || { echo "patch does not apply"; exit 2; }
PYTHONPATH="$wt" /venv/bin/python -W ignore "$d/demo.py" > /tmp/confirm_mut.$$.log 2>&1; c1=$?
if [ $# -gt 0 ]; then
  PYTHONPATH="$wt" timeout 3000 /venv/bin/python -m pytest -q -p no:cacheprovider "$@" > /tmp/confirm_tests.$$.log 2>&1; ct=$?
  tests="$(tail -1 /tmp/confirm_tests.$$.log)"
else ct=0; tests="(none run here)"; fi
git -C "$wt" checkout -q -- .
echo "seed $id: demo clean exit=$c0, demo with change exit=$c1, tests exit=$ct: $tests"
if [ $c0 -eq 0 ] && [ $c1 -ne 0 ] && [ $ct -eq 0 ]; then
  mkdir -p "/verif/seeded/$id"
  cp "$d/patch.diff" "$d/demo.py" "/verif/seeded/$id/"
  /venv/bin/python - "$d/meta.json" "/verif/seeded/$id/meta.json" "$tests" "$*" <<'PY'
import json, sys
m = json.load(open(sys.argv[1]))
m['confirmed_by_coordinator'] = dict(demo_clean_exit=0, demo_with_change_exit='non-zero', tests_run_with_change=sys.argv[4], tests_result=sys.argv[3],
                                     note='pure-Python kernels in the scratch worktree (no compiled extension there)')
json.dump(m, open(sys.argv[2], 'w'), indent=1)
PY
  echo "  stored in /verif/seeded/$id"
fi
