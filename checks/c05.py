"""C05: matrix factorizations are exact, structured and charge-compatible.

Stages: MC of spec/Factor.tla (exhaustive over small legs x presence patterns x all option combinations; the
structural part of every relation is an invariant of the model) + REPLAY of the dumped / simulated behaviours
into the real tenpy.linalg.np_conserved routines (harness/factor.py evaluates the relations on the floats)."""
import hashlib
import json
import os
import re
import shutil
import time

from harness import core, tlc, tlaval
from harness import factor as F

INVS = ['ChargeRule', 'SectorsConsistent', 'FactorChargeRule', 'FullChargeRule', 'OrthoRule', 'ExpmRule', 'ExpmPhase',
        'EigenRule', 'CutoffSeparation']
RECT_OPS = {'svd', 'qr', 'lq', 'pinv', 'polar', 'ortho', 'eig', 'eigvals'}
SQ_OPS = {'eigh', 'eig', 'eigvalsh', 'eigvals', 'expm', 'speigs', 'svd', 'qr', 'lq', 'pinv', 'polar'}
ALL_OPS = RECT_OPS | SQ_OPS
ALL_MODES = {'absent', 'zero', 'rank1', 'gen', 'diag', 'first', 'nil', 'idiag'}


def base_constants(**kw):
    c = dict(MaxBlocks=2, MaxSize=1, MaxDim=4, QWinU1='<-QWin01', Mods='<-ModsU1', Kinds={'rect'}, Shapes='<-Shapes11',
             QTs={0, 1}, QX={1}, FillModes={'absent', 'gen'}, NSeeds=1, Dtypes={'float'}, Ops=set(ALL_OPS),
             QModes={'NN', 'LN', 'NR', 'LR', 'bad'}, IQs='<-IQBoth', Labs={False, True}, MaxOps=1,
             SampKind=0, SampLeg=0, SampPar=0, SampMode=0, SampOpt=0)
    c.update(kw)
    return c


def mk_cfg(consts):
    return dict(spec='Spec', constants=consts, invariants=INVS, view='AbsView')


def mc_configs(tier):
    """(name, constants, replay stride): exhaustive runs; every `stride`-th dumped behaviour (offset by the seed) is replayed"""
    quick = tier == 'quick'
    out = []
    # (1) every option combination of svd / qr / lq / pinv / polar / orthogonal_columns on all matrices over legs
    #     with <= 2 blocks of size 1 (unsorted and repeated charges included), non-zero total charge
    out.append(('rect-options', base_constants(Ops={'svd', 'qr', 'lq', 'pinv', 'polar', 'ortho'}, QTs={1} if quick else {0, 1},
                                               FillModes={'absent', 'gen'} if quick else {'absent', 'zero', 'gen'},
                                               Labs={True} if quick else {False, True}), 4 if quick else 2))
    # (2) larger blocks, rank patterns (zero / rank-1 / planted singular values), complex entries; reduced option set
    out.append(('rect-ranks', base_constants(MaxSize=2, MaxBlocks=1 if quick else 2, MaxDim=2,
                                             Mods='<-ModsU1' if quick else '<-ModsU1Z2',
                                             FillModes={'absent', 'zero', 'rank1', 'gen', 'diag'}, NSeeds=1,
                                             Dtypes={'complex', 'int'}, QTs={0, 1} if quick else {1}, QModes={'NN'},
                                             IQs='<-IQPlus', Labs={False},
                                             Ops={'svd', 'qr', 'lq', 'pinv', 'polar', 'ortho', 'eig'}), 5 if quick else 2))
    # (3) square matrices with contractible legs: eigen-decompositions, expm, speigs
    out.append(('square', base_constants(Kinds={'herm', 'sq', 'nil', 'ipi2'}, MaxSize=2, MaxBlocks=2, MaxDim=3 if quick else 4,
                                         Mods='<-ModsU1' if quick else '<-ModsU1Z2',
                                         FillModes=set(ALL_MODES) - ({'first', 'rank1'} if quick else {'first'}),
                                         NSeeds=1, Dtypes={'complex'} if quick else {'int', 'float', 'complex'}, QTs={0},
                                         Ops={'eigh', 'eig', 'eigvalsh', 'eigvals', 'expm', 'speigs'}), 4 if quick else 2))
    # (4) orthogonal_columns on all matrices over legs with <= 3 blocks of size 1 (charges 0..2, every order): the completion
    #     must have M - N columns, sector by sector, also when the first / middle / last left sector has no stored block
    #     (3 blocks: thorough only, 40k states; in quick the <= 2-block instances of (1) cover first / last, and every
    #     orthogonal_columns state of every dump is replayed regardless of the stride)
    if not quick:
        out.append(('ortho', base_constants(MaxBlocks=3, MaxSize=1, MaxDim=3, QWinU1='<-QWin012', QTs={0, 1},
                                            FillModes={'gen'}, Ops={'ortho'}, Labs={True}), 1))
    return out


def gen_constants(tier):
    """generator mode: random sub-tree of the large space (legs with <= 3 blocks of size <= 2, charges -1..1, U(1), Z2, Z3,
    U(1)xZ2, pipes on either side, all kinds, all options)"""
    quick = tier == 'quick'
    return base_constants(MaxBlocks=3, MaxSize=2, MaxDim=6, QWinU1='<-QWinM11', Mods='<-ModsAll',
                          Kinds={'rect', 'herm', 'sq', 'nil', 'ipi2'}, Shapes='<-ShapesAll', QTs='<-QTsM11', QX={0, 1, 2},
                          FillModes=set(ALL_MODES), NSeeds=7, Dtypes={'int', 'float', 'complex'}, MaxOps=1,
                          SampKind=40 if quick else 80, SampLeg=2 if quick else 3, SampPar=2 if quick else 3, SampMode=1,
                          SampOpt=2 if quick else 4)


# ---------------------------------------------------------------------------------------------------------
def behaviour_json(st):
    return dict(T=tlaval.to_jsonable(st['T']), ana=tlaval.to_jsonable(st['ana']), hist=tlaval.to_jsonable(st['hist']))


def replay_behaviour(ctx, st, origin, npc, fallback_every=0, counter=[0]):
    """One behaviour = one tensor + the factorizations applied to it.  Returns number of steps replayed."""
    hist = st['hist']
    if not hist:
        return 0
    B = F.Built(st['T'])
    ana = st['ana']
    for n, h in enumerate(hist):
        l = h['l']
        op = str(l['op'])
        counter[0] += 1
        # gesdd-failure -> gesvd fallback of svd_robust: every `fallback_every`-th svd, and two of three svd calls whose operand
        # has a leg not blocked by charge (npc.svd then works on an internal copy and allows LAPACK to overwrite it;
        # row / column vector blocks are Fortran-contiguous, so the overwrite really happens)
        fb = False
        if op == 'svd' and l['res'] == 'ok' and fallback_every:
            nonblocked = any(not leg.is_blocked() for leg in B.A.legs)
            fb = counter[0] % fallback_every == 0 or (nonblocked and counter[0] % 3 != 0)
        r = F.run_case(B, ana, l, npc, force_fallback=fb)
        key = hashlib.blake2b(repr((st['T'], l)).encode(), digest_size=10).hexdigest()
        ctx.case(key, action='Factor.' + op + ('[gesvd-fallback]' if fb else ''))
        if r is not None:
            clause, detail = r
            sig = dict(kind='replay', spec='Factor', op=op, clause=clause)
            sig.update(F.classify(B, ana, l))
            ctx.violation(sig, dict(step=n, origin=origin, behaviour=behaviour_json(st), case=tlaval.to_jsonable(l),
                                    detail=detail, fallback=fb))
            # the operand may have been damaged: rebuild for the following steps
            B = F.Built(st['T'])
    return len(hist)


ACTION_OF = dict(init='Init', kind='DoKind', leg='DoLeg', params='DoParams', mode='DoMode', fill='DoBuild', svd='DoSvd',
                 qr='DoQr', lq='DoLq', eigh='DoEigh', eig='DoEig', eigvalsh='DoEigvalsh', eigvals='DoEigvals',
                 speigs='DoSpeigs', expm='DoExpm', pinv='DoPinv', polar='DoPolar', ortho='DoOrtho')
_LAST_OP = re.compile(r'/\\ last = \[[^/]*?\bop \|-> "(\w+)"', re.S)


def dump_coverage(dump):
    """number of reachable states produced by each action (every state records its action in last.op)"""
    cov = {a: 0 for a in ACTION_OF.values()}
    for txt in F.split_dump(dump):
        m = _LAST_OP.search(txt)
        if not m or m.group(1) not in ACTION_OF:
            raise core.MachineryError('cannot find last.op in a dumped state')
        cov[ACTION_OF[m.group(1)]] += 1
    return {a: (n, n) for a, n in cov.items()}


def replay_file(ctx, npc):
    with open(ctx.replay_file) as f:
        doc = json.load(f)
    d = doc['detail']
    beh = d['behaviour']

    def unj(v):
        if isinstance(v, dict) and '$fn' in v:
            return tlaval.Fn((tuple(k) if isinstance(k, list) else k, unj(x)) for k, x in v['$fn'])
        if isinstance(v, dict):
            return {k: unj(x) for k, x in v.items()}
        if isinstance(v, list):
            return [unj(x) for x in v]
        return v
    st = dict(T=unj(beh['T']), ana=unj(beh['ana']), hist=[unj(beh['hist'][d['step']])])
    replay_behaviour(ctx, st, 'replay-file', npc, fallback_every=1 if d.get('fallback') else 0)
    ctx.trace_ok(1)


def corrupt_and_reject(ctx, st, npc):
    """Canary: corrupt one expected value of a behaviour; the replay must reject it."""
    import copy
    for h in st['hist']:
        l = h['l']
        if l['op'] in ('svd', 'qr') and l['res'] == 'ok' and l.get('inner'):
            bad = copy.deepcopy(st)
            bad['hist'] = [copy.deepcopy(h)]
            bl = bad['hist'][0]['l']
            bl['inner'][0][1] = bl['inner'][0][1] + 1      # one more state of that charge on the new leg
            B = F.Built(bad['T'])
            r1 = F.run_case(B, bad['ana'], bl, npc)
            bl2 = copy.deepcopy(h['l'])
            bl2['qtL'] = [x + 1 for x in bl2['qtL']]
            r2 = F.run_case(F.Built(bad['T']), bad['ana'], bl2, npc)
            # any rejection counts (on a defective tree another clause may fire first)
            return r1 is not None and r2 is not None
    return None


def check(ctx):
    import tenpy.linalg.np_conserved as npc
    quick = ctx.tier == 'quick'
    ctx.rule = ('behaviour = one TLC-generated tensor (legs, total charge, stored blocks, Gaussian-integer entries) plus the '
                'factorizations applied to it; a case is one replayed factorization call with its option combination; '
                'distinct = distinct (tensor, operation record)')
    ctx.assume('TLC model checker', 'projection functions in harness/factor.py (to_ndarray, to_qflat, split_legs of the outer pipes)',
               'the specification module Factor (with Exact, Dense)',
               'relations are evaluated on floats with tolerance 1e-9*scale (DESIGN 4.3); cutoff "eps" = 1e-10 lies below every '
               'non-zero singular value of the enumerated integer matrices (invariant CutoffSeparation)',
               'eig/eigvals with sort=None: no order is checked (LAPACK order)',
               'svd / pinv / polar of a tensor without any singular value above the cutoff (no stored block, or all zero) raise '
               'RuntimeError: the spec mirrors this documented-in-code behaviour',
               'speigs is replayed only where tenpy.tools.math.speigs takes its dense path (k >= d-1); ARPACK is not modelled')
    if ctx.replay_file:
        replay_file(ctx, npc)
        return
    only = ctx.only
    t_replay = 0.0
    canary = None
    nbeh = 0
    jobs = [(name, consts, stride, False) for name, consts, stride in mc_configs(ctx.tier)]
    jobs.append(('random', gen_constants(ctx.tier), 1, True))
    # Z3 (charge shifts wrap around): all pairs of legs with <= 2 blocks, non-zero qtotal_LR / qtotal_Q, random options
    jobs.append(('rect-z3', base_constants(Mods='<-ModsZ3', QTs={0, 1, 2}, QX={1, 2}, FillModes={'gen', 'zero'},
                                           Ops={'svd', 'qr', 'lq'}, QModes={'LN', 'NR', 'LR'}, Labs={False},
                                           SampPar=1 if quick else 3, SampMode=1, SampOpt=3 if quick else 12), 1, True))
    jobs = [j for j in jobs if not only or j[0] in only]
    # the TLC runs are independent: start them together, replay each dump as soon as it is complete.
    # (-coverage slows TLC about 4x here: per-action counts are taken from the dumped reachable states instead)
    from concurrent.futures import ThreadPoolExecutor
    nw = max(2, (8 if quick else 16) // max(1, len(jobs)))

    def run_tlc(job):
        name, consts, stride, gen = job
        return tlc.mc('Factor', mk_cfg(consts), dump=True, workers=nw, timeout=3000, coverage=False,
                      seed=(ctx.seed + 5) if gen else None)
    pool = ThreadPoolExecutor(max_workers=len(jobs) or 1)
    futs = [(job, pool.submit(run_tlc, job)) for job in jobs]
    try:
        for (name, consts, stride, gen), fut in futs:
            res, dump, d = fut.result()
            try:
                if gen:
                    # generator mode (random alternatives at every choice): not an exhaustive run, not counted as MC states
                    ctx.mc_runs.append(dict(name='Factor/%s (generator mode, not exhaustive)' % name, **res.summary()))
                else:
                    if not res.violated:
                        res.coverage = dump_coverage(dump)
                    ctx.add_mc('Factor/' + name, res)
                if res.violated:
                    ctx.violation(dict(kind='mc', spec='Factor', config=name, invariant=res.violated[0]),
                                  dict(trace=tlaval.to_jsonable(res.error_trace)))
                    continue
                t0 = time.time()
                j = 0
                nb0 = nbeh
                for txt in F.split_dump(dump):
                    if '/\\ hist = <<>>' in txt:
                        continue
                    j += 1
                    if (j + ctx.seed) % stride != 0 and 'op |-> "ortho"' not in txt:     # the rare ortho cases: all
                        continue
                    st = tlaval.parse_state(txt)
                    replay_behaviour(ctx, st, '%s#%d' % (name, j), npc, fallback_every=20 if gen else 50)
                    nbeh += 1
                    if nbeh - nb0 == 60:
                        ctx.sample(dict(config=name, T=tlaval.to_jsonable(st['T']), last=tlaval.to_jsonable(st['last'])))
                    if canary is None:
                        canary = corrupt_and_reject(ctx, st, npc)
                ctx.notes['behaviours_' + name] = nbeh - nb0
                t_replay += time.time() - t0
            finally:
                shutil.rmtree(d, ignore_errors=True)
    finally:
        pool.shutdown(wait=True)
        for _, fut in futs:
            if fut.done() and not fut.exception():
                shutil.rmtree(fut.result()[2], ignore_errors=True)
    ctx.trace_ok(nbeh)
    if not only:
        # vacuity: every action of the spec was taken in the exhaustive runs and every operation was replayed
        dead = sorted(a for a in ACTION_OF.values() if ctx.coverage_actions.get(a, (0, 0))[0] == 0)
        unreplayed = sorted(op for op in ALL_OPS if not any(k.startswith('Factor.' + op) for k in ctx.replay_actions))
        ctx.notes['actions_never_taken'] = dead
        ctx.notes['operations_never_replayed'] = unreplayed
        if dead or unreplayed:
            raise core.MachineryError('vacuity: actions never taken %r, operations never replayed %r' % (dead, unreplayed))
    ctx.exhaustive = False
    ctx.notes['replay_wall_s'] = round(t_replay, 1)
    ctx.notes['canary_corrupted_expectation_rejected'] = canary
    if canary is False:
        raise core.MachineryError('canary: a corrupted expected value was not rejected by the replay')


if __name__ == '__main__':
    core.main_wrapper('C05', check)
