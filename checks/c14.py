"""C14: time evolution -- evolved time, Suzuki-Trotter schedule and truncation-error accounting.

Stages
  MC     spec/TimeEvo.tla, exhaustive over engine configurations x splits into run()/run_evolution() calls:
         Acct="spec" (all invariants), Acct="impl" (the accounting of the working tree: ErrMultiplicity holds,
         ErrAccounting is refuted -> candidates that the TRACE stage confirms or refutes on the real code).
  TABLE  the symbolic tables TLC printed (StepTimes, MPOSteps) against the floats of
         TEBDEngine.suzuki_trotter_time_steps (1 ulp).
  TRACE  the real engines run under interposition (harness/timeevo.py); TLC validates every recorded trace
         against spec/TraceTimeEvo.tla (which reuses TimeEvo's actions and evaluates every invariant after
         every event).
  PHYS   relations on implementation observations for runs without truncation: total charge exactly
         conserved, norm preserved by unitary-gate / projector-splitting engines.
"""
import json
import multiprocessing
import os
import random
import re
import shutil
import time

from harness import core, tlc, tlaval
from harness import timeevo as te

INVARIANTS = ['TimeAdvance', 'TimeIsEvolved', 'ScheduleComposes', 'SchedulePublished', 'BaseComposes', 'ScheduleOrder',
              'StepTimeOK', 'MPOOrder', 'TDVPOrder', 'NoOverlap', 'UFresh', 'ModelTime', 'StepReturn', 'EvolveReturn',
              'ObservedTime', 'ObservedErr']
ACTIONS = ['Configure', 'RunBegin', 'RunEnd', 'DoRunEvoBegin', 'DoPrepare', 'DoCalcU', 'DoUpdateBondImag', 'DoEvolveBegin', 'DoStepBegin', 'DoUpdateBond',
           'DoApplyU', 'DoStepEnd', 'DoSweepBegin', 'DoKrylov', 'DoUpdateLocal', 'DoSweepEnd', 'DoEvolveEnd', 'DoReinit',
           'DoRunEvoEnd']
WORKERS = int(os.environ.get('VERIF_TLC_WORKERS', '8'))
PROCS = int(os.environ.get('VERIF_PROCS', '8'))


# ------------------------------------------------------------------------------------------------
def _printed(stdout, head):
    """values PrintT'ed as <<"head", ...>> (possibly wrapped over several lines)"""
    out = []
    key = re.compile(r'<<\s*"%s",' % re.escape(head))
    pos = 0
    while True:
        m = key.search(stdout, pos)
        if m is None:
            break
        i = m.start()
        depth = 0
        j = i
        while j < len(stdout):
            if stdout.startswith('<<', j):
                depth += 1
                j += 2
            elif stdout.startswith('>>', j):
                depth -= 1
                j += 2
                if depth == 0:
                    break
            else:
                j += 1
        out.append(tlaval.parse_value(stdout[i:j]))
        pos = j
    return out


def mc_cfg(acct, configs, maxn, maxcalls, with_err_accounting):
    inv = list(INVARIANTS) + ['ErrMultiplicity'] + (['ErrAccounting'] if with_err_accounting else [])
    return dict(spec='Spec', constants=dict(MaxN=maxn, MaxCalls=maxcalls, Ks={1, 2}, Acct=acct, Configs='<-' + configs),
                invariants=inv)


def run_mc(ctx):
    quick = ctx.tier == 'quick'
    confs = 'QuickConfigs' if quick else 'ThoroughConfigs'
    tables = None
    if ctx.only and 'mc' not in ctx.only:   # debugging: only what is needed to get the tables
        confs = 'TinyTEBD'
    # --- the specification itself
    res, _, d = tlc.mc('TimeEvo', mc_cfg('spec', confs, 2 if quick else 3, 2, True), workers=WORKERS)
    shutil.rmtree(d, ignore_errors=True)
    ctx.add_mc('TimeEvo[spec]', res)
    for v in res.violated:
        ctx.violation(dict(kind='mc', spec='TimeEvo', acct='spec', invariant=v),
                      dict(trace=tlaval.to_jsonable(res.error_trace[-3:])))
    missing = [a for a in ACTIONS if res.coverage.get(a, (0, 0))[0] == 0]
    if missing and not res.violated and confs != 'TinyTEBD':
        raise core.MachineryError('TimeEvo actions never taken in MC: %s' % missing)
    for val in _printed(res.stdout, 'TABLES'):
        tables = {'StepTimes': {}, 'MPOSteps': {}}
        for name, order, tab in val[1]:
            tables[name][order] = [list(v) for v in tab]
    if not tables:
        raise core.MachineryError('TLC did not print the spec tables')
    pred = {}
    for val in _printed(res.stdout, 'IMPLADDS'):
        for fam, td, n in val[1]:
            pred[(fam, bool(td))] = {0: 'dropped', 1: 'ok', 2: 'double-count'}[n]
    ctx.impl_prediction = pred
    if confs == 'TinyTEBD':
        return tables, {}
    # --- the accounting of the working tree: characterised exactly by ErrMultiplicity ...
    res2, _, d = tlc.mc('TimeEvo', mc_cfg('impl', confs, 1 if quick else 2, 2, False), workers=WORKERS)
    shutil.rmtree(d, ignore_errors=True)
    ctx.add_mc('TimeEvo[impl]', res2)
    for v in res2.violated:
        ctx.violation(dict(kind='mc', spec='TimeEvo', acct='impl', invariant=v),
                      dict(trace=tlaval.to_jsonable(res2.error_trace[-3:])))
    # --- ... and it refutes ErrAccounting: candidates (confirmed or not by the TRACE stage)
    cands = {}
    for confs3, label in (('TinyTEBD', 'double-count'), ('TinyTD', 'dropped')):
        res3, _, d = tlc.mc('TimeEvo', mc_cfg('impl', confs3, 2, 2, True), workers=2, coverage=False)
        shutil.rmtree(d, ignore_errors=True)
        ctx.add_mc('TimeEvo[impl,%s]' % confs3, res3)
        if 'ErrAccounting' in res3.violated and res3.error_trace:
            st = res3.error_trace[-1][1]
            cands[label] = dict(fam=st['cfg']['fam'], td=st['cfg']['td'], terr=st['terr'], performed=st['performed'])
    ctx.notes['mc_candidates_from_impl_accounting'] = tlaval.to_jsonable(cands)
    return tables, cands


# ------------------------------------------------------------------------------------------------
CALL_SETS = [
    [['run', 1, 1]], [['run', 2, 1]], [['runevo', 3, 1]], [['run', 1, 2]],
    [['run', 1, 1], ['run', 1, 1]], [['run', 2, 1], ['runevo', 1, 1]], [['runevo', 1, 1], ['run', 2, 2]],
    [['run', 1, 2], ['run', 2, 1]], [['run', 0, 1], ['run', 2, 1]], [['runevo', 2, 2], ['runevo', 0, 1], ['run', 1, 2]],
    [['run', 1, 1], ['run', 1, 1], ['run', 1, 1]], [['run', 3, 1]], [['runevo', 1, 1], ['runevo', 2, 1]],
    [['run', 1, 1], ['runevo', 1, 2], ['run', 1, 1]], [['run', 2, 2], ['run', 1, 2]],
]


IMAG_CALL_SETS = [
    [['imagsweep', 2, 1]], [['imag', 2, 1]], [['direct', 2, 1], ['run', 1, 1]], [['imagsweep', 1, 2], ['imagsweep', 2, 1]],
    [['run', 1, 1], ['imag', 1, 1], ['run', 1, 1]], [['imag', 1, 2], ['imagsweep', 1, 2]], [['imag', 3, 1], ['direct', 1, 1]],
    [['direct', 1, 1], ['direct', 0, 1], ['imag', 1, 1]], [['imagsweep', 1, 1], ['run', 2, 1]],
]


def programs(ctx):
    """the driver programs of this run: engine x order x geometry x model x split into calls x decoding mode"""
    rng = random.Random(ctx.seed * 7919 + 13)
    quick = ctx.tier == 'quick'
    progs = []

    def add(engine, **kw):
        p = dict(engine=engine, order='-', L=4, bc='finite', model='xxz', mode='tag', chi_max=3, pre=0,
                 calls=rng.choice(CALL_SETS), seed=rng.randrange(1000))
        p.update(kw)
        progs.append(p)

    geos = [(4, 'finite'), (5, 'finite'), (6, 'finite'), (7, 'finite'), (2, 'infinite'), (4, 'infinite'), (3, 'finite'),
            (2, 'finite'), (6, 'infinite')]
    models = ['xxz', 'tfi', 'spin1']
    reps = 1 if quick else 10
    for _ in range(reps):
        # TEBD, every order, on a seeded choice of geometries
        for order in ('1', '2', '4', '4_opt'):
            for (L, bc) in (rng.sample(geos, 3) if quick else geos):
                add('TEBDEngine', order=order, L=L, bc=bc, model=rng.choice(models), chi_max=rng.choice([2, 3, 4]),
                    pre=rng.choice([0, 2]))
            add('TEBDEngine', order=order, L=rng.choice([4, 5, 6]), bc='finite', model=rng.choice(['xxz', 'spin1']), mode='float',
                chi_max=2, pre=2, calls=rng.choice([c for c in CALL_SETS if sum(x[1] for x in c) >= 2]))
            L, bc = rng.choice([(4, 'finite'), (5, 'finite'), (6, 'finite'), (4, 'infinite')])
            add('QRBasedTEBDEngine', order=order, L=L, bc=bc, model=rng.choice(['xxz', 'tfi']), chi_max=rng.choice([2, 3]),
                pre=rng.choice([0, 2]))
            L, bc = rng.choice([(3, 'finite'), (4, 'finite'), (5, 'finite'), (6, 'finite'), (4, 'infinite'), (2, 'infinite')])
            add('TimeDependentTEBD', order=order, L=L, bc=bc, t0=rng.choice([0, 0, 3]), chi_max=rng.choice([2, 4]))
        add('QRBasedTEBDEngine', order='2', L=5, bc='finite', model='xxz', mode='float', chi_max=2, pre=2,
            calls=[['run', 2, 1], ['run', 1, 1]])
        # imaginary time and direct calls (what run_GS does): calc_U(type_evo='imag') + evolve / update_imag
        for eng in ('TEBDEngine', 'QRBasedTEBDEngine'):
            add(eng, order='2', L=rng.choice([3, 4, 5, 6]), bc='finite', model=rng.choice(models), chi_max=rng.choice([2, 3]),
                pre=rng.choice([0, 2]), calls=rng.choice(IMAG_CALL_SETS))
            add(eng, order='2', L=rng.choice([4, 5]), bc='finite', model='xxz', chi_max=2, pre=2,
                calls=rng.choice([c for c in IMAG_CALL_SETS if any(x[0] == 'imagsweep' for x in c)]))
            o = rng.choice(['1', '2', '4', '4_opt'])
            L, bc = rng.choice([(4, 'finite'), (5, 'finite'), (2, 'infinite'), (4, 'infinite')])
            add(eng, order=o, L=L, bc=bc, model=rng.choice(['xxz', 'tfi']), chi_max=rng.choice([2, 3]),
                calls=rng.choice([c for c in IMAG_CALL_SETS if not any(x[0] == 'imagsweep' for x in c)]))
        add('TimeDependentTEBD', order='2', L=5, bc='finite', mode='float', chi_max=2, pre=2, calls=[['run', 2, 1], ['runevo', 2, 1]])
        # TDVP
        for eng in ('SingleSiteTDVPEngine', 'TwoSiteTDVPEngine', 'TimeDependentSingleSiteTDVP', 'TimeDependentTwoSiteTDVP'):
            for L in (rng.sample([2, 3, 4, 5, 6], 2) if quick else [2, 3, 4, 5, 6, 7]):
                add(eng, L=L, model=rng.choice(models), chi_max=rng.choice([2, 3, 8]), pre=rng.choice([1, 2]),
                    t0=rng.choice([0, 2]) if eng.startswith('TimeDependent') else 0,
                    calls=rng.choice([c for c in CALL_SETS if sum(x[1] for x in c) <= 3]))
        add('TwoSiteTDVPEngine', L=5, model='xxz', mode='float', chi_max=2, pre=2, calls=[['run', 1, 1], ['run', 2, 1]])
        add('TimeDependentTwoSiteTDVP', L=5, mode='float', chi_max=2, pre=2, calls=[['run', 2, 1], ['run', 1, 1]])
        # several sweeps per evolve() with real truncation, errors tagged (every local error must reach the reported sum)
        add('TwoSiteTDVPEngine', L=5, model='xxz', chi_max=2, pre=2, calls=[['run', 2, 1], ['run', 3, 1]])
        add('TwoSiteTDVPEngine', L=4, model='xxz', chi_max=2, pre=2, calls=[['runevo', 3, 1], ['run', 2, 2]])
        # time-dependent engines with a model that updates itself in place (documented freedom of update_time_parameter)
        add('TimeDependentTwoSiteTDVP', L=4, chi_max=2, pre=2, inplace=True, calls=[['run', 2, 1], ['runevo', 1, 1]])
        add('TimeDependentSingleSiteTDVP', L=4, chi_max=4, pre=2, inplace=True, calls=[['run', 2, 1], ['run', 1, 2]])
        add('TimeDependentTEBD', order='2', L=4, bc='finite', chi_max=2, pre=2, inplace=True, calls=[['run', 2, 1], ['runevo', 1, 2]])
        add('TimeDependentExpMPOEvolution', order='2', approx='II', L=4, bc='finite', compression='SVD', chi_max=2, pre=2,
            inplace=True, calls=[['run', 2, 1], ['run', 1, 1]])
        # W_I / W_II
        for eng in ('ExpMPOEvolution', 'TimeDependentExpMPOEvolution'):
            for order in ('1', '2'):
                for approx in ('I', 'II'):
                    add(eng, order=order, approx=approx, L=rng.choice([4, 5, 6]), bc='finite',
                        model=rng.choice(models), compression=rng.choice(['SVD', 'SVD', 'variational', 'zip_up']),
                        chi_max=rng.choice([2, 4]), pre=rng.choice([0, 1]), t0=rng.choice([0, 1]) if eng.startswith('Time') else 0,
                        calls=rng.choice([c for c in CALL_SETS if sum(x[1] for x in c) <= 4]))
            add(eng, order='2', approx='II', L=2, bc='infinite', model='xxz', compression='SVD', chi_max=4)
        add('ExpMPOEvolution', order='2', approx='II', L=6, model='xxz', mode='float', chi_max=2, pre=2,
            calls=[['run', 1, 1], ['run', 2, 1]])
        add('TimeDependentExpMPOEvolution', order='1', approx='II', L=6, mode='float', chi_max=2, pre=2,
            calls=[['run', 2, 1], ['run', 1, 1]])
    # backward real-time steps (dt < 0): "the advertised evolved time equals the number of steps times the step" for either sign
    # (added after the hand-made mutant `evolved_time + N_steps * abs(dt)` in TimeEvolutionAlgorithm.evolve was missed);
    # appended after everything else so that the seeded choices above are unchanged
    add('TEBDEngine', order='2', L=4, bc='finite', model='xxz', chi_max=3, pre=2, calls=[['run', 2, -1]])
    add('TEBDEngine', order='4', L=5, bc='finite', model='tfi', chi_max=2, pre=0, calls=[['run', 1, 1], ['runevo', 2, -1]])
    add('QRBasedTEBDEngine', order='2', L=4, bc='finite', model='xxz', chi_max=2, pre=2, calls=[['runevo', 1, -1], ['run', 1, 1]])
    add('TwoSiteTDVPEngine', L=4, model='xxz', chi_max=2, pre=2, calls=[['run', 1, -1], ['run', 2, 1]])
    add('SingleSiteTDVPEngine', L=4, model='xxz', chi_max=4, pre=2, calls=[['run', 2, 1], ['runevo', 1, -2]])
    add('ExpMPOEvolution', order='2', approx='II', L=4, bc='finite', model='xxz', compression='SVD', chi_max=4, pre=1,
        calls=[['run', 1, 1], ['runevo', 2, -1]])
    add('ExpMPOEvolution', order='1', approx='I', L=5, bc='finite', model='tfi', compression='zip_up', chi_max=2, pre=0,
        calls=[['run', 2, -1]])
    add('TimeDependentExpMPOEvolution', order='2', approx='II', L=4, bc='finite', compression='SVD', chi_max=4, pre=1, t0=1,
        calls=[['run', 1, -1], ['run', 1, 1]])
    add('TimeDependentTEBD', order='2', L=4, bc='finite', t0=3, chi_max=2, calls=[['run', 2, -1]])
    for j, p in enumerate(progs):
        p['tid'] = j
    return progs


def prog_key(p):
    return [p['engine'], p['order'], p['L'], p['bc'], p['model'], p['mode'], p.get('approx'), p.get('compression'),
            p.get('t0', 0), p['calls'], bool(p.get('inplace'))]


def validate(ctx, batches):
    """batches: list of lists of (prog, events). Returns {tid: verdict(list of [clause, event, line])}."""
    spec = os.path.join(tlc.SPEC_DIR, 'TraceTimeEvo.tla')
    verdicts = {}
    d = tlc.scratch('c14trace')
    try:
        cfgp = tlc.write_cfg(os.path.join(d, 'TraceTimeEvo.cfg'), spec='TraceSpec',
                             constants=dict(MaxN=0, MaxCalls=1000000, Ks={1}, Acct='spec', Configs=set()))
        for bi, batch in enumerate(batches):
            path = os.path.join(d, 'trace%d.ndjson' % bi)
            line = 0
            with open(path, 'w') as f:
                for prog, events in batch:
                    start = line + 1
                    end = start + len(events) - 1
                    for e in events:
                        e = dict(e)
                        if e['ev'] == 'Begin':
                            e['tid'] = prog['tid']
                            e['end'] = end
                        f.write(json.dumps(e) + '\n')
                        line += 1
            res = tlc.run(spec, cfgp, workers=1, env=dict(TRACE_FILE=path), timeout=1800)
            tlc.require_clean(res, 'TraceTimeEvo batch %d' % bi)
            if res.exit != 0:
                raise core.MachineryError('TraceTimeEvo: TLC exit %s\n%s' % (res.exit, res.stdout[-2000:]))
            ctx.notes['trace_states'] = ctx.notes.get('trace_states', 0) + res.distinct
            for val in _printed(res.stdout, 'VERDICT'):
                verdicts[val[1]] = [list(x) for x in val[2]]
            for prog, _ in batch:
                if prog['tid'] not in verdicts:
                    raise core.MachineryError('no verdict for trace %d (log not consumed):\n%s' % (prog['tid'], res.stdout[-1500:]))
    finally:
        shutil.rmtree(d, ignore_errors=True)
    return verdicts


def report_verdict(ctx, prog, events, info, verdict):
    """turn the clauses TLC found broken for one trace into violations (one per distinct kind)"""
    if not verdict:
        return True
    names = {}
    for clause, ev, line in verdict:
        names.setdefault((clause, ev), line)
    errkind = None
    for (clause, ev) in list(names):
        if clause.startswith('ErrKind:'):
            errkind = clause.split(':', 1)[1]
    for (clause, ev), line in sorted(names.items(), key=lambda x: x[1]):
        if clause.startswith('ErrKind:'):
            continue
        sig = dict(kind='trace', spec='TimeEvo', engine=prog['engine'], clause=clause, event=ev)
        if clause == 'ObservedErr':
            sig = dict(kind='trace', spec='TimeEvo', engine=prog['engine'], clause='ErrAccounting', errkind=errkind or 'ov')
        lo = max(0, line - 1 - 6)
        ctx.violation(sig, dict(program=prog, line=line, events_before=events[lo:line], verdict=verdict, info=info,
                                how='harness.timeevo.record(program, tables) then TLC on spec/TraceTimeEvo.tla'))
    return False


def run_trace(ctx, tables, extra_progs=None, mutate=None):
    progs = extra_progs if extra_progs is not None else programs(ctx)
    t0 = time.time()
    with multiprocessing.get_context('fork').Pool(PROCS) as pool:
        results = pool.map(te.record_safe, [(p, tables) for p in progs], chunksize=1)
    t_rec = time.time() - t0
    items = []
    for p, r in zip(progs, results):
        if 'machinery' in r:
            raise core.MachineryError(r['machinery'])
        if r['info'].get('raised'):
            ctx.violation(dict(kind='trace', spec='TimeEvo', engine=p['engine'], clause='engine-raised', exc=r['info']['raised']['exc']),
                          dict(program=p, raised=r['info']['raised']))
            continue
        items.append((p, r['events'], r['info']))
    if mutate:
        mutate(items)
    bs = 60
    batches = [[(p, ev) for p, ev, _ in items[i:i + bs]] for i in range(0, len(items), bs)]
    t0 = time.time()
    verdicts = validate(ctx, batches)
    t_val = time.time() - t0
    accepted = 0
    amb = dec = 0
    per_engine = {}
    for p, ev, info in items:
        v = verdicts[p['tid']]
        key = prog_key(p)
        for n, e in enumerate(ev):
            ctx.case(('trace', key, n, e['ev']), action='Trace.' + e['ev'])
        ok = report_verdict(ctx, p, ev, info, v)
        if any(o['charge'] != info['charge0'] for o in info['obs']):
            ctx.violation(dict(kind='phys', spec='TimeEvo', engine=p['engine'], clause='charge'),
                          dict(program=p, charge0=info['charge0'], after_each_call=[o['charge'] for o in info['obs']]))
        accepted += ok
        amb += info['notes']['ambiguous']
        dec += info['notes']['float_decoded']
        pe = per_engine.setdefault(p['engine'], dict(traces=0, accepted=0, step_errors=0, clauses={}))
        pe['traces'] += 1
        pe['accepted'] += bool(ok)
        pe['step_errors'] += info['nsteps']
        for c in sorted({x[0] for x in v}):
            pe['clauses'][c] = pe['clauses'].get(c, 0) + 1
    # what the spec variant Acct="impl" predicts for each engine class vs what TLC found in its traces
    agree = {}
    for name, pe in per_engine.items():
        fam, td = te.ENGINES[name][1], te.ENGINES[name][2]
        pred = getattr(ctx, 'impl_prediction', {}).get((fam, td))
        seen = sorted(c.split(':', 1)[1] for c in pe['clauses'] if c.startswith('ErrKind:'))
        obs = 'ok' if not seen else '+'.join(seen)
        if pe['step_errors'] == 0:
            obs = pred = 'no step errors'
        agree[name] = dict(predicted_by_impl_variant=pred, observed=obs)
    ctx.notes['impl_accounting_prediction_vs_traces'] = agree
    ctx.trace_ok(len(items))
    ctx.notes.setdefault('trace_stage', {}).update(
        traces=len(items), accepted_without_any_clause=accepted, events=sum(len(ev) for _, ev, _ in items),
        record_wall_s=round(t_rec, 1), tlc_wall_s=round(t_val, 1), float_reports_decoded=dec, float_reports_ambiguous=amb,
        per_engine=per_engine)
    seen_fam = set()
    for p, ev, info in items[:400]:
        fam = te.ENGINES[p['engine']][1]
        if fam in seen_fam or len(ev) > 120:
            continue
        seen_fam.add(fam)
        ctx.sample(dict(program={k: p[k] for k in ('engine', 'order', 'L', 'bc', 'calls', 'mode')}, first_events=ev[:10],
                        last_events=ev[-3:], verdict=verdicts[p['tid']]))
    return items, verdicts


def run_canary(ctx, items, verdicts):
    """corrupt single fields of accepted traces; TLC must reject each with the expected clause"""
    import copy
    good = [(p, ev) for p, ev, _ in items if not verdicts[p['tid']] and any(e['ev'] == 'UpdateBond' for e in ev)]
    good2 = [(p, ev) for p, ev, _ in items if not verdicts[p['tid']] and any(e['ev'] == 'Krylov' for e in ev)]
    if not good or not good2:
        ctx.notes['canary'] = 'skipped: no accepted TEBD/TDVP trace in this run'
        return
    muts = []

    def variant(base, name, fn, expect):
        p, ev = base
        ev = copy.deepcopy(ev)
        fn(ev)
        muts.append((dict(p, tid=900000 + len(muts)), ev, name, expect))

    def first(ev, kind, nth=0):
        return [i for i, e in enumerate(ev) if e['ev'] == kind][nth]

    variant(good[0], 'evolved_time+1', lambda ev: ev[first(ev, 'EvolveEnd')]['t'].__setitem__(0, ev[first(ev, 'EvolveEnd')]['t'][0] + 1),
            'ObservedTime')
    variant(good[0], 'drop one UpdateBond', lambda ev: ev.pop(first(ev, 'UpdateBond')), 'control')
    variant(good[0], 'wrong U index', lambda ev: ev[first(ev, 'UpdateBond')].__setitem__('uidx', ev[first(ev, 'UpdateBond')]['uidx'] + 1),
            'StepTimeOK')
    variant(good[0], 'reported error doubled', lambda ev: [r.__setitem__(2, 2) for r in ev[first(ev, 'RunEvoEnd')]['rep']] or
            ev[first(ev, 'RunEvoEnd')].__setitem__('rep', [[1, 1, 1]]), 'ObservedErr')
    variant(good[0], 'stale U', lambda ev: ev[first(ev, 'UpdateBond')].__setitem__('uk', 7), 'UFresh')
    variant(good2[0], 'Krylov step halved', lambda ev: ev[first(ev, 'Krylov')].__setitem__('h', 3), 'TDVPOrder')
    v = validate(ctx, [[(p, ev) for p, ev, _, _ in muts]])
    out = {}
    for p, ev, name, expect in muts:
        got = sorted({x[0] for x in v[p['tid']]})
        out[name] = got
        if expect not in got:
            raise core.MachineryError('canary %r: corrupted trace not rejected with %s (verdict %s)' % (name, expect, got))
    ctx.notes['canary'] = out


# ------------------------------------------------------------------------------------------------
def ising_tables(ctx):
    """the phase exponents of the solvable Ising evolution, computed by TLC (TimeEvo.IsingPhases)"""
    res, _, d = tlc.mc('TimeEvo', mc_cfg('spec', 'TinyTEBD', 1, 1, True), workers=1, coverage=False, env=dict(C14_SOLVABLE='1'))
    shutil.rmtree(d, ignore_errors=True)
    vals = _printed(res.stdout, 'ISING')
    if not vals:
        raise core.MachineryError('TLC did not print the Ising tables')
    return vals[0][1]


def run_phys(ctx):
    import cmath
    quick = ctx.tier == 'quick'
    rng = random.Random(ctx.seed * 104729 + 5)
    tab = ising_tables(ctx)
    jobs = []
    engines = [('TEBDEngine', o) for o in ('1', '2', '4', '4_opt')] + [('QRBasedTEBDEngine', '2'), ('QRBasedTEBDEngine', '4_opt'),
                                                                      ('TimeDependentTEBD', '1'), ('TimeDependentTEBD', '4')]
    for eng, order in engines:
        for L in ([rng.choice([3, 4]), 5] if quick else [2, 3, 4, 5, 6]):
            for m in (rng.sample([1, 2, 3, 4], 2) if quick else [1, 2, 3, 4]):
                split = rng.choice([[m], [m + 1], [1, m], [m, 2], [1, 1, m]])
                jobs.append(('ising', dict(engine=eng, order=order, L=L, m=m, split=split)))
    for eng in ('SingleSiteTDVPEngine', 'TwoSiteTDVPEngine', 'TEBDEngine', 'QRBasedTEBDEngine'):
        for L in ([5] if quick else [4, 5, 6]):
            for model in (['xxz'] if quick else ['xxz', 'tfi', 'spin1']):
                jobs.append(('cons', dict(engine=eng, L=L, model=model, pre_chi=rng.choice([3, 4]) if 'TDVP' in eng else 8,
                                          N=rng.choice([1, 2, 3]), k=rng.choice([1, 2]), seed=rng.randrange(100))))
    with multiprocessing.get_context('fork').Pool(PROCS) as pool:
        results = pool.map(te.phys_safe, jobs, chunksize=1)
    worst = dict(ising=0.0, norm=0.0, energy=0.0)
    for (kind, job), r in zip(jobs, results):
        if 'raised' in r:
            ctx.violation(dict(kind='phys', spec='TimeEvo', engine=job['engine'], clause='engine-raised', exc=r['raised']['exc']),
                          dict(job=job, raised=r['raised']))
            continue
        r = r['res']
        if kind == 'ising':
            ph = tab[job['L']][job['m'] - 1]
            bad = None
            for code, (re_, im_) in enumerate(r['amps']):
                exp = cmath.exp(1j * cmath.pi / 4 * ph[code])
                dev = abs(complex(re_, im_) - exp)
                worst['ising'] = max(worst['ising'], dev)
                ctx.case(('ising', job['engine'], job['order'], job['L'], job['m'], job['split'], code), action='Solvable.amplitude')
                if dev > 1e-9 and bad is None:
                    bad = dict(code=code, got=[re_, im_], expected=[exp.real, exp.imag], phase_exponent=ph[code])
            if bad:
                ctx.violation(dict(kind='phys', spec='TimeEvo', engine=job['engine'], order=job['order'], clause='solvable-ising'),
                              dict(job=job, first_bad=bad, how='harness.timeevo.solvable_ising(job) vs TimeEvo!IsingPhases'))
            worst['norm'] = max(worst['norm'], abs(r['norm'] - 1))
            if abs(r['norm'] - 1) > 1e-9 or abs(r['evolved_time'] - r['t_expected']) > 1e-12:
                ctx.violation(dict(kind='phys', spec='TimeEvo', engine=job['engine'], order=job['order'], clause='norm-or-time'),
                              dict(job=job, norm=r['norm'], evolved_time=r['evolved_time'], expected_time=r['t_expected']))
        else:
            b, a = r['before'], r['after']
            ctx.case(('cons', job), action='Conservation.' + job['engine'])
            worst['norm'] = max(worst['norm'], abs(a['norm'] - b['norm']))
            if a['charge'] != b['charge']:
                ctx.violation(dict(kind='phys', spec='TimeEvo', engine=job['engine'], clause='charge'), dict(job=job, res=r))
            if r['eps'] <= 1e-16 and abs(a['norm'] - b['norm']) > 1e-8:   # only when nothing was truncated
                ctx.violation(dict(kind='phys', spec='TimeEvo', engine=job['engine'], clause='norm'), dict(job=job, res=r))
            if job['engine'] == 'SingleSiteTDVPEngine':
                worst['energy'] = max(worst['energy'], abs(a['E'] - b['E']))
                if abs(a['E'] - b['E']) > 1e-8:
                    ctx.violation(dict(kind='phys', spec='TimeEvo', engine=job['engine'], clause='energy'), dict(job=job, res=r))
    ctx.trace_ok(len(jobs))
    ctx.notes['phys_stage'] = dict(jobs=len(jobs), worst_deviation=worst)


def check(ctx):
    ctx.rule = ('a case is one recorded event of a real engine run, validated by TLC against TraceTimeEvo (all TimeEvo '
                'invariants evaluated on the state after it), or one amplitude of an exactly solvable evolution compared with the '
                "phase TLC computed; distinct = distinct (engine, order, geometry, model, mode, split into calls, event index, "
                'event kind)')
    ctx.assume('TLC model checker', 'the specification modules TimeEvo / TraceTimeEvo',
               'projection functions of harness/timeevo.py (times in units of dt0 = 1/64, float -> symbolic time step by '
               'matching the values of the tables TLC printed to 1 ulp, reported TruncationError -> bag of step ids)',
               "mode 'tag': the TruncationError handed out by each step truncation carries eps = 16^-(id+8) as an exact number; "
               "the engines' own additions/multiplications accumulate it",
               'numeric values of the Suzuki parameters: t1 = 1/(4-4^(1/3)) and the four published coefficients of '
               "arXiv:1901.04974 Eq. (30a)",
               'tolerances 1e-9 (solvable amplitudes, norm of unitary-gate evolution) / 1e-8 (TDVP energy and norm)')
    only = ctx.only
    if getattr(ctx, 'replay_file', None):
        # re-execute exactly the failing program / job of a replay file
        with open(ctx.replay_file) as f:
            rp = json.load(f)
        det = rp.get('detail', {})
        ctx.only = {'trace'}
        tables, _ = run_mc(ctx)
        if 'program' in det:
            prog = dict(det['program'], tid=0)
            run_trace(ctx, tables, extra_progs=[prog])
        elif 'job' in det:
            kind = 'ising' if 'm' in det['job'] else 'cons'
            print('observation:', json.dumps(te.phys_safe((kind, det['job'])), default=str)[:2000])
        else:
            print('replay file has no program/job:', list(det))
        return
    tables, cands = run_mc(ctx)
    # TABLE
    n, bad = te.check_tables(tables)
    for b in bad:
        ctx.violation(dict(kind='table', spec='TimeEvo', clause='StepTimes', order=b['order']), b)
    for j in range(n):
        ctx.case(('table', j), action='Table.StepTimes')
    ctx.notes['table_entries_checked'] = n
    if not only or 'trace' in only:
        items, verdicts = run_trace(ctx, tables)
        run_canary(ctx, items, verdicts)
    if not only or 'phys' in only:
        run_phys(ctx)
    ctx.exhaustive = False


if __name__ == '__main__':
    core.main_wrapper('C14', check)
