"""C02: see DESIGN.md §6.C02. Spec: spec/Npc.tla + spec/NpcProgram.tla (replay: harness/npc_check.py) and
spec/NpcCtor.tla (constructors, charge-changing methods, grids, label API, element-wise operations; harness/npc_ctor.py)."""
import json

from harness import core, npc_check, npc_ctor


def check(ctx):
    if ctx.replay_file:
        with open(ctx.replay_file) as f:
            sig = json.load(f).get('signature', {})
        if sig.get('spec') == 'NpcCtor':
            return npc_ctor.replay_file(ctx, ctx.replay_file)
        return npc_check.replay_file(ctx, 'C02')
    npc_check.run_property(ctx, 'C02', seed_offset=2)
    npc_ctor.run_phase(ctx, 'C02')


if __name__ == '__main__':
    core.main_wrapper('C02', check)
